----------------------------- MODULE LimitsName -----------------------------
(***************************************************************************)
(* The per-alert-name limit (--alerts.per-alertname-limit) at the level of   *)
(* the statement of C18:                                                    *)
(*   "the number of distinct unexpired alerts admitted under one alert name *)
(*    never exceeds N, re-sends of admitted alerts are always accepted, and *)
(*    room is made only by expiry"                                          *)
(* The state is the SET of admitted alerts with their end times - nothing   *)
(* about how the implementation keeps it (limit.Bucket: a heap slice plus   *)
(* an index, evicting its root, dropped as a whole at alert GC when stale;  *)
(* that layer is transcribed in spec/Alerts.tla).  Here:                    *)
(*   - a submission of alert i under name nm is accepted iff i is one of    *)
(*     the unexpired admitted alerts of nm or fewer than N of them exist;   *)
(*   - a refused submission changes nothing and is counted                  *)
(*     (alertmanager_alerts_limited_total);                                 *)
(*   - alert GC (a ticker of period gcper, an environment parameter of a    *)
(*     behaviour) is NOT an action: whenever it runs it must be invisible   *)
(*     to the set of unexpired admitted alerts.  A behaviour therefore      *)
(*     predicts the same outcomes for every GC period - which is what the   *)
(*     replay on the real provider checks, for all admission orders (the    *)
(*     heap layout of the implementation depends on the order).             *)
(* End times: an accepted submission of a known unexpired alert keeps the   *)
(* later of the two end times (provider/mem Put merges overlapping alerts), *)
(* otherwise the submitted one.  Time is discrete; submissions happen at    *)
(* instants t, an alert with end e is unexpired at t iff e >= t (the replay *)
(* puts end times a quarter of a unit after the instant e and GC runs half  *)
(* a unit before the instants: no comparison at equality ever decides).     *)
(***************************************************************************)
EXTENDS Integers, FiniteSets, TLC

CONSTANTS N,          \* the per-name limit (>= 1)
          Ids,        \* alert identities (label sets)
          NameOf(_),  \* alert name of an identity
          EndOffs,    \* end time of a submission = now + an element of EndOffs (>= 0)
          GCPers,     \* alert GC periods (environment)
          MaxTime

VARIABLES now,
          adm,      \* admitted alert -> its end time (kept after expiry; a function on the ids ever admitted)
          limited,  \* alertmanager_alerts_limited_total
          gcper,    \* environment: period of the provider's GC ticker in this behaviour
          last      \* observation: last operation and its outcome

vars == <<now, adm, limited, gcper, last>>

Names == {NameOf(i) : i \in Ids}
Unexpired(nm) == {i \in DOMAIN adm : NameOf(i) = nm /\ adm[i] >= now}
UnexpiredAt(nm, t) == {i \in DOMAIN adm : NameOf(i) = nm /\ adm[i] >= t}
Max(a, b) == IF a >= b THEN a ELSE b

Init == /\ now = 0 /\ adm = [i \in {} |-> 0] /\ limited = 0
        /\ gcper \in GCPers /\ last = [op |-> "init"]

Post(i, e) ==
  LET nm    == NameOf(i)
      known == i \in Unexpired(nm)
      room  == Cardinality(Unexpired(nm)) < N
      ne    == IF known THEN Max(adm[i], e) ELSE e
  IN /\ e >= now
     /\ IF known \/ room
          THEN /\ adm' = [x \in DOMAIN adm \cup {i} |-> IF x = i THEN ne ELSE adm[x]]
               /\ last' = [op |-> "post", id |-> i, name |-> nm, end |-> e, res |-> "ok",
                           resend |-> known, stored |-> ne]
               /\ UNCHANGED limited
          ELSE /\ limited' = limited + 1
               /\ last' = [op |-> "post", id |-> i, name |-> nm, end |-> e, res |-> "limited",
                           resend |-> FALSE, stored |-> 0]
               /\ UNCHANGED adm
     /\ UNCHANGED <<now, gcper>>

Tick == /\ now < MaxTime
        /\ now' = now + 1
        /\ last' = [op |-> "tick"]
        /\ UNCHANGED <<adm, limited, gcper>>

-----------------------------------------------------------------------------
(* Property C18, per-alert-name clause                                       *)
\* never more than N distinct unexpired alerts admitted under one name
LimitHolds == \A nm \in Names : Cardinality(Unexpired(nm)) <= N
IsPost == last'.op = "post"
\* re-sends of admitted (unexpired) alerts are always accepted and never shorten the alert
ResendAccepted == [][IsPost /\ last'.id \in Unexpired(last'.name)
                       => /\ last'.res = "ok"
                          /\ adm'[last'.id] >= adm[last'.id] /\ adm'[last'.id] >= last'.end]_vars
\* room is made only by expiry: a submission never removes or shortens an unexpired admitted
\* alert, a new alert is admitted only while fewer than N are unexpired, and the passage of
\* time removes exactly the alerts whose end time has passed
RoomOnlyByExpiry ==
  [][/\ IsPost => \A nm \in Names : \A i \in Unexpired(nm) : i \in DOMAIN adm' /\ adm'[i] >= adm[i]
     /\ IsPost /\ last'.res = "ok" /\ last'.id \notin Unexpired(last'.name)
          => Cardinality(Unexpired(last'.name)) < N
     /\ IsPost /\ last'.res = "limited" => Cardinality(Unexpired(last'.name)) >= N
     /\ last'.op = "tick" => \A nm \in Names : UnexpiredAt(nm, now') = {i \in Unexpired(nm) : adm[i] >= now'}]_vars
\* every refusal is reported (counter) and changes nothing
RefusalCounted == [][limited' = limited + (IF IsPost /\ last'.res = "limited" THEN 1 ELSE 0)]_vars
RefusalChangesNothing == [][IsPost /\ last'.res = "limited" => adm' = adm]_vars
=============================================================================
