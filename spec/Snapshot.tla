------------------------------ MODULE Snapshot ------------------------------
(***************************************************************************)
(* Crash model of the snapshot files of Alertmanager (<data dir>/silences  *)
(* and <data dir>/nflog; silence/silence.go and nflog/nflog.go:            *)
(* Maintenance -> openReplace -> Snapshot -> replaceFile.Close; loader     *)
(* New{SnapshotFile} -> loadSnapshot -> decodeState).                       *)
(*                                                                         *)
(* The writer is NOT transcribed by hand: the sequence of file-system calls *)
(* of one or more maintenance/shutdown snapshots is the constant Ops, taken *)
(* from an strace of the real code (harness/c11) and abstracted to the      *)
(* alphabet below.  What is modelled is the file system under a crash and  *)
(* the loader.                                                              *)
(*                                                                         *)
(* File system.  An inode has the content the kernel has cached and the    *)
(* content that was durable at its last fsync.  Directory operations (link  *)
(* of a new file, rename, unlink) take effect in the cached directory at    *)
(* once; they reach the disk in order, but only a prefix of those issued    *)
(* since the last fsync of the directory is durable at a crash.  fsync of a *)
(* file makes its content durable and says nothing about its name (the      *)
(* weakest reading of POSIX).                                               *)
(*                                                                         *)
(* Crash yields every directory consistent with that:                       *)
(*  - the durable directory plus any prefix of the pending operations       *)
(*    (so a renamed-over name shows the old or the new inode);              *)
(*  - per inode the synced content plus any prefix of the unsynced suffix,  *)
(*    cut at a record boundary or inside a record, optionally followed by   *)
(*    zeros up to the cached size (size reached the disk, data did not);    *)
(*  - for an inode truncated/overwritten since its last fsync also the old  *)
(*    content and new-prefix/old-suffix mixtures.                           *)
(* A plain process kill (nothing lost) is the special case "all pending     *)
(* operations durable, whole cached content present".                       *)
(*                                                                         *)
(* Content.  Snapshot generation g (0 = the snapshot on disk when the run   *)
(* starts) is NRec(g) records of U units each; unit <<g, i>> is the i-th    *)
(* unit of generation g, <<0, 0>> a zero-filled unit.  U = 4 gives the cut  *)
(* classes boundary, boundary+1 byte (inside/after the length prefix),      *)
(* mid-record, next boundary-1 byte.                                        *)
(*                                                                         *)
(* Fault WriteFail.  A write may store only a prefix of what it was given    *)
(* and return an error (disk full, EFBIG, I/O error): call "writefail a n"   *)
(* appends n units and marks the generation as failed - it captures no       *)
(* state, so it is not among the snapshots the next start may load.  What    *)
(* the writer does next is the action ErrorPath, selected by OnWriteError:   *)
(*   "rename"     what doMaintenance does (silence/silence.go, nflog/nflog.go *)
(*                Maintenance: `if size, err = s.Snapshot(f); err != nil {    *)
(*                f.Close(); return }` and replaceFile.Close = Sync, Close,   *)
(*                Rename(tmp -> final)): the PARTIAL temporary file is        *)
(*                renamed over the good snapshot;                             *)
(*   "remove"     the repaired reaction: close the file, remove it;           *)
(*   "asrecorded" the reaction is part of Ops (sequence recorded by strace).  *)
(* Directories.  Every call carries the directory of its file (da; for a      *)
(* rename also the directory of the target, db; "data" = the directory of the  *)
(* final name).  rename(2) is atomic - and possible at all - only within one   *)
(* file system: with CrossDevice = TRUE every directory other than "data" is   *)
(* on another file system and a rename across them fails (EXDEV) and changes   *)
(* nothing; a recorded failing rename is the call "renamefail".  SameDirRename *)
(* is the design rule (temporary file next to the target); Delivered says that *)
(* a pass whose calls have all returned, without a fault injected, leaves the  *)
(* snapshot it wrote under the final name - a writer whose temporary file is   *)
(* in $TMPDIR satisfies it on one file system and never delivers on two.       *)
(* Other failing system calls are not modelled.                               *)
(*                                                                         *)
(* Loader (decodeState): a sequence of length-delimited records; a missing  *)
(* file and an empty file are the empty state; a truncated record, a record *)
(* without payload (zeros) or bytes that are not a record are an error.     *)
(***************************************************************************)
EXTENDS Integers, FiniteSets, Sequences, TLC

CONSTANTS Ops,       \* <<[op, a, b, n, g], ...>>: the writer's file-system calls (from strace)
                     \*   create a    : open(a, O_CREAT|O_TRUNC); handle a; belongs to generation g
                     \*   write  a n  : append n units of generation g through handle a
                     \*   writefail a n : a write that stores only n units and returns an error
                     \*   fsync  a    : fsync/fdatasync of handle a
                     \*   close  a    : close of handle a
                     \*   rename a b  : rename(a, b) from directory da to directory db
                     \*   renamefail a b : a rename that failed (recorded: EXDEV, ...); no effect
                     \*   unlink a    : unlink(a)
                     \*   dirsync     : fsync of the directory
          Recs,      \* Recs[g+1] = number of records of generation g
          U,         \* units per record
          Final,     \* the name the loader opens
          ZeroFill,  \* BOOLEAN: crash may expose zeros for unsynced data
          OnWriteError, \* "rename" | "remove" | "asrecorded": the writer's reaction to a failed write
          CrossDevice   \* BOOLEAN: directories other than "data" are on another file system

VARIABLES pc,        \* number of calls of Ops executed
          ino,       \* sequence of inodes: [cached, synced]
          dir,       \* cached directory: name -> inode number, 0 = absent
          ddir,      \* durable directory at the last directory fsync
          dlog,      \* directory operations issued since then, in order
          hnd,       \* open handles: name at creation -> inode number, 0 = closed
          begun,     \* highest generation an executed call belongs to
          done,      \* generation of the last snapshot whose calls have all returned (without error)
          failed,    \* generations whose write failed: they capture no state
          errh,      \* handle of the snapshot whose write just failed ("" = none): ErrorPath runs
          epc,       \* number of calls of the reaction executed
          hasPrev,   \* a snapshot (generation 0) was on disk at the start
          phase,     \* "run" | "crashed"
          post,      \* after the crash: name -> [present, c]
          kd         \* after the crash: number of pending directory operations that survived

vars == <<pc, ino, dir, ddir, dlog, hnd, begun, done, failed, errh, epc, hasPrev, phase, post, kd>>

NRec(g)  == Recs[g + 1]
Gens     == 0 .. Len(Recs) - 1
NameOps  == {"create", "rename", "unlink"}
Names    == {Final} \cup {Ops[i].a : i \in {j \in 1 .. Len(Ops) : Ops[j].op \in NameOps}}
                    \cup {Ops[i].b : i \in {j \in 1 .. Len(Ops) : Ops[j].op = "rename"}}

Zero        == <<0, 0>>
Zeros(n)    == [i \in 1 .. n |-> Zero]
Full(g)     == [i \in 1 .. NRec(g) * U |-> <<g, i>>]
Max(a, b)   == IF a > b THEN a ELSE b
Min(a, b)   == IF a < b THEN a ELSE b
IsPrefix(s, t) == Len(s) <= Len(t) /\ SubSeq(t, 1, Len(s)) = s

----------------------------------------------------------------------------
(* The loader *)

\* the U units at positions p+1 .. p+U of c are record k of some generation
IsRecord(c, p) == /\ c[p + 1] # Zero
                  /\ (c[p + 1][2] - 1) % U = 0
                  /\ \A j \in 1 .. U : c[p + j] = <<c[p + 1][1], c[p + 1][2] + j - 1>>
RecordAt(c, p) == <<c[p + 1][1], (c[p + 1][2] - 1) \div U>>

Err      == [err |-> TRUE, recs |-> {}]
Ok(recs) == [err |-> FALSE, recs |-> recs]

RECURSIVE Parse(_, _, _)
Parse(c, p, acc) ==
  IF p = Len(c) THEN Ok(acc)                          \* clean end of file
  ELSE IF Len(c) - p < U THEN Err                     \* truncated record
  ELSE IF ~IsRecord(c, p) THEN Err                    \* no payload / not a record
  ELSE Parse(c, p + U, acc \cup {RecordAt(c, p)})

Load(f) == IF ~f.present THEN Ok({}) ELSE Parse(f.c, 0, {})   \* missing file => empty state
Recover == Load(post[Final])

\* the state captured by the snapshot of generation g
Snap(g) == IF g = 0 /\ ~hasPrev THEN {} ELSE {<<g, k>> : k \in 0 .. NRec(g) - 1}

----------------------------------------------------------------------------
(* The file system *)

ApplyOp(d, o) == CASE o.op = "link"   -> [d EXCEPT ![o.a] = o.i]
                   [] o.op = "rename" -> [d EXCEPT ![o.b] = d[o.a], ![o.a] = 0]
                   [] o.op = "unlink" -> [d EXCEPT ![o.a] = 0]
RECURSIVE ApplyN(_, _, _)
ApplyN(d, log, k) == IF k = 0 THEN d ELSE ApplyOp(ApplyN(d, log, k - 1), log[k])

\* index of the last call of generation g (the writer returns after it)
LastCall(g) == CHOOSE j \in 1 .. Len(Ops) : Ops[j].g = g /\ \A k \in j + 1 .. Len(Ops) : Ops[k].g # g

DOp(op, a, b, i) == [op |-> op, a |-> a, b |-> b, i |-> i]

\* what a crash may leave of an inode
Tails(n) == IF ZeroFill THEN {0, n} ELSE {0}
Possible(x) ==
  IF IsPrefix(x.synced, x.cached)
  THEN UNION {{SubSeq(x.cached, 1, m) \o Zeros(z) : z \in Tails(Len(x.cached) - m)} :
                m \in Len(x.synced) .. Len(x.cached)}
  ELSE {x.synced}
       \cup {SubSeq(x.cached, 1, m) : m \in 0 .. Len(x.cached)}
       \cup {SubSeq(x.cached, 1, m) \o SubSeq(x.synced, m + 1, Len(x.synced)) :
               m \in 0 .. Min(Len(x.cached), Len(x.synced))}

Present(c) == [present |-> TRUE, c |-> c]
Absent     == [present |-> FALSE, c |-> << >>]
Choice(d, n) == IF d[n] = 0 THEN {Absent} ELSE {Present(c) : c \in Possible(ino[d[n]])}

Ext(r, n, v) == [x \in DOMAIN r \cup {n} |-> IF x = n THEN v ELSE r[x]]
RECURSIVE Prod(_, _)
Prod(S, d) == IF S = {} THEN {<< >>}
              ELSE LET n == CHOOSE x \in S : TRUE
                   IN {Ext(r, n, v) : r \in Prod(S \ {n}, d), v \in Choice(d, n)}

----------------------------------------------------------------------------
Init == /\ pc = 0
        /\ hasPrev \in BOOLEAN
        /\ ino = IF hasPrev THEN <<[cached |-> Full(0), synced |-> Full(0)]>> ELSE << >>
        /\ dir = [n \in Names |-> IF n = Final /\ hasPrev THEN 1 ELSE 0]
        /\ ddir = dir
        /\ dlog = << >>
        /\ hnd = [n \in Names |-> 0]
        /\ begun = 0 /\ done = 0
        /\ failed = {} /\ errh = "" /\ epc = 0
        /\ phase = "run"
        /\ post = [n \in Names |-> Absent]
        /\ kd = 0

Create(o) ==
  IF dir[o.a] = 0
  THEN LET id == Len(ino) + 1 IN
       /\ ino' = Append(ino, [cached |-> << >>, synced |-> << >>])
       /\ dir' = [dir EXCEPT ![o.a] = id]
       /\ dlog' = Append(dlog, DOp("link", o.a, "", id))
       /\ hnd' = [hnd EXCEPT ![o.a] = id]
       /\ UNCHANGED <<ddir>>
  ELSE /\ ino' = [ino EXCEPT ![dir[o.a]].cached = << >>]      \* O_TRUNC of an existing file
       /\ hnd' = [hnd EXCEPT ![o.a] = dir[o.a]]
       /\ UNCHANGED <<dir, ddir, dlog>>

Write(o) ==
  LET i == hnd[o.a]  off == Len(ino[i].cached) IN
  /\ i # 0
  /\ ino' = [ino EXCEPT ![i].cached = @ \o [j \in 1 .. o.n |-> <<o.g, off + j>>]]
  /\ UNCHANGED <<dir, ddir, dlog, hnd>>

Fsync(o) ==
  /\ hnd[o.a] # 0
  /\ ino' = [ino EXCEPT ![hnd[o.a]].synced = ino[hnd[o.a]].cached]
  /\ UNCHANGED <<dir, ddir, dlog, hnd>>

Close(o) ==
  /\ hnd' = [hnd EXCEPT ![o.a] = 0]
  /\ UNCHANGED <<ino, dir, ddir, dlog>>

NoEffect == UNCHANGED <<ino, dir, ddir, dlog, hnd>>

Rename(o) ==
  IF CrossDevice /\ o.da # o.db
  THEN NoEffect            \* EXDEV: the file stays where it is, the target is untouched
  ELSE /\ dir[o.a] # 0
       /\ dir' = [dir EXCEPT ![o.b] = dir[o.a], ![o.a] = 0]
       /\ dlog' = Append(dlog, DOp("rename", o.a, o.b, 0))
       /\ UNCHANGED <<ino, ddir, hnd>>

Unlink(o) ==
  /\ dir' = [dir EXCEPT ![o.a] = 0]
  /\ dlog' = Append(dlog, DOp("unlink", o.a, "", 0))
  /\ UNCHANGED <<ino, ddir, hnd>>

DirSync ==
  /\ ddir' = dir /\ dlog' = << >>
  /\ UNCHANGED <<ino, dir, hnd>>

Exec(o) == CASE o.op = "create"    -> Create(o)
             [] o.op = "write"     -> Write(o)
             [] o.op = "writefail" -> Write(o)      \* the prefix that was stored
             [] o.op = "fsync"     -> Fsync(o)
             [] o.op = "close"     -> Close(o)
             [] o.op = "rename"    -> Rename(o)
             [] o.op = "renamefail" -> NoEffect
             [] o.op = "unlink"    -> Unlink(o)
             [] o.op = "dirsync"   -> DirSync

Step ==
  /\ phase = "run" /\ pc < Len(Ops) /\ errh = ""
  /\ LET o == Ops[pc + 1] IN
     /\ Exec(o)
     /\ begun' = Max(begun, o.g)
     /\ IF o.op = "writefail"
        THEN /\ failed' = failed \cup {o.g}
             /\ errh' = IF OnWriteError = "asrecorded" THEN "" ELSE o.a
             /\ epc' = 0
        ELSE UNCHANGED <<failed, errh, epc>>
     /\ done' = IF pc + 1 = LastCall(o.g) /\ o.g \notin failed' THEN o.g ELSE done
  /\ pc' = pc + 1
  /\ UNCHANGED <<hasPrev, phase, post, kd>>

\* the writer's reaction to the failed write of handle t (generation g), call by call, so
\* that a crash may fall between any two of them
DirOfName(t) == Ops[CHOOSE j \in 1 .. Len(Ops) : Ops[j].op = "create" /\ Ops[j].a = t].da
RCall(op, a, b, g) == [op |-> op, a |-> a, b |-> b, n |-> 0, g |-> g, da |-> DirOfName(a), db |-> "data"]
Reaction(t, g) ==
  IF OnWriteError = "rename"
  THEN << RCall("fsync", t, "", g), RCall("close", t, "", g), RCall("rename", t, Final, g) >>   \* replaceFile.Close
  ELSE << RCall("close", t, "", g), RCall("unlink", t, "", g) >>                                \* repaired

ErrorPath ==
  /\ phase = "run" /\ errh # ""
  /\ LET r == Reaction(errh, begun) IN
     /\ Exec(r[epc + 1])
     /\ epc' = epc + 1
     /\ errh' = IF epc + 1 = Len(r) THEN "" ELSE errh
  /\ UNCHANGED <<pc, begun, done, failed, hasPrev, phase, post, kd>>

Crash ==
  /\ phase = "run"
  /\ \E k \in 0 .. Len(dlog) :
       /\ kd' = k
       /\ post' \in Prod(Names, ApplyN(ddir, dlog, k))
  /\ phase' = "crashed"
  /\ UNCHANGED <<pc, ino, dir, ddir, dlog, hnd, begun, done, failed, errh, epc, hasPrev>>

Next == Step \/ ErrorPath \/ Crash
Spec == Init /\ [][Next]_vars

----------------------------------------------------------------------------
(* C11 *)

\* the next start does not refuse a file the code wrote itself
NoStartupError == phase = "crashed" => ~Recover.err

\* ... and loads exactly the state captured by one snapshot, never a torn, partial or
\* mixed one: for one snapshot {S_prev, S_new}.  A snapshot whose write failed captured
\* nothing: what it left behind is not a state the next start may load.
Admissible == (0 .. begun) \ failed
AtomicRecover == phase = "crashed" => \E g \in Admissible : Recover = Ok(Snap(g))

\* the stronger reading "the last completed snapshot or the one in progress"; needs the
\* rename to be durable when the writer returns (an fsync of the directory)
DurableRecover == phase = "crashed" => (Recover = Ok(Snap(done)) \/ (begun \notin failed /\ Recover = Ok(Snap(begun))))

\* the abstract reason: whatever is, or after a crash may become, visible under the final
\* name is the complete content of one generation and was fsynced before it got that name
CanBeFinal == {ApplyN(ddir, dlog, k)[Final] : k \in 0 .. Len(dlog)} \ {0}
SyncedBeforeRename ==
  phase = "run" =>
    \A i \in CanBeFinal : /\ ino[i].synced = ino[i].cached
                          /\ \E g \in Gens : ino[i].cached = Full(g)

\* the writer never touches the final name except by rename
FinalOnlyByRename == pc >= 0 => \A j \in 1 .. Len(Ops) :
                       Ops[j].op \in {"create", "write", "writefail", "unlink"} => Ops[j].a # Final

\* the temporary file is created next to the target: a rename is atomic, and possible, only
\* within one file system
SameDirRename == pc >= 0 => \A j \in 1 .. Len(Ops) :
                   (Ops[j].op \in {"rename", "renamefail"} /\ Ops[j].b = Final) => Ops[j].da = Ops[j].db

\* all calls have returned and no fault was injected into the last snapshot: it is what the
\* final name holds (a pass that silently delivers nothing loses every change at the next start)
MaxOf(S) == CHOOSE x \in S : \A y \in S : y <= x
Delivered == (phase = "run" /\ pc = Len(Ops) /\ errh = "" /\ (1 .. begun) \ failed # {}) =>
               LET g == MaxOf((1 .. begun) \ failed) IN
               dir[Final] # 0 /\ ino[dir[Final]].cached = Full(g)

\* vacuity probes (must be violated): a crash is reached with each outcome
ProbeNew  == ~(phase = "crashed" /\ begun > 0 /\ Recover = Ok(Snap(begun)) /\ Snap(begun) # Snap(0))
ProbePrev == ~(phase = "crashed" /\ begun > 0 /\ pc = Len(Ops) /\ Recover = Ok(Snap(0)))
\* after a failed write and the whole reaction, the last completed snapshot is what is loaded
ProbeFailKeepsPrev == ~(phase = "crashed" /\ failed # {} /\ pc = Len(Ops) /\ errh = "" /\ done > 0
                        /\ Recover = Ok(Snap(done)))
=============================================================================
