----------------------------- MODULE AlertsConc -----------------------------
(***************************************************************************)
(* The alert provider (provider/mem/mem.go) as a CONCURRENT object: several *)
(* goroutines call Put (directly or through POST /api/v2/alerts), Get, GET  *)
(* /api/v2/alerts (GetPending), Subscribe / SlurpAndSubscribe while the     *)
(* provider's GC ticker runs, and subscribers (inhibitor, dispatcher)       *)
(* receive from their channels.                                            *)
(*                                                                         *)
(* An operation is three steps: Call (visible), Lin (INTERNAL: the          *)
(* operation takes effect atomically, with the sequential semantics of     *)
(* Alerts.tla - Overlap, MergeAlert - somewhere between call and return),   *)
(* Ret (visible, with the value fixed at Lin).  Lin of a Put applies an     *)
(* alert to the store AND appends its message to the delivery queues of     *)
(* every registered subscriber in ONE step: the code holds the provider     *)
(* mutex from store.Set to the last channel write.  The code does so for    *)
(* the whole batch (Batch = "atomic": one Lin step per Put); the statements *)
(* only make the alerts of a batch submissions in body order (Batch =       *)
(* "alert": one Lin step per alert), so a recorded history that is rejected *)
(* with "atomic" gets its verdict with "alert".  The queues are kept PER    *)
(* LABEL SET: what the statements fix is the order of the versions of one   *)
(* alert, not the order of different alerts in a subscriber's channel.      *)
(* Recv(sub, m) takes the head of sub's queue of m's label set.  Hence the  *)
(* contract of the statements (C13: merge and visibility in submission      *)
(* order; C03 / C14: the verdict / the group depends on the latest version, *)
(* not on arrival order):                                                  *)
(*   InOrder    every subscriber receives the versions of one label set in  *)
(*              the order in which the store applied them, without gaps,   *)
(*              starting with the version its snapshot showed;             *)
(*   Quiescent  when no operation is pending and every queue is drained,   *)
(*              the last version a subscriber learned for a label set is   *)
(*              the stored one (or a resolved one that GC has collected).  *)
(*                                                                         *)
(* Stamps: alert.Merge takes the alert with the later UpdatedAt as the      *)
(* younger one (its argument at equality).  A stamp is read BEFORE the      *)
(* provider mutex is taken (postAlertsHandler: time.Now()), so with real    *)
(* concurrency stamp order and lock order may differ; the stamp is data of  *)
(* the submission (field u, the rank of the recorded UpdatedAt) and CMerge  *)
(* transcribes the swap.  All submissions carry explicit startsAt/endsAt    *)
(* whole hours away from the fixed instant Now0, so nothing depends on the  *)
(* wall clock.                                                             *)
(*                                                                         *)
(* Rejected designs kept as constants (TLC must refute the properties):     *)
(*   Fanout = "unlocked": Put stores the batch under the mutex and writes   *)
(*            to the subscriber channels after releasing it (seeded C03-5); *)
(*   Slurp  = "early":    SlurpAndSubscribe copies the stored alerts before *)
(*            taking the mutex and registers the listener afterwards.       *)
(***************************************************************************)
EXTENDS Alerts

CONSTANTS Fanout,      \* "locked" (the code) | "unlocked"
          Slurp,       \* "atomic" (the code) | "early"
          Batch,       \* "alert": a Put takes effect alert by alert (in body order) | "atomic": at once (the code)
          Now0         \* the fixed instant of every history

VARIABLES ops,         \* op id -> [k, b, ls, sub, st, res, i]   (pending operations; i = next alert of b)
          queue,       \* registered subscriber -> label set -> messages written, not yet received
          snap,        \* registered subscriber -> stored alerts written by Subscribe, not yet received
          pend,        \* (Fanout = "unlocked") op id -> channel writes still to do, <<sub, msg>>
          \* history variables (properties only)
          applied,     \* label set -> sequence of versions applied by the store
          know,        \* subscriber -> label set -> sequence of versions learned (snapshot, then receives)
          from         \* subscriber -> label set -> index in applied of the first version it must learn

core  == <<store, ops, queue, snap, pend>>
hvars == <<applied, know, from>>
rest  == <<now, buckets, limited, sil, orph, last>>
cvars == <<core, hvars, rest>>

LSets == CanonIds

\* a submitted version v = [ls, s, e, tag, u]; a stored record = Alerts.tla's plus the tag
NewRec(v)   == [start |-> v.s, end |-> v.e, timeout |-> FALSE, upd |-> v.u, tag |-> v.tag]
Msg(x, r)   == [ls |-> x, s |-> r.start, e |-> r.end, tag |-> r.tag, u |-> r.upd]
\* old.Merge(new): "let o always be the younger alert: if o.UpdatedAt.Before(a.UpdatedAt) swap"
CMerge(o, n) == IF n.upd < o.upd THEN MergeAlert(n, o, Now0, NoTies) ELSE MergeAlert(o, n, Now0, NoTies)
ApplyOne(st, v) ==
  LET n == NewRec(v)
  IN IF v.ls \in DOMAIN st /\ Overlap(st[v.ls], n, NoTies)
       THEN Put(st, v.ls, CMerge(st[v.ls], n)) ELSE Put(st, v.ls, n)

\* R = [st, out]: the batch applied in order, one message per alert
RECURSIVE ApplySeq(_, _, _)
ApplySeq(R, b, i) ==
  IF i > Len(b) THEN R
  ELSE LET st2 == ApplyOne(R.st, b[i])
       IN ApplySeq([st |-> st2, out |-> Append(R.out, Msg(b[i].ls, st2[b[i].ls]))], b, i + 1)

StoredMsgs(st) == {Msg(x, st[x]) : x \in DOMAIN st}
VisibleMsgs(st) == {Msg(x, st[x]) : x \in {y \in DOMAIN st : st[y].end > Now0}}   \* GET /api/v2/alerts
DeadSets(st)   == {x \in DOMAIN st : st[x].end <= Now0}                            \* store.GC: Resolved()

Regs == DOMAIN queue
Of(out, x) == SelectSeq(out, LAMBDA m : m.ls = x)
NoQueue == [x \in LSets |-> << >>]
Drained(s) == queue[s] = NoQueue /\ snap[s] = {}
\* the channel writes of a batch: per message, every listener (map order: any fixed one)
RECURSIVE Writes(_, _)
Writes(out, S) == IF out = << >> THEN << >>
                  ELSE [i \in 1..Len(S) |-> <<S[i], Head(out)>>] \o Writes(Tail(out), S)
RECURSIVE SetSeq(_)
SetSeq(S) == IF S = {} THEN << >> ELSE LET x == CHOOSE y \in S : TRUE IN <<x>> \o SetSeq(S \ {x})

CInit == /\ now = Now0 /\ store = << >> /\ buckets = << >> /\ limited = 0 /\ sil = NoSil
         /\ orph = {} /\ last = [op |-> "init"]
         /\ ops = << >> /\ queue = << >> /\ snap = << >> /\ pend = << >>
CHInit == /\ applied = [x \in LSets |-> << >>] /\ know = << >> /\ from = << >>

-----------------------------------------------------------------------------
(* visible: call *)
Call(o, k, b, x, sub) ==
  /\ o \notin DOMAIN ops
  /\ ops' = Put(ops, o, [k |-> k, b |-> b, ls |-> x, sub |-> sub, st |-> "called", res |-> << >>, i |-> 1])
  /\ UNCHANGED <<store, queue, snap, pend>>

(* internal: linearization points *)
SetOp(o, st, res) == [ops EXCEPT ![o].st = st, ![o].res = res]

\* the alerts of the batch this step applies: the rest of it (the code: one critical section
\* per batch), or the next one (all the statements ask for: the alerts of a batch are
\* submissions in body order; no statement makes a batch atomic)
Chunk(o) == LET b == ops[o].b
                i == ops[o].i
            IN SubSeq(b, i, IF Batch = "atomic" THEN Len(b) ELSE i)
LinPut(o) ==
  /\ ops[o].k \in {"put", "post"} /\ ops[o].st = "called"
  /\ \E R \in {ApplySeq([st |-> store, out |-> << >>], Chunk(o), 1)} :
       /\ store' = R.st
       /\ IF Fanout = "locked"
            THEN /\ queue' = [s \in Regs |-> [x \in LSets |-> queue[s][x] \o Of(R.out, x)]]
                 /\ pend' = pend
            ELSE /\ queue' = queue
                 /\ pend' = Put(pend, o, (IF o \in DOMAIN pend THEN pend[o] ELSE << >>) \o Writes(R.out, SetSeq(Regs)))
  /\ ops' = [ops EXCEPT ![o].i = @ + Len(Chunk(o)),
                        ![o].st = IF ops[o].i + Len(Chunk(o)) > Len(ops[o].b) THEN "lin" ELSE "called"]
  /\ snap' = snap

\* (unlocked fan-out only) one channel write of a Put that has released the mutex
Deliver(o) ==
  /\ o \in DOMAIN pend /\ pend[o] # << >>
  /\ LET w == Head(pend[o])
     IN queue' = [queue EXCEPT ![w[1]][w[2].ls] = Append(@, w[2])]
  /\ pend' = [pend EXCEPT ![o] = Tail(@)]
  /\ UNCHANGED <<store, ops, snap>>

LinGet(o) ==
  /\ ops[o].k = "get" /\ ops[o].st = "called"
  /\ ops' = SetOp(o, "lin", IF ops[o].ls \in DOMAIN store THEN <<Msg(ops[o].ls, store[ops[o].ls])>> ELSE << >>)
  /\ UNCHANGED <<store, queue, snap, pend>>

LinGetAll(o) ==
  /\ ops[o].k = "geta" /\ ops[o].st = "called"
  /\ ops' = SetOp(o, "lin", VisibleMsgs(store))
  /\ UNCHANGED <<store, queue, snap, pend>>

\* Subscribe: the stored alerts are written into the new channel; SlurpAndSubscribe returns them
LinSub(o) ==
  /\ ops[o].k \in {"sub", "slurp"} /\ ops[o].st \in {"called", "snapped"}
  /\ ops[o].sub \notin Regs
  /\ (ops[o].k = "slurp" /\ Slurp = "early") => ops[o].st = "snapped"
  /\ queue' = Put(queue, ops[o].sub, NoQueue)
  /\ snap' = Put(snap, ops[o].sub, IF ops[o].k = "sub" THEN StoredMsgs(store) ELSE {})
  /\ ops' = SetOp(o, "lin", IF ops[o].k = "sub" THEN {}
                            ELSE IF ops[o].st = "snapped" THEN ops[o].res ELSE StoredMsgs(store))
  /\ UNCHANGED <<store, pend>>

\* (rejected design only) the copy of the stored alerts is taken before the mutex
SnapEarly(o) ==
  /\ Slurp = "early" /\ ops[o].k = "slurp" /\ ops[o].st = "called"
  /\ ops' = SetOp(o, "snapped", StoredMsgs(store))
  /\ UNCHANGED <<store, queue, snap, pend>>

\* one gc() of the provider that deletes something (the ticker goroutine is the caller)
LinGC(o) ==
  /\ ops[o].k = "gc" /\ ops[o].st = "called"
  /\ DeadSets(store) # {}
  /\ store' = Drop(store, DeadSets(store))
  /\ ops' = SetOp(o, "lin", DeadSets(store))
  /\ UNCHANGED <<queue, snap, pend>>

Lin(o) == LinPut(o) \/ LinGet(o) \/ LinGetAll(o) \/ LinSub(o) \/ LinGC(o)

(* visible: return with the value fixed at the linearization point *)
Ret(o) ==
  /\ o \in DOMAIN ops /\ ops[o].st = "lin"
  /\ (o \in DOMAIN pend => pend[o] = << >>)
  /\ ops' = Drop(ops, {o})
  /\ pend' = Drop(pend, {o})
  /\ UNCHANGED <<store, queue, snap>>

(* visible: a subscriber takes the next alert from its channel *)
\* (the alerts Subscribe wrote into the channel come first)
InSnap(sub, x) == \E m \in snap[sub] : m.ls = x
RecvMsg(sub, x) == IF InSnap(sub, x) THEN {m \in snap[sub] : m.ls = x}
                   ELSE IF queue[sub][x] # << >> THEN {Head(queue[sub][x])} ELSE {}
Recv(sub, m) ==
  /\ sub \in Regs /\ m \in RecvMsg(sub, m.ls)
  /\ IF InSnap(sub, m.ls) THEN snap' = [snap EXCEPT ![sub] = @ \ {m}] /\ queue' = queue
     ELSE queue' = [queue EXCEPT ![sub][m.ls] = Tail(@)] /\ snap' = snap
  /\ UNCHANGED <<store, ops, pend>>

-----------------------------------------------------------------------------
(* history variables *)
StoredAt(x) == x \in DOMAIN store
HLinPut(o) ==
  LET R == ApplySeq([st |-> store, out |-> << >>], Chunk(o), 1)
  IN /\ applied' = [x \in LSets |-> applied[x] \o SelectSeq(R.out, LAMBDA m : m.ls = x)]
     /\ UNCHANGED <<know, from>>
HLinSub(o) ==
  LET s    == ops[o].sub
      seen == IF ops[o].st = "snapped" THEN ops[o].res ELSE StoredMsgs(store)
  IN /\ from' = Put(from, s, [x \in LSets |-> IF StoredAt(x) THEN Len(applied[x]) ELSE Len(applied[x]) + 1])
     /\ know' = Put(know, s, [x \in LSets |->
                   IF ops[o].k = "slurp" /\ \E m \in seen : m.ls = x
                     THEN <<CHOOSE m \in seen : m.ls = x>> ELSE << >>])
     /\ applied' = applied
HRecv(sub, m) == /\ know' = [know EXCEPT ![sub][m.ls] = Append(@, m)]
                 /\ UNCHANGED <<applied, from>>

-----------------------------------------------------------------------------
(* properties *)
Expected(s, x) == SubSeq(applied[x], from[s][x], Len(applied[x]))
IsPrefixOf(a, b) == Len(a) <= Len(b) /\ \A i \in 1..Len(a) : a[i] = b[i]
InOrder == \A s \in DOMAIN know : \A x \in LSets : IsPrefixOf(know[s][x], Expected(s, x))

Quiet == /\ ops = << >>
         /\ \A s \in Regs : Drained(s)
LastKnown(s, x) == know[s][x][Len(know[s][x])]
Quiescent ==
  Quiet => \A s \in DOMAIN know : \A x \in LSets :
             IF x \in DOMAIN store
               THEN know[s][x] # << >> /\ LastKnown(s, x) = Msg(x, store[x])
               ELSE know[s][x] = << >> \/ LastKnown(s, x).e <= Now0
=============================================================================
