------------------------------- MODULE Gossip -------------------------------
(***************************************************************************)
(* The gossip transport of an Alertmanager cluster (property C19):         *)
(*   cluster/channel.go   Channel.Broadcast, OversizedMessage,              *)
(*                        handleOverSizedMessages                           *)
(*   cluster/delegate.go  NotifyMsg, GetBroadcasts, LocalState,             *)
(*                        MergeRemoteState                                  *)
(*   cluster/cluster.go   AddState (send = QueueBroadcast on memberlist's   *)
(*                        TransmitLimitedQueue), Join                       *)
(*   silence/silence.go, nflog/nflog.go  Merge: re-gossip on first merge    *)
(*                        unless the received DATA is oversized             *)
(*                                                                         *)
(* Every node keeps the registered states (keys "sil", "nfl") abstracted   *)
(* as grow-only sets of updates (one update = one silence / one log entry   *)
(* with its own id; last-writer-wins of versions is C09/C10), the gossip    *)
(* queue (memberlist.TransmitLimitedQueue transcribed: tiers by number of   *)
(* transmissions, inside a tier the largest message that still fits, ties   *)
(* newest first; a message leaves the queue after TxLimit transmissions),   *)
(* and per state key one Channel: the bounded queue of oversized messages   *)
(* (Channel.msgc), the worker that sends the head to every peer over the    *)
(* reliable channel and waits for all sends, the counters dropped / sent /  *)
(* failed.  The environment: gossip packets may be delayed, reordered,      *)
(* duplicated and lost; nodes stop and (re-)join with or without their      *)
(* snapshot; membership views lag behind a stop; byte strings from outside  *)
(* are presented to NotifyMsg and MergeRemoteState.  Scheduler rounds: a    *)
(* round is one gossip interval (every node gossips once to each peer), a   *)
(* sweep is complete when every pair of running nodes has done a push/pull. *)
(*                                                                         *)
(* Sizes are bytes.  DLen[u] is the length of the marshalled update (the    *)
(* length-delimited MeshSilence / MeshEntry); the data of a message with    *)
(* several updates is their concatenation; PartLen is the size of the       *)
(* marshalled clusterpb.Part{Key, Data} (keys have 3 characters).           *)
(* Comparisons are transcribed with their strictness:                       *)
(*   oversized iff len > MaxGossipPacketSize/2                              *)
(*   Channel.Broadcast tests the marshalled PART, State.Merge tests the     *)
(*   DATA it was given: a message whose data is <= 700 bytes and whose      *)
(*   part is > 700 bytes is sent reliably by the origin and sent reliably   *)
(*   again by every node that merges it first.                              *)
(***************************************************************************)
EXTENDS Integers, FiniteSets, Sequences, TLC

CONSTANTS Nodes, InitUp,        \* all nodes; those running initially
          Updates, UKey, DLen,   \* update ids; their state key; their marshalled length
          Foreign,               \* updates that originate outside the modelled nodes (injected only)
          MaxPacket,             \* cluster.MaxGossipPacketSize
          TxLimit,               \* RetransmitMult(3) * ceil(log10(members+1)) = 3 for 1..9 members
          GOverhead, GLimit,     \* what memberlist.gossip passes to Delegate.GetBroadcasts: 2+1, 1400-2
          OversizeCap,           \* cap(Channel.msgc)
          D                      \* Delivered: bound in rounds

VARIABLES up,      \* nodes that run
          view,    \* node -> the peers it believes alive (memberlist membership; may lag behind a crash)
          st,      \* node -> key -> set of updates merged
          tr,      \* node -> transport: [gq, nid, ov: key -> [oq, hand, dropped, sent, failed]]
          net,     \* gossip packets in flight: [id, from, to, msgs]
          round,   \* scheduler round (one gossip interval)
          served,  \* node -> peers it gossiped to in this round
          sweep,   \* push/pull sweep (a sweep ends when every pair of running nodes has exchanged)
          ppdone,  \* pairs that exchanged full states in this sweep
          born,    \* update -> [r, s]: round and sweep in which it was first held by a node (0: not yet)
          since,   \* node -> [r, s]: round and sweep of its last start
          hurt,    \* updates that met a counted fault (lost packet, dropped / failed oversize send, crash)
          deferred,\* updates left behind by a GetBroadcasts call because the packet was full
          orphaned,\* updates whose holder stopped before every running node had them
          used,    \* budget counters [lose, dup, crash, inject, burst]
          last     \* observation: the last operation, its arguments and replies

vars == <<up, view, st, tr, net, round, served, sweep, ppdone, sweep, ppdone, born, since, hurt, deferred, orphaned, used, last>>

Keys == {"nfl", "sil"}
KeySeq == <<"nfl", "sil">>

Min(a, b) == IF a < b THEN a ELSE b

RECURSIVE SumLen(_)
SumLen(S) == IF S = {} THEN 0 ELSE LET x == CHOOSE x \in S : TRUE IN DLen[x] + SumLen(S \ {x})

VarLen(x)  == IF x < 128 THEN 1 ELSE IF x < 16384 THEN 2 ELSE 3
\* proto.Marshal(&clusterpb.Part{Key: k, Data: d}) with len(k) = 3
PartLen(dl) == 5 + (IF dl = 0 THEN 0 ELSE 1 + VarLen(dl) + dl)
Oversized(x) == x > MaxPacket \div 2            \* cluster.OversizedMessage
MLen(m) == PartLen(SumLen(m.us))                \* a message is [key, us]

Idle == [m |-> [key |-> "", us |-> {}], pend |-> {}]
\* one Channel per state key: its queue of oversized messages, the message its
\* worker is sending (hand) with the peers whose send has not returned, counters
V0 == [oq |-> << >>, hand |-> Idle, dropped |-> 0, sent |-> 0, failed |-> 0]
T0 == [gq |-> {}, nid |-> 0, ov |-> [k \in Keys |-> V0]]

-----------------------------------------------------------------------------
(* Channel.msgc as a run-length encoded sequence of [m, c]                   *)
RECURSIVE QLen(_)
QLen(q) == IF q = << >> THEN 0 ELSE Head(q).c + QLen(Tail(q))
PushQ(q, m, c) == IF c = 0 THEN q
                  ELSE IF q # << >> /\ q[Len(q)].m = m THEN [q EXCEPT ![Len(q)].c = @ + c]
                  ELSE Append(q, [m |-> m, c |-> c])
PopQ(q) == IF Head(q).c = 1 THEN Tail(q) ELSE [q EXCEPT ![1].c = @ - 1]

Enq(V, m, k) ==
  LET put == Min(k, OversizeCap - QLen(V.oq))
  IN [V EXCEPT !.oq = PushQ(@, m, put), !.dropped = @ + (k - put)]

(* the oversized branch of Channel.Broadcast, k times with the same payload *)
(* (the worker goroutine runs after every call)                             *)
BcastV(V, m, k, peers) ==
  IF V.hand.pend = {}                                  \* worker idle: it takes the message at once
    THEN IF peers = {} THEN V                          \* ... and sends it to nobody
         ELSE Enq([V EXCEPT !.hand = [m |-> m, pend |-> peers],
                            !.sent = @ + Cardinality(peers)], m, k - 1)
    ELSE Enq(V, m, k)

(* Channel.Broadcast called k times.  peers = what Channel.peers() returns. *)
BcastK(T, m, k, peers) ==
  IF k = 0 THEN T
  ELSE IF ~Oversized(MLen(m))
    THEN [T EXCEPT !.gq = @ \cup {[id |-> T.nid + i, m |-> m, tx |-> 0] : i \in 0 .. k-1},
                   !.nid = @ + k]                      \* send: bcast.QueueBroadcast
    ELSE [T EXCEPT !.ov[m.key] = BcastV(@, m, k, peers)]

(* handleOverSizedMessages after wg.Wait(): next message, ask for the peers *)
Advance(V, peers) ==
  IF V.oq = << >> THEN [V EXCEPT !.hand = Idle]
  ELSE IF peers = {} THEN [V EXCEPT !.hand = Idle, !.oq = << >>]
  ELSE [V EXCEPT !.hand = [m |-> Head(V.oq).m, pend |-> peers], !.oq = PopQ(@),
                 !.sent = @ + Cardinality(peers)]
Resolve(V, p, ok, peers) ==
  LET V1 == [V EXCEPT !.hand.pend = @ \ {p}, !.failed = @ + (IF ok THEN 0 ELSE 1)]
  IN IF V1.hand.pend # {} THEN V1 ELSE Advance(V1, peers)

Dropped(T) == T.ov["sil"].dropped + T.ov["nfl"].dropped
Failed(T)  == T.ov["sil"].failed + T.ov["nfl"].failed
Busy(T)    == \E k \in Keys : T.ov[k].hand.pend # {}

(* TransmitLimitedQueue.GetBroadcasts(overhead, limit): sequence of chosen  *)
(* queue items                                                              *)
RECURSIVE Fill(_, _, _, _)
Fill(Q, usedb, tier, acc) ==
  LET free == GLimit - usedb - GOverhead
  IN IF free <= 0 \/ tier >= TxLimit \/ Q = {} THEN acc
     ELSE LET C == {q \in Q : q.tx = tier /\ MLen(q.m) <= free}
          IN IF C = {} THEN Fill(Q, usedb, tier + 1, acc)
             ELSE LET k == CHOOSE k \in C : \A o \in C :
                               \/ MLen(k.m) > MLen(o.m)
                               \/ (MLen(k.m) = MLen(o.m) /\ k.id >= o.id)
                  IN Fill(Q \ {k}, usedb + GOverhead + MLen(k.m), tier, Append(acc, k))
Range(s) == {s[i] : i \in 1 .. Len(s)}
Taken(T) == Fill(T.gq, 0, 0, << >>)
AfterGet(T) ==
  LET ch == Range(Taken(T))
  IN [T EXCEPT !.gq = (@ \ ch) \cup {[k EXCEPT !.tx = @ + 1] : k \in {c \in ch : c.tx + 1 < TxLimit}}]

(* State.Merge(data) on the state registered under m.key: Silences.Merge /  *)
(* Log.Merge.  One broadcast of the received bytes per update merged for    *)
(* the first time, unless the received data is oversized.                   *)
MergeMsg(S, T, m, peers) ==
  LET new == m.us \ S[m.key]
  IN [S |-> [S EXCEPT ![m.key] = @ \cup m.us],
      T |-> IF Oversized(SumLen(m.us)) THEN T ELSE BcastK(T, m, Cardinality(new), peers)]

(* A received byte string, by structure.  kind:                             *)
(*   good    Part{known key, well-formed data with updates us}              *)
(*   empty   Part{known key, no data}                                       *)
(*   unk     Part{unknown key, well-formed data}                            *)
(*   garbage Part{known key, undecodable data}       -> Merge returns error *)
(*   nilent  Part{known key, entry without payload}  -> Merge returns error *)
(*   trunc   a frame cut in the middle               -> Unmarshal error     *)
Fails(p) == p.kind \in {"garbage", "nilent"}
Good(p)  == p.kind \in {"good", "empty"}

(* delegate.NotifyMsg *)
Notify(S, T, p, peers) ==
  IF Good(p) THEN MergeMsg(S, T, [key |-> p.key, us |-> p.us], peers) ELSE [S |-> S, T |-> T]

(* delegate.MergeRemoteState over the parts of a decoded FullState.         *)
(* impl = TRUE: the code (unknown key: continue; Merge error: RETURN);      *)
(* impl = FALSE: the reference (every understood part is merged).           *)
RECURSIVE MergeParts(_, _, _, _, _)
MergeParts(S, T, parts, peers, impl) ==
  IF parts = << >> THEN [S |-> S, T |-> T]
  ELSE LET p == Head(parts)
       IN IF Good(p)
            THEN LET r == MergeMsg(S, T, [key |-> p.key, us |-> p.us], peers)
                 IN MergeParts(r.S, r.T, Tail(parts), peers, impl)
          ELSE IF Fails(p) /\ impl THEN [S |-> S, T |-> T]
          ELSE MergeParts(S, T, Tail(parts), peers, impl)
MergeRemote(S, T, fs, peers, impl) ==
  IF fs.kind = "trunc" THEN [S |-> S, T |-> T] ELSE MergeParts(S, T, fs.parts, peers, impl)

(* delegate.LocalState: one part per registered state *)
Local(n) == [kind |-> "full",
             parts |-> [i \in 1 .. Len(KeySeq) |-> [kind |-> "good", key |-> KeySeq[i], us |-> st[n][KeySeq[i]]]]]

-----------------------------------------------------------------------------
Peers(n) == view[n]
Held(S) == UNION {S[n][k] : n \in Nodes, k \in Keys}
HeldBy(n) == UNION {st[n][k] : k \in Keys}
Bear(S) == [u \in Updates |-> IF born[u].r = 0 /\ u \in Held(S) THEN [r |-> round, s |-> sweep] ELSE born[u]]
UsOf(msgs) == UNION {msgs[i].us : i \in 1 .. Len(msgs)}

NewId == CHOOSE i \in 0 .. Cardinality(net) :
            /\ \A pk \in net : pk.id # i
            /\ \A j \in 0 .. i - 1 : \E pk \in net : pk.id = j

Init == /\ up = InitUp
        /\ view = [n \in Nodes |-> IF n \in InitUp THEN InitUp \ {n} ELSE {}]
        /\ st = [n \in Nodes |-> [k \in Keys |-> {}]]
        /\ tr = [n \in Nodes |-> T0]
        /\ net = {}
        /\ round = 1
        /\ served = [n \in Nodes |-> {}]
        /\ sweep = 1
        /\ ppdone = {}
        /\ born = [u \in Updates |-> [r |-> 0, s |-> 0]]
        /\ since = [n \in Nodes |-> [r |-> 0, s |-> 1]]
        /\ hurt = {}
        /\ deferred = {}
        /\ orphaned = {}
        /\ used = [lose |-> 0, dup |-> 0, crash |-> 0, inject |-> 0, burst |-> 0]
        /\ last = [op |-> "init"]

(* A local update (Silences.Set / Log.Log) at node n: stored, then the      *)
(* state's broadcast function = Channel.Broadcast.  k > 1: the same bytes   *)
(* broadcast k times (burst).                                               *)
Route(T, m) == IF ~Oversized(MLen(m)) THEN "gossip"
               ELSE IF T.ov[m.key].hand.pend = {} \/ QLen(T.ov[m.key].oq) < OversizeCap THEN "oversize" ELSE "dropped"
Broadcast(n, u) ==
  /\ n \in up /\ born[u].r = 0 /\ u \notin Foreign
  /\ LET m == [key |-> UKey[u], us |-> {u}]
         T2 == BcastK(tr[n], m, 1, Peers(n))
     IN /\ st' = [st EXCEPT ![n][UKey[u]] = @ \cup {u}]
        /\ tr' = [tr EXCEPT ![n] = T2]
        /\ born' = Bear(st')
        /\ hurt' = hurt \cup (IF Dropped(T2) > Dropped(tr[n]) THEN {u} ELSE {})
        /\ last' = [op |-> "bcast", n |-> n, u |-> u, len |-> MLen(m), route |-> Route(tr[n], m)]
  /\ UNCHANGED <<up, view, net, round, served, sweep, ppdone, since, deferred, orphaned, used>>

Burst(n, u, k) ==
  /\ n \in up /\ u \in st[n][UKey[u]] /\ k > 0
  /\ LET m == [key |-> UKey[u], us |-> {u}]
         T2 == BcastK(tr[n], m, k, Peers(n))
     IN /\ Oversized(MLen(m))
        /\ tr' = [tr EXCEPT ![n] = T2]
        /\ hurt' = hurt \cup (IF Dropped(T2) > Dropped(tr[n]) THEN {u} ELSE {})
        /\ used' = [used EXCEPT !.burst = @ + 1]
        /\ last' = [op |-> "burst", n |-> n, u |-> u, k |-> k, dropped |-> Dropped(T2) - Dropped(tr[n])]
  /\ UNCHANGED <<up, view, st, net, round, served, sweep, ppdone, born, since, deferred, orphaned>>

(* One call of delegate.GetBroadcasts by memberlist.gossip for peer p; the  *)
(* messages travel in one packet.                                           *)
Gossip(n, p) ==
  /\ n \in up /\ p \in view[n] \ served[n] /\ tr[n].gq # {}
  /\ LET tk == Taken(tr[n])
         msgs == [i \in 1 .. Len(tk) |-> tk[i].m]
         pk == [id |-> NewId, from |-> n, to |-> p, msgs |-> msgs]
     IN /\ tr' = [tr EXCEPT ![n] = AfterGet(@)]
        /\ net' = IF Len(tk) = 0 THEN net ELSE net \cup {pk}
        /\ served' = [served EXCEPT ![n] = @ \cup {p}]
        /\ deferred' = deferred \cup UNION {q.m.us : q \in tr[n].gq \ Range(tk)}
        /\ last' = [op |-> "gossip", n |-> n, p |-> p, pk |-> NewId, msgs |-> msgs]
  /\ UNCHANGED <<up, view, st, round, sweep, ppdone, born, since, hurt, orphaned, used>>

RECURSIVE NotifyAll(_, _, _, _)
NotifyAll(S, T, msgs, peers) ==
  IF msgs = << >> THEN [S |-> S, T |-> T]
  ELSE LET r == MergeMsg(S, T, Head(msgs), peers) IN NotifyAll(r.S, r.T, Tail(msgs), peers)

(* The packet arrives: delegate.NotifyMsg per message (keep: the network    *)
(* duplicated it).                                                          *)
Deliver(pk, keep) ==
  /\ pk \in net /\ pk.to \in up
  /\ LET n == pk.to
         r == NotifyAll(st[n], tr[n], pk.msgs, Peers(n))
     IN /\ st' = [st EXCEPT ![n] = r.S]
        /\ tr' = [tr EXCEPT ![n] = r.T]
        /\ net' = IF keep THEN net ELSE net \ {pk}
        /\ used' = IF keep THEN [used EXCEPT !.dup = @ + 1] ELSE used
        /\ hurt' = hurt \cup {u \in UsOf(pk.msgs) : Dropped(r.T) > Dropped(tr[n])}
        /\ last' = [op |-> "deliver", pk |-> pk.id, n |-> n, keep |-> keep,
                    new |-> Cardinality(UsOf(pk.msgs) \ HeldBy(n))]
  /\ UNCHANGED <<up, view, round, served, sweep, ppdone, born, since, deferred, orphaned>>

Lose(pk) ==
  /\ pk \in net
  /\ net' = net \ {pk}
  /\ hurt' = hurt \cup UsOf(pk.msgs)
  /\ used' = IF pk.to \in up THEN [used EXCEPT !.lose = @ + 1] ELSE used
  /\ last' = [op |-> "lose", pk |-> pk.id, n |-> pk.to]
  /\ UNCHANGED <<up, view, st, tr, round, served, sweep, ppdone, born, since, deferred, orphaned>>

(* The pending reliable send of n's worker to p returns: delivered to p's   *)
(* NotifyMsg iff p runs, else an error (failure counter).                   *)
SendReliable(n, k, p) ==
  /\ n \in up /\ p \in tr[n].ov[k].hand.pend
  /\ LET ok == p \in up
         m == tr[n].ov[k].hand.m
         Tn == [tr[n] EXCEPT !.ov[k] = Resolve(@, p, ok, Peers(n))]
         r == IF ok THEN MergeMsg(st[p], tr[p], m, Peers(p)) ELSE [S |-> st[p], T |-> tr[p]]
     IN /\ st' = [st EXCEPT ![p] = r.S]
        /\ tr' = [tr EXCEPT ![n] = Tn, ![p] = r.T]
        /\ hurt' = hurt \cup (IF ok /\ Dropped(r.T) = Dropped(tr[p]) THEN {} ELSE m.us)
        /\ last' = [op |-> "sendrel", n |-> n, k |-> k, p |-> p, ok |-> ok, m |-> m]
  /\ UNCHANGED <<up, view, net, round, served, sweep, ppdone, born, since, deferred, orphaned, used>>

(* memberlist push/pull: both local states are taken first, then each side  *)
(* merges the other's.                                                      *)
Exchange(a, b, Sa, Ta, pa, pb) ==   \* a (state Sa, transport Ta, peers pa) and b (peers pb) exchange full states
  LET fa == [kind |-> "full", parts |-> [i \in 1 .. Len(KeySeq) |-> [kind |-> "good", key |-> KeySeq[i], us |-> Sa[KeySeq[i]]]]]
      fb == Local(b)
      ra == MergeRemote(Sa, Ta, fb, pa, TRUE)
      rb == MergeRemote(st[b], tr[b], fa, pb, TRUE)
  IN [ra |-> ra, rb |-> rb]

PushPull(a, b) ==
  /\ a \in up /\ b \in up /\ a # b /\ b \in view[a] /\ {a, b} \notin ppdone
  /\ LET x == Exchange(a, b, st[a], tr[a], Peers(a), Peers(b))
     IN /\ st' = [st EXCEPT ![a] = x.ra.S, ![b] = x.rb.S]
        /\ tr' = [tr EXCEPT ![a] = x.ra.T, ![b] = x.rb.T]
        /\ last' = [op |-> "pushpull", a |-> a, b |-> b]
  /\ ppdone' = ppdone \cup {{a, b}}
  /\ UNCHANGED <<up, view, net, round, served, sweep, born, since, hurt, deferred, orphaned, used>>

(* A node stops (crash or leave).  Its volatile transport is gone; packets  *)
(* addressed to it are lost; the others' membership lags (Detect).          *)
Crash(n) ==
  /\ n \in up /\ up # {n}
  /\ up' = up \ {n}
  /\ tr' = [tr EXCEPT ![n] = T0]
  /\ net' = {pk \in net : pk.to # n}
  /\ served' = [served EXCEPT ![n] = {}]
  /\ ppdone' = {P \in ppdone : n \notin P}
  /\ LET X == {u \in Updates : \E k \in Keys : u \in st[n][k] /\ \E m \in up \ {n} : u \notin st[m][k]}
     IN hurt' = hurt \cup X /\ orphaned' = orphaned \cup X
  /\ used' = [used EXCEPT !.crash = @ + 1]
  /\ last' = [op |-> "crash", n |-> n]
  /\ UNCHANGED <<view, st, round, sweep, born, since, deferred>>

Detect(m, n) ==
  /\ m \in up /\ n \notin up /\ n \in view[m]
  /\ view' = [view EXCEPT ![m] = @ \ {n}]
  /\ last' = [op |-> "detect", m |-> m, n |-> n]
  /\ UNCHANGED <<up, st, tr, net, round, served, sweep, ppdone, born, since, hurt, deferred, orphaned, used>>

(* (Re-)start of n and Peer.Join through seed s: push/pull with join=true.  *)
(* keep: the states were restored from the snapshot, else they are empty.   *)
Join(n, s, keep) ==
  /\ n \notin up /\ s \in up
  /\ LET Sn == IF keep THEN st[n] ELSE [k \in Keys |-> {}]
         x == Exchange(n, s, Sn, T0, up, view[s] \cup {n})
     IN /\ st' = [st EXCEPT ![n] = x.ra.S, ![s] = x.rb.S]
        /\ tr' = [tr EXCEPT ![n] = x.ra.T, ![s] = x.rb.T]
        /\ last' = [op |-> "join", n |-> n, s |-> s, keep |-> keep, had |-> Sn]
  /\ up' = up \cup {n}
  /\ view' = [m \in Nodes |-> IF m = n THEN up ELSE IF m \in up THEN view[m] \cup {n} ELSE view[m]]
  /\ since' = [since EXCEPT ![n] = [r |-> round, s |-> sweep]]
  /\ ppdone' = ppdone \cup {{n, s}}
  /\ UNCHANGED <<net, round, served, sweep, born, hurt, deferred, orphaned, used>>

(* Bytes from outside the model presented to the receive path of n.         *)
InjectMsg(n, p) ==
  /\ n \in up
  /\ LET r == Notify(st[n], tr[n], p, Peers(n))
     IN /\ st' = [st EXCEPT ![n] = r.S]
        /\ tr' = [tr EXCEPT ![n] = r.T]
        /\ born' = Bear(st')
        /\ last' = [op |-> "inject", n |-> n, p |-> p]
  /\ used' = [used EXCEPT !.inject = @ + 1]
  /\ UNCHANGED <<up, view, net, round, served, sweep, ppdone, since, hurt, deferred, orphaned>>

InjectFull(n, fs) ==
  /\ n \in up
  /\ LET r == MergeRemote(st[n], tr[n], fs, Peers(n), TRUE)
         ref == MergeRemote(st[n], tr[n], fs, Peers(n), FALSE)
     IN /\ st' = [st EXCEPT ![n] = r.S]
        /\ tr' = [tr EXCEPT ![n] = r.T]
        /\ born' = Bear(st')
        /\ last' = [op |-> "injectfull", n |-> n, fs |-> fs, ref |-> ref.S, blocked |-> ref.S # r.S]
  /\ used' = [used EXCEPT !.inject = @ + 1]
  /\ UNCHANGED <<up, view, net, round, served, sweep, ppdone, since, hurt, deferred, orphaned>>

(* The gossip interval ends: every running node has gossiped to each of its *)
(* peers (or has nothing queued), every packet has arrived or is lost,      *)
(* every reliable send has returned.                                        *)
RoundDone ==
  /\ net = {}
  /\ \A n \in up : /\ ~Busy(tr[n])
                   /\ (tr[n].gq = {} \/ view[n] \subseteq served[n])
EndRound ==
  /\ RoundDone
  /\ round' = round + 1
  /\ served' = [n \in Nodes |-> {}]
  /\ last' = [op |-> "endround", r |-> round']
  /\ UNCHANGED <<up, view, st, tr, net, sweep, ppdone, born, since, hurt, deferred, orphaned, used>>

(* The push/pull sweep ends: every pair of running nodes has exchanged its  *)
(* full states since the last sweep ended (memberlist: each node picks a    *)
(* random partner every push/pull interval).                                *)
SweepDone == \A a \in up : \A b \in up \ {a} : {a, b} \in ppdone
EndSweep ==
  /\ SweepDone
  /\ sweep' = sweep + 1
  /\ ppdone' = {}
  /\ last' = [op |-> "endsweep", s |-> sweep']
  /\ UNCHANGED <<up, view, st, tr, net, round, served, born, since, hurt, deferred, orphaned, used>>

-----------------------------------------------------------------------------
(* Properties (C19)                                                         *)

Has(n, u) == u \in st[n][UKey[u]]

\* Delivered, bounded response on the gossip / reliable path: an update that met
\* no counted fault and was never left behind by a full packet is held, D rounds
\* after it was first held anywhere, by every node running since before then.
DeliveredFast ==
  \A u \in Updates \ Foreign : \A n \in up :
     (born[u].r > 0 /\ born[u].r + D <= round /\ since[n].r < born[u].r /\ u \notin hurt \cup deferred)
        => Has(n, u)

\* Delivered, bounded response whatever the faults: after one complete push/pull
\* sweep every update is held by every node that was running when it appeared,
\* unless its holder stopped before handing it on.
DeliveredSweep ==
  \A u \in Updates : \A n \in up :
     (born[u].s > 0 /\ born[u].s + 2 <= sweep /\ since[n].s <= born[u].s /\ u \notin orphaned)
        => Has(n, u)

Delivered == DeliveredFast /\ DeliveredSweep

\* Once the transport is quiet every non-delivery is accounted for: a lost
\* packet (the network's), the dropped counter, the failure counter, a stopped
\* node - or the update was left behind by a full packet (memberlist retires a
\* message after TxLimit transmissions whoever received it; no counter).
Quiet == /\ net = {}
         /\ \A n \in up : tr[n].gq = {} /\ \A k \in Keys : tr[n].ov[k].hand.pend = {} /\ tr[n].ov[k].oq = << >>
Accounted ==
  Quiet => \A u \in Updates \ Foreign : \A n \in up :
             (born[u].r > 0 /\ since[n].r < born[u].r /\ ~Has(n, u)) =>
                \/ u \in deferred
                \/ /\ u \in hurt
                   /\ \/ used.lose + used.crash > 0
                      \/ \E m \in Nodes : Dropped(tr[m]) + Failed(tr[m]) > 0

\* Delivered, eventually (checked under fairness of push/pull, no state constraint)
DeliveredEventually ==
  \A u \in Updates : \A m \in Nodes : \A n \in Nodes :
     (Has(m, u) /\ m \in up /\ n \in up) ~> (Has(n, u) \/ n \notin up \/ m \notin up)

\* a (re-)joining node obtains the complete state of the node it joins (and gives its own)
JoinGetsAll ==
  [][last'.op = "join" =>
       \A k \in Keys : /\ st[last'.s][k] \subseteq st'[last'.n][k]
                       /\ last'.had[k] \subseteq st'[last'.s][k]]_vars

\* bytes that are not understood change nothing; what is understood is merged,
\* whatever surrounds it
F5Gap(fs) ==   \* known gap: a part whose Merge fails precedes an understood part
  /\ fs.kind = "full"
  /\ \E i, j \in 1 .. Len(fs.parts) : i < j /\ Fails(fs.parts[i]) /\ Good(fs.parts[j])
InjectMsgHarmless ==
  last'.op = "inject" =>
     /\ \A m \in Nodes \ {last'.n} : st'[m] = st[m] /\ tr'[m] = tr[m]
     /\ (~Good(last'.p) => st' = st /\ tr' = tr)
     /\ (Good(last'.p) => /\ st'[last'.n][last'.p.key] = st[last'.n][last'.p.key] \cup last'.p.us
                          /\ \A k \in Keys \ {last'.p.key} : st'[last'.n][k] = st[last'.n][k])
BadInputHarmlessStrict ==
  [][/\ InjectMsgHarmless
     /\ (last'.op = "injectfull" =>
            /\ \A m \in Nodes \ {last'.n} : st'[m] = st[m] /\ tr'[m] = tr[m]
            /\ st'[last'.n] = last'.ref)]_vars
BadInputHarmless ==
  [][/\ InjectMsgHarmless
     /\ (last'.op = "injectfull" =>
            /\ \A m \in Nodes \ {last'.n} : st'[m] = st[m] /\ tr'[m] = tr[m]
            /\ \/ st'[last'.n] = last'.ref
               \/ /\ F5Gap(last'.fs)              \* known finding F5: nothing is corrupted,
                  /\ \A k \in Keys : /\ st[last'.n][k] \subseteq st'[last'.n][k]   \* but parts are blocked
                                     /\ st'[last'.n][k] \subseteq last'.ref[k])]_vars

\* a duplicate delivery changes nothing and gossips nothing
DuplicateSilent ==
  [][(last'.op = "deliver" /\ last'.new = 0) => (st' = st /\ tr' = tr)]_vars

\* states only grow
GrowOnly == [][\A n \in Nodes : \A k \in Keys : n \in up' /\ last'.op # "join" => st[n][k] \subseteq st'[n][k]]_vars

\* bookkeeping of the oversize path: the worker is idle only with an empty queue;
\* the queue never exceeds its capacity; nothing oversized is ever gossiped
OversizeSane ==
  \A n \in Nodes : /\ \A k \in Keys : /\ QLen(tr[n].ov[k].oq) <= OversizeCap
                                      /\ (tr[n].ov[k].hand.pend = {} => tr[n].ov[k].oq = << >>)
                   /\ \A q \in tr[n].gq : q.tx < TxLimit /\ ~Oversized(MLen(q.m))
=============================================================================
