------------------------------- MODULE Config -------------------------------
(***************************************************************************)
(* Property C17: what config.Load accepts, what an accepted configuration  *)
(* looks like, and what a reload may change (config/config.go,             *)
(* config/coordinator.go).                                                 *)
(*                                                                         *)
(* An abstract configuration is a record                                   *)
(*   [recv, mti, ti, routes, ibody, sec]                                   *)
(* recv   : the names of the `receivers:` list, in order (duplicates and   *)
(*          the empty name are possible values);                           *)
(* mti/ti : the names of `mute_time_intervals:` (deprecated section) and   *)
(*          `time_intervals:`, in order;                                   *)
(* routes : the routing tree, flattened in pre-order: routes[1] is the     *)
(*          root, routes[i].p < i is the index of the parent of node i     *)
(*          (0 for the root); siblings are ordered by index.               *)
(* ibody  : the bodies of named time intervals, a sequence of              *)
(*          [name, elems]; elems = the `time_intervals:` list of that      *)
(*          name, every element a record of TOKENS (what the text says):   *)
(*          [times, weekdays, dom, months, years, loc] (see "Time interval *)
(*          bodies" below).  A defined name without an entry has a body    *)
(*          the conformance harness fixes.                                 *)
(* sec    : the secret-bearing fields the document sets, a sequence of     *)
(*          [site, type, shape] (see "Secrets" below).                     *)
(* A route node is                                                         *)
(*   [p, recv, gbset, gb, gi, ri, m, cont, mute, active]                   *)
(* recv "" = no `receiver:` key; gbset = the `group_by:` key is present,   *)
(* gb its list (labels and the wildcard "..."); gi/ri = group_interval /   *)
(* repeat_interval in seconds, Absent = key not given, 0 = explicit zero;  *)
(* m = which matcher syntax the node uses ("none", "match", "match_re",    *)
(* "matchers"); cont = `continue: true`; mute/active = the lists of        *)
(* referenced time interval names.                                         *)
(*                                                                         *)
(* Two definitions of validity are given: WellFormed = the clauses of the  *)
(* property statement, Accepts = the checks of the code in the order and   *)
(* place where the code makes them (Route.UnmarshalYAML, Receiver /        *)
(* TimeInterval.UnmarshalYAML, Config.UnmarshalYAML, Load).  The model     *)
(* checker shows Accepts => WellFormed over all configurations in the      *)
(* bounds; the conformance harness shows real Load = Accepts.              *)
(*                                                                         *)
(* Below this abstraction (not modelled, exercised by the structural       *)
(* corruptions of harness/c17 TestRobust): the YAML encoding itself - null *)
(* list elements, explicit nulls, anchors, scalar types - and the bodies   *)
(* of matchers and inhibit rules.                                          *)
(*                                                                         *)
(* The coordinator (second half): the file on disk, the configuration      *)
(* the subscribers run with, and what the coordinator reports.             *)
(***************************************************************************)
EXTENDS Integers, Sequences, FiniteSets, TLC

CONSTANTS RecvNames,     \* universe of receiver names
          IntNames,      \* universe of time interval names
          GBLabels       \* universe of group_by label names

All    == "..."          \* the group_by wildcard
Absent == 0 - 1          \* timer key not present
DefGI  == 300            \* dispatch.DefaultRouteOpts.GroupInterval  (5m)
DefRI  == 14400          \* dispatch.DefaultRouteOpts.RepeatInterval (4h)

VARIABLES file,          \* the configuration text on disk (abstract configuration)
          defect,        \* "none", or the name of the defect injected into `file`
          edits,         \* number of validity-preserving edits applied to reach `file`
          running,       \* << >> or <<cfg>>: the configuration the subscribers applied last
          reported,      \* << >> or <<cfg>>: the configuration the coordinator's hash metric identifies
          handed,        \* << >> or <<cfg>>: what the last Reload handed to the subscribers
          last           \* result of the last operation

cvars == <<running, reported, handed>>
vars  == <<file, defect, edits, running, reported, handed, last>>

Range(s) == {s[i] : i \in DOMAIN s}
NoDup(s) == \A i, j \in DOMAIN s : s[i] = s[j] => i = j
LabelsOf(gb) == SelectSeq(gb, LAMBDA x : x # All)
HasAll(gb)   == \E i \in DOMAIN gb : gb[i] = All

Defined(c)     == Range(c.mti) \cup Range(c.ti)
Referenced(n)  == Range(n.mute) \cup Range(n.active)
Root(c)        == c.routes[1]

-----------------------------------------------------------------------------
(* The statement of C17, clause by clause.                                 *)

RootHasReceiver(c)  == Root(c).recv # ""
RootNoMatchers(c)   == Root(c).m = "none"
RootNoMute(c)       == Root(c).mute = << >>
RootNoActive(c)     == Root(c).active = << >>
ReceiversDefined(c) == \A i \in DOMAIN c.routes :
                          c.routes[i].recv # "" => c.routes[i].recv \in Range(c.recv)
IntervalsDefined(c) == \A i \in DOMAIN c.routes : Referenced(c.routes[i]) \subseteq Defined(c)
UniqueReceivers(c)  == NoDup(c.recv)
UniqueIntervals(c)  == NoDup(c.mti \o c.ti)
\* A repeated wildcard (`['...', '...']`) names no label twice: it is read as the
\* wildcard, not as a duplicate (the code accepts it; evidence counts it).
GroupByNoDup(c)     == \A i \in DOMAIN c.routes : NoDup(LabelsOf(c.routes[i].gb))
GroupByNoMix(c)     == \A i \in DOMAIN c.routes :
                          ~(HasAll(c.routes[i].gb) /\ Len(LabelsOf(c.routes[i].gb)) > 0)
TimersNonZero(c)    == \A i \in DOMAIN c.routes : c.routes[i].gi # 0 /\ c.routes[i].ri # 0

Clauses(c) == [ root_receiver     |-> RootHasReceiver(c),
                root_no_matchers  |-> RootNoMatchers(c),
                root_no_mute      |-> RootNoMute(c),
                root_no_active    |-> RootNoActive(c),
                receivers_defined |-> ReceiversDefined(c),
                intervals_defined |-> IntervalsDefined(c),
                unique_receivers  |-> UniqueReceivers(c),
                unique_intervals  |-> UniqueIntervals(c),
                group_by_no_dup   |-> GroupByNoDup(c),
                group_by_no_mix   |-> GroupByNoMix(c),
                timers_non_zero   |-> TimersNonZero(c) ]

WellFormed(c) == \A k \in DOMAIN Clauses(c) : Clauses(c)[k]

(* The options every node of the routing tree ends up with                 *)
(* (dispatch.NewRoute: a key that is absent inherits from the parent, the  *)
(* root from DefaultRouteOpts).                                            *)
Eff(c) ==
  LET N == c.routes
      recv[i \in DOMAIN N] == IF N[i].recv # "" \/ i = 1 THEN N[i].recv ELSE recv[N[i].p]
      gi[i \in DOMAIN N]   == IF N[i].gi # Absent THEN N[i].gi
                              ELSE IF i = 1 THEN DefGI ELSE gi[N[i].p]
      ri[i \in DOMAIN N]   == IF N[i].ri # Absent THEN N[i].ri
                              ELSE IF i = 1 THEN DefRI ELSE ri[N[i].p]
      \* Route.GroupBy is non-nil iff the key is present and the list is empty or has labels
      own(i)               == N[i].gbset /\ (Len(N[i].gb) = 0 \/ Len(LabelsOf(N[i].gb)) > 0)
      gbl[i \in DOMAIN N]  == IF own(i) THEN Range(LabelsOf(N[i].gb))
                              ELSE IF i = 1 THEN {} ELSE gbl[N[i].p]
      gba[i \in DOMAIN N]  == IF own(i) THEN FALSE
                              ELSE IF HasAll(N[i].gb) THEN TRUE
                              ELSE IF i = 1 THEN FALSE ELSE gba[N[i].p]
  \* (with the wildcard in force the label set is irrelevant: normalised to {})
  IN [i \in DOMAIN N |-> [recv |-> recv[i], gi |-> gi[i], ri |-> ri[i],
                          gb |-> IF gba[i] THEN {} ELSE gbl[i], gball |-> gba[i]]]

\* what the statement means for the tree the dispatcher runs with
EffWellFormed(c) ==
  \A i \in DOMAIN c.routes :
     /\ Eff(c)[i].recv \in Range(c.recv)
     /\ Eff(c)[i].gi > 0 /\ Eff(c)[i].ri > 0

-----------------------------------------------------------------------------
(* Time interval bodies (timeinterval/timeinterval.go).  Two layers:        *)
(* TOKENS are what the text says, VALUES what the loader stores.            *)
(*   time of day  token <<h, m>> ("HH:MM")        value minutes 0..1440     *)
(*   times        token [s, e] of time tokens      value [s, e] in minutes  *)
(*   weekdays     token [b, e, rng]                value [b, e], 0 = sunday *)
(*   days_of_month token [b, e, rng]               value [b, e], -1 = last  *)
(*   months       token [b, e, rng, names]         value [b, e], 1 = january*)
(*   years        token [b, e, rng]                value [b, e]             *)
(*   location     token = value = the zone name, "" = key absent            *)
(* rng = the text has the form "b:e" (otherwise a single member, b = e);    *)
(* names = months are written by name.  Parse = XxxOK + XxxVal is the       *)
(* loader (UnmarshalYAML of each type, comparisons transcribed), Print is   *)
(* the marshaller (MarshalYAML / MarshalText of each type).                 *)

\* Location.UnmarshalYAML asks time.LoadLocation; the tz database is abstracted by the
\* names the model uses ("Local" is the zone of the process)
Zones == {"UTC", "Local", "Europe/Paris", "Asia/Kolkata", "America/St_Johns"}

\* parseTime: validTimeRE = ^((([01][0-9])|(2[0-3])):[0-5][0-9])$|(^24:00$)
TimeTokOK(t) == \/ (t[1] \in 0..23 /\ t[2] \in 0..59)
                \/ (t[1] = 24 /\ t[2] = 0)
MinOf(t)     == t[1] * 60 + t[2]
\* TimeRange.UnmarshalYAML: `start >= end` is refused
TimesOK(k)   == TimeTokOK(k.s) /\ TimeTokOK(k.e) /\ MinOf(k.s) < MinOf(k.e)
TimesVal(k)  == [s |-> MinOf(k.s), e |-> MinOf(k.e)]
\* TimeRange.MarshalYAML: hours = minutes / 60 (1440 -> "24:00"), minutes = minutes % 60
TimeTokOf(n) == <<n \div 60, n % 60>>
TimesPrint(v) == [s |-> TimeTokOf(v.s), e |-> TimeTokOf(v.e)]

RangeVal(k)  == [b |-> k.b, e |-> k.e]
\* InclusiveRange.MarshalText / WeekdayRange.MarshalText: a single member iff Begin = End
RangePrint(v) == [b |-> v.b, e |-> v.e, rng |-> v.b # v.e]
\* WeekdayRange.UnmarshalYAML
WeekdayOK(k) == k.b <= k.e /\ k.b \in 0..6 /\ k.e \in 0..6
\* DayOfMonthRange.UnmarshalYAML (28 = the shortest month)
DomOK(k)     == /\ k.b # 0 /\ k.b >= 0 - 31 /\ k.b <= 31
                /\ k.e # 0 /\ k.e >= 0 - 31 /\ k.e <= 31
                /\ ~(k.b < 0 /\ k.e > 0)
                /\ (IF k.b < 0 THEN 28 + k.b ELSE k.b) <= (IF k.e < 0 THEN 28 + k.e ELSE k.e)
\* MonthRange.UnmarshalYAML: a name must be known; a NUMBER is not range-checked
\* (implementation layer: `months: ['13']` loads, matches no instant, and prints as '13')
MonthOK(k)   == k.b <= k.e /\ (k.names => (k.b \in 1..12 /\ k.e \in 1..12))
\* months are printed as numbers (MonthRange has no marshaller of its own)
MonthPrint(v) == [b |-> v.b, e |-> v.e, rng |-> v.b # v.e, names |-> FALSE]
\* YearRange.UnmarshalYAML
YearOK(k)    == k.b <= k.e
LocOK(l)     == l = "" \/ l \in Zones

EmptyElem == [times |-> << >>, weekdays |-> << >>, dom |-> << >>, months |-> << >>,
              years |-> << >>, loc |-> ""]

ElemOK(x) == /\ \A i \in DOMAIN x.times    : TimesOK(x.times[i])
             /\ \A i \in DOMAIN x.weekdays : WeekdayOK(x.weekdays[i])
             /\ \A i \in DOMAIN x.dom      : DomOK(x.dom[i])
             /\ \A i \in DOMAIN x.months   : MonthOK(x.months[i])
             /\ \A i \in DOMAIN x.years    : YearOK(x.years[i])
             /\ LocOK(x.loc)
ElemVal(x) == [times    |-> [i \in DOMAIN x.times    |-> TimesVal(x.times[i])],
               weekdays |-> [i \in DOMAIN x.weekdays |-> RangeVal(x.weekdays[i])],
               dom      |-> [i \in DOMAIN x.dom      |-> RangeVal(x.dom[i])],
               months   |-> [i \in DOMAIN x.months   |-> RangeVal(x.months[i])],
               years    |-> [i \in DOMAIN x.years    |-> RangeVal(x.years[i])],
               loc      |-> x.loc]
ElemPrint(v) == [times    |-> [i \in DOMAIN v.times    |-> TimesPrint(v.times[i])],
                 weekdays |-> [i \in DOMAIN v.weekdays |-> RangePrint(v.weekdays[i])],
                 dom      |-> [i \in DOMAIN v.dom      |-> RangePrint(v.dom[i])],
                 months   |-> [i \in DOMAIN v.months   |-> MonthPrint(v.months[i])],
                 years    |-> [i \in DOMAIN v.years    |-> RangePrint(v.years[i])],
                 loc      |-> v.loc]

BodiesOK(c)   == \A i \in DOMAIN c.ibody : \A j \in DOMAIN c.ibody[i].elems : ElemOK(c.ibody[i].elems[j])
BodyVals(c)   == [i \in DOMAIN c.ibody |->
                    [name  |-> c.ibody[i].name,
                     elems |-> [j \in DOMAIN c.ibody[i].elems |-> ElemVal(c.ibody[i].elems[j])]]]
\* the bodies as the textual form of the LOADED configuration shows them
PrintedBodies(c) == [i \in DOMAIN c.ibody |->
                       [name  |-> c.ibody[i].name,
                        elems |-> [j \in DOMAIN c.ibody[i].elems |-> ElemPrint(ElemVal(c.ibody[i].elems[j]))]]]

-----------------------------------------------------------------------------
(* Secrets.  A document sets secret-bearing fields: [site, type, shape].    *)
(* site = the field (one of the constant SecretSites of the model, see      *)
(* spec/mc/Sites_Config.tla), type = the type that keeps it; the shapes are *)
(* the values that take different paths through loader and marshaller:      *)
(*   "plain"      a value without template syntax                           *)
(*   "templated"  a value with `{{ ... }}` inside (SecretTemplateURL skips  *)
(*                URL validation for these; pagerduty, webhook, ... expand  *)
(*                them per notification)                                    *)
(*   "file"       the field is absent, the sibling `<name>_file` names a    *)
(*                file (the path is not a secret)                           *)
(*   "empty"      the field is given as the empty string                    *)
(* Implementation layer: MarshalYAML of every secret type (commoncfg.Secret,*)
(* SecretURL, SecretTemplateURL, values or pointers) prints the mask for    *)
(* ANY non-empty value - it does not look at the value - and nothing for    *)
(* the empty value.                                                         *)

Shapes == {"plain", "templated", "file", "empty"}
Mask   == "<secret>"
Omitted == "omitted"

HasValue(a)      == a.shape \in {"plain", "templated"}
SecretPrinted(a) == IF HasValue(a) THEN Mask ELSE Omitted
\* the configuration has no secrets: the scope of the round-trip clause
SecretFree(c)    == \A i \in DOMAIN c.sec : ~HasValue(c.sec[i])
\* the statement: the textual form contains no secret value
NoSecretPrinted(c) == \A i \in DOMAIN c.sec : HasValue(c.sec[i]) => SecretPrinted(c.sec[i]) = Mask

-----------------------------------------------------------------------------
(* The checks of the code, where the code makes them.                      *)

\* Route.UnmarshalYAML (every node, root included)
RouteOK(n) == /\ ~(Len(LabelsOf(n.gb)) > 0 /\ HasAll(n.gb))
              /\ NoDup(LabelsOf(n.gb))
              /\ n.gi # 0
              /\ n.ri # 0
\* Receiver.UnmarshalYAML, TimeInterval.UnmarshalYAML, MuteTimeInterval.UnmarshalYAML
NamesOK(c) == /\ \A i \in DOMAIN c.recv : c.recv[i] # ""
              /\ \A i \in DOMAIN c.mti : c.mti[i] # ""
              /\ \A i \in DOMAIN c.ti : c.ti[i] # ""
\* Config.UnmarshalYAML
TopOK(c) == /\ NoDup(c.recv)
            /\ Root(c).recv # ""
            /\ Root(c).m = "none"
            /\ Root(c).mute = << >>
            /\ Root(c).active = << >>
            /\ \A i \in DOMAIN c.routes :                       \* checkReceiver
                  c.routes[i].recv = "" \/ c.routes[i].recv \in Range(c.recv)
            /\ NoDup(c.mti \o c.ti)
            /\ \A i \in DOMAIN c.routes :                       \* checkTimeInterval
                  \A t \in Referenced(c.routes[i]) : t \in Defined(c)
\* Load
LoadOK(c) == ~Root(c).cont

Accepts(c) == /\ \A i \in DOMAIN c.routes : RouteOK(c.routes[i])
              /\ NamesOK(c)
              /\ BodiesOK(c)          \* UnmarshalYAML of the time interval types
              /\ TopOK(c)
              /\ LoadOK(c)

-----------------------------------------------------------------------------
(* The textual form (Config.String(), served by the status API) and the    *)
(* round trip.  Implementation layer: the marshaller omits empty values    *)
(* (`omitempty`), so an explicit empty `group_by: []` is not printed.      *)

Printed(c) == [c EXCEPT !.routes =
                 [i \in DOMAIN c.routes |->
                    IF c.routes[i].gbset /\ c.routes[i].gb = << >>
                      THEN [c.routes[i] EXCEPT !.gbset = FALSE] ELSE c.routes[i]],
               !.ibody = PrintedBodies(c)]

\* Known gap C17-RT-EMPTY-SECRET-POINTER (open finding), implementation layer: a secret kept
\* behind a pointer (*Secret: the rocketchat token and token_id) that is given as the empty
\* string is a non-nil pointer to "": the loader takes the field as configured, the marshaller
\* prints null for it, and the printed form reads back as not configured (refused where the
\* field or its `_file` sibling is required).
EmptySecretPointerGap(c) ==
  \E i \in DOMAIN c.sec : c.sec[i].type = "*Secret" /\ c.sec[i].shape = "empty"

\* the statement: the printed form loads back to an equivalent routing tree and to
\* equivalent time intervals (the same values)
RoundTripOK(c) == /\ Accepts(Printed(c))
                  /\ Eff(Printed(c)) = Eff(c)
                  /\ BodyVals(Printed(c)) = BodyVals(c)
                  /\ ~EmptySecretPointerGap(c)
                  /\ [i \in DOMAIN c.routes |-> [c.routes[i] EXCEPT !.gbset = FALSE, !.gb = << >>]]
                       = [i \in DOMAIN c.routes |-> [Printed(c).routes[i] EXCEPT !.gbset = FALSE, !.gb = << >>]]

\* Known gap C17-RT-EMPTY-GROUPBY (open finding): a node other than the root gives an
\* explicit empty group_by while the grouping it would inherit is not empty; the printed
\* form drops the key and the node (and the nodes inheriting from it) group differently.
EmptyGroupByGap(c) ==
  \E i \in DOMAIN c.routes :
     /\ i > 1
     /\ c.routes[i].gbset /\ c.routes[i].gb = << >>
     /\ (Eff(c)[c.routes[i].p].gball \/ Eff(c)[c.routes[i].p].gb # {})

-----------------------------------------------------------------------------
(* Construction of configurations: validity-preserving edits and the       *)
(* catalogue of defects.                                                   *)

Node(p) == [p |-> p, recv |-> "", gbset |-> FALSE, gb |-> << >>, gi |-> Absent, ri |-> Absent,
            m |-> IF p = 0 THEN "none" ELSE "matchers", cont |-> FALSE,
            mute |-> << >>, active |-> << >>]

Base(r) == [recv |-> <<r>>, mti |-> << >>, ti |-> << >>,
            routes |-> <<[Node(0) EXCEPT !.recv = r]>>,
            ibody |-> << >>, sec |-> << >>]

SetNode(c, i, n) == [c EXCEPT !.routes[i] = n]

Depth(c, i) == LET d[k \in DOMAIN c.routes] == IF k = 1 THEN 0 ELSE 1 + d[c.routes[k].p] IN d[i]

\* --- validity-preserving edits
AddRecv(c, r)      == [c EXCEPT !.recv = Append(@, r)]
AddInt(c, sec, t)  == IF sec = "mti" THEN [c EXCEPT !.mti = Append(@, t)]
                                     ELSE [c EXCEPT !.ti = Append(@, t)]
AddChild(c, p)     == [c EXCEPT !.routes = Append(@, Node(p))]
SetRecv(c, i, r)   == [c EXCEPT !.routes[i].recv = r]
SetGB(c, i, g)     == [c EXCEPT !.routes[i].gbset = TRUE, !.routes[i].gb = g]
SetGI(c, i, v)     == [c EXCEPT !.routes[i].gi = v]
SetRI(c, i, v)     == [c EXCEPT !.routes[i].ri = v]
SetM(c, i, k)      == [c EXCEPT !.routes[i].m = k]
SetCont(c, i)      == [c EXCEPT !.routes[i].cont = TRUE]
AddMute(c, i, t)   == [c EXCEPT !.routes[i].mute = Append(@, t)]
AddActive(c, i, t) == [c EXCEPT !.routes[i].active = Append(@, t)]
\* give the named interval a body of its own (one empty element: matches every instant)
AddBody(c, t)      == [c EXCEPT !.ibody = Append(@, [name |-> t, elems |-> <<EmptyElem>>])]
\* the body under construction is shared by every interval that has one
SetElems(c, E)     == [c EXCEPT !.ibody = [i \in DOMAIN @ |-> [@[i] EXCEPT !.elems = E]]]
AddSecret(c, a)    == [c EXCEPT !.sec = Append(@, a)]

-----------------------------------------------------------------------------
(* The coordinator (config/coordinator.go): Reload loads the file; a load  *)
(* error or a failing subscriber rejects the reload.                       *)

CoordInit == /\ running = << >>
             /\ reported = << >>
             /\ handed = << >>

\* the editor replaces the file
WriteFile(c, d) ==
  /\ file' = c
  /\ defect' = d
  /\ last' = [op |-> "write", valid |-> Accepts(c)]
  /\ UNCHANGED <<edits, running, reported, handed>>

Reload(subFails) ==
  /\ IF ~Accepts(file)
       THEN /\ last' = [op |-> "reload", sub_fails |-> subFails, result |-> "loadError"]
            /\ handed' = << >>
            /\ UNCHANGED <<running, reported>>
       ELSE IF subFails
       THEN /\ last' = [op |-> "reload", sub_fails |-> subFails, result |-> "subscriberError"]
            /\ handed' = <<file>>
            /\ UNCHANGED <<running, reported>>
       ELSE /\ last' = [op |-> "reload", sub_fails |-> subFails, result |-> "ok"]
            /\ handed' = <<file>>
            /\ running' = <<file>>
            /\ reported' = <<file>>
  /\ UNCHANGED <<file, defect, edits>>

-----------------------------------------------------------------------------
(* Properties.                                                             *)

\* Whatever the loader accepts is well formed, also in the inherited options.
AcceptedWellFormed == Accepts(file) => (WellFormed(file) /\ EffWellFormed(file))
\* The edits keep a configuration acceptable; every catalogue defect makes it unacceptable.
EditsAccepted   == defect = "none" => Accepts(file)
DefectsRejected == defect # "none" => ~Accepts(file)

\* The printed form of an accepted configuration loads back to an equivalent tree
\* (outside the known gap; the gap is exact: inside it the round trip does differ).
\* The clause is about configurations without secrets.
RoundTrip      == (Accepts(file) /\ SecretFree(file)) =>
                     (RoundTripOK(file) \/ EmptyGroupByGap(file) \/ EmptySecretPointerGap(file))
RoundTripExact == (Accepts(file) /\ (EmptyGroupByGap(file) \/ EmptySecretPointerGap(file))) => ~RoundTripOK(file)
\* The textual form of an accepted configuration shows no secret value.
NoSecretLeak   == Accepts(file) => NoSecretPrinted(file)

\* A rejected reload leaves the running configuration in force, and the coordinator
\* goes on reporting it.
RejectedKeepsRunning ==
  [][(last'.op = "reload" /\ last'.result # "ok") => (running' = running /\ reported' = reported)]_vars
AcceptedIsApplied ==
  [][(last'.op = "reload" /\ last'.result = "ok") => (running' = <<file>> /\ reported' = <<file>>)]_vars
OnlyReloadChanges ==
  [][last'.op # "reload" => (running' = running /\ reported' = reported)]_vars
ReportedIsRunning == reported = running
RunningWellFormed == running # << >> => (Accepts(running[1]) /\ WellFormed(running[1]) /\ EffWellFormed(running[1]))
NoCallOnLoadError == (last.op = "reload" /\ last.result = "loadError") => handed = << >>

=============================================================================
