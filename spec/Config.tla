------------------------------- MODULE Config -------------------------------
(***************************************************************************)
(* Property C17: what config.Load accepts, what an accepted configuration  *)
(* looks like, and what a reload may change (config/config.go,             *)
(* config/coordinator.go).                                                 *)
(*                                                                         *)
(* An abstract configuration is a record                                   *)
(*   [recv, mti, ti, routes]                                               *)
(* recv   : the names of the `receivers:` list, in order (duplicates and   *)
(*          the empty name are possible values);                           *)
(* mti/ti : the names of `mute_time_intervals:` (deprecated section) and   *)
(*          `time_intervals:`, in order;                                   *)
(* routes : the routing tree, flattened in pre-order: routes[1] is the     *)
(*          root, routes[i].p < i is the index of the parent of node i     *)
(*          (0 for the root); siblings are ordered by index.               *)
(* A route node is                                                         *)
(*   [p, recv, gbset, gb, gi, ri, m, cont, mute, active]                   *)
(* recv "" = no `receiver:` key; gbset = the `group_by:` key is present,   *)
(* gb its list (labels and the wildcard "..."); gi/ri = group_interval /   *)
(* repeat_interval in seconds, Absent = key not given, 0 = explicit zero;  *)
(* m = which matcher syntax the node uses ("none", "match", "match_re",    *)
(* "matchers"); cont = `continue: true`; mute/active = the lists of        *)
(* referenced time interval names.                                         *)
(*                                                                         *)
(* Two definitions of validity are given: WellFormed = the clauses of the  *)
(* property statement, Accepts = the checks of the code in the order and   *)
(* place where the code makes them (Route.UnmarshalYAML, Receiver /        *)
(* TimeInterval.UnmarshalYAML, Config.UnmarshalYAML, Load).  The model     *)
(* checker shows Accepts => WellFormed over all configurations in the      *)
(* bounds; the conformance harness shows real Load = Accepts.              *)
(*                                                                         *)
(* Below this abstraction (not modelled, exercised by the structural       *)
(* corruptions of harness/c17 TestRobust): the YAML encoding itself - null *)
(* list elements, explicit nulls, anchors, scalar types - and the bodies   *)
(* of matchers, inhibit rules and time intervals.                          *)
(*                                                                         *)
(* The coordinator (second half): the file on disk, the configuration      *)
(* the subscribers run with, and what the coordinator reports.             *)
(***************************************************************************)
EXTENDS Integers, Sequences, FiniteSets, TLC

CONSTANTS RecvNames,     \* universe of receiver names
          IntNames,      \* universe of time interval names
          GBLabels       \* universe of group_by label names

All    == "..."          \* the group_by wildcard
Absent == 0 - 1          \* timer key not present
DefGI  == 300            \* dispatch.DefaultRouteOpts.GroupInterval  (5m)
DefRI  == 14400          \* dispatch.DefaultRouteOpts.RepeatInterval (4h)

VARIABLES file,          \* the configuration text on disk (abstract configuration)
          defect,        \* "none", or the name of the defect injected into `file`
          edits,         \* number of validity-preserving edits applied to reach `file`
          running,       \* << >> or <<cfg>>: the configuration the subscribers applied last
          reported,      \* << >> or <<cfg>>: the configuration the coordinator's hash metric identifies
          handed,        \* << >> or <<cfg>>: what the last Reload handed to the subscribers
          last           \* result of the last operation

cvars == <<running, reported, handed>>
vars  == <<file, defect, edits, running, reported, handed, last>>

Range(s) == {s[i] : i \in DOMAIN s}
NoDup(s) == \A i, j \in DOMAIN s : s[i] = s[j] => i = j
LabelsOf(gb) == SelectSeq(gb, LAMBDA x : x # All)
HasAll(gb)   == \E i \in DOMAIN gb : gb[i] = All

Defined(c)     == Range(c.mti) \cup Range(c.ti)
Referenced(n)  == Range(n.mute) \cup Range(n.active)
Root(c)        == c.routes[1]

-----------------------------------------------------------------------------
(* The statement of C17, clause by clause.                                 *)

RootHasReceiver(c)  == Root(c).recv # ""
RootNoMatchers(c)   == Root(c).m = "none"
RootNoMute(c)       == Root(c).mute = << >>
RootNoActive(c)     == Root(c).active = << >>
ReceiversDefined(c) == \A i \in DOMAIN c.routes :
                          c.routes[i].recv # "" => c.routes[i].recv \in Range(c.recv)
IntervalsDefined(c) == \A i \in DOMAIN c.routes : Referenced(c.routes[i]) \subseteq Defined(c)
UniqueReceivers(c)  == NoDup(c.recv)
UniqueIntervals(c)  == NoDup(c.mti \o c.ti)
\* A repeated wildcard (`['...', '...']`) names no label twice: it is read as the
\* wildcard, not as a duplicate (the code accepts it; evidence counts it).
GroupByNoDup(c)     == \A i \in DOMAIN c.routes : NoDup(LabelsOf(c.routes[i].gb))
GroupByNoMix(c)     == \A i \in DOMAIN c.routes :
                          ~(HasAll(c.routes[i].gb) /\ Len(LabelsOf(c.routes[i].gb)) > 0)
TimersNonZero(c)    == \A i \in DOMAIN c.routes : c.routes[i].gi # 0 /\ c.routes[i].ri # 0

Clauses(c) == [ root_receiver     |-> RootHasReceiver(c),
                root_no_matchers  |-> RootNoMatchers(c),
                root_no_mute      |-> RootNoMute(c),
                root_no_active    |-> RootNoActive(c),
                receivers_defined |-> ReceiversDefined(c),
                intervals_defined |-> IntervalsDefined(c),
                unique_receivers  |-> UniqueReceivers(c),
                unique_intervals  |-> UniqueIntervals(c),
                group_by_no_dup   |-> GroupByNoDup(c),
                group_by_no_mix   |-> GroupByNoMix(c),
                timers_non_zero   |-> TimersNonZero(c) ]

WellFormed(c) == \A k \in DOMAIN Clauses(c) : Clauses(c)[k]

(* The options every node of the routing tree ends up with                 *)
(* (dispatch.NewRoute: a key that is absent inherits from the parent, the  *)
(* root from DefaultRouteOpts).                                            *)
Eff(c) ==
  LET N == c.routes
      recv[i \in DOMAIN N] == IF N[i].recv # "" \/ i = 1 THEN N[i].recv ELSE recv[N[i].p]
      gi[i \in DOMAIN N]   == IF N[i].gi # Absent THEN N[i].gi
                              ELSE IF i = 1 THEN DefGI ELSE gi[N[i].p]
      ri[i \in DOMAIN N]   == IF N[i].ri # Absent THEN N[i].ri
                              ELSE IF i = 1 THEN DefRI ELSE ri[N[i].p]
      \* Route.GroupBy is non-nil iff the key is present and the list is empty or has labels
      own(i)               == N[i].gbset /\ (Len(N[i].gb) = 0 \/ Len(LabelsOf(N[i].gb)) > 0)
      gbl[i \in DOMAIN N]  == IF own(i) THEN Range(LabelsOf(N[i].gb))
                              ELSE IF i = 1 THEN {} ELSE gbl[N[i].p]
      gba[i \in DOMAIN N]  == IF own(i) THEN FALSE
                              ELSE IF HasAll(N[i].gb) THEN TRUE
                              ELSE IF i = 1 THEN FALSE ELSE gba[N[i].p]
  \* (with the wildcard in force the label set is irrelevant: normalised to {})
  IN [i \in DOMAIN N |-> [recv |-> recv[i], gi |-> gi[i], ri |-> ri[i],
                          gb |-> IF gba[i] THEN {} ELSE gbl[i], gball |-> gba[i]]]

\* what the statement means for the tree the dispatcher runs with
EffWellFormed(c) ==
  \A i \in DOMAIN c.routes :
     /\ Eff(c)[i].recv \in Range(c.recv)
     /\ Eff(c)[i].gi > 0 /\ Eff(c)[i].ri > 0

-----------------------------------------------------------------------------
(* The checks of the code, where the code makes them.                      *)

\* Route.UnmarshalYAML (every node, root included)
RouteOK(n) == /\ ~(Len(LabelsOf(n.gb)) > 0 /\ HasAll(n.gb))
              /\ NoDup(LabelsOf(n.gb))
              /\ n.gi # 0
              /\ n.ri # 0
\* Receiver.UnmarshalYAML, TimeInterval.UnmarshalYAML, MuteTimeInterval.UnmarshalYAML
NamesOK(c) == /\ \A i \in DOMAIN c.recv : c.recv[i] # ""
              /\ \A i \in DOMAIN c.mti : c.mti[i] # ""
              /\ \A i \in DOMAIN c.ti : c.ti[i] # ""
\* Config.UnmarshalYAML
TopOK(c) == /\ NoDup(c.recv)
            /\ Root(c).recv # ""
            /\ Root(c).m = "none"
            /\ Root(c).mute = << >>
            /\ Root(c).active = << >>
            /\ \A i \in DOMAIN c.routes :                       \* checkReceiver
                  c.routes[i].recv = "" \/ c.routes[i].recv \in Range(c.recv)
            /\ NoDup(c.mti \o c.ti)
            /\ \A i \in DOMAIN c.routes :                       \* checkTimeInterval
                  \A t \in Referenced(c.routes[i]) : t \in Defined(c)
\* Load
LoadOK(c) == ~Root(c).cont

Accepts(c) == /\ \A i \in DOMAIN c.routes : RouteOK(c.routes[i])
              /\ NamesOK(c)
              /\ TopOK(c)
              /\ LoadOK(c)

-----------------------------------------------------------------------------
(* The textual form (Config.String(), served by the status API) and the    *)
(* round trip.  Implementation layer: the marshaller omits empty values    *)
(* (`omitempty`), so an explicit empty `group_by: []` is not printed.      *)

Printed(c) == [c EXCEPT !.routes =
                 [i \in DOMAIN c.routes |->
                    IF c.routes[i].gbset /\ c.routes[i].gb = << >>
                      THEN [c.routes[i] EXCEPT !.gbset = FALSE] ELSE c.routes[i]]]

\* the statement: the printed form loads back to an equivalent routing tree
RoundTripOK(c) == /\ Accepts(Printed(c))
                  /\ Eff(Printed(c)) = Eff(c)
                  /\ [i \in DOMAIN c.routes |-> [c.routes[i] EXCEPT !.gbset = FALSE, !.gb = << >>]]
                       = [i \in DOMAIN c.routes |-> [Printed(c).routes[i] EXCEPT !.gbset = FALSE, !.gb = << >>]]

\* Known gap C17-RT-EMPTY-GROUPBY (open finding): a node other than the root gives an
\* explicit empty group_by while the grouping it would inherit is not empty; the printed
\* form drops the key and the node (and the nodes inheriting from it) group differently.
EmptyGroupByGap(c) ==
  \E i \in DOMAIN c.routes :
     /\ i > 1
     /\ c.routes[i].gbset /\ c.routes[i].gb = << >>
     /\ (Eff(c)[c.routes[i].p].gball \/ Eff(c)[c.routes[i].p].gb # {})

-----------------------------------------------------------------------------
(* Construction of configurations: validity-preserving edits and the       *)
(* catalogue of defects.                                                   *)

Node(p) == [p |-> p, recv |-> "", gbset |-> FALSE, gb |-> << >>, gi |-> Absent, ri |-> Absent,
            m |-> IF p = 0 THEN "none" ELSE "matchers", cont |-> FALSE,
            mute |-> << >>, active |-> << >>]

Base(r) == [recv |-> <<r>>, mti |-> << >>, ti |-> << >>,
            routes |-> <<[Node(0) EXCEPT !.recv = r]>>]

SetNode(c, i, n) == [c EXCEPT !.routes[i] = n]

Depth(c, i) == LET d[k \in DOMAIN c.routes] == IF k = 1 THEN 0 ELSE 1 + d[c.routes[k].p] IN d[i]

\* --- validity-preserving edits
AddRecv(c, r)      == [c EXCEPT !.recv = Append(@, r)]
AddInt(c, sec, t)  == IF sec = "mti" THEN [c EXCEPT !.mti = Append(@, t)]
                                     ELSE [c EXCEPT !.ti = Append(@, t)]
AddChild(c, p)     == [c EXCEPT !.routes = Append(@, Node(p))]
SetRecv(c, i, r)   == [c EXCEPT !.routes[i].recv = r]
SetGB(c, i, g)     == [c EXCEPT !.routes[i].gbset = TRUE, !.routes[i].gb = g]
SetGI(c, i, v)     == [c EXCEPT !.routes[i].gi = v]
SetRI(c, i, v)     == [c EXCEPT !.routes[i].ri = v]
SetM(c, i, k)      == [c EXCEPT !.routes[i].m = k]
SetCont(c, i)      == [c EXCEPT !.routes[i].cont = TRUE]
AddMute(c, i, t)   == [c EXCEPT !.routes[i].mute = Append(@, t)]
AddActive(c, i, t) == [c EXCEPT !.routes[i].active = Append(@, t)]

-----------------------------------------------------------------------------
(* The coordinator (config/coordinator.go): Reload loads the file; a load  *)
(* error or a failing subscriber rejects the reload.                       *)

CoordInit == /\ running = << >>
             /\ reported = << >>
             /\ handed = << >>

\* the editor replaces the file
WriteFile(c, d) ==
  /\ file' = c
  /\ defect' = d
  /\ last' = [op |-> "write", valid |-> Accepts(c)]
  /\ UNCHANGED <<edits, running, reported, handed>>

Reload(subFails) ==
  /\ IF ~Accepts(file)
       THEN /\ last' = [op |-> "reload", sub_fails |-> subFails, result |-> "loadError"]
            /\ handed' = << >>
            /\ UNCHANGED <<running, reported>>
       ELSE IF subFails
       THEN /\ last' = [op |-> "reload", sub_fails |-> subFails, result |-> "subscriberError"]
            /\ handed' = <<file>>
            /\ UNCHANGED <<running, reported>>
       ELSE /\ last' = [op |-> "reload", sub_fails |-> subFails, result |-> "ok"]
            /\ handed' = <<file>>
            /\ running' = <<file>>
            /\ reported' = <<file>>
  /\ UNCHANGED <<file, defect, edits>>

-----------------------------------------------------------------------------
(* Properties.                                                             *)

\* Whatever the loader accepts is well formed, also in the inherited options.
AcceptedWellFormed == Accepts(file) => (WellFormed(file) /\ EffWellFormed(file))
\* The edits keep a configuration acceptable; every catalogue defect makes it unacceptable.
EditsAccepted   == defect = "none" => Accepts(file)
DefectsRejected == defect # "none" => ~Accepts(file)

\* The printed form of an accepted configuration loads back to an equivalent tree
\* (outside the known gap; the gap is exact: inside it the round trip does differ).
RoundTrip      == Accepts(file) => (RoundTripOK(file) \/ EmptyGroupByGap(file))
RoundTripExact == (Accepts(file) /\ EmptyGroupByGap(file)) => ~RoundTripOK(file)

\* A rejected reload leaves the running configuration in force, and the coordinator
\* goes on reporting it.
RejectedKeepsRunning ==
  [][(last'.op = "reload" /\ last'.result # "ok") => (running' = running /\ reported' = reported)]_vars
AcceptedIsApplied ==
  [][(last'.op = "reload" /\ last'.result = "ok") => (running' = <<file>> /\ reported' = <<file>>)]_vars
OnlyReloadChanges ==
  [][last'.op # "reload" => (running' = running /\ reported' = reported)]_vars
ReportedIsRunning == reported = running
RunningWellFormed == running # << >> => (Accepts(running[1]) /\ WellFormed(running[1]) /\ EffWellFormed(running[1]))
NoCallOnLoadError == (last.op = "reload" /\ last.result = "loadError") => handed = << >>

=============================================================================
