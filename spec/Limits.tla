------------------------------- MODULE Limits -------------------------------
(***************************************************************************)
(* The GET concurrency limiter of api/api.go (limitHandler) together with   *)
(* the request timeout (Options.Timeout, --web.timeout).                    *)
(*                                                                         *)
(* Limiter: a buffered channel of K slots.  A GET takes a slot with a       *)
(* non-blocking send (select ... default) before its handler runs and gives *)
(* it back when the handler RETURNS; when no slot is free the request is    *)
(* answered 503 and alertmanager_http_concurrency_limit_exceeded_total is   *)
(* incremented.  Requests with any other method bypass the limiter.         *)
(*                                                                         *)
(* Timeout: with T > 0 the whole chain (limiter + handler) runs inside      *)
(* http.TimeoutHandler.  T ticks after its arrival a request that has not   *)
(* been answered is answered 503 by the timeout handler: the request ENDS   *)
(* for the client, but the goroutine that runs limiter + handler goes on    *)
(* until the handler returns.  So a request can end in two independent      *)
(* ways, and the two sets below differ:                                     *)
(*   waiting  - GETs whose client has not been answered yet                 *)
(*   running  - GETs whose handler body is executing                        *)
(* waiting \subseteq running; a timed-out request is in running \ waiting.  *)
(* The statement ("GETs beyond the configured concurrency are refused") is  *)
(* about the work in progress, i.e. about `running`: on the unchanged tree  *)
(* the limiter sits INSIDE the timeout handler, so the slot is held until   *)
(* the handler body returns, whatever the client was told meanwhile.        *)
(*                                                                         *)
(* One action per step of a request that the limiter distinguishes:         *)
(* GetArrive (acquire or refuse), GetFinish (the handler returns: release,  *)
(* answer 200 if the client still waits), GetQuick (a GET whose handler     *)
(* does not block: acquire, serve, release, or refuse), Post, and Tick (one *)
(* unit of time passes; the requests that have waited T units time out).    *)
(***************************************************************************)
EXTENDS Integers, FiniteSets, TLC

CONSTANTS K,        \* configured concurrency (Options.Concurrency, >= 1)
          T,        \* request timeout in ticks (Options.Timeout; 0 = no timeout)
          Reqs      \* identities of the GET requests that park inside their handler

VARIABLES running,   \* GETs inside their handler body (each holds a slot)
          waiting,   \* GETs whose client has not been answered yet (subset of running)
          age,       \* waiting request -> ticks since its arrival (< T when T > 0)
          answered,  \* parked requests whose client was answered (200, 503 limit or 503 timeout)
          exceeded,  \* alertmanager_http_concurrency_limit_exceeded_total
          last       \* observation: last operation and reply

vars == <<running, waiting, age, answered, exceeded, last>>

Init == /\ running = {} /\ waiting = {} /\ age = [r \in {} |-> 0]
        /\ answered = {} /\ exceeded = 0 /\ last = [op |-> "init"]

Full == Cardinality(running) >= K     \* select: the send on the semaphore would block

Unused == (Reqs \ running) \ answered

GetArrive(r) ==
  /\ r \in Unused
  /\ IF Full
       THEN /\ exceeded' = exceeded + 1
            /\ answered' = answered \cup {r}
            /\ last' = [op |-> "get", r |-> r, code |-> 503]
            /\ UNCHANGED <<running, waiting, age>>
       ELSE /\ running' = running \cup {r}
            /\ waiting' = waiting \cup {r}
            /\ age' = [x \in waiting \cup {r} |-> IF x = r THEN 0 ELSE age[x]]
            /\ last' = [op |-> "get", r |-> r, code |-> 0]      \* in its handler, no reply yet
            /\ UNCHANGED <<answered, exceeded>>

\* the handler body of r returns: the slot is given back; the client is answered 200 unless
\* the timeout answered it before (code 0: nobody is listening any more)
GetFinish(r) ==
  /\ r \in running
  /\ running' = running \ {r}
  /\ waiting' = waiting \ {r}
  /\ age' = [x \in waiting \ {r} |-> age[x]]
  /\ answered' = answered \cup {r}
  /\ last' = [op |-> "finish", r |-> r, code |-> IF r \in waiting THEN 200 ELSE 0]
  /\ UNCHANGED exceeded

GetQuick ==
  /\ IF Full THEN /\ exceeded' = exceeded + 1
                  /\ last' = [op |-> "getquick", code |-> 503]
             ELSE /\ last' = [op |-> "getquick", code |-> 200]
                  /\ UNCHANGED exceeded
  /\ UNCHANGED <<running, waiting, age, answered>>

Post == /\ last' = [op |-> "post", code |-> 200]
        /\ UNCHANGED <<running, waiting, age, answered, exceeded>>

\* one unit of time: the clients that have waited T units are answered 503 by the timeout
\* handler; their handler bodies keep running and keep their slots
Tick ==
  /\ T > 0
  /\ LET out == {r \in waiting : age[r] + 1 >= T} IN
       /\ waiting' = waiting \ out
       /\ age' = [x \in waiting \ out |-> age[x] + 1]
       /\ answered' = answered \cup out
       /\ last' = [op |-> "tick", out |-> out, code |-> 503]
  /\ UNCHANGED <<running, exceeded>>

-----------------------------------------------------------------------------
(* Property C18, concurrency clause - stated over the handlers that RUN      *)
TypeOK == /\ waiting \subseteq running /\ DOMAIN age = waiting
          /\ \A r \in waiting : age[r] >= 0 /\ (T > 0 => age[r] < T)
\* never more than K GETs are being processed
SlotsBounded == Cardinality(running) <= K
IsGet == last'.op \in {"get", "getquick"}
\* GETs beyond the configured concurrency are refused with 503 - and only those
RefusedIffFull == [][IsGet => ((last'.code = 503) = (Cardinality(running) >= K))]_vars
\* every refusal is counted (a timeout is not a refusal of the limiter)
RefusalCounted == [][exceeded' = exceeded + (IF IsGet /\ last'.code = 503 THEN 1 ELSE 0)]_vars
\* POSTs are unaffected
PostUnaffected == [][last'.op = "post" => (last'.code = 200 /\ UNCHANGED <<running, waiting, age, answered, exceeded>>)]_vars
\* a slot is given back exactly when the handler body returns - never by the timeout
ReleaseOnReturn == [][\A r \in running : r \notin running' => (last'.op = "finish" /\ last'.r = r)]_vars
\* the timeout ends the request for the client only
TimeoutKeepsSlot == [][last'.op = "tick" => (running' = running /\ exceeded' = exceeded /\ last'.out = waiting \ waiting')]_vars
=============================================================================
