------------------------------- MODULE Limits -------------------------------
(***************************************************************************)
(* The GET concurrency limiter of api/api.go (limitHandler): a buffered     *)
(* channel of K slots.  A GET takes a slot with a non-blocking send         *)
(* (select ... default) before its handler runs and gives it back when the  *)
(* handler returns; when no slot is free the request is answered 503 and    *)
(* alertmanager_http_concurrency_limit_exceeded_total is incremented.       *)
(* Requests with any other method bypass the limiter.                       *)
(*                                                                         *)
(* One action per step of a request that the limiter distinguishes:         *)
(* GetArrive (acquire or refuse), GetFinish (release), GetQuick (a GET      *)
(* whose handler does not block: acquire, serve, release, or refuse),       *)
(* Post.                                                                    *)
(***************************************************************************)
EXTENDS Integers, FiniteSets, TLC

CONSTANTS K,        \* configured concurrency (Options.Concurrency, >= 1)
          Reqs      \* identities of the GET requests that park inside their handler

VARIABLES inflight,  \* GET requests holding a slot (inside their handler)
          served,    \* parked requests that were answered (200 or 503)
          exceeded,  \* alertmanager_http_concurrency_limit_exceeded_total
          last       \* observation: last operation and reply

vars == <<inflight, served, exceeded, last>>

Init == inflight = {} /\ served = {} /\ exceeded = 0 /\ last = [op |-> "init"]

Full == Cardinality(inflight) >= K     \* select: the send on the semaphore would block

GetArrive(r) ==
  /\ r \notin inflight /\ r \notin served
  /\ IF Full
       THEN /\ exceeded' = exceeded + 1
            /\ served' = served \cup {r}
            /\ last' = [op |-> "get", r |-> r, code |-> 503]
            /\ UNCHANGED inflight
       ELSE /\ inflight' = inflight \cup {r}
            /\ last' = [op |-> "get", r |-> r, code |-> 0]      \* in its handler, no reply yet
            /\ UNCHANGED <<served, exceeded>>

GetFinish(r) ==
  /\ r \in inflight
  /\ inflight' = inflight \ {r}
  /\ served' = served \cup {r}
  /\ last' = [op |-> "finish", r |-> r, code |-> 200]
  /\ UNCHANGED exceeded

GetQuick ==
  /\ IF Full THEN /\ exceeded' = exceeded + 1
                  /\ last' = [op |-> "getquick", code |-> 503]
             ELSE /\ last' = [op |-> "getquick", code |-> 200]
                  /\ UNCHANGED exceeded
  /\ UNCHANGED <<inflight, served>>

Post == /\ last' = [op |-> "post", code |-> 200]
        /\ UNCHANGED <<inflight, served, exceeded>>

-----------------------------------------------------------------------------
(* Property C18, concurrency clause                                         *)
SlotsBounded == Cardinality(inflight) <= K
IsGet == last'.op \in {"get", "getquick"}
\* GETs beyond the configured concurrency are refused with 503 - and only those
RefusedIffFull == [][IsGet => ((last'.code = 503) = (Cardinality(inflight) >= K))]_vars
\* every refusal is counted
RefusalCounted == [][exceeded' = exceeded + (IF IsGet /\ last'.code = 503 THEN 1 ELSE 0)]_vars
\* POSTs are unaffected
PostUnaffected == [][last'.op = "post" => (last'.code = 200 /\ UNCHANGED <<inflight, served, exceeded>>)]_vars
\* a slot is given back exactly when its request is answered
ReleaseOnAnswer == [][\A r \in inflight : r \notin inflight' => (last'.op = "finish" /\ last'.r = r)]_vars
=============================================================================
