------------------------------- MODULE Nflog -------------------------------
(***************************************************************************)
(* The notification log of one Alertmanager instance (nflog/nflog.go).     *)
(*                                                                         *)
(* One action per critical section of nflog.Log (the section guarded by    *)
(* Log.mtx): Log, Merge, GC, Query, Snapshot+New(SnapshotReader).          *)
(* Comparisons are transcribed with their strictness:                      *)
(*   merge refuses   iff ExpiresAt.Before(now)        (exp <  now)         *)
(*   merge replaces  iff prev.Timestamp.Before(e.ts)  (prev.ts < e.ts)     *)
(*   GC drops        iff !ExpiresAt.After(now)        (exp <= now)         *)
(*   Log is a no-op  iff prev.Timestamp.After(now)    (prev.ts > now)      *)
(*                                                                         *)
(* An entry is a record [k, ts, exp, f, r, d]: state key (group key +      *)
(* receiver integration), timestamp, expiry, firing alert hashes, resolved *)
(* alert hashes, receiver data.                                            *)
(***************************************************************************)
EXTENDS Integers, FiniteSets, Sequences, TLC

CONSTANTS Retention      \* retention of this instance (time units)

VARIABLES now,           \* the instance's clock
          st,            \* the log: function from the keys held to their entry
          top,           \* history: per key, the newest entry logged here or received by Merge
          bcast,         \* history: number of broadcast calls so far
          last           \* observation: the last operation and its reply

vars == <<now, st, top, bcast, last>>

Refused(e, t)     == e.exp < t
Collectable(e, t) == e.exp <= t

Put(s, e) == [x \in DOMAIN s \cup {e.k} |-> IF x = e.k THEN e ELSE s[x]]

Accepts(s, e, t) == /\ ~Refused(e, t)
                    /\ (e.k \notin DOMAIN s \/ s[e.k].ts < e.ts)

MergeOne(s, e, t) == IF Accepts(s, e, t) THEN Put(s, e) ELSE s

\* A batch is a set of entries with pairwise distinct keys (a full-state
\* exchange is the marshalled map, a gossip message is one entry), so the
\* entries are merged independently of each other.
DistinctKeys(B) == \A a, b \in B : a.k = b.k => a = b
MergeBatch(s, B, t) ==
  LET A == {e \in B : Accepts(s, e, t)}
  IN [x \in DOMAIN s \cup {e.k : e \in A} |->
        IF \E e \in A : e.k = x THEN CHOOSE e \in A : e.k = x ELSE s[x]]

\* history bookkeeping: the newest entry per key among those logged or received
\* (ties keep the first)
Note(tp, S) == [x \in DOMAIN tp \cup {e.k : e \in S} |->
                  LET C == {e \in S : e.k = x} \cup (IF x \in DOMAIN tp THEN {tp[x]} ELSE {})
                  IN IF x \in DOMAIN tp /\ \A e \in C : e.ts <= tp[x].ts THEN tp[x]
                     ELSE CHOOSE n \in C : \A e \in C : e.ts <= n.ts]

ExpiryOf(x, t) == t + (IF x > 0 /\ Retention > x THEN x ELSE Retention)

Init == /\ now = 0
        /\ st = << >>
        /\ top = << >>
        /\ bcast = 0
        /\ last = [op |-> "init"]

(* Log(r, gkey, firing, resolved, store, expiry) *)
Log(k, p, x) ==
  LET e == [k |-> k, ts |-> now, exp |-> ExpiryOf(x, now), f |-> p.f, r |-> p.r, d |-> p.d]
  IN IF k \in DOMAIN st /\ st[k].ts > now
       THEN /\ last' = [op |-> "log", k |-> k, p |-> p, x |-> x, stored |-> FALSE, sent |-> 0]
            /\ UNCHANGED <<now, st, top, bcast>>
       ELSE /\ st' = MergeOne(st, e, now)
            /\ top' = Note(top, {e})
            /\ bcast' = bcast + 1
            /\ last' = [op |-> "log", k |-> k, p |-> p, x |-> x,
                        stored |-> Accepts(st, e, now), sent |-> 1]
            /\ UNCHANGED now

(* Merge(b): one broadcast per entry that changed the state - unless the     *)
(* message is oversized (cluster.OversizedMessage: larger than half a       *)
(* gossip packet): then it is merged but not gossiped further.              *)
Merge(B) ==
  /\ DistinctKeys(B)
  /\ LET n == IF \E e \in B : e.d = "big" THEN 0 ELSE Cardinality({e \in B : Accepts(st, e, now)})
     IN /\ st' = MergeBatch(st, B, now)
        /\ top' = Note(top, B)
        /\ bcast' = bcast + n
        /\ last' = [op |-> "merge", b |-> B, sent |-> n]
  /\ UNCHANGED now

(* A pipeline stage queries an entry, builds its working nflog.Store from it *)
(* and modifies that, but never logs (the delivery failed): the log is      *)
(* unchanged.                                                               *)
Tamper(k) ==
  /\ last' = [op |-> "tamper", k |-> k, found |-> k \in DOMAIN st]
  /\ UNCHANGED <<now, st, top, bcast>>

GC ==
  LET D == {k \in DOMAIN st : Collectable(st[k], now)}
  IN /\ st' = [k \in DOMAIN st \ D |-> st[k]]
     /\ last' = [op |-> "gc", n |-> Cardinality(D)]
     /\ UNCHANGED <<now, top, bcast>>

Query(k) ==
  /\ last' = [op |-> "query", k |-> k, found |-> k \in DOMAIN st]
  /\ UNCHANGED <<now, st, top, bcast>>

(* Snapshot(w) followed by New(Options{SnapshotReader: w}): the new log    *)
(* holds exactly what the old one held (also entries past their expiry).   *)
Restart ==
  /\ last' = [op |-> "restart", n |-> Cardinality(DOMAIN st)]
  /\ UNCHANGED <<now, st, top, bcast>>

Tick(d) ==
  /\ d > 0
  /\ now' = now + d
  /\ last' = [op |-> "tick", d |-> d]
  /\ UNCHANGED <<st, top, bcast>>

-----------------------------------------------------------------------------
(* Property C10.                                                           *)

\* The log holds, for every key, the entry with the newest timestamp among
\* the entries logged or received, as long as that entry has not expired.
\* (Entries with equal timestamps are outside the property's quantifier:
\* any of them is accepted.  If the newest entry has expired while an older
\* one has not -- possible only when a newer entry expires earlier than an
\* older one -- the invariant demands nothing; see DESIGN.md F7.)
NewestHeld ==
  \A k \in DOMAIN top :
     top[k].exp > now => /\ k \in DOMAIN st
                         /\ st[k].ts = top[k].ts

\* whatever is held was logged here or received, unchanged
OnlySeen ==
  [][\A k \in DOMAIN st' :
       (k \notin DOMAIN st \/ st[k] # st'[k]) =>
          \/ last'.op = "merge" /\ st'[k] \in last'.b
          \/ last'.op = "log" /\ last'.k = k /\ st'[k].ts = now
                 /\ st'[k].f = last'.p.f /\ st'[k].r = last'.p.r /\ st'[k].d = last'.p.d]_vars

\* never backwards; never accept an expired entry; kept until expiry
NeverBackwards ==
  [][\A k \in DOMAIN st : k \in DOMAIN st' => st'[k].ts >= st[k].ts]_vars
NeverAcceptExpired ==
  [][\A k \in DOMAIN st' :
        (k \notin DOMAIN st \/ st[k] # st'[k]) => st'[k].exp >= now]_vars
KeptUntilExpiry ==
  [][\A k \in DOMAIN st : st[k].exp > now' => k \in DOMAIN st']_vars
\* re-merging anything already known changes nothing and gossips nothing
RemergeSilent ==
  [][(last'.op = "merge" /\ last'.b \subseteq {st[k] : k \in DOMAIN st})
        => (st' = st /\ bcast' = bcast)]_vars
GCDropsExpired ==
  [][last'.op = "gc" => \A k \in DOMAIN st' : st'[k].exp > now]_vars

=============================================================================
