--------------------------- MODULE DeliveryRetry ---------------------------
(***************************************************************************)
(* The retry half of the delivery contract (property C20) for ONE          *)
(* integration inside ONE flush: a real notifier (webhook, pagerduty, ..)  *)
(* behind notify.RetryStage, followed by notify.SetNotifiesStage.          *)
(*                                                                         *)
(*   notify/retry_stage.go        RetryStage.exec: back-off ticker, ctx    *)
(*   notify/util.go               Retrier.Check: classes of status codes   *)
(*   notify/webhook/webhook.go    Notify: own `timeout:`, POST, (retry,err)*)
(*   notify/pagerduty/pagerduty.go  same shape, 429 in RetryCodes          *)
(*   notify/set_notifies_stage.go log entry written after the retry stage  *)
(*                                                                         *)
(* One delivery is determined by its PARAMETERS                            *)
(*   nt      notifier type                                                 *)
(*   script  what the endpoint does on the 1st, 2nd, .. attempt (the last  *)
(*           element repeats for all further attempts)                     *)
(*   to      whether the notifier's own `timeout:` is configured           *)
(*   dl      flush deadline (ms after the stage begins)                    *)
(*   cancel  0, or the instant at which a reload cancels the flush context *)
(* and by the gaps the randomised back-off ticker chooses.  Times are ms.  *)
(*                                                                         *)
(* Two layers, as in Delivery.tla:                                         *)
(*  - the STATEMENT: what happened in an attempt (`why`: 2xx, 4xx, 429,    *)
(*    5xx, conn, timeout, cut) is classed by SClass; the clauses of C20    *)
(*    are predicates over a complete run (NoRetryAfterUnrecoverable,       *)
(*    RetriedUntilEnd, ..).  The statement does not say whether 429 is     *)
(*    recoverable: SClass("429") = "open", no clause speaks about it.      *)
(*  - the IMPLEMENTATION-shaped machine (Attempt / GiveUp): the loop of    *)
(*    RetryStage.exec with the notifier's own classification IClass (429   *)
(*    per Retrier.RetryCodes of the notifier type).                        *)
(***************************************************************************)
EXTENDS Integers, Sequences, FiniteSets

CONSTANTS Timeout,            \* the notifier's own `timeout:` when configured
          SlowDelay,          \* "slow": 2xx after this long (< Timeout)
          HangDelay,          \* "hangT": 2xx only after this long (> Timeout)
          TimeoutRecoverable, \* TRUE: the code as read.  FALSE: a notifier that reports an attempt cut by its
                              \* OWN timeout as unrecoverable (sanity run: the clauses must reject it)
          BackoffGrows        \* TRUE: the code as read.  FALSE: a ticker whose interval never grows (every gap is
                              \* drawn around the initial interval; sanity run: GapNotBelowBackoff must reject it)

ASSUME 0 < SlowDelay /\ SlowDelay < Timeout /\ Timeout < HangDelay

Forever   == 1000000
Min2(a, b) == IF a <= b THEN a ELSE b
Max2(a, b) == IF a >= b THEN a ELSE b
Last(s)    == s[Len(s)]

-----------------------------------------------------------------------------
(* What the endpoint does in one attempt.                                  *)
Outcomes == {"ok",       \* 2xx at once
             "slow",     \* 2xx after SlowDelay: slow but within the notifier's timeout
             "c4xx",     \* 400 / 404 / 422
             "c429",     \* 429 Too Many Requests
             "c5xx",     \* 500 / 502 / 503
             "refused",  \* connection refused
             "reset",    \* connection accepted, request read, connection reset without an answer
             "hangT",    \* answers 2xx only after HangDelay: longer than the notifier's own timeout
             "hangD"}    \* does not answer before the flush is over
Delay(o)  == CASE o = "slow" -> SlowDelay [] o = "hangT" -> HangDelay [] o = "hangD" -> Forever [] OTHER -> 0
Answer(o) == CASE o \in {"ok", "slow", "hangT", "hangD"} -> "2xx"
               [] o = "c4xx" -> "4xx" [] o = "c429" -> "429" [] o = "c5xx" -> "5xx"
               [] o \in {"refused", "reset"} -> "conn"

NotifierTypes == {"webhook", "pagerduty"}
\* Retrier.RetryCodes: webhook none; pagerduty (events v2) 429
Retries429(nt) == nt = "pagerduty"

\* Statement: "a recoverable error (5xx, timeout, connection trouble) is retried ..; an
\* unrecoverable one (4xx) is not retried".  429 is a 4xx that says "come back later":
\* the statement does not decide it ("open").
SClass(why) == CASE why = "2xx" -> "ok"
                 [] why \in {"5xx", "conn", "timeout"} -> "rec"
                 [] why = "4xx" -> "unrec"
                 [] why = "429" -> "open"
                 [] why = "cut" -> "cut"
\* Code: webhook.Notify / pagerduty.Notify: a failed POST is (true, err); otherwise
\* Retrier.Check: 2xx ok, 5xx and RetryCodes (true, err), everything else (false, err).
IClass(nt, why) == CASE why = "429" -> (IF Retries429(nt) THEN "rec" ELSE "unrec")
                     [] why = "timeout" -> (IF TimeoutRecoverable THEN "rec" ELSE "unrec")
                     [] OTHER -> SClass(why)

-----------------------------------------------------------------------------
(* Back-off (cenkalti/backoff ExponentialBackOff, defaults): interval      *)
(* I(k) = min(500 x 1.5^(k-1), 60 s) after the k-th attempt, the ticker    *)
(* waits a random gap in [0.5 I(k), 1.5 I(k)], counted from the START of   *)
(* attempt k (the tick is consumed there); an attempt that lasts longer    *)
(* than the gap is followed by the next one at once.  GapHi is the bound   *)
(* of the C20 clauses (AMObs!Backoff): 1.5 x I(k), rounded up.             *)
GapHi == <<750, 1125, 1688, 2532, 3797, 5696, 8543>>
GapLo == <<250, 375, 562, 843, 1265, 1898, 2847>>
Pow(b, e) == LET f[i \in 0 .. e] == IF i = 0 THEN 1 ELSE b * f[i - 1] IN f[e]
ASSUME \A k \in 1 .. Len(GapHi) :
         /\ GapHi[k] = (750 * Pow(3, k - 1) + Pow(2, k - 1) - 1) \div Pow(2, k - 1)
         /\ GapLo[k] = (250 * Pow(3, k - 1)) \div Pow(2, k - 1)
HiAt(k) == GapHi[Min2(k, Len(GapHi))]
LoAt(k) == GapLo[Min2(k, Len(GapLo))]
\* the extremes decide the number of attempts
Gaps(k) == IF BackoffGrows THEN {LoAt(k), HiAt(k)} ELSE {LoAt(1), HiAt(1)}
\* "retried with backoff": the gap after the k-th failed attempt is at least GapLo[k] (the
\* library draws it from [0.5 I(k), 1.5 I(k)], never below).  The conformance harness judges
\* this from the JudgedLoFrom-th gap on (843 ms and more: no longer explained by the first
\* interval's own randomisation, 250 - 750 ms); earlier gaps below the bound are drift.
JudgedLoFrom == 4

-----------------------------------------------------------------------------
(* Parameters and one attempt.                                             *)
ScriptAt(p, i) == p.script[Min2(i, Len(p.script))]
EndOf(p)       == IF p.cancel > 0 THEN Min2(p.cancel, p.dl) ELSE p.dl    \* the flush context is over
LimitOf(p)     == IF p.to THEN Timeout ELSE Forever

\* what happens in an attempt with outcome o that is not cut by the end of the flush
WhyOf(p, o) == IF Delay(o) > LimitOf(p) THEN "timeout" ELSE Answer(o)
DurOf(p, o) == Min2(Delay(o), LimitOf(p))

\* the i-th attempt begun at s (s < EndOf(p)): the request context is the flush context,
\* narrowed by the notifier's own timeout when configured
AttemptOf(p, i, s) ==
  LET o == ScriptAt(p, i) IN
  IF s + DurOf(p, o) >= EndOf(p)
    THEN [o |-> o, start |-> s, end |-> EndOf(p), why |-> "cut", class |-> "cut"]
    ELSE [o |-> o, start |-> s, end |-> s + DurOf(p, o), why |-> WhyOf(p, o), class |-> IClass(p.nt, WhyOf(p, o))]

\* a script is canonical when every outcome but the last one leads to another attempt
\* (nothing is scripted behind an outcome that ends the delivery)
Canonical(p) == \A i \in 1 .. (Len(p.script) - 1) :
                  p.script[i] # "hangD" /\ IClass(p.nt, WhyOf(p, p.script[i])) = "rec"

-----------------------------------------------------------------------------
(* The machine: RetryStage.exec followed by SetNotifiesStage.              *)
VARIABLES p,       \* parameters (constant)
          pc,      \* "tick": waiting for the ticker; "done": the stages have returned
          next,    \* instant of the next tick
          att,     \* attempts so far
          res,     \* "none" | "ok" | "unrec" (error: unrecoverable) | "ended" (error: context over)
          ret,     \* instant at which the retry stage returned
          logged   \* number of notification log writes
vars == <<p, pc, next, att, res, ret, logged>>

InitWith(P) == /\ p \in P
               /\ pc = "tick" /\ next = 0 /\ att = << >> /\ res = "none" /\ ret = 0 /\ logged = 0

\* `case <-tick.C` with the context still alive: one Integration.Notify
Attempt ==
  /\ pc = "tick" /\ next < EndOf(p)
  /\ LET a == AttemptOf(p, Len(att) + 1, next) IN
     /\ att' = Append(att, a)
     /\ CASE a.class = "ok"    -> /\ res' = "ok" /\ pc' = "done" /\ ret' = a.end /\ next' = next
                                  /\ logged' = logged + 1                 \* SetNotifiesStage, only on this path
          [] a.class = "unrec" -> /\ res' = "unrec" /\ pc' = "done" /\ ret' = a.end /\ next' = next
                                  /\ logged' = logged
          [] a.class = "cut"   -> /\ res' = "ended" /\ pc' = "done" /\ ret' = a.end /\ next' = next
                                  /\ logged' = logged
          [] a.class = "rec"   -> /\ \E g \in Gaps(Len(att) + 1) : next' = Max2(next + g, a.end)
                                  /\ pc' = "tick" /\ UNCHANGED <<res, ret, logged>>
  /\ UNCHANGED p

\* `case <-ctx.Done()`: deadline or cancellation before the next tick
GiveUp ==
  /\ pc = "tick" /\ next >= EndOf(p)
  /\ pc' = "done" /\ res' = "ended" /\ ret' = EndOf(p)
  /\ UNCHANGED <<p, next, att, logged>>

Next == Attempt \/ GiveUp

-----------------------------------------------------------------------------
(* The clauses of C20 about one delivery, over a complete run              *)
(* r = [att, res, ret, logged] of a delivery with parameters q.  They use  *)
(* only what happened (why) and the statement's classes.                   *)
SC(a) == SClass(a.why)
NoRetryAfterUnrecoverable(r) == \A i \in 1 .. Len(r.att) : SC(r.att[i]) = "unrec" => i = Len(r.att)
NoAttemptAfterSuccess(r)     == \A i \in 1 .. Len(r.att) : SC(r.att[i]) = "ok" => i = Len(r.att)
\* a recoverable failure is followed by another attempt within the back-off bound,
\* unless the flush is over before that bound
RetriedUntilEnd(q, r) ==
  \A i \in 1 .. Len(r.att) :
    (SC(r.att[i]) = "rec" /\ r.att[i].end + HiAt(i) < EndOf(q))
      => (i < Len(r.att) /\ r.att[i + 1].start <= r.att[i].end + HiAt(i))
NoAttemptAfterEnd(q, r) == \A i \in 1 .. Len(r.att) : r.att[i].start < EndOf(q)
\* .. and not earlier than the back-off allows (counted from the start of the failed attempt)
GapNotBelowBackoff(r, from) ==
  \A i \in from .. (Len(r.att) - 1) :
    SC(r.att[i]) = "rec" => r.att[i + 1].start - r.att[i].start >= LoAt(i)
Succeeded(r)            == Len(r.att) > 0 /\ SC(Last(r.att)) = "ok"
FailureReported(r)      == (r.res = "ok") <=> Succeeded(r)
RecordedAfterSuccess(r) == r.logged = (IF Succeeded(r) THEN 1 ELSE 0)
\* the stage returns with the attempt that ends the delivery, or when the flush is over
ReturnsInTime(q, r) ==
  /\ r.ret <= EndOf(q)
  /\ (r.res = "ended" => r.ret = EndOf(q))
  /\ (r.res \in {"ok", "unrec"} => r.ret = Last(r.att).end)
Clauses(q, r) == /\ NoRetryAfterUnrecoverable(r) /\ NoAttemptAfterSuccess(r) /\ RetriedUntilEnd(q, r)
                 /\ GapNotBelowBackoff(r, 1)
                 /\ NoAttemptAfterEnd(q, r) /\ FailureReported(r) /\ RecordedAfterSuccess(r)
                 /\ ReturnsInTime(q, r)

-----------------------------------------------------------------------------
(* Closed form: every complete run of a delivery (over the gap choices),   *)
(* from which the expectations of the conformance harness are computed.    *)
RECURSIVE RunsFrom(_, _, _)
RunsFrom(q, as, nx) ==
  IF nx >= EndOf(q) THEN {[att |-> as, res |-> "ended", ret |-> EndOf(q), logged |-> 0]}
  ELSE LET a   == AttemptOf(q, Len(as) + 1, nx)
           as2 == Append(as, a)
       IN CASE a.class = "ok"    -> {[att |-> as2, res |-> "ok", ret |-> a.end, logged |-> 1]}
            [] a.class = "unrec" -> {[att |-> as2, res |-> "unrec", ret |-> a.end, logged |-> 0]}
            [] a.class = "cut"   -> {[att |-> as2, res |-> "ended", ret |-> a.end, logged |-> 0]}
            [] a.class = "rec"   -> UNION {RunsFrom(q, as2, Max2(nx + g, a.end)) : g \in Gaps(Len(as2))}
Runs(q) == RunsFrom(q, << >>, 0)

SetMin(S) == CHOOSE x \in S : \A y \in S : x <= y
SetMax(S) == CHOOSE x \in S : \A y \in S : x >= y
=============================================================================
