----------------------------- MODULE GossipPeers -----------------------------
(***************************************************************************)
(* The gossip transport as a REAL cluster.Peer sees it (properties C19,     *)
(* delivery, and C08, readiness):                                           *)
(*   cluster/cluster.go  Create (cfg.GossipNodes = retransmit = 3),         *)
(*                       AddState: send = QueueBroadcast, peers = Members() *)
(*                       without self AT THE TIME OF THE SEND, sendOversize *)
(*                       = SendReliable; Join, reconnect, peerJoin /        *)
(*                       peerLeave (failedPeers), Leave, Settle, WaitReady  *)
(*   notify/cluster_stages.go  ClusterGossipSettleStage.Exec = WaitReady    *)
(* Gossip.tla describes Channel / delegate byte-exactly with the harness as *)
(* the network and takes the membership as an input; this module is the     *)
(* complement: membership is what memberlist reports (join, leave, failed,  *)
(* a replaced peer = another identity), messages are whole updates.         *)
(*                                                                         *)
(* Identities: a node name.  A replacement is ANOTHER identity (new name    *)
(* and port); a restart is the same identity coming back with empty state.  *)
(* mem[n]   = Members() of n without n: the peers n lists as alive.  It     *)
(*            lags: a stop is noticed by Detect, a join by Learn.           *)
(* ghost[n] = peers n holds as dead, not left (memberlist keeps gossiping   *)
(*            to them for GossipToTheDeadTime = 30 s: they use up           *)
(*            transmissions of the gossip queue).                           *)
(* failed[n]= Peer.failedPeers of n: whom n tries to reconnect to.          *)
(*                                                                         *)
(* Small updates: bcast.QueueBroadcast; at every gossip tick memberlist     *)
(* draws UP TO min(Fanout, |G|) distinct nodes of G = mem \cup ghost        *)
(* (kRandomNodes: 3n random probes with rejection - it may come up short)   *)
(* and calls GetBroadcasts once per node drawn; a message leaves the queue  *)
(* after TxLimit transmissions (who received them does not matter).  So the *)
(* gossip path alone promises a given peer nothing when a draw did not      *)
(* serve every target: the periodic push/pull is the safety net.            *)
(* Oversized updates: the Channel worker asks peers() when it takes the     *)
(* message and sends it to each of them over the reliable channel.          *)
(*   SendList = "current": the code - the list is Members() at that time.   *)
(*   SendList = "cached":  the list is reused while the member COUNT is     *)
(*              unchanged (seeded C19-1).  Delivered must FAIL with it.     *)
(* Settle(ctx, interval): polls len(Peers()) every interval; 3 polls in a   *)
(* row without change after the first one => ready; context expired =>      *)
(*   OnTimeout = "ready": the code - gives up and becomes ready anyway.     *)
(*   OnTimeout = "stuck": returns without becoming ready (seeded C08-1).    *)
(*              Readiness must FAIL with it.                                *)
(* Transport of the gossip packets (CONSTANT Transport):                    *)
(*   "udp": datagrams (memberlist's NetTransport) - nothing to keep.        *)
(*   "tls": cluster.TLSTransport (cluster.tls-config) - every packet to p   *)
(*          is written on ONE pooled connection (connection_pool.go); a     *)
(*          write that fails marks the connection dead (tlsConn.Write:      *)
(*          live = false) and borrowConnection dials a new one for the next *)
(*          packet.  pool[s][p]: "none" (nothing pooled / marked dead),     *)
(*          "ok", "broken" (reset by the network or by a restart of p; the  *)
(*          pool does not know yet), "stale" (a write failed but the        *)
(*          connection stayed in the pool).  The one write that finds a     *)
(*          reset connection loses its packet (counted: write_errors_total) *)
(*          - that is the price of a reset, and the only one.               *)
(*   Redial = "on_failure": the code.  Redial = "never": a failed write     *)
(*          does not mark the connection dead (seeded C19-4): every later   *)
(*          packet to that member is lost.  Delivered must FAIL with it.    *)
(* Oversized updates and push/pull use a stream dialled per use: a reset of *)
(* the pooled connection does not concern them.                             *)
(* Not modelled here (see Gossip.tla): packet loss / duplication, the       *)
(* bounded oversize queue, byte strings.  A false failure detection of a    *)
(* running peer is an environment fault the harness recognises (premise of  *)
(* "stays connected") and is not generated.                                 *)
(***************************************************************************)
EXTENDS Integers, FiniteSets, Sequences, TLC

CONSTANTS Ids, InitUp,      \* identities; those running, mutually known and ready initially
          Small, Big,       \* update ids: gossiped / oversized
          Fanout,           \* cfg.GossipNodes
          TxLimit,          \* RetransmitMult * ceil(log10(members + 1)) = 3 for 1..9 members
          SendList,         \* "current" | "cached"
          OnTimeout,        \* "ready" | "stuck"
          OkayRequired,     \* NumOkayRequired = 3
          Budgets,          \* numbers of polls that fit before the settle context expires
          Transport,        \* "udp" | "tls"
          Redial            \* "on_failure" | "never"

VARIABLES life,    \* identity -> "new" | "up" | "left" | "crashed"
          mem, ghost, failed,
          cache,   \* identity -> [valid, list]: the cached send list (used only with SendList = "cached")
          st,      \* identity -> set of updates merged
          gq,      \* identity -> queued small updates: update -> number of transmissions so far
          net,     \* messages in flight: [u, to, kind]
          origin,  \* update -> identity that broadcast it ("-": not yet)
          cohort,  \* update -> the peers that were connected to the origin at the broadcast and stayed so
          pool,    \* identity -> identity -> state of the pooled packet connection (Transport = "tls")
          hurt,    \* small updates of which a packet was lost by the one write that found a reset connection
          wide,    \* small updates that were queued during a gossip tick of their origin that did not serve every
                   \* gossip target (more than Fanout targets, or the random draw came up short)
          ready,   \* identity -> readyc closed
          settle,  \* identity -> [phase, okay, npeers, polls, budget]
          used,    \* budgets [stop, join, reset]
          last     \* observation: the operation, its arguments, its replies

vars == <<life, mem, ghost, failed, cache, st, gq, net, origin, cohort, pool, hurt, wide, ready, settle, used, last>>

Updates == Small \cup Big
Up == {n \in Ids : life[n] = "up"}
Min(a, b) == IF a < b THEN a ELSE b
Has(n, u) == u \in st[n]

NoCache == [valid |-> FALSE, list |-> {}]
Settled == [phase |-> "returned", okay |-> 0, npeers |-> 0, polls |-> 0, budget |-> 0]
Polling(b) == [phase |-> "polling", okay |-> 0, npeers |-> 0, polls |-> 0, budget |-> b]
EmptyQ == [u \in {} |-> 0]

\* the peers connected to s: s lists them and they list s
Conn(s) == {p \in mem[s] : life[p] = "up" /\ s \in mem[p]}
\* gossip targets of s
G(s) == mem[s] \cup ghost[s]

Init ==
  /\ life = [n \in Ids |-> IF n \in InitUp THEN "up" ELSE "new"]
  /\ mem = [n \in Ids |-> IF n \in InitUp THEN InitUp \ {n} ELSE {}]
  /\ ghost = [n \in Ids |-> {}]
  /\ failed = [n \in Ids |-> {}]
  /\ cache = [n \in Ids |-> NoCache]
  /\ st = [n \in Ids |-> {}]
  /\ gq = [n \in Ids |-> EmptyQ]
  /\ net = {}
  /\ origin = [u \in Updates |-> "-"]
  /\ cohort = [u \in Updates |-> {}]
  /\ pool = [s \in Ids |-> [p \in Ids |-> IF Transport = "tls" /\ s \in InitUp /\ p \in InitUp \ {s} THEN "ok" ELSE "none"]]   \* pings have long dialled
  /\ hurt = {}
  /\ wide = {}
  /\ ready = [n \in Ids |-> n \in InitUp]
  /\ settle = [n \in Ids |-> Settled]
  /\ used = [stop |-> 0, join |-> 0, reset |-> 0]
  /\ last = [op |-> "init"]

-----------------------------------------------------------------------------
(* TLSTransport.WriteTo(packet, p) at s: borrowConnection, writePacket.     *)
Leaves(s, p) == Transport = "udp" \/ pool[s][p] \in {"none", "ok"}      \* the packet leaves s (a dial may still find nobody)
Finds(s, p) == Transport = "tls" /\ pool[s][p] = "broken"              \* the write that finds the reset
PoolAfter(s, p) ==
  IF Transport = "udp" THEN pool[s][p]
  ELSE CASE pool[s][p] = "none" -> IF life[p] = "up" THEN "ok" ELSE "none"
         [] pool[s][p] = "ok" -> "ok"
         [] pool[s][p] = "broken" -> IF Redial = "on_failure" THEN "none" ELSE "stale"
         [] OTHER -> "stale"

-----------------------------------------------------------------------------
(* The state's broadcast function = Channel.Broadcast at s.                 *)
ListFor(s) == IF SendList = "cached" /\ cache[s].valid /\ Cardinality(cache[s].list) = Cardinality(mem[s])
                THEN cache[s].list ELSE mem[s]

Bcast(s, u) ==
  /\ life[s] = "up" /\ origin[u] = "-"
  /\ st' = [st EXCEPT ![s] = @ \cup {u}]
  /\ origin' = [origin EXCEPT ![u] = s]
  /\ cohort' = [cohort EXCEPT ![u] = Conn(s)]
  /\ IF u \in Small
       THEN /\ gq' = [gq EXCEPT ![s] = [x \in DOMAIN @ \cup {u} |-> IF x = u THEN 0 ELSE @[x]]]
            /\ UNCHANGED <<net, cache>>
            /\ last' = [op |-> "bcast", n |-> s, u |-> u, big |-> FALSE, list |-> {}, conn |-> Conn(s)]
       ELSE LET L == ListFor(s)
            IN /\ net' = net \cup {[u |-> u, to |-> p, kind |-> "rel"] : p \in {x \in L : life[x] = "up"}}
               /\ cache' = [cache EXCEPT ![s] = [valid |-> TRUE, list |-> L]]
               /\ UNCHANGED gq
               /\ last' = [op |-> "bcast", n |-> s, u |-> u, big |-> TRUE, list |-> L, conn |-> Conn(s)]
  /\ UNCHANGED <<life, mem, ghost, failed, pool, hurt, wide, ready, settle, used>>

(* One gossip tick of s with something queued: the targets in the order     *)
(* memberlist drew them; every queued message goes to the first             *)
(* (TxLimit - transmissions so far) of them.                                *)
Orders(S, k) == {q \in [1 .. k -> S] : \A i, j \in 1 .. k : i # j => q[i] # q[j]}

Tick(s, q) ==
  /\ life[s] = "up" /\ DOMAIN gq[s] # {} /\ G(s) # {}
  /\ Len(q) \in 1 .. Min(Fanout, Cardinality(G(s))) /\ q \in Orders(G(s), Len(q))
  /\ LET k == Len(q)
         sendsOf(u) == {q[i] : i \in 1 .. Min(k, TxLimit - gq[s][u])}
         after == [u \in DOMAIN gq[s] |-> gq[s][u] + Min(k, TxLimit - gq[s][u])]
         keep == {u \in DOMAIN gq[s] : after[u] < TxLimit}
         sentTo(p) == {u \in DOMAIN gq[s] : p \in sendsOf(u)}
         written == {p \in {q[i] : i \in 1 .. k} : sentTo(p) # {}}          \* one packet (one write) per target
     IN /\ net' = net \cup UNION {{[u |-> u, to |-> p, kind |-> "udp"] : p \in {x \in sendsOf(u) : life[x] = "up" /\ Leaves(s, x)}} : u \in DOMAIN gq[s]}
        /\ pool' = [pool EXCEPT ![s] = [p \in Ids |-> IF p \in written THEN PoolAfter(s, p) ELSE pool[s][p]]]
        /\ hurt' = hurt \cup UNION {sentTo(p) : p \in {x \in written : Finds(s, x)}}
        /\ gq' = [gq EXCEPT ![s] = [u \in keep |-> after[u]]]
        /\ wide' = IF {q[i] : i \in 1 .. k} # G(s) THEN wide \cup DOMAIN gq[s] ELSE wide
        /\ last' = [op |-> "tick", n |-> s, order |-> q]
  /\ UNCHANGED <<life, mem, ghost, failed, cache, st, origin, cohort, ready, settle, used>>

(* The message arrives: NotifyMsg -> State.Merge (the recording state of    *)
(* the harness does not re-broadcast).                                      *)
Deliver(pk) ==
  /\ pk \in net
  /\ net' = net \ {pk}
  /\ st' = IF life[pk.to] = "up" THEN [st EXCEPT ![pk.to] = @ \cup {pk.u}] ELSE st
  /\ last' = [op |-> "deliver", u |-> pk.u, n |-> pk.to, kind |-> pk.kind]
  /\ UNCHANGED <<life, mem, ghost, failed, cache, gq, origin, cohort, pool, hurt, wide, ready, settle, used>>

(* A node stops: Leave (the others learn that it LEFT) or a crash (the      *)
(* others find it dead by probing and keep gossiping to it for a while).    *)
Stop(n, how) ==
  /\ life[n] = "up" /\ Up # {n}
  /\ life' = [life EXCEPT ![n] = how]
  /\ gq' = [gq EXCEPT ![n] = EmptyQ]
  /\ cache' = [cache EXCEPT ![n] = NoCache]
  /\ cohort' = [u \in Updates |-> IF origin[u] = n THEN {} ELSE cohort[u] \ {n}]
  /\ ready' = [ready EXCEPT ![n] = FALSE]
  /\ settle' = [settle EXCEPT ![n] = Settled]
  /\ used' = [used EXCEPT !.stop = @ + 1]
  /\ pool' = IF Transport = "udp" THEN pool       \* the process is gone: its pool too, and the connections to it are broken
             ELSE [s \in Ids |-> [p \in Ids |-> IF s = n THEN "none" ELSE IF p = n /\ pool[s][p] = "ok" THEN "broken" ELSE pool[s][p]]]
  /\ last' = [op |-> how, n |-> n]
  /\ UNCHANGED <<mem, ghost, failed, st, net, origin, hurt, wide>>

Detect(m, n) ==
  /\ life[m] = "up" /\ life[n] \in {"left", "crashed"} /\ n \in mem[m]
  /\ mem' = [mem EXCEPT ![m] = @ \ {n}]
  /\ ghost' = [ghost EXCEPT ![m] = IF life[n] = "crashed" THEN @ \cup {n} ELSE @]
  /\ failed' = [failed EXCEPT ![m] = @ \cup {n}]           \* peerLeave
  /\ last' = [op |-> "detect", m |-> m, n |-> n]
  /\ UNCHANGED <<life, cache, st, gq, net, origin, cohort, pool, hurt, wide, ready, settle, used>>

(* A new identity starts and joins through s (Peer.Join: push/pull with     *)
(* join = true: it obtains the states and the member list of s), then runs  *)
(* Settle with room for b polls.                                            *)
Join(n, s, b) ==
  /\ life[n] = "new" /\ life[s] = "up"
  /\ life' = [life EXCEPT ![n] = "up"]
  /\ mem' = [mem EXCEPT ![n] = (mem[s] \cup {s}) \ {n}, ![s] = @ \cup {n}]
  /\ st' = [st EXCEPT ![n] = st[s]]
  /\ ready' = [ready EXCEPT ![n] = FALSE]
  /\ settle' = [settle EXCEPT ![n] = Polling(b)]
  /\ used' = [used EXCEPT !.join = @ + 1]
  /\ last' = [op |-> "join", n |-> n, s |-> s, budget |-> b, had |-> st[s]]
  /\ UNCHANGED <<ghost, failed, cache, gq, net, origin, cohort, pool, hurt, wide>>

(* m hears of n from a peer x that gossips to m (alive message).            *)
Learn(m, n) ==
  /\ life[m] = "up" /\ life[n] = "up" /\ m # n /\ n \notin mem[m]
  /\ \E x \in Up \ {m} : m \in mem[x] /\ (x = n \/ n \in mem[x])
  /\ mem' = [mem EXCEPT ![m] = @ \cup {n}]
  /\ ghost' = [ghost EXCEPT ![m] = @ \ {n}]
  /\ failed' = [failed EXCEPT ![m] = @ \ {n}]              \* peerJoin
  /\ last' = [op |-> "learn", m |-> m, n |-> n]
  /\ UNCHANGED <<life, cache, st, gq, net, origin, cohort, pool, hurt, wide, ready, settle, used>>

(* The stopped identity n comes back on its old address with empty states   *)
(* and joins nobody; it is found by the reconnect loop of a peer that holds *)
(* it in failedPeers (Peer.reconnect -> mlist.Join: push/pull both ways).   *)
Restart(n, b) ==
  /\ life[n] \in {"left", "crashed"}
  /\ \A m \in Up : n \notin mem[m]
  /\ life' = [life EXCEPT ![n] = "up"]
  /\ mem' = [mem EXCEPT ![n] = {}]
  /\ ghost' = [ghost EXCEPT ![n] = {}]
  /\ failed' = [failed EXCEPT ![n] = {}]
  /\ st' = [st EXCEPT ![n] = {}]
  /\ ready' = [ready EXCEPT ![n] = FALSE]
  /\ settle' = [settle EXCEPT ![n] = Polling(b)]
  /\ used' = [used EXCEPT !.join = @ + 1]
  /\ last' = [op |-> "restart", n |-> n, budget |-> b]
  /\ UNCHANGED <<cache, gq, net, origin, cohort, pool, hurt, wide>>

Reconnect(m, n) ==
  /\ life[m] = "up" /\ life[n] = "up" /\ n \in failed[m]
  /\ mem' = [mem EXCEPT ![m] = @ \cup {n}, ![n] = (@ \cup (mem[m] \ ghost[n]) \cup {m}) \ {n}]   \* an alive claim does not revive a peer n holds as dead
  /\ ghost' = [ghost EXCEPT ![m] = @ \ {n}, ![n] = @ \ {m}]
  /\ failed' = [failed EXCEPT ![m] = @ \ {n}]
  /\ st' = [st EXCEPT ![m] = @ \cup st[n], ![n] = @ \cup st[m]]
  /\ last' = [op |-> "reconnect", m |-> m, n |-> n, had |-> st[m]]
  /\ UNCHANGED <<life, cache, gq, net, origin, cohort, pool, hurt, wide, ready, settle, used>>

(* Any other packet of s to p (ping, ack, membership gossip) is a write on  *)
(* the same pooled connection.                                              *)
Probe(s, p) ==
  /\ Transport = "tls" /\ life[s] = "up" /\ p \in G(s) /\ PoolAfter(s, p) # pool[s][p]
  /\ pool' = [pool EXCEPT ![s][p] = PoolAfter(s, p)]
  /\ last' = [op |-> "probe", n |-> s, p |-> p, found |-> Finds(s, p)]
  /\ UNCHANGED <<life, mem, ghost, failed, cache, st, gq, net, origin, cohort, hurt, wide, ready, settle, used>>

(* Fault: the established packet connections towards p are reset (a         *)
(* middlebox, an idle timeout); p keeps running and stays a member.         *)
ResetIn(p) ==
  /\ Transport = "tls" /\ life[p] = "up"
  /\ \E s \in Ids : pool[s][p] = "ok"
  /\ pool' = [s \in Ids |-> [x \in Ids |-> IF x = p /\ pool[s][x] = "ok" THEN "broken" ELSE pool[s][x]]]
  /\ used' = [used EXCEPT !.reset = @ + 1]
  /\ last' = [op |-> "resetin", n |-> p, broke |-> {s \in Ids : pool[s][p] = "ok"}]
  /\ UNCHANGED <<life, mem, ghost, failed, cache, st, gq, net, origin, cohort, hurt, wide, ready, settle>>

-----------------------------------------------------------------------------
(* Peer.Settle, one iteration of its loop after time.After(interval).       *)
Poll(n) ==
  /\ life[n] = "up" /\ settle[n].phase = "polling" /\ settle[n].budget > 0
  /\ LET s == settle[n]
         now == Cardinality(mem[n]) + 1                \* len(p.Peers())
     IN IF s.okay >= OkayRequired
          THEN /\ settle' = [settle EXCEPT ![n].phase = "returned"]
               /\ ready' = [ready EXCEPT ![n] = TRUE]
               /\ last' = [op |-> "poll", n |-> n, settled |-> TRUE]
          ELSE /\ settle' = [settle EXCEPT ![n] = [s EXCEPT !.okay = IF now = s.npeers THEN s.okay + 1 ELSE 0,
                                                             !.npeers = now, !.polls = s.polls + 1, !.budget = s.budget - 1]]
               /\ UNCHANGED ready
               /\ last' = [op |-> "poll", n |-> n, settled |-> FALSE]
  /\ UNCHANGED <<life, mem, ghost, failed, cache, st, gq, net, origin, cohort, pool, hurt, wide, used>>

(* ... and its context expired.                                             *)
Expire(n) ==
  /\ life[n] = "up" /\ settle[n].phase = "polling" /\ settle[n].budget = 0
  /\ settle' = [settle EXCEPT ![n].phase = "returned"]
  /\ ready' = [ready EXCEPT ![n] = IF OnTimeout = "ready" THEN TRUE ELSE @]
  /\ last' = [op |-> "expire", n |-> n]
  /\ UNCHANGED <<life, mem, ghost, failed, cache, st, gq, net, origin, cohort, pool, hurt, wide, used>>

(* A flush of n reaches ClusterGossipSettleStage.Exec: it returns at once   *)
(* iff the peer is ready, otherwise it blocks until the flush context ends. *)
Flush(n) ==
  /\ life[n] = "up"
  /\ last' = [op |-> "flush", n |-> n, ok |-> ready[n], returned |-> settle[n].phase = "returned"]
  /\ UNCHANGED <<life, mem, ghost, failed, cache, st, gq, net, origin, cohort, pool, hurt, wide, ready, settle, used>>

-----------------------------------------------------------------------------
(* Properties                                                               *)

Quiet == /\ net = {}
         /\ \A s \in Up : DOMAIN gq[s] = {} \/ G(s) = {}

\* C19: every update broadcast by an instance is merged by every instance that
\* stays connected to it.  Oversized: always.  Small: unless a gossip tick of the
\* origin left a target out while the update was queued (memberlist retires the
\* message after TxLimit transmissions whoever received them; the periodic
\* push/pull repairs it), or one of its packets was the one lost by the write that
\* found a reset connection (TLS transport; counted).  A reset costs that one
\* packet only: every LATER small update is delivered again.
Delivered ==
  Quiet => \A u \in Updates : \A p \in cohort[u] : Has(p, u) \/ (u \in Small /\ u \in wide \cup hurt)

\* the guarantee without the excuse (expected to fail)
DeliveredStrict == Quiet => \A u \in Updates : \A p \in cohort[u] : Has(p, u)

\* a joining or re-joining instance obtains the complete current state
JoinGetsAll ==
  [][/\ (last'.op = "join" => last'.had \subseteq st'[last'.n])
     /\ (last'.op = "reconnect" => last'.had \subseteq st'[last'.n])]_vars

\* C08 (readiness half): once Settle has returned - settled or timed out - the
\* instance is ready, so the settle stage of every flush returns and it notifies
Readiness == \A n \in Up : settle[n].phase = "returned" => ready[n]
FlushPasses == [][(last'.op = "flush" /\ last'.returned) => last'.ok]_vars

Sane == /\ \A n \in Ids : n \notin mem[n] /\ mem[n] \cap ghost[n] = {}
        /\ \A u \in Updates : cohort[u] \subseteq Up
        /\ \A n \in Ids : \A u \in DOMAIN gq[n] : gq[n][u] < TxLimit
        /\ \A n \in Ids : st[n] \subseteq {u \in Updates : origin[u] # "-"}
=============================================================================
