------------------------------ MODULE Silences ------------------------------
(***************************************************************************)
(* Silences of one Alertmanager instance: silence.Silences (store, version *)
(* index, matcher index) and silence.Silencer (per-alert cache).           *)
(* One action per critical section (Silences.mtx) of silence/silence.go:   *)
(* Set, Expire, Merge, GC, Query, loadSnapshot, and Silencer.Mutes /       *)
(* Silencer.PostGC.  Comparisons are transcribed with their strictness:    *)
(*   getState:  pending iff now < start; expired iff now > end             *)
(*   merge:     refused iff exp < now; replaces iff prev.upd < e.upd       *)
(*   GC:        drops iff exp <= now                                       *)
(*                                                                         *)
(* A silence is a record [id, ms, start, end, upd, exp, cmt]; ms names a   *)
(* matcher set of Labels!MSets.                                            *)
(***************************************************************************)
EXTENDS Labels

CONSTANTS Retention,     \* silence retention
          MaxSilences,   \* limit on the number of stored silences (0 = none)
          LocalIds       \* sequence of the ids Set will hand out, in order

VARIABLES now,
          st,        \* id -> silence (the state map)
          version,   \* Silences.version
          vi,        \* version index: sequence of [v, id]
          mi,        \* matcher index: id -> matcher set name compiled at index time
          cache,     \* Silencer cache: label set name -> [v, ids]
          nid,       \* number of ids handed out so far
          bcast,     \* history: number of broadcasts so far
          last       \* observation: last operation and reply

vars == <<now, st, version, vi, mi, cache, nid, bcast, last>>

Unset == -1

StateOf(s, t) == IF t < s.start THEN "pending" ELSE IF t > s.end THEN "expired" ELSE "active"
Active(s, t)  == StateOf(s, t) = "active"

Put(f, k, v) == [x \in DOMAIN f \cup {k} |-> IF x = k THEN v ELSE f[x]]
Drop(f, K)   == [x \in DOMAIN f \ K |-> f[x]]

Mesh(id, ms, start, end, cmt, t) ==
  [id |-> id, ms |-> ms, start |-> start, end |-> end, upd |-> t, exp |-> end + Retention, cmt |-> cmt]

\* state.merge: <<new store, changed, added>>
MergeOne(s, e, t) ==
  IF e.exp < t THEN <<s, FALSE, FALSE>>
  ELSE IF e.id \notin DOMAIN s THEN <<Put(s, e.id, e), TRUE, TRUE>>
  ELSE IF s[e.id].upd < e.upd THEN <<Put(s, e.id, e), TRUE, FALSE>>
  ELSE <<s, FALSE, FALSE>>

\* canUpdate(a, b, now)
CanUpdate(a, ms, start, end, t) ==
  /\ a.ms = ms
  /\ CASE StateOf(a, t) = "active"  -> a.start = start /\ end >= t
       [] StateOf(a, t) = "pending" -> start >= t
       [] OTHER -> FALSE

\* the size limit is modelled by one distinguished oversized comment
TooBig(cmt) == cmt = "big"

Init == /\ now = 0 /\ st = << >> /\ version = 0 /\ vi = << >> /\ mi = << >>
        /\ cache = << >> /\ nid = 0 /\ bcast = 0 /\ last = [op |-> "init"]

-----------------------------------------------------------------------------
(* Set(sil): update in place / expire + create / create                     *)

SetReply(id, ms, start, end, cmt, res, rid, via) ==
  [op |-> "set", id |-> id, ms |-> ms, start |-> start, end |-> end, cmt |-> cmt, res |-> res, rid |-> rid, via |-> via]

\* via = "lib": Silences.Set called directly; via = "api": POST /api/v2/silences, whose
\* handler first refuses start >= end and an end in the past (api/v2 postSilencesHandler)
SetV(id, ms, start0, end, cmt, via) ==
  LET start1 == IF start0 = Unset THEN now ELSE start0
      R(res, rid) == SetReply(id, ms, start0, end, cmt, res, rid, via)
      unchanged == UNCHANGED <<now, st, version, vi, mi, cache, nid, bcast>>
  IN
  IF via = "api" /\ (start0 = Unset \/ start0 >= end \/ end < now)
    THEN last' = R("invalid", "") /\ unchanged
  ELSE IF ~ValidMSet(MSets[ms]) \/ end < start1
    THEN last' = R("invalid", "") /\ unchanged
  ELSE IF id # "" /\ id \notin DOMAIN st
    THEN last' = R("notfound", "") /\ unchanged
  ELSE IF id \in DOMAIN st /\ CanUpdate(st[id], ms, start1, end, now)
    THEN \* update in place
         IF TooBig(cmt) THEN last' = R("toobig", "") /\ unchanged
         ELSE LET m == MergeOne(st, Mesh(id, ms, start1, end, cmt, now), now)
              IN /\ st' = m[1]
                 /\ bcast' = bcast + (IF m[2] THEN 1 ELSE 0)
                 /\ last' = R("ok", id)
                 /\ UNCHANGED <<now, version, vi, mi, cache, nid>>
  ELSE \* create (after expiring the previous one, if given and not expired)
    IF MaxSilences > 0 /\ Cardinality(DOMAIN st) + 1 > MaxSilences
      THEN last' = R("limit", "") /\ unchanged
    ELSE IF nid >= Len(LocalIds) THEN FALSE     \* model bound on fresh ids
    ELSE LET new    == LocalIds[nid + 1]
             start2 == IF start1 < now THEN now ELSE start1
             msil   == Mesh(new, ms, start2, end, cmt, now)
         IN IF TooBig(cmt) THEN last' = R("toobig", "") /\ unchanged
            ELSE
            LET prevLive == id \in DOMAIN st /\ StateOf(st[id], now) # "expired"
                ex  == IF prevLive
                         THEN LET p == st[id]
                                  q == [p EXCEPT !.end = now, !.upd = now, !.exp = now + Retention,
                                                 !.start = IF StateOf(p, now) = "pending" THEN now ELSE p.start]
                              IN MergeOne(st, q, now)
                         ELSE <<st, FALSE, FALSE>>
                m   == MergeOne(ex[1], msil, now)
            IN /\ st' = m[1]
               /\ nid' = nid + 1
               /\ IF m[3] THEN /\ version' = version + 1
                               /\ vi' = Append(vi, [v |-> version + 1, id |-> new])
                               /\ mi' = Put(mi, new, ms)
                          ELSE UNCHANGED <<version, vi, mi>>
               /\ bcast' = bcast + (IF ex[2] THEN 1 ELSE 0) + (IF m[2] THEN 1 ELSE 0)
               /\ last' = R("ok", new)
               /\ UNCHANGED <<now, cache>>

Set(id, ms, start0, end, cmt) == SetV(id, ms, start0, end, cmt, "lib")

(* Expire(id) *)
Expire(id) ==
  IF id \notin DOMAIN st
    THEN /\ last' = [op |-> "expire", id |-> id, res |-> "notfound"]
         /\ UNCHANGED <<now, st, version, vi, mi, cache, nid, bcast>>
  ELSE IF StateOf(st[id], now) = "expired"
    THEN /\ last' = [op |-> "expire", id |-> id, res |-> "ok"]
         /\ UNCHANGED <<now, st, version, vi, mi, cache, nid, bcast>>
  ELSE LET p == st[id]
           q == [p EXCEPT !.end = now, !.upd = now, !.exp = now + Retention,
                          !.start = IF StateOf(p, now) = "pending" THEN now ELSE p.start]
           m == MergeOne(st, q, now)
       IN /\ st' = m[1]
          /\ bcast' = bcast + (IF m[2] THEN 1 ELSE 0)
          /\ last' = [op |-> "expire", id |-> id, res |-> "ok"]
          /\ UNCHANGED <<now, version, vi, mi, cache, nid>>

(* Merge(b): b a set of silences with pairwise distinct ids.  Entries are   *)
(* independent of each other; added and replaced ids are (re-)indexed, the  *)
(* version bumped once per such id, in map iteration order - any order.     *)
DistinctIds(B) == \A a, b \in B : a.id = b.id => a = b
RECURSIVE MergeSeq(_, _, _, _, _, _, _)
MergeSeq(B, s, v, idx, m, n, t) ==     \* returns <<st, version, vi, mi, broadcasts>>
  IF B = {} THEN <<s, v, idx, m, n>>
  ELSE LET e == CHOOSE x \in B : TRUE
           r == MergeOne(s, e, t)
       IN IF r[3] THEN MergeSeq(B \ {e}, r[1], v + 1, Append(idx, [v |-> v + 1, id |-> e.id]),
                                Put(m, e.id, e.ms), n + 1, t)
          ELSE IF r[2] THEN \* replaced a known id: re-indexed at the end (repair of F1)
               MergeSeq(B \ {e}, r[1], v + 1,
                        Append(SelectSeq(idx, LAMBDA sv : sv.id # e.id), [v |-> v + 1, id |-> e.id]),
                        Put(m, e.id, e.ms), n + 1, t)
          ELSE MergeSeq(B \ {e}, r[1], v, idx, m, n, t)

\* big: the message exceeds half a gossip packet (cluster.OversizedMessage: it came over the
\* reliable channel, e.g. a full-state exchange); it is merged and indexed like any other but
\* not gossiped on
Merge(B, big) ==
  /\ DistinctIds(B)
  /\ LET r == MergeSeq(B, st, version, vi, mi, 0, now)
         sent == IF big THEN 0 ELSE r[5]
     IN /\ st' = r[1] /\ version' = r[2] /\ vi' = r[3] /\ mi' = r[4]
        /\ bcast' = bcast + sent
        /\ last' = [op |-> "merge", b |-> B, big |-> big, sent |-> sent]
  /\ UNCHANGED <<now, cache, nid>>

(* GC: walks the version index *)
GC ==
  LET dead == {id \in DOMAIN st : st[id].exp <= now}
      keep == SelectSeq(vi, LAMBDA sv : sv.id \in DOMAIN st /\ sv.id \notin dead)
      \* ids in the state but not in the version index are never collected
      gone == {id \in dead : \E i \in 1..Len(vi) : vi[i].id = id}
  IN /\ st' = Drop(st, gone)
     /\ mi' = Drop(mi, gone)
     /\ vi' = keep
     /\ last' = [op |-> "gc", n |-> Cardinality(gone)]
     /\ UNCHANGED <<now, version, cache, nid, bcast>>

(* Snapshot + New(SnapshotReader) + NewSilencer: state kept, indexes        *)
(* rebuilt at version 1, cache empty                                        *)
Restart ==
  /\ version' = 1
  /\ mi' = [id \in DOMAIN st |-> st[id].ms]
  \* all entries get version 1, so their order (map iteration) is immaterial
  /\ LET order == CHOOSE s \in [1..Cardinality(DOMAIN st) -> DOMAIN st] :
                     \A i, j \in DOMAIN s : i # j => s[i] # s[j]
     IN vi' = [i \in 1..Cardinality(DOMAIN st) |-> [v |-> 1, id |-> order[i]]]
  /\ cache' = << >>
  /\ last' = [op |-> "restart"]
  /\ UNCHANGED <<now, st, nid, bcast>>

(* Silencer.PostGC(fingerprints): the provider collected these alerts *)
AlertGC(L) ==
  /\ cache' = Drop(cache, L)
  /\ last' = [op |-> "alertgc", ls |-> L]
  /\ UNCHANGED <<now, st, version, vi, mi, nid, bcast>>

Tick(d) ==
  /\ d > 0 /\ now' = now + d
  /\ last' = [op |-> "tick", d |-> d]
  /\ UNCHANGED <<st, version, vi, mi, cache, nid, bcast>>

-----------------------------------------------------------------------------
(* Silencer.Mutes(lset): the incremental algorithm over the cache           *)

\* ids indexed after version v (QSince)
Since(v) == {vi[i].id : i \in {j \in 1..Len(vi) : vi[j].v > v}}
LiveState(id) == id \in DOMAIN st /\ StateOf(st[id], now) \in {"active", "pending"}

MutesImpl(ls) ==
  LET c    == IF ls \in DOMAIN cache THEN cache[ls] ELSE [v |-> 0, ids |-> {}]
      upto == c.v = version
      old  == {id \in c.ids : LiveState(id)}
      new  == IF upto THEN {}
              ELSE {id \in Since(c.v) : LiveState(id) /\ id \in DOMAIN mi /\ MsMatches(mi[id], ls)}
      all  == old \cup new
      newv == IF upto THEN c.v ELSE version
  IN IF upto /\ c.ids = {} THEN [ids |-> {}, cache |-> cache]
     ELSE [ids |-> {id \in all : Active(st[id], now)},
           cache |-> Put(cache, ls, [v |-> newv, ids |-> all])]

\* the property's reference: a direct evaluation of all stored silences
MutedRef(ls) == {id \in DOMAIN st : Active(st[id], now) /\ MsMatches(st[id].ms, ls)}

Mutes(ls) ==
  LET r == MutesImpl(ls)
  IN /\ cache' = r.cache
     /\ last' = [op |-> "mutes", ls |-> ls, ids |-> r.ids, ref |-> MutedRef(ls)]
     /\ UNCHANGED <<now, st, version, vi, mi, nid, bcast>>

(* Query(QState(states), QMatches(ls)) / Query(QIDs(id)) as the API uses them *)
QueryState(states) ==
  /\ last' = [op |-> "query", states |-> states,
              ids |-> {id \in DOMAIN st : StateOf(st[id], now) \in states}]
  /\ UNCHANGED <<now, st, version, vi, mi, cache, nid, bcast>>

-----------------------------------------------------------------------------
(* Properties                                                              *)

\* C02: the verdict equals a direct evaluation of the stored silences.
\* F1 (DESIGN.md section 8): a Merge that replaces an existing version does
\* not bump the store version, so a cache entry that no longer lists the id
\* (it was expired when last evaluated) is not refreshed.  Revived(id, ls)
\* characterises exactly that class.
MuteVerdictExact == [][last'.op = "mutes" => last'.ids = last'.ref]_vars

\* C12: lifecycle (action properties over one step)
IdsStable      == [][\A id \in DOMAIN st : id \in DOMAIN st' => st'[id].ms = st[id].ms]_vars
ExpiredForever == [][\A id \in DOMAIN st :
                       (last'.op \in {"set", "expire", "gc", "tick", "mutes", "query", "alertgc", "restart"}
                        /\ StateOf(st[id], now) = "expired" /\ id \in DOMAIN st')
                          => StateOf(st'[id], now') = "expired"]_vars
NoGCOfLive     == [][last'.op = "gc" => \A id \in DOMAIN st :
                        StateOf(st[id], now) # "expired" => id \in DOMAIN st']_vars
KeptForRetention == [][\A id \in DOMAIN st : st[id].end + Retention > now' => id \in DOMAIN st']_vars
FreshIds       == [][(last'.op = "set" /\ last'.res = "ok" /\ last'.rid # last'.id)
                        => last'.rid \notin DOMAIN st]_vars
NeverStartsInPast == [][(last'.op = "set" /\ last'.res = "ok" /\ last'.rid \notin DOMAIN st /\ last'.rid \in DOMAIN st')
                        => st'[last'.rid].start >= now]_vars
RejectedChangesNothing ==
  [][(last'.op = "set" /\ last'.res # "ok") => st' = st]_vars
\* C18 (silence limits): the API never brings the store above the limit
CountLimit == [][(last'.op = "set" /\ MaxSilences > 0 /\ Cardinality(DOMAIN st) <= MaxSilences)
                    => Cardinality(DOMAIN st') <= MaxSilences]_vars
\* C09/C12: merge never replaces a newer version by an older one
NeverOlder == [][\A id \in DOMAIN st : id \in DOMAIN st' => st'[id].upd >= st[id].upd]_vars

\* structural: version index sorted, every indexed id stored, mi = stored ids
IndexOK == /\ \A i \in 1..Len(vi) : vi[i].id \in DOMAIN st /\ vi[i].v <= version
           /\ \A i, j \in 1..Len(vi) : i < j => vi[i].v <= vi[j].v
           /\ \A id \in DOMAIN st : \E i \in 1..Len(vi) : vi[i].id = id
           /\ DOMAIN mi = DOMAIN st
=============================================================================
