------------------------------- MODULE Labels -------------------------------
(***************************************************************************)
(* Label sets, matchers and matcher sets: the one meaning of "matches"     *)
(* used by silences, inhibition rules, routes and API filters (C16):       *)
(*  - a missing label reads as the empty string,                           *)
(*  - '=' / '!=' compare whole strings,                                    *)
(*  - '=~' / '!~' test a fully anchored regular expression,                *)
(*  - a matcher list (AND) holds iff every matcher holds,                  *)
(*  - a matcher set (OR of lists) holds iff some list holds.               *)
(*                                                                         *)
(* TLC has no regular expressions.  A regex matcher carries its source     *)
(* text (given to the real code) and its language restricted to the finite *)
(* value universe Values (used by the specification).  The languages are   *)
(* stated here by hand for a handful of patterns; the harness cross-checks *)
(* each (pattern, value) pair against Go's regexp with ^(?:...)$ anchoring *)
(* as part of the C16 check.                                               *)
(***************************************************************************)
EXTENDS Integers, FiniteSets, Sequences, TLC

Values == {"", "x", "y", "xy"}

Lang(src) == CASE src = "x|y"  -> {"x", "y"}
               [] src = ".*"   -> Values
               [] src = ".+"   -> Values \ {""}
               [] src = "x.*"  -> {"x", "xy"}
               [] src = "x"    -> {"x"}
               [] src = "y?"   -> {"", "y"}
               [] src = ""     -> {""}
               [] OTHER        -> {}

Eq(n, v)  == [n |-> n, op |-> "=",  v |-> v]
Ne(n, v)  == [n |-> n, op |-> "!=", v |-> v]
Re(n, v)  == [n |-> n, op |-> "=~", v |-> v]
Nre(n, v) == [n |-> n, op |-> "!~", v |-> v]

ValueOf(ls, n) == IF n \in DOMAIN ls THEN ls[n] ELSE ""

Matches(m, ls) ==
  LET val == ValueOf(ls, m.n)
  IN CASE m.op = "="  -> val = m.v
       [] m.op = "!=" -> val # m.v
       [] m.op = "=~" -> val \in Lang(m.v)
       [] m.op = "!~" -> val \notin Lang(m.v)

\* a matcher list is a sequence of matchers (AND)
MatchesAll(ml, ls) == \A i \in 1..Len(ml) : Matches(ml[i], ls)
\* a matcher set is a sequence of matcher lists (OR)
MatchesAny(ms, ls) == \E i \in 1..Len(ms) : MatchesAll(ms[i], ls)

\* a matcher that matches the empty string (silence validation)
MatchesEmpty(m) == CASE m.op = "="  -> m.v = ""
                     [] m.op = "=~" -> "" \in Lang(m.v)
                     [] OTHER       -> FALSE

-----------------------------------------------------------------------------
(* The universe of label sets (functions from label names to values).      *)
LSets == [ L1 |-> [a |-> "x"],
           L2 |-> [a |-> "y", b |-> "x"],
           L3 |-> [b |-> "y"],
           L4 |-> [a |-> "xy", c |-> "x"],
           L5 |-> [a |-> "x", b |-> "y"],
           L6 |-> [a |-> "y"] ]                 \* lacks b: an empty-valued equality matcher on b holds
LSetNames == DOMAIN LSets

(* The library of matcher sets used by silences.                           *)
MSets == [ M1 |-> << <<Eq("a", "x")>> >>,
           M2 |-> << <<Re("a", "x|y")>> >>,
           M3 |-> << <<Ne("a", "x"), Eq("b", "x")>> >>,
           M4 |-> << <<Eq("a", "x")>>, <<Eq("b", "y")>> >>,
           M5 |-> << <<Nre("c", "x.*"), Re("a", ".+")>> >>,
           M6 |-> << <<Eq("b", ""), Eq("a", "y")>> >>,
           \* operator twins: same names and patterns as M2 / M3, another operator (an edit from one to
           \* the other rewrites history like any other change of matchers)
           M7 |-> << <<Eq("a", "x|y")>> >>,
           M8 |-> << <<Eq("a", "x"), Eq("b", "x")>> >>,
           MBadEmpty |-> << <<Eq("a", "")>> >>,
           MBadRe    |-> << <<Re("a", ".*"), Re("b", "y?")>> >>,
           MNone     |-> << >> ]
MSetNames == DOMAIN MSets

\* silence.validateSilence: at least one set, no empty set, in every set at
\* least one matcher that does not match the empty string
ValidMSet(ms) == /\ Len(ms) > 0
                 /\ \A i \in 1..Len(ms) :
                      /\ Len(ms[i]) > 0
                      /\ \E j \in 1..Len(ms[i]) : ~MatchesEmpty(ms[i][j])

MsMatches(msn, lsn) == MatchesAny(MSets[msn], LSets[lsn])
=============================================================================
