------------------------------ MODULE Matchers ------------------------------
(***************************************************************************)
(* Matcher syntax of Alertmanager (C16): the two parsers, the printer and  *)
(* the compatibility layer, over an abstract alphabet.                     *)
(*                                                                         *)
(*   U8L / U8M   matcher/parse: lexer (lexer.go scan, scanOperator,        *)
(*               scanQuoted, scanUnquoted) and the parser automaton        *)
(*               (parse.go: one Step* definition and one TLA+ action per   *)
(*               parseFunc), token.unquote (strconv.Unquote)               *)
(*   CLM / CLL   pkg/labels/parse.go: ParseMatcher (the regular expression *)
(*               + the unescape loop) and ParseMatchers (brace trimming +  *)
(*               comma splitting loop)                                     *)
(*   PrintM      pkg/labels/matcher.go Matcher.String / Matchers.String    *)
(*               (strconv.Quote when the name has a reserved rune,         *)
(*               openMetricsEscape otherwise)                              *)
(*   STM, FBM, FBL  matcher/compat/parse.go: UTF-8 strict single matcher,  *)
(*               FallbackMatcherParser, FallbackMatchersParser             *)
(*                                                                         *)
(* A string is a sequence of symbol classes.  Every class stands for the   *)
(* runes that the code treats alike; the harness instantiates a class by a *)
(* fixed representative (in brackets), which matters only where noted:     *)
(*   "l"    letter that is no escape letter of strconv or regexp [k]       *)
(*   "n"    the letter n             (\n is the line-feed escape)          *)
(*   "d"    digit [9]                (\9 invalid for strconv and regexp;   *)
(*                                    {9} is a regexp repetition)          *)
(*   "col"  '_' or ':' [_]           (classic label-name rune, not alnum)  *)
(*   "dash" unreserved ASCII punctuation that is no classic name rune [-]  *)
(*   "sp"   space                    (\s and unicode.IsSpace)              *)
(*   "lf"   line feed                (white space; strconv.Unquote refuses *)
(*                                    it raw inside quotes)                *)
(*   "dq" '"'  "bs" '\'  "sq" "'"  "bt" '`'  "ob" '{'  "cb" '}'            *)
(*   "com" ','  "eq" '='  "bang" '!'  "til" '~'                            *)
(*   "u2"   2-byte rune [e-acute]    "u4"  4-byte rune [U+1F600]           *)
(*   "bad"  a byte that is not UTF-8 [0xff]                                *)
(*   "rep"  U+FFFD (what Go substitutes for "bad" when it re-encodes)      *)
(*                                                                         *)
(* Left out: escapes of strconv.Unquote other than \n \\ \" (octal, \x,    *)
(* \u, \a\b\f\r\t\v need letters/digits that are not representatives),     *)
(* regular-expression syntax beyond literals, escapes and {n,m} (RegexOK), *)
(* Unicode-only white space (NBSP...: the harness probes it directly).     *)
(* The MEANING of a matcher ('=~' as the fully anchored regular            *)
(* expression, '.' without the line feed, missing label = "") is           *)
(* MatchersSem.tla; both are combined in mc/MC_Matchers.tla.               *)
(***************************************************************************)
EXTENDS Integers, Sequences, FiniteSets, TLC

CONSTANTS Sym,      \* the symbol classes in use
          L         \* maximal length of an input string

VARIABLES inp,      \* the input string (built symbol by symbol, then parsed)
          ps        \* configuration of the UTF-8 parser automaton

vars == <<inp, ps>>

AllSym == {"l", "n", "d", "col", "dash", "sp", "lf", "dq", "bs", "sq", "bt", "ob",
           "cb", "com", "eq", "bang", "til", "u2", "u4", "bad", "rep"}

ASSUME Sym \subseteq AllSym

-----------------------------------------------------------------------------
(* Rune classes                                                            *)
IsSpace(x)    == x \in {"sp", "lf"}
\* lexer.go / matcher.go isReserved
IsReserved(x) == IsSpace(x) \/ x \in {"ob", "cb", "bang", "eq", "til", "com", "bs", "dq", "sq", "bt"}
\* parse.go re: [a-zA-Z_:] and [a-zA-Z0-9_:]
NameStart(x)  == x \in {"l", "n", "col"}
NameChar(x)   == NameStart(x) \/ x = "d"

At(s, p)     == IF p >= 1 /\ p <= Len(s) THEN s[p] ELSE "EOF"
Sub(s, b, e) == SubSeq(s, b, e - 1)                \* s[b .. e)
Has(s, x)    == \E i \in 1 .. Len(s) : s[i] = x
HasReserved(s) == \E i \in 1 .. Len(s) : IsReserved(s[i])

Ops == {"=", "!=", "=~", "!~"}
M(t, n, v) == [t |-> t, n |-> n, v |-> v]          \* a matcher
Fail    == [ok |-> FALSE, ms |-> << >>]            \* a parse result
Ok(ms)  == [ok |-> TRUE, ms |-> ms]
Single(r) == IF r.ok /\ Len(r.ms) = 1 THEN r ELSE Fail

-----------------------------------------------------------------------------
(* labels.NewMatcher: regexp.Compile("^(?:" + v + ")$") for =~ and !~.     *)
(* Over the alphabet a pattern is a sequence of literals, escapes and      *)
(* counted repetitions; the wrapping makes a trailing backslash and a      *)
(* repetition without operand errors.                                      *)
EscOK(x) == x \notin {"l", "d", "u2", "u4", "bad", "rep", "EOF"}

RECURSIVE Digits(_, _)
Digits(v, p) == IF At(v, p) = "d" THEN 1 + Digits(v, p + 1) ELSE 0

\* v[p] = "{": [end |-> index after the closing brace (0: not a repetition), ok |-> sizes valid]
Repeat(v, p) ==
  LET n1 == Digits(v, p + 1)
      q  == p + 1 + n1
  IN IF n1 = 0 THEN [end |-> 0, ok |-> TRUE]
     ELSE IF At(v, q) = "cb" THEN [end |-> q + 1, ok |-> n1 <= 3]
     ELSE IF At(v, q) = "com" THEN
          LET n2 == Digits(v, q + 1)
          IN IF At(v, q + 1 + n2) = "cb"
               THEN [end |-> q + 2 + n2, ok |-> n1 <= 3 /\ n2 <= 3 /\ (n2 = 0 \/ n1 <= n2)]
               ELSE [end |-> 0, ok |-> TRUE]
     ELSE [end |-> 0, ok |-> TRUE]

RECURSIVE ReWalk(_, _, _)
ReWalk(v, p, prev) ==       \* prev: "none" (nothing to repeat), "atom", "rep"
  IF p > Len(v) THEN TRUE
  ELSE IF v[p] = "bad" THEN FALSE
  ELSE IF v[p] = "bs" THEN EscOK(At(v, p + 1)) /\ ReWalk(v, p + 2, "atom")
  ELSE IF v[p] = "ob" /\ Repeat(v, p).end > 0
         THEN Repeat(v, p).ok /\ prev = "atom" /\ ReWalk(v, Repeat(v, p).end, "rep")
  ELSE ReWalk(v, p + 1, "atom")

RegexOK(v) == ReWalk(v, 1, "none")

NewMatcherOK(m) == m.t \in {"=~", "!~"} => RegexOK(m.v)

-----------------------------------------------------------------------------
(* matcher/parse/lexer.go.  A token is [k, b, e]: kind, begin, end (the    *)
(* token text is s[b .. e)).  Scan(s, p) is lexer.scan with the cursor at  *)
(* p; lexer.peek is the same function without moving the cursor.           *)
Tok(k, b, e) == [k |-> k, b |-> b, e |-> e]
LexErr       == [k |-> "err", b |-> 0, e |-> 0]

\* scanQuoted after the opening quote: index of the closing quote, 0 if unterminated
RECURSIVE QuotedEnd(_, _, _)
QuotedEnd(s, p, esc) ==
  IF p > Len(s) THEN 0
  ELSE IF esc THEN QuotedEnd(s, p + 1, FALSE)
  ELSE IF s[p] = "bs" THEN QuotedEnd(s, p + 1, TRUE)
  ELSE IF s[p] = "dq" THEN p
  ELSE QuotedEnd(s, p + 1, FALSE)

ScanQuoted(s, p) == LET q == QuotedEnd(s, p + 1, FALSE)
                    IN IF q = 0 THEN LexErr ELSE Tok("q", p, q + 1)

RECURSIVE UnquotedEnd(_, _)
UnquotedEnd(s, p) == IF p > Len(s) \/ IsReserved(s[p]) THEN p ELSE UnquotedEnd(s, p + 1)

ScanOperator(s, p) ==
  IF At(s, p) = "bang"
    THEN IF At(s, p + 1) = "eq" THEN Tok("ne", p, p + 2)
         ELSE IF At(s, p + 1) = "til" THEN Tok("nre", p, p + 2)
         ELSE LexErr
    ELSE IF At(s, p + 1) = "til" THEN Tok("re", p, p + 2) ELSE Tok("eq", p, p + 1)

RECURSIVE Scan(_, _)
Scan(s, p) ==
  LET r == At(s, p)
  IN CASE r = "EOF"              -> Tok("eof", p, p)
       [] r = "ob"               -> Tok("ob", p, p + 1)
       [] r = "cb"               -> Tok("cb", p, p + 1)
       [] r = "com"              -> Tok("com", p, p + 1)
       [] r \in {"eq", "bang"}   -> ScanOperator(s, p)
       [] r = "dq"               -> ScanQuoted(s, p)
       [] IsSpace(r)             -> Scan(s, p + 1)             \* l.skip()
       [] OTHER                  -> IF ~IsReserved(r) THEN Tok("u", p, UnquotedEnd(s, p + 1))
                                    ELSE LexErr                \* ~ \ ' ` outside quotes

\* every scan consumes input, reports the end of input, or stops with an error
LexProgress(s) ==
  \A p \in 1 .. Len(s) + 1 :
    LET t == Scan(s, p)
    IN \/ t.k = "err"
       \/ t.k = "eof" /\ t.e = Len(s) + 1
       \/ t.k \notin {"err", "eof"} /\ p <= t.b /\ t.b < t.e /\ t.e <= Len(s) + 1

(* token.unquote: strconv.Unquote of a double-quoted token.                *)
RECURSIVE Unq(_, _, _)
Unq(b, i, acc) ==
  IF i > Len(b) THEN [ok |-> TRUE, v |-> acc]
  ELSE IF b[i] = "bs" THEN
         LET x == At(b, i + 1)
         IN IF x = "n" THEN Unq(b, i + 2, Append(acc, "lf"))
            ELSE IF x \in {"bs", "dq"} THEN Unq(b, i + 2, Append(acc, x))
            ELSE [ok |-> FALSE, v |-> << >>]
  ELSE IF b[i] = "bad" THEN Unq(b, i + 1, Append(acc, "rep"))
  ELSE Unq(b, i + 1, Append(acc, b[i]))

Unquote(s, t) ==
  IF t.k = "q"
    THEN LET body == Sub(s, t.b + 1, t.e - 1)
         IN IF Has(body, "lf") THEN [ok |-> FALSE, v |-> << >>] ELSE Unq(body, 1, << >>)
    ELSE [ok |-> TRUE, v |-> Sub(s, t.b, t.e)]

-----------------------------------------------------------------------------
(* matcher/parse/parse.go: the automaton.  Configuration                   *)
(* [pc, pos, hob, ms]: next parseFunc, lexer cursor, hasOpenBrace, matchers*)
PCs == {"idle", "openBrace", "closeBrace", "matcher", "endOfMatcher", "comma", "eof", "done", "fail"}
Halted(k) == k.pc \in {"done", "fail"}
Idle    == [pc |-> "idle", pos |-> 1, hob |-> FALSE, ms |-> << >>]
StartC  == [Idle EXCEPT !.pc = "openBrace"]
Goto(k, pc) == [k EXCEPT !.pc = pc]
FailC(k)    == [k EXCEPT !.pc = "fail"]

OpOf(kind) == CASE kind = "eq" -> "=" [] kind = "ne" -> "!=" [] kind = "re" -> "=~" [] kind = "nre" -> "!~"

StepOpenBrace(s, k) ==
  LET t == Scan(s, k.pos)
  IN IF t.k = "err" THEN FailC(k)
     ELSE IF t.k = "eof" THEN Goto(k, "eof")
     ELSE LET k1 == [k EXCEPT !.hob = (t.k = "ob"), !.pos = IF t.k = "ob" THEN t.e ELSE k.pos]
              t2 == Scan(s, k1.pos)
          IN IF t2.k = "err" THEN FailC(k1)
             ELSE IF t2.k \in {"eof", "cb"} THEN Goto(k1, "closeBrace")
             ELSE Goto(k1, "matcher")

StepCloseBrace(s, k) ==
  LET t == Scan(s, k.pos)
  IN IF k.hob THEN IF t.k = "cb" THEN [k EXCEPT !.pos = t.e, !.pc = "eof"] ELSE FailC(k)
     ELSE IF t.k = "cb" THEN FailC(k) ELSE Goto(k, "eof")    \* a lexer error is met again by parseEOF

StepMatcher(s, k) ==
  LET t1 == Scan(s, k.pos)
  IN IF t1.k \notin {"q", "u"} THEN FailC(k) ELSE
     LET nm == Unquote(s, t1)
         t2 == Scan(s, t1.e)
     IN IF ~nm.ok \/ t2.k \notin {"eq", "ne", "re", "nre"} THEN FailC(k) ELSE
        LET t3 == Scan(s, t2.e)
        IN IF t3.k \notin {"q", "u"} THEN FailC(k) ELSE
           LET vl == Unquote(s, t3)
           IN IF ~vl.ok THEN FailC(k) ELSE
              LET m == M(OpOf(t2.k), nm.v, vl.v)
              IN IF ~NewMatcherOK(m) THEN FailC(k)
                 ELSE [k EXCEPT !.pos = t3.e, !.ms = Append(@, m), !.pc = "endOfMatcher"]

StepEndOfMatcher(s, k) ==
  LET t == Scan(s, k.pos)
  IN CASE t.k = "eof" -> Goto(k, "closeBrace")
       [] t.k = "com" -> Goto(k, "comma")
       [] t.k = "cb"  -> Goto(k, "closeBrace")
       [] OTHER       -> FailC(k)

StepComma(s, k) ==
  LET t == Scan(s, k.pos)
  IN IF t.k # "com" THEN FailC(k) ELSE
     LET t2 == Scan(s, t.e)
         k1 == [k EXCEPT !.pos = t.e]
     IN CASE t2.k \in {"eof", "cb"} -> Goto(k1, "closeBrace")
          [] t2.k \in {"q", "u"}    -> Goto(k1, "matcher")
          [] OTHER                  -> FailC(k1)

StepEOF(s, k) == IF Scan(s, k.pos).k = "eof" THEN Goto(k, "done") ELSE FailC(k)

Step(s, k) == CASE k.pc = "openBrace"    -> StepOpenBrace(s, k)
                [] k.pc = "closeBrace"   -> StepCloseBrace(s, k)
                [] k.pc = "matcher"      -> StepMatcher(s, k)
                [] k.pc = "endOfMatcher" -> StepEndOfMatcher(s, k)
                [] k.pc = "comma"        -> StepComma(s, k)
                [] k.pc = "eof"          -> StepEOF(s, k)

(* Termination: every step of the automaton consumes input or moves to a   *)
(* parseFunc of lower rank, so a run has at most 6 * (Len + 1) steps.      *)
Rank(pc) == CASE pc = "openBrace" -> 6 [] pc = "matcher" -> 5 [] pc = "endOfMatcher" -> 4
              [] pc = "comma" -> 3 [] pc = "closeBrace" -> 2 [] pc = "eof" -> 1 [] OTHER -> 0
Progress(k, k2) == \/ k2.pos > k.pos
                   \/ k2.pos = k.pos /\ Rank(k2.pc) < Rank(k.pc)
Fuel(s) == 6 * (Len(s) + 1)

RECURSIVE RunFrom(_, _, _)
RunFrom(s, k, fuel) == IF Halted(k) \/ fuel = 0 THEN k ELSE RunFrom(s, Step(s, k), fuel - 1)

RECURSIVE ProgressFrom(_, _, _)
ProgressFrom(s, k, fuel) ==
  IF Halted(k) THEN TRUE
  ELSE IF fuel = 0 THEN FALSE
  ELSE LET k2 == Step(s, k)
       IN Progress(k, k2) /\ k2.pos <= Len(s) + 1 /\ ProgressFrom(s, k2, fuel - 1)

Terminates(s) == ProgressFrom(s, StartC, Fuel(s))

\* parse.Matchers and parse.Matcher
U8L(s) == LET k == RunFrom(s, StartC, Fuel(s)) IN IF k.pc = "done" THEN Ok(k.ms) ELSE Fail
U8M(s) == Single(U8L(s))

-----------------------------------------------------------------------------
\* pkg/labels/parse.go ParseMatcher, regular expression
\*    ^\s*([a-zA-Z_:][a-zA-Z0-9_:]*)\s*(=~|=|!=|!~)\s*((?s).*?)\s*$
\* The classes of the three groups are disjoint from \s and from each other's
\* first runes, so the leftmost-first match is: skip blanks, the longest name,
\* blanks, the operator ('=~' before '='), blanks, the rest without trailing
\* blanks.
RECURSIVE SkipWs(_, _)
SkipWs(s, p) == IF p <= Len(s) /\ IsSpace(s[p]) THEN SkipWs(s, p + 1) ELSE p
RECURSIVE NameEnd(_, _)
NameEnd(s, p) == IF p <= Len(s) /\ NameChar(s[p]) THEN NameEnd(s, p + 1) ELSE p
RECURSIVE TrimRight(_)
TrimRight(s) == IF Len(s) > 0 /\ IsSpace(s[Len(s)]) THEN TrimRight(Sub(s, 1, Len(s))) ELSE s
TrimWs(s) == LET p == SkipWs(s, 1) IN TrimRight(Sub(s, p, Len(s) + 1))

ClassicOp(s, p) ==
  CASE At(s, p) = "eq" /\ At(s, p + 1) = "til"   -> "=~"
    [] At(s, p) = "eq" /\ At(s, p + 1) # "til"   -> "="
    [] At(s, p) = "bang" /\ At(s, p + 1) = "eq"  -> "!="
    [] At(s, p) = "bang" /\ At(s, p + 1) = "til" -> "!~"
    [] OTHER -> "none"

\* the unescape loop; tq = expectTrailingQuote
RECURSIVE Unesc(_, _, _, _, _)
Unesc(raw, i, esc, tq, acc) ==
  IF i > Len(raw) THEN (IF tq THEN [ok |-> FALSE, v |-> << >>] ELSE [ok |-> TRUE, v |-> acc])
  ELSE LET r == raw[i] IN
    IF esc THEN
      IF r = "n" THEN Unesc(raw, i + 1, FALSE, tq, Append(acc, "lf"))
      ELSE IF r \in {"dq", "bs"} THEN Unesc(raw, i + 1, FALSE, tq, Append(acc, r))
      ELSE Unesc(raw, i + 1, FALSE, tq, acc \o <<"bs", r>>)
    ELSE IF r = "bs" THEN
      IF i < Len(raw) THEN Unesc(raw, i + 1, TRUE, tq, acc)
      ELSE Unesc(raw, i + 1, FALSE, tq, Append(acc, "bs"))
    ELSE IF r = "dq" THEN
      IF ~tq \/ i < Len(raw) THEN [ok |-> FALSE, v |-> << >>]
      ELSE Unesc(raw, i + 1, FALSE, FALSE, acc)
    ELSE Unesc(raw, i + 1, FALSE, tq, Append(acc, r))

CLM(s) ==
  LET p1 == SkipWs(s, 1)
      p2 == NameEnd(s, p1)
      p3 == SkipWs(s, p2)
      op == ClassicOp(s, p3)
  IN IF ~NameStart(At(s, p1)) \/ op = "none" THEN Fail ELSE
     LET p4   == p3 + (IF op = "=" THEN 1 ELSE 2)
         raw0 == TrimRight(Sub(s, SkipWs(s, p4), Len(s) + 1))
         tq   == At(raw0, 1) = "dq"
         raw  == IF tq THEN Sub(raw0, 2, Len(raw0) + 1) ELSE raw0
     IN IF Has(raw, "bad") THEN Fail ELSE
        LET u == Unesc(raw, 1, FALSE, tq, << >>)
            m == M(op, Sub(s, p1, p2), u.v)
        IN IF u.ok /\ NewMatcherOK(m) THEN Ok(<<m>>) ELSE Fail

(* ParseMatchers: trim one leading '{' and one trailing '}', split at the  *)
(* commas outside quotes, drop a blank last piece, ParseMatcher on each.   *)
\* the splitting loop; returns the pieces, the last one (the unfinished token) included
RECURSIVE Split(_, _, _, _, _, _)
Split(s, i, inq, esc, tok, toks) ==
  IF i > Len(s) THEN Append(toks, tok)
  ELSE LET r == s[i]
           w == IF r = "bad" THEN "rep" ELSE r      \* range + WriteRune re-encode an invalid byte
       IN IF r = "com" THEN
            IF ~inq THEN Split(s, i + 1, inq, esc, << >>, Append(toks, tok))
            ELSE Split(s, i + 1, inq, esc, Append(tok, w), toks)
          ELSE IF r = "dq" THEN
            IF ~esc THEN Split(s, i + 1, ~inq, esc, Append(tok, w), toks)
            ELSE Split(s, i + 1, inq, FALSE, Append(tok, w), toks)
          ELSE IF r = "bs" THEN Split(s, i + 1, inq, ~esc, Append(tok, w), toks)
          ELSE Split(s, i + 1, inq, FALSE, Append(tok, w), toks)

RECURSIVE ParseAll(_, _, _)
ParseAll(toks, i, acc) ==
  IF i > Len(toks) THEN Ok(acc)
  ELSE LET r == CLM(toks[i]) IN IF r.ok THEN ParseAll(toks, i + 1, Append(acc, r.ms[1])) ELSE Fail

CLL(s) ==
  LET s1 == IF At(s, 1) = "ob" THEN Sub(s, 2, Len(s) + 1) ELSE s
      s2 == IF Len(s1) > 0 /\ s1[Len(s1)] = "cb" THEN Sub(s1, 1, Len(s1)) ELSE s1
      parts == Split(s2, 1, FALSE, FALSE, << >>, << >>)
      n     == Len(parts)
      lt    == TrimWs(parts[n])
      toks  == IF lt = << >> THEN Sub(parts, 1, n) ELSE [parts EXCEPT ![n] = lt]
  IN ParseAll(toks, 1, << >>)

-----------------------------------------------------------------------------
(* pkg/labels/matcher.go: Matcher.String, Matchers.String                  *)
\* strconv.Quote and openMetricsEscape agree on the alphabet: \\ \n \" and the rest verbatim
RECURSIVE Esc(_, _)
Esc(v, i) == IF i > Len(v) THEN << >>
             ELSE (CASE v[i] = "bs" -> <<"bs", "bs">>
                     [] v[i] = "lf" -> <<"bs", "n">>
                     [] v[i] = "dq" -> <<"bs", "dq">>
                     [] OTHER       -> <<v[i]>>) \o Esc(v, i + 1)
Quote(v) == <<"dq">> \o Esc(v, 1) \o <<"dq">>

OpSyms(t) == CASE t = "=" -> <<"eq">> [] t = "!=" -> <<"bang", "eq">>
               [] t = "=~" -> <<"eq", "til">> [] t = "!~" -> <<"bang", "til">>

PrintM(m) == (IF HasReserved(m.n) THEN Quote(m.n) ELSE m.n) \o OpSyms(m.t) \o Quote(m.v)

RECURSIVE Join(_, _)
Join(ms, i) == IF i > Len(ms) THEN << >>
               ELSE (IF i > 1 THEN <<"com">> ELSE << >>) \o PrintM(ms[i]) \o Join(ms, i + 1)
PrintList(ms) == <<"ob">> \o Join(ms, 1) \o <<"cb">>

-----------------------------------------------------------------------------
(* matcher/compat/parse.go                                                 *)
Braced(s) == At(s, 1) = "ob" \/ (Len(s) > 0 /\ s[Len(s)] = "cb")

\* the decision of FallbackMatcherParser / FallbackMatchersParser on the two results
FB(n, cl) == IF ~n.ok THEN (IF ~cl.ok THEN Fail ELSE cl)
             ELSE IF cl.ok /\ n # cl THEN cl
             ELSE n

\* the results of all entry points for one input (each parser is run once)
All(s) ==
  LET u  == U8L(s)
      um == Single(u)
      cm == CLM(s)
      cl == CLL(s)
      br == Braced(s)
  IN [u8l |-> u,                                    \* parse.Matchers, compat.Matchers in UTF-8 strict mode
      u8m |-> um,                                   \* parse.Matcher
      clm |-> cm,                                   \* labels.ParseMatcher, compat.Matcher in classic mode
      cll |-> cl,                                   \* labels.ParseMatchers, compat.Matchers in classic mode
      stm |-> IF br THEN Fail ELSE um,              \* compat.Matcher in UTF-8 strict mode (UTF8MatcherParser)
      fbm |-> IF br THEN Fail ELSE FB(um, cm),      \* compat.Matcher in fallback mode
      fbl |-> FB(u, cl)]                            \* compat.Matchers in fallback mode

STM(s) == All(s).stm
FBM(s) == All(s).fbm
FBL(s) == All(s).fbl

-----------------------------------------------------------------------------
(* The property (C16), syntax part.                                        *)

\* fallback law as the statement words it, for a new-parser result n, a classic
\* result cl and the fallback result f
Law(n, cl, f) == /\ (n.ok /\ cl.ok /\ n # cl => f = cl)
                 /\ (n.ok /\ cl.ok /\ n = cl => f = n)
                 /\ (~n.ok /\ cl.ok => f.ok)
                 /\ (f.ok => f = n \/ f = cl)
                 /\ (f.ok => n.ok \/ cl.ok)

\* KnownGap (reported, D1): compat.Matcher refuses every input that starts with '{'
\* or ends with '}' before it asks the parsers; the classic parser accepts 'a=b}'.
BraceGapR(s, r) == Braced(s) /\ r.clm.ok /\ ~r.fbm.ok
BraceGap(s)     == BraceGapR(s, All(s))

FallbackLaws(s) == LET r == All(s)
                   IN /\ Law(r.u8l, r.cll, r.fbl)
                      /\ (Law(r.u8m, r.clm, r.fbm) \/ BraceGapR(s, r))

ClassicName(n) == Len(n) > 0 /\ NameStart(n[1]) /\ \A i \in 1 .. Len(n) : NameChar(n[i])
ValidUTF8(v)   == ~Has(v, "bad")
\* a matcher that can exist and is in the scope of the round-trip clause
\* (D2, reported: a matcher with the empty name prints as ="v", which no parser accepts)
Printable(m) == ValidUTF8(m.n) /\ ValidUTF8(m.v) /\ NewMatcherOK(m) /\ Len(m.n) > 0

RoundTrip(m) ==
  LET r == All(PrintM(m))
      w == Ok(<<m>>)
  IN /\ r.u8m = w /\ r.u8l = w /\ r.stm = w /\ r.fbm = w /\ r.fbl = w
     /\ (ClassicName(m.n) => r.clm = w /\ r.cll = w)

RoundTripList(ms) ==
  LET r == All(PrintList(ms))
  IN /\ r.u8l = Ok(ms)
     /\ r.fbl = Ok(ms)
     /\ ((\A i \in 1 .. Len(ms) : ClassicName(ms[i].n)) => r.cll = Ok(ms))

-----------------------------------------------------------------------------
(* The behaviour: the input is built symbol by symbol (every string up to  *)
(* length L is a reachable state with ps = Idle); from any of them the     *)
(* UTF-8 parser may be started and runs one parseFunc per step.            *)
Init == inp = << >> /\ ps = Idle

Extend == /\ ps.pc = "idle" /\ Len(inp) < L
          /\ \E x \in Sym : inp' = Append(inp, x)
          /\ UNCHANGED ps

Start == ps.pc = "idle" /\ ps' = StartC /\ UNCHANGED inp

ParseOpenBrace    == ps.pc = "openBrace"    /\ ps' = StepOpenBrace(inp, ps)    /\ UNCHANGED inp
ParseCloseBrace   == ps.pc = "closeBrace"   /\ ps' = StepCloseBrace(inp, ps)   /\ UNCHANGED inp
ParseMatcher      == ps.pc = "matcher"      /\ ps' = StepMatcher(inp, ps)      /\ UNCHANGED inp
ParseEndOfMatcher == ps.pc = "endOfMatcher" /\ ps' = StepEndOfMatcher(inp, ps) /\ UNCHANGED inp
ParseComma        == ps.pc = "comma"        /\ ps' = StepComma(inp, ps)        /\ UNCHANGED inp
ParseEOF          == ps.pc = "eof"          /\ ps' = StepEOF(inp, ps)          /\ UNCHANGED inp

ParserStep == \/ ParseOpenBrace \/ ParseCloseBrace \/ ParseMatcher
              \/ ParseEndOfMatcher \/ ParseComma \/ ParseEOF

Strings == Extend                          \* enumeration of the inputs only
Next    == Extend \/ Start \/ ParserStep

SpecStrings == Init /\ [][Strings]_vars
Spec        == Init /\ [][Next]_vars

TypeOK == /\ inp \in Seq(Sym) /\ Len(inp) <= L
          /\ ps.pc \in PCs /\ ps.pos \in 1 .. Len(inp) + 1 /\ ps.hob \in BOOLEAN

\* action property: no parser step leaves the cursor and the rank unchanged (no loop)
StepsProgress == [][ParserStep => Progress(ps, ps')]_vars

\* the automaton run as TLC actions ends where the functional run ends
RunAgrees == Halted(ps) => (ps.pc = "done" /\ U8L(inp) = Ok(ps.ms)) \/ (ps.pc = "fail" /\ ~U8L(inp).ok)

\* per-input laws (evaluated once per string, in the state where the parser is idle)
InputLaws == ps.pc = "idle" =>
               /\ LexProgress(inp)
               /\ Terminates(inp)
               /\ FallbackLaws(inp)
=============================================================================
