----------------------------- MODULE SilCluster -----------------------------
(***************************************************************************)
(* Replication of silences between instances (C09): every instance keeps   *)
(* a store merged by silence.state.merge (per-id last-writer-wins on the    *)
(* update time, versions past their expiry refused); local API calls        *)
(* produce new versions that are broadcast; a merge that changed the store  *)
(* re-gossips the message; full-state exchange (push/pull) merges the whole *)
(* marshalled store.  The network may delay, reorder, duplicate, drop and   *)
(* batch.  Clocks agree (one `now`).                                        *)
(*                                                                         *)
(* A version is [id, start, end, upd, exp].                                 *)
(***************************************************************************)
EXTENDS Integers, FiniteSets, Sequences, TLC

CONSTANTS Nodes, Ids, Retention, MaxTime, MaxNet, CreateLen

VARIABLES now,
          st,      \* node -> (id -> version)
          net,     \* set of messages in flight: [to, b] with b a set of versions
          recv,    \* history: node -> set of versions created there or received
          last     \* observation

vars == <<now, st, net, recv, last>>

Put(f, k, v) == [x \in DOMAIN f \cup {k} |-> IF x = k THEN v ELSE f[x]]
Drop(f, K)   == [x \in DOMAIN f \ K |-> f[x]]

StateOf(s, t) == IF t < s.start THEN "pending" ELSE IF t > s.end THEN "expired" ELSE "active"

\* silence.state.merge
Accepts(s, e, t) == /\ ~(e.exp < t)
                    /\ (e.id \notin DOMAIN s \/ s[e.id].upd < e.upd)
MergeBatch(s, B, t) ==
  LET A == {e \in B : Accepts(s, e, t)}
  IN [x \in DOMAIN s \cup {e.id : e \in A} |->
        IF \E e \in A : e.id = x THEN CHOOSE e \in A : e.id = x ELSE s[x]]
DistinctIds(B) == \A a, b \in B : a.id = b.id => a = b

Others(n) == Nodes \ {n}
Send(from, B) == {[to |-> m, b |-> B] : m \in Others(from)}

Init == /\ now = 0
        /\ st = [n \in Nodes |-> << >>]
        /\ net = {}
        /\ recv = [n \in Nodes |-> {}]
        /\ last = [op |-> "init"]

\* update times of the versions of one id are distinct (the property's
\* quantifier; nanosecond clocks): no second edit of an id at one instant
Quiet(n, id) == \A m \in Nodes : \A v \in recv[m] : v.id = id => v.upd # now

Local(n, v, what) ==
  /\ st' = [st EXCEPT ![n] = Put(st[n], v.id, v)]
  /\ recv' = [recv EXCEPT ![n] = @ \cup {v}]
  /\ net' = net \cup Send(n, {v})
  /\ last' = [op |-> what, n |-> n, id |-> v.id, v |-> v]
  /\ UNCHANGED now

\* POST /silences creating a silence (ids are globally unique: created once)
Create(n, id) ==
  /\ \A m \in Nodes : \A v \in recv[m] : v.id # id
  /\ Local(n, [id |-> id, start |-> now, end |-> now + CreateLen, upd |-> now, exp |-> now + CreateLen + Retention], "create")

\* POST /silences editing the end of an active silence in place
Extend(n, id) ==
  /\ id \in DOMAIN st[n] /\ Quiet(n, id)
  /\ StateOf(st[n][id], now) = "active"
  /\ Local(n, [st[n][id] EXCEPT !.end = now + CreateLen + 1, !.upd = now, !.exp = now + CreateLen + 1 + Retention], "extend")

\* DELETE /silence/{id}
Expire(n, id) ==
  /\ id \in DOMAIN st[n] /\ Quiet(n, id)
  /\ StateOf(st[n][id], now) = "active"
  /\ Local(n, [st[n][id] EXCEPT !.end = now, !.upd = now, !.exp = now + Retention], "expire")

\* delivery of a gossip message (keep = TRUE: the network duplicated it)
Deliver(m, keep) ==
  /\ m \in net
  /\ LET n == m.to
         s2 == MergeBatch(st[n], m.b, now)
         changed == {e \in m.b : Accepts(st[n], e, now)}
     IN /\ st' = [st EXCEPT ![n] = s2]
        /\ recv' = [recv EXCEPT ![n] = @ \cup m.b]
        \* Silences.Merge re-broadcasts the received bytes when an entry changed the store
        /\ net' = (IF keep THEN net ELSE net \ {m}) \cup (IF changed # {} THEN Send(n, m.b) ELSE {})
        /\ last' = [op |-> "deliver", n |-> n, b |-> m.b, keep |-> keep, changed |-> Cardinality(changed)]
  /\ UNCHANGED now

Lose(m) ==
  /\ m \in net
  /\ net' = net \ {m}
  /\ last' = [op |-> "lose", n |-> m.to, b |-> m.b]
  /\ UNCHANGED <<now, st, recv>>

\* memberlist push/pull: each side merges the other's full state; big: the states exceed half a
\* gossip packet (a handful of silences do) and are merged without being gossiped on
PushPull(a, b, big) ==
  /\ a # b
  /\ LET A == {st[a][x] : x \in DOMAIN st[a]}
         B == {st[b][x] : x \in DOMAIN st[b]}
         ca == {e \in B : Accepts(st[a], e, now)}
         cb == {e \in A : Accepts(st[b], e, now)}
     IN /\ st' = [st EXCEPT ![a] = MergeBatch(st[a], B, now), ![b] = MergeBatch(st[b], A, now)]
        /\ recv' = [recv EXCEPT ![a] = @ \cup B, ![b] = @ \cup A]
        /\ net' = net \cup (IF ca # {} /\ ~big THEN Send(a, B) ELSE {}) \cup (IF cb # {} /\ ~big THEN Send(b, A) ELSE {})
        /\ last' = [op |-> "pushpull", a |-> a, b |-> b, big |-> big, ca |-> Cardinality(ca), cb |-> Cardinality(cb)]
  /\ UNCHANGED now

GC(n) ==
  LET dead == {id \in DOMAIN st[n] : st[n][id].exp <= now}
  IN /\ st' = [st EXCEPT ![n] = Drop(st[n], dead)]
     /\ last' = [op |-> "gc", n |-> n, k |-> Cardinality(dead)]
     /\ UNCHANGED <<now, net, recv>>

Tick == /\ now < MaxTime
        /\ now' = now + 1
        /\ last' = [op |-> "tick", d |-> 1]
        /\ UNCHANGED <<st, net, recv>>

Next == \/ \E n \in Nodes, id \in Ids : Create(n, id) \/ Extend(n, id) \/ Expire(n, id)
        \/ \E m \in net : Deliver(m, FALSE) \/ Deliver(m, TRUE) \/ Lose(m)
        \/ \E a, b \in Nodes, big \in BOOLEAN : PushPull(a, b, big)
        \/ \E n \in Nodes : GC(n)
        \/ Tick

Spec == Init /\ [][Next]_vars

-----------------------------------------------------------------------------
(* Properties (C09)                                                         *)
Of(n, id)  == {v \in recv[n] : v.id = id}
Newest(S)  == CHOOSE v \in S : \A w \in S : w.upd <= v.upd

\* the newest version an instance has seen, while not past its retention, is
\* the one it holds
NewestHeld ==
  \A n \in Nodes : \A id \in {v.id : v \in recv[n]} :
     LET v == Newest(Of(n, id))
     IN v.exp > now => (id \in DOMAIN st[n] /\ st[n][id] = v)

\* F7: the newest version is past its retention (refused on arrival, or
\* collected) and an older version that is not past its retention is held:
\* the silence is resurrected in an older state.
F7Gap(n, id) ==
  LET v == Newest(Of(n, id))
  IN /\ v.exp <= now
     /\ id \in DOMAIN st[n] /\ st[n][id] # v /\ st[n][id].upd < v.upd

NoStale ==
  \A n \in Nodes : \A id \in DOMAIN st[n] :
     st[n][id] = Newest(Of(n, id)) \/ F7Gap(n, id)
NoStaleStrict ==
  \A n \in Nodes : \A id \in DOMAIN st[n] : st[n][id] = Newest(Of(n, id))

\* same updates received => same silences (versions past retention may or
\* may not have been collected yet and are ignored)
Live(n) == {st[n][id] : id \in {x \in DOMAIN st[n] : st[n][x].exp > now}}
Converged ==
  \A a, b \in Nodes : recv[a] = recv[b] =>
     \/ Live(a) = Live(b)
     \/ \E id \in Ids : (id \in {v.id : v \in recv[a]}) /\ (F7Gap(a, id) \/ F7Gap(b, id))
ConvergedStrict == \A a, b \in Nodes : recv[a] = recv[b] => Live(a) = Live(b)

NeverOlder == [][\A n \in Nodes : \A id \in DOMAIN st[n] :
                    id \in DOMAIN st'[n] => st'[n][id].upd >= st[n][id].upd]_vars
NoPastRetention == [][\A n \in Nodes : \A id \in DOMAIN st'[n] :
                        (id \notin DOMAIN st[n] \/ st[n][id] # st'[n][id]) => st'[n][id].exp >= now]_vars
RemergeSilent == [][(last'.op = "deliver" /\ last'.b \subseteq {st[last'.n][x] : x \in DOMAIN st[last'.n]})
                       => (st' = st /\ net' \subseteq net)]_vars

Bound == Cardinality(net) <= MaxNet
=============================================================================
