------------------------------ MODULE Inhibit -------------------------------
(***************************************************************************)
(* Inhibition (property C03).  Two layers.                                 *)
(*                                                                         *)
(* IMPLEMENTATION LAYER, transcribed from inhibit/inhibit.go,              *)
(* inhibit/index.go, store/store.go and provider/mem/mem.go:               *)
(*   provider     prov[a]  = the alert version mem.Alerts holds            *)
(*                (Put: strict-overlap test + alert.Merge; GC drops        *)
(*                resolved alerts)                                         *)
(*   subscription queue    = alert versions sent to the "inhibitor"        *)
(*                listener and not yet handled by Inhibitor.run            *)
(*   per rule i   scache[i][a] = EndsAt of the cached version of source a  *)
(*                (store.Alerts with its own GC every 15 minutes),         *)
(*                sindex[i][eq] = ONE cached source per equal-label value  *)
(*                (fingerprint of the equal labels -> source fingerprint)  *)
(*   actions      Put, Process (processAlert: scache.Set + updateIndex),   *)
(*                ScacheGC (gcAlerts + gcCallback), ProvGC, Mutes, Tick    *)
(* Comparisons keep their strictness:                                      *)
(*   resolved at t            iff end <= t      (!EndsAt.After(t))         *)
(*   Put merges               iff new.end in (old.start, old.end) or       *)
(*                                new.start in (old.start, old.end)        *)
(*   updateIndex replaces     iff indexed.end <= new.end                   *)
(*                                (existing.ResolvedAt(alert.EndsAt))      *)
(*                                                                         *)
(* REFERENCE LAYER: the property statement,                                *)
(*   InhibitedRef(r, t) == Tgt(r,t) /\ \E s firing now :                   *)
(*        Src(r,s) /\ EqualOn(r,s,t) /\ ~(Src(r,t) /\ Tgt(r,s))            *)
(* over the alerts the provider currently holds firing (missing label =    *)
(* empty string).  It is a function of that SET, hence independent of the  *)
(* order in which alerts arrived, were refreshed or resolved.              *)
(*                                                                         *)
(* An alert is named (AlertLS gives its label set; the name stands for the *)
(* fingerprint).  A rule is a record [name, src, tgt, eq]: the optional    *)
(* name ("" = absent), two matcher lists (AND, Labels!MatchesAll) and the  *)
(* set of equal label names.  A rule set is a sequence of rules (the       *)
(* inhibit_rules list of the configuration file); rs names the configured  *)
(* one.  The statement gives rule names no meaning: neither layer reads    *)
(* .name (NameBlind below), and two rules may carry the same name - with   *)
(* different or with identical matchers - and both are rules of the set.   *)
(***************************************************************************)
EXTENDS Labels

CONSTANTS AlertLS,        \* alert name -> label set
          RuleSets,       \* rule-set name -> sequence of rules
          UseRuleSets,    \* the rule-set names explored
          ScacheGCEvery,  \* periodic mode: rule caches are collected when now % ScacheGCEvery = 0
          ProvGCEvery     \* periodic mode: provider collected when now % ProvGCEvery = 0

VARIABLES now,       \* clock
          rs,        \* name of the configured rule set (constant along a behaviour)
          prov,      \* provider store: alert name -> [start, end, to]
          queue,     \* subscription channel of the inhibitor: sequence of [a, end]
          scache,    \* per rule: alert name -> end
          sindex,    \* per rule: equal-label key -> alert name
          last       \* observation: last operation and its reply

vars == <<now, rs, prov, queue, scache, sindex, last>>

None == ""

(* inhibit.NewInhibitor: the configured rules are taken in file order.  A  *)
(* non-empty name already used by an earlier rule is only logged (Debug    *)
(* "duplicate inhibition rule name"); the rule is appended like any other. *)
DupName(R, i) == R[i].name # "" /\ \E j \in 1 .. i - 1 : R[j].name = R[i].name
Loaded(R) == R         \* every rule, position preserved (no SelectSeq over ~DupName)
Unnamed(R) == [i \in DOMAIN R |-> [R[i] EXCEPT !.name = ""]]

Rules == Loaded(RuleSets[rs])
NR == Len(Rules)
RuleIdx == 1 .. NR

PutFn(f, k, v) == [x \in DOMAIN f \cup {k} |-> IF x = k THEN v ELSE f[x]]
Drop(f, K)     == [x \in DOMAIN f \ K |-> f[x]]

Src(r, ls) == MatchesAll(r.src, ls)
Tgt(r, ls) == MatchesAll(r.tgt, ls)
\* fingerprintEquals: the equal labels with their values, missing = ""
EqKey(r, ls) == [n \in r.eq |-> ValueOf(ls, n)]
EqualOn(r, s, t) == \A n \in r.eq : ValueOf(s, n) = ValueOf(t, n)

-----------------------------------------------------------------------------
(* provider/mem Put and alert.Merge.  The new alert is the younger one     *)
(* (UpdatedAt = ingestion instant, as the API sets it).                    *)

Overlap(old, new) == \/ (new.end > old.start /\ new.end < old.end)
                     \/ (new.start > old.start /\ new.start < old.end)

MergeAlert(old, new, t) ==
  [start |-> IF old.start < new.start THEN old.start ELSE new.start,
   end   |-> IF new.end <= t                         \* o.Resolved()
               THEN IF old.end <= t /\ old.end > new.end THEN old.end ELSE new.end
               ELSE IF old.end > new.end /\ ~old.to THEN old.end ELSE new.end,
   to    |-> new.to]

Stored(p, a, new, t) ==
  IF a \in DOMAIN p
    THEN IF Overlap(p[a], new) THEN MergeAlert(p[a], new, t) ELSE new
    ELSE new

\* what the caller sends: start "same" = the start of the held version if any
\* (Prometheus repeats activeAt), "now" = a fresh start
NewAlert(a, sm, end, to) ==
  [start |-> IF sm = "same" /\ a \in DOMAIN prov THEN prov[a].start ELSE now,
   end |-> end, to |-> to]

Firing(p, t) == {a \in DOMAIN p : p[a].end > t}

-----------------------------------------------------------------------------
(* Inhibitor.processAlert for one rule: scache.Set(a); updateIndex(a)      *)

ProcRule(r, sc, si, a, e) ==
  IF ~Src(r, AlertLS[a]) THEN [sc |-> sc, si |-> si]
  ELSE LET sc2 == PutFn(sc, a, e)
           eq  == EqKey(r, AlertLS[a])
           si2 == IF eq \notin DOMAIN si THEN PutFn(si, eq, a)           \* not indexed yet
                  ELSE IF si[eq] = a THEN si                               \* same fingerprint
                  ELSE IF si[eq] \notin DOMAIN sc2 THEN PutFn(si, eq, a)   \* scache.Get failed
                  ELSE IF sc2[si[eq]] <= e THEN PutFn(si, eq, a)           \* existing.ResolvedAt(alert.EndsAt)
                  ELSE si
       IN [sc |-> sc2, si |-> si2]

ProcAll(sc, si, a, e) == [i \in RuleIdx |-> ProcRule(Rules[i], sc[i], si[i], a, e)]

(* store.Alerts.GC of one rule cache + InhibitRule.gcCallback              *)
GCRule(r, sc, si, t) ==
  LET dead == {a \in DOMAIN sc : sc[a] <= t}
  IN [sc |-> Drop(sc, dead),
      si |-> Drop(si, {EqKey(r, AlertLS[a]) : a \in dead}),     \* sindex.Delete(fingerprintEquals(a))
      n  |-> Cardinality(dead)]

(* InhibitRule.hasEqual (findEqualSourceAlert + two-sided exclusion)       *)
HasEqual(r, sc, si, ls, t) ==
  LET eq == EqKey(r, ls)
  IN IF eq \notin DOMAIN si THEN None
     ELSE LET s == si[eq]
          IN IF s \notin DOMAIN sc THEN None                 \* scache.Get error
             ELSE IF sc[s] <= t THEN None                    \* alert.ResolvedAt(now)
             ELSE IF Src(r, ls) /\ Tgt(r, AlertLS[s]) THEN None   \* excludeTwoSidedMatch
             ELSE s

(* Inhibitor.Mutes: the first rule (in configuration order) that inhibits. *)
(* The ...At operators take the state explicitly (R = the rule sequence).  *)
ImplRuleAt(R, sc, si, t, i, ls) ==
  IF Tgt(R[i], ls) THEN HasEqual(R[i], sc[i], si[i], ls, t) ELSE None
MutesImplAt(R, sc, si, t, ls) ==
  LET hits == {i \in 1 .. Len(R) : ImplRuleAt(R, sc, si, t, i, ls) # None}
  IN IF hits = {} THEN [muted |-> FALSE, by |-> None, rule |-> 0]
     ELSE LET i == CHOOSE j \in hits : \A k \in hits : j <= k
          IN [muted |-> TRUE, by |-> ImplRuleAt(R, sc, si, t, i, ls), rule |-> i]
ImplRule(i, ls) == ImplRuleAt(Rules, scache, sindex, now, i, ls)
MutesImpl(ls)   == MutesImplAt(Rules, scache, sindex, now, ls)

-----------------------------------------------------------------------------
(* The reference definition (property statement)                          *)

RefSourcesAt(p, t, r, ls) ==
  {a \in Firing(p, t) : /\ Src(r, AlertLS[a])
                        /\ EqualOn(r, AlertLS[a], ls)
                        /\ ~(Src(r, ls) /\ Tgt(r, AlertLS[a]))}
InhibitedRefRuleAt(p, t, r, ls) == Tgt(r, ls) /\ RefSourcesAt(p, t, r, ls) # {}
InhibitedRefAt(R, p, t, ls) == \E i \in 1 .. Len(R) : InhibitedRefRuleAt(p, t, R[i], ls)
\* every alert that may be reported as "the inhibiting alert"
QualifyingAt(R, p, t, ls) ==
  UNION {IF Tgt(R[i], ls) THEN RefSourcesAt(p, t, R[i], ls) ELSE {} : i \in 1 .. Len(R)}

RefSources(r, ls)       == RefSourcesAt(prov, now, r, ls)
InhibitedRefRule(r, ls) == InhibitedRefRuleAt(prov, now, r, ls)
\* the reference ranges over the rules of the configuration file, not over what the inhibitor loaded
InhibitedRef(ls)        == InhibitedRefAt(RuleSets[rs], prov, now, ls)
Qualifying(ls)          == QualifyingAt(RuleSets[rs], prov, now, ls)

-----------------------------------------------------------------------------
Init == /\ now = 0
        /\ rs \in UseRuleSets
        /\ prov = << >>
        /\ queue = << >>
        /\ scache = [i \in 1 .. Len(RuleSets[rs]) |-> << >>]
        /\ sindex = [i \in 1 .. Len(RuleSets[rs]) |-> << >>]
        /\ last = [op |-> "init"]

PutRec(a, sm, end, to, v) == [op |-> "put", a |-> a, sm |-> sm, end |-> end, to |-> to,
                              start |-> NewAlert(a, sm, end, to).start, stored |-> v]

(* mem.Alerts.Put: store the (merged) version and send it to the listener  *)
Put(a, sm, end, to) ==
  LET new == NewAlert(a, sm, end, to)
      v   == Stored(prov, a, new, now)
  IN /\ new.start <= end                        \* Alert.Validate
     /\ prov' = PutFn(prov, a, v)
     /\ queue' = Append(queue, [a |-> a, end |-> v.end])
     /\ last' = PutRec(a, sm, end, to, v)
     /\ UNCHANGED <<now, rs, scache, sindex>>

(* Inhibitor.run: one alert taken from the subscription                    *)
Process ==
  /\ queue # << >>
  /\ LET m == Head(queue)
         p == ProcAll(scache, sindex, m.a, m.end)
     IN /\ scache' = [i \in RuleIdx |-> p[i].sc]
        /\ sindex' = [i \in RuleIdx |-> p[i].si]
        /\ last' = [op |-> "process", a |-> m.a, end |-> m.end]
  /\ queue' = Tail(queue)
  /\ UNCHANGED <<now, rs, prov>>

(* Put followed by Process with nothing in between (the caller waits for   *)
(* the inhibitor to become idle): the step the replay harness performs     *)
PutSync(a, sm, end, to) ==
  LET new == NewAlert(a, sm, end, to)
      v   == Stored(prov, a, new, now)
      p   == ProcAll(scache, sindex, a, v.end)
  IN /\ queue = << >>
     /\ new.start <= end
     /\ prov' = PutFn(prov, a, v)
     /\ scache' = [i \in RuleIdx |-> p[i].sc]
     /\ sindex' = [i \in RuleIdx |-> p[i].si]
     /\ last' = PutRec(a, sm, end, to, v)
     /\ UNCHANGED <<now, rs, queue>>

(* the GC goroutine of rule i's cache *)
ScacheGC(i) ==
  LET g == GCRule(Rules[i], scache[i], sindex[i], now)
  IN /\ scache' = [scache EXCEPT ![i] = g.sc]
     /\ sindex' = [sindex EXCEPT ![i] = g.si]
     /\ last' = [op |-> "scachegc", rule |-> i, n |-> g.n]
     /\ UNCHANGED <<now, rs, prov, queue>>

(* mem.Alerts.gc *)
ProvDead == {a \in DOMAIN prov : prov[a].end <= now}
ProvGC ==
  /\ prov' = Drop(prov, ProvDead)
  /\ last' = [op |-> "provgc", n |-> Cardinality(ProvDead)]
  /\ UNCHANGED <<now, rs, queue, scache, sindex>>

(* time passes; the inhibitor handles an alert at once, so time does not   *)
(* pass a non-empty subscription channel                                   *)
Tick ==
  /\ queue = << >>
  /\ now' = now + 1
  /\ last' = [op |-> "tick"]
  /\ UNCHANGED <<rs, prov, queue, scache, sindex>>

(* periodic mode (replay): the tickers of all rule caches fire when        *)
(* now % ScacheGCEvery = 0, the provider's when now % ProvGCEvery = 0      *)
TickPeriodic ==
  LET t   == now + 1
      sgc == t % ScacheGCEvery = 0
      pgc == t % ProvGCEvery = 0
      g   == [i \in RuleIdx |-> GCRule(Rules[i], scache[i], sindex[i], t)]
      pd  == {a \in DOMAIN prov : prov[a].end <= t}
  IN /\ queue = << >>
     /\ now' = t
     /\ scache' = IF sgc THEN [i \in RuleIdx |-> g[i].sc] ELSE scache
     /\ sindex' = IF sgc THEN [i \in RuleIdx |-> g[i].si] ELSE sindex
     /\ prov' = IF pgc THEN Drop(prov, pd) ELSE prov
     /\ last' = [op |-> "tick", sgc |-> sgc, pgc |-> pgc]
     /\ UNCHANGED <<rs, queue>>

(* Inhibitor.Mutes(lset) for the label set of alert name q *)
Mutes(q) ==
  LET m == MutesImpl(AlertLS[q])
  IN /\ last' = [op |-> "mutes", ls |-> q, muted |-> m.muted, by |-> m.by,
                 ref |-> InhibitedRef(AlertLS[q]), quiet |-> queue = << >>]
     /\ UNCHANGED <<now, rs, prov, queue, scache, sindex>>

-----------------------------------------------------------------------------
(* Properties                                                              *)

Quiet == queue = << >>

\* C03: the verdict equals the reference whenever the inhibitor has seen
\* everything the provider holds.  (Fails on the pinned tree: finding F2.)
Refines(Q) == Quiet => \A q \in Q : MutesImpl(AlertLS[q]).muted = InhibitedRef(AlertLS[q])
\* Order independence: InhibitedRef reads nothing but Firing(prov, now), so under
\* Refines the verdict is a function of the set of firing alerts.

\* never inhibited without a qualifying firing source, and the reported
\* inhibitor is one of them
Sound(Q) == Quiet => \A q \in Q :
               LET m == MutesImpl(AlertLS[q])
               IN m.muted => (InhibitedRef(AlertLS[q]) /\ m.by \in Qualifying(AlertLS[q]))

\* structural: the index points into the cache, under the right key
IndexInCache == \A i \in RuleIdx : \A eq \in DOMAIN sindex[i] :
                   /\ sindex[i][eq] \in DOMAIN scache[i]
                   /\ EqKey(Rules[i], AlertLS[sindex[i][eq]]) = eq
\* every firing source the provider holds is cached with the same end, and
\* every cached firing version is the provider's
CacheComplete == Quiet => \A i \in RuleIdx :
   /\ \A a \in Firing(prov, now) : Src(Rules[i], AlertLS[a]) =>
         (a \in DOMAIN scache[i] /\ scache[i][a] = prov[a].end)
   /\ \A a \in DOMAIN scache[i] : scache[i][a] > now =>
         (a \in DOMAIN prov /\ prov[a].end = scache[i][a])

\* rule names carry no meaning: both layers give the verdict of the same rules without names
NameBlind(Q) == \A q \in Q :
   /\ InhibitedRefAt(Unnamed(RuleSets[rs]), prov, now, AlertLS[q]) = InhibitedRefAt(RuleSets[rs], prov, now, AlertLS[q])
   /\ MutesImplAt(Unnamed(Rules), scache, sindex, now, AlertLS[q]) = MutesImpl(AlertLS[q])
\* ... and the reference ranges over every rule of the file, the implementation over the loaded ones
AllLoaded == Len(Rules) = Len(RuleSets[rs])

(* Why a rule that inhibits by the reference does not inhibit in the       *)
(* implementation.  Exhaustive case split over findEqualSourceAlert /      *)
(* hasEqual; "other" must be unreachable.                                  *)
Cands(r, sc, ls, t) == {s \in DOMAIN sc : /\ sc[s] > t
                                          /\ EqKey(r, AlertLS[s]) = EqKey(r, ls)
                                          /\ ~(Src(r, ls) /\ Tgt(r, AlertLS[s]))}
GapClass(r, sc, si, ls, t) ==
  LET eq == EqKey(r, ls)
  IN IF Cands(r, sc, ls, t) = {} THEN "other"            \* cache incomplete
     ELSE IF eq \notin DOMAIN si THEN "F2b"              \* entry deleted by gcCallback of another source
     ELSE LET x == si[eq]
          IN IF x \notin DOMAIN sc THEN "other"
             ELSE IF sc[x] <= t THEN "F2a"               \* indexed source resolved, not yet collected
             ELSE IF Src(r, ls) /\ Tgt(r, AlertLS[x]) THEN "F2c"   \* two-sided indexed source hides a one-sided one
             ELSE "other"
GapClassesAt(R, p, sc, si, t, ls) ==
  {GapClass(R[i], sc[i], si[i], ls, t) :
     i \in {j \in 1 .. Len(R) : InhibitedRefRuleAt(p, t, R[j], ls) /\ ImplRuleAt(R, sc, si, t, j, ls) = None}}
GapClasses(ls) == GapClassesAt(Rules, prov, scache, sindex, now, ls)

\* the verdict is exact, or it misses an inhibition for listed reasons only
VerdictOK(ls, known) ==
  LET m == MutesImpl(ls).muted
      r == InhibitedRef(ls)
  IN \/ m = r
     \/ (~m /\ r /\ GapClasses(ls) # {} /\ GapClasses(ls) \subseteq known)
RefinesOrKnown(Q, known) == Quiet => \A q \in Q : VerdictOK(AlertLS[q], known)
=============================================================================
