------------------------------ MODULE Dispatch -------------------------------
(***************************************************************************)
(* The dispatcher's concurrent alert ingestion and lock-free group         *)
(* management (dispatch/dispatch.go: run workers, groupAlert, doMaintenance *)
(* and aggrGroup.run / flush) for ONE label set / ONE group key, at the     *)
(* granularity of its atomic operations.  Every action is what ONE          *)
(* goroutine does between two gate points of the real code (hook            *)
(* dispatch.verifPoint, build tag verif, and the start of the tracing span  *)
(* dispatch.AggregationGroup.insert), so that a behaviour of this module is *)
(* a schedule the harness harness/dsched can execute step by step:          *)
(*   Recv      a worker takes the next alert version from the provider's   *)
(*             subscription channel (FIFO) and reaches  worker.recv         *)
(*   Load      worker.recv -> groups.Load(fp) -> (group.loaded, passed) ->  *)
(*             span insert (entry found) or group.create (none)             *)
(*   Insert    span insert -> store.Set under the group store's lock, which *)
(*             refuses when the store is destroyed -> done, or group.create *)
(*             (first attempt) / group.store (attempt after LoadOrStore)    *)
(*   Create    group.create -> newAggrGroup + insert of the first alert     *)
(*             into the private group -> group.store                        *)
(*   Store     group.store -> CompareAndSwap(fp, el, ag) resp.              *)
(*             LoadOrStore(fp, ag): one iteration of the loop -> done (the  *)
(*             swapped-out group cancelled, the new one started), again     *)
(*             group.store, or span insert of the group another creator     *)
(*             stored                                                       *)
(*   FlushBegin   the group's timer fires (flush.tick); ag.alerts.List()    *)
(*             freezes the content -> flush.begin                           *)
(*   FlushNotify  flush.begin -> notification pipeline -> flush.ok          *)
(*   FlushEnd  flush.ok -> DeleteIfNotModified deletes resolved alerts that *)
(*             were not modified and destroys the group if it is empty ->   *)
(*             (flush.done, passed) -> the run loop ends if destroyed       *)
(*   MaintCheck   doMaintenance finds the map entry destroyed ->            *)
(*             maint.destroyed                                              *)
(*   MaintStop    maint.destroyed -> ag.stop() -> maint.delete              *)
(*   MaintDelete  maint.delete -> CompareAndDelete(fp, ag)                  *)
(* Versions of the alert are numbered in submission order; version v is     *)
(* resolved iff v \in Resolved.                                             *)
(***************************************************************************)
EXTENDS Integers, FiniteSets, Sequences, TLC

CONSTANTS Workers, NVersions, Resolved, MaxGroups,
          MonotonicSet   \* TRUE: store.Set keeps the newer of two versions (repair of F3)

VARIABLES chan,    \* versions still in the subscription channel
          w,       \* worker -> [pc, v, el, ag, loaded]
          gmap,    \* the sync.Map entry of the group key: 0 or a group id
          grp,     \* group id -> [ver, destroyed, cancelled, running, frozen, fl]
                   \*   fl: where the group's run goroutine is: "wait" (timer), "begun", "ok"
          nid,
          maint    \* maintenance sweep: [pc, g]; pc "idle", or "stop" / "delete" while it handles
                   \* the destroyed group g it found in the map

vars == <<chan, w, gmap, grp, nid, maint>>

Idle == [pc |-> "idle", v |-> 0, el |-> 0, ag |-> 0, loaded |-> FALSE]

MIdle == [pc |-> "idle", g |-> 0]

Init == /\ chan = [i \in 1..NVersions |-> i]
        /\ w = [x \in Workers |-> Idle]
        /\ gmap = 0 /\ grp = << >> /\ nid = 0 /\ maint = MIdle

Put(f, k, v) == [x \in DOMAIN f \cup {k} |-> IF x = k THEN v ELSE f[x]]

\* store.Alerts.Set: unconditional, or (repair) keeping the newer version
SetVer(old, new) == IF MonotonicSet /\ old > new THEN old ELSE new

Recv(x) == /\ w[x].pc = "idle" /\ chan # << >>
           /\ w' = [w EXCEPT ![x] = [Idle EXCEPT !.pc = "got", !.v = Head(chan)]]
           /\ chan' = Tail(chan)
           /\ UNCHANGED <<gmap, grp, nid, maint>>

Load(x) == /\ w[x].pc = "got"
           /\ w' = [w EXCEPT ![x].el = gmap, ![x].loaded = (gmap # 0), ![x].pc = IF gmap # 0 THEN "insert" ELSE "create"]
           /\ UNCHANGED <<chan, gmap, grp, nid, maint>>

\* ag.insert into the group found in the map (first attempt, or after LoadOrStore found one)
Insert(x) ==
  /\ w[x].pc \in {"insert", "insert2"}
  /\ LET g == w[x].el IN
     IF grp[g].destroyed
       THEN /\ w' = [w EXCEPT ![x].pc = IF w[x].pc = "insert" THEN "create" ELSE "store"]
            /\ UNCHANGED grp
       ELSE /\ grp' = [grp EXCEPT ![g].ver = SetVer(@, w[x].v)]
            /\ w' = [w EXCEPT ![x] = Idle]      \* done (a group created in vain is dropped)
  /\ UNCHANGED <<chan, gmap, nid, maint>>

Create(x) ==
  /\ w[x].pc = "create" /\ nid < MaxGroups
  /\ nid' = nid + 1
  /\ grp' = Put(grp, nid + 1, [ver |-> w[x].v, destroyed |-> FALSE, cancelled |-> FALSE, running |-> FALSE, frozen |-> 0, fl |-> "wait"])
  /\ w' = [w EXCEPT ![x].ag = nid + 1, ![x].pc = "store"]
  /\ UNCHANGED <<chan, gmap, maint>>

\* one iteration of the store loop
Store(x) ==
  /\ w[x].pc = "store"
  /\ IF w[x].loaded
       THEN IF gmap = w[x].el
              THEN \* CompareAndSwap succeeded: the old group is cancelled, the new one runs
                   /\ gmap' = w[x].ag
                   /\ grp' = [grp EXCEPT ![w[x].el].cancelled = TRUE, ![w[x].ag].running = TRUE]
                   /\ w' = [w EXCEPT ![x] = Idle]
              ELSE /\ w' = [w EXCEPT ![x].loaded = FALSE]
                   /\ UNCHANGED <<gmap, grp>>
       ELSE IF gmap = 0
              THEN \* LoadOrStore stored the new group
                   /\ gmap' = w[x].ag
                   /\ grp' = [grp EXCEPT ![w[x].ag].running = TRUE]
                   /\ w' = [w EXCEPT ![x] = Idle]
              ELSE \* another creator was first: insert into its group
                   /\ w' = [w EXCEPT ![x].el = gmap, ![x].loaded = TRUE, ![x].pc = "insert2"]
                   /\ UNCHANGED <<gmap, grp>>
  /\ UNCHANGED <<chan, nid, maint>>

\* a flush of a running group freezes its content (ag.alerts.List()) ...
FlushBegin(g) ==
  /\ grp[g].running /\ ~grp[g].destroyed /\ ~grp[g].cancelled /\ grp[g].fl = "wait" /\ grp[g].ver # 0
  /\ grp' = [grp EXCEPT ![g].frozen = grp[g].ver, ![g].fl = "begun"]
  /\ UNCHANGED <<chan, w, gmap, nid, maint>>
\* ... notifies it (nothing of the group management is read or written) ...
FlushNotify(g) ==
  /\ grp[g].fl = "begun"
  /\ grp' = [grp EXCEPT ![g].fl = "ok"]
  /\ UNCHANGED <<chan, w, gmap, nid, maint>>
\* ... and, having notified, deletes the alert if it was resolved and not modified
\* (DeleteIfNotModified) and destroys the group if that leaves it empty; the run loop of
\* a destroyed group ends
FlushEnd(g) ==
  /\ grp[g].fl = "ok"
  /\ IF grp[g].frozen \in Resolved /\ grp[g].ver = grp[g].frozen
       THEN grp' = [grp EXCEPT ![g].ver = 0, ![g].destroyed = TRUE, ![g].frozen = 0, ![g].fl = "wait"]
       ELSE grp' = [grp EXCEPT ![g].frozen = 0, ![g].fl = "wait"]
  /\ UNCHANGED <<chan, w, gmap, nid, maint>>

\* doMaintenance: the sweep looks at the map entry and handles it only if it is destroyed
MaintCheck ==
  /\ maint.pc = "idle" /\ gmap # 0 /\ grp[gmap].destroyed
  /\ maint' = [pc |-> "stop", g |-> gmap]
  /\ UNCHANGED <<chan, w, gmap, grp, nid>>
\* ag.stop(): cancel and wait for the run loop (which has ended: the group is destroyed)
MaintStop ==
  /\ maint.pc = "stop"
  /\ maint' = [maint EXCEPT !.pc = "delete"]
  /\ grp' = [grp EXCEPT ![maint.g].cancelled = TRUE]
  /\ UNCHANGED <<chan, w, gmap, nid>>
MaintDelete ==
  /\ maint.pc = "delete"
  /\ gmap' = IF gmap = maint.g THEN 0 ELSE gmap      \* CompareAndDelete
  /\ maint' = MIdle
  /\ UNCHANGED <<chan, w, grp, nid>>

Next == \/ \E x \in Workers : Recv(x) \/ Load(x) \/ Insert(x) \/ Create(x) \/ Store(x)
        \/ \E g \in DOMAIN grp : FlushBegin(g) \/ FlushNotify(g) \/ FlushEnd(g)
        \/ MaintCheck \/ MaintStop \/ MaintDelete

Spec == Init /\ [][Next]_vars

-----------------------------------------------------------------------------
Quiescent == chan = << >> /\ \A x \in Workers : w[x].pc = "idle"
Live(g) == ~grp[g].destroyed /\ ~grp[g].cancelled
\* groups created in vain (never stored in the map) are garbage, not holders
Holders == {g \in DOMAIN grp : grp[g].ver # 0 /\ Live(g) /\ (grp[g].running \/ gmap = g)}

\* C14: once the submitted updates have been processed every group holding the alert
\* holds the most recently submitted version
LatestWins == Quiescent => \A g \in Holders : grp[g].ver = NVersions

\* C06: alerts of one group key are never split over two live groups
OneLiveGroup == Cardinality({g \in DOMAIN grp : Live(g) /\ (grp[g].running \/ gmap = g)}) <= 1

\* C06/C01: a processed alert is in the live group the map holds, unless its last
\* version was resolved and has been flushed away
NoOrphan ==
  Quiescent /\ NVersions \notin Resolved =>
    gmap # 0 /\ Live(gmap) /\ grp[gmap].running /\ grp[gmap].ver # 0
=============================================================================
