------------------------------ MODULE Dispatch -------------------------------
(***************************************************************************)
(* The dispatcher's concurrent alert ingestion and lock-free group         *)
(* management (dispatch/dispatch.go: run workers, groupAlert, doMaintenance *)
(* and the end of aggrGroup.flush) for ONE label set / ONE group key, at    *)
(* the granularity of its atomic operations:                               *)
(*   Recv      a worker takes the next alert version from the provider's   *)
(*             subscription channel (FIFO)                                  *)
(*   Load      groups.Load(fp)                                              *)
(*   Insert    ag.insert under the group store's lock (fails on destroyed)  *)
(*   Create    newAggrGroup + insert of the first alert                     *)
(*   Store     CompareAndSwap(fp, el, ag)  resp.  LoadOrStore(fp, ag)       *)
(*   FlushEnd  a successful flush deletes resolved alerts that were not     *)
(*             modified and destroys the group if it is empty               *)
(*   MaintStop / MaintDelete   doMaintenance on a destroyed group           *)
(* Versions of the alert are numbered in submission order; version v is     *)
(* resolved iff v \in Resolved.                                             *)
(***************************************************************************)
EXTENDS Integers, FiniteSets, Sequences, TLC

CONSTANTS Workers, NVersions, Resolved, MaxGroups,
          MonotonicSet   \* TRUE: store.Set keeps the newer of two versions (repair of F3)

VARIABLES chan,    \* versions still in the subscription channel
          w,       \* worker -> [pc, v, el, ag, loaded]
          gmap,    \* the sync.Map entry of the group key: 0 or a group id
          grp,     \* group id -> [ver, destroyed, cancelled, running, frozen]
          nid,
          maint    \* maintenance: 0 idle, or the id of the destroyed group it is handling

vars == <<chan, w, gmap, grp, nid, maint>>

Idle == [pc |-> "idle", v |-> 0, el |-> 0, ag |-> 0, loaded |-> FALSE]

Init == /\ chan = [i \in 1..NVersions |-> i]
        /\ w = [x \in Workers |-> Idle]
        /\ gmap = 0 /\ grp = << >> /\ nid = 0 /\ maint = 0

Put(f, k, v) == [x \in DOMAIN f \cup {k} |-> IF x = k THEN v ELSE f[x]]

\* store.Alerts.Set: unconditional, or (repair) keeping the newer version
SetVer(old, new) == IF MonotonicSet /\ old > new THEN old ELSE new

Recv(x) == /\ w[x].pc = "idle" /\ chan # << >>
           /\ w' = [w EXCEPT ![x] = [Idle EXCEPT !.pc = "got", !.v = Head(chan)]]
           /\ chan' = Tail(chan)
           /\ UNCHANGED <<gmap, grp, nid, maint>>

Load(x) == /\ w[x].pc = "got"
           /\ w' = [w EXCEPT ![x].el = gmap, ![x].loaded = (gmap # 0), ![x].pc = IF gmap # 0 THEN "insert" ELSE "create"]
           /\ UNCHANGED <<chan, gmap, grp, nid, maint>>

\* ag.insert into the group found in the map (first attempt, or after LoadOrStore found one)
Insert(x) ==
  /\ w[x].pc \in {"insert", "insert2"}
  /\ LET g == w[x].el IN
     IF grp[g].destroyed
       THEN /\ w' = [w EXCEPT ![x].pc = IF w[x].pc = "insert" THEN "create" ELSE "store"]
            /\ UNCHANGED grp
       ELSE /\ grp' = [grp EXCEPT ![g].ver = SetVer(@, w[x].v)]
            /\ w' = [w EXCEPT ![x] = Idle]      \* done (a group created in vain is dropped)
  /\ UNCHANGED <<chan, gmap, nid, maint>>

Create(x) ==
  /\ w[x].pc = "create" /\ nid < MaxGroups
  /\ nid' = nid + 1
  /\ grp' = Put(grp, nid + 1, [ver |-> w[x].v, destroyed |-> FALSE, cancelled |-> FALSE, running |-> FALSE, frozen |-> 0])
  /\ w' = [w EXCEPT ![x].ag = nid + 1, ![x].pc = "store"]
  /\ UNCHANGED <<chan, gmap, maint>>

\* one iteration of the store loop
Store(x) ==
  /\ w[x].pc = "store"
  /\ IF w[x].loaded
       THEN IF gmap = w[x].el
              THEN \* CompareAndSwap succeeded: the old group is cancelled, the new one runs
                   /\ gmap' = w[x].ag
                   /\ grp' = [grp EXCEPT ![w[x].el].cancelled = TRUE, ![w[x].ag].running = TRUE]
                   /\ w' = [w EXCEPT ![x] = Idle]
              ELSE /\ w' = [w EXCEPT ![x].loaded = FALSE]
                   /\ UNCHANGED <<gmap, grp>>
       ELSE IF gmap = 0
              THEN \* LoadOrStore stored the new group
                   /\ gmap' = w[x].ag
                   /\ grp' = [grp EXCEPT ![w[x].ag].running = TRUE]
                   /\ w' = [w EXCEPT ![x] = Idle]
              ELSE \* another creator was first: insert into its group
                   /\ w' = [w EXCEPT ![x].el = gmap, ![x].loaded = TRUE, ![x].pc = "insert2"]
                   /\ UNCHANGED <<gmap, grp>>
  /\ UNCHANGED <<chan, nid, maint>>

\* a flush of a running group freezes its content ...
FlushBegin(g) ==
  /\ grp[g].running /\ ~grp[g].destroyed /\ ~grp[g].cancelled /\ grp[g].frozen = 0 /\ grp[g].ver # 0
  /\ grp' = [grp EXCEPT ![g].frozen = grp[g].ver]
  /\ UNCHANGED <<chan, w, gmap, nid, maint>>
\* ... and, having notified, deletes the alert if it was resolved and not modified
\* (DeleteIfNotModified) and destroys the group if that leaves it empty
FlushEnd(g) ==
  /\ grp[g].frozen # 0
  /\ IF grp[g].frozen \in Resolved /\ grp[g].ver = grp[g].frozen
       THEN grp' = [grp EXCEPT ![g].ver = 0, ![g].destroyed = TRUE, ![g].frozen = 0]
       ELSE grp' = [grp EXCEPT ![g].frozen = 0]
  /\ UNCHANGED <<chan, w, gmap, nid, maint>>

MaintStop ==
  /\ maint = 0 /\ gmap # 0 /\ grp[gmap].destroyed
  /\ maint' = gmap
  /\ grp' = [grp EXCEPT ![gmap].cancelled = TRUE]
  /\ UNCHANGED <<chan, w, gmap, nid>>
MaintDelete ==
  /\ maint # 0
  /\ gmap' = IF gmap = maint THEN 0 ELSE gmap      \* CompareAndDelete
  /\ maint' = 0
  /\ UNCHANGED <<chan, w, grp, nid>>

Next == \/ \E x \in Workers : Recv(x) \/ Load(x) \/ Insert(x) \/ Create(x) \/ Store(x)
        \/ \E g \in DOMAIN grp : FlushBegin(g) \/ FlushEnd(g)
        \/ MaintStop \/ MaintDelete

Spec == Init /\ [][Next]_vars

-----------------------------------------------------------------------------
Quiescent == chan = << >> /\ \A x \in Workers : w[x].pc = "idle"
Live(g) == ~grp[g].destroyed /\ ~grp[g].cancelled
\* groups created in vain (never stored in the map) are garbage, not holders
Holders == {g \in DOMAIN grp : grp[g].ver # 0 /\ Live(g) /\ (grp[g].running \/ gmap = g)}

\* C14: once the submitted updates have been processed every group holding the alert
\* holds the most recently submitted version
LatestWins == Quiescent => \A g \in Holders : grp[g].ver = NVersions

\* C06: alerts of one group key are never split over two live groups
OneLiveGroup == Cardinality({g \in DOMAIN grp : Live(g) /\ (grp[g].running \/ gmap = g)}) <= 1

\* C06/C01: a processed alert is in the live group the map holds, unless its last
\* version was resolved and has been flushed away
NoOrphan ==
  Quiescent /\ NVersions \notin Resolved =>
    gmap # 0 /\ Live(gmap) /\ grp[gmap].running /\ grp[gmap].ver # 0
=============================================================================
