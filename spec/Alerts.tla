------------------------------- MODULE Alerts -------------------------------
(***************************************************************************)
(* Alert ingestion, storage, limits and listing of one Alertmanager         *)
(* instance: POST /api/v2/alerts (api/v2/api.go postAlertsHandler), the     *)
(* in-memory provider (provider/mem/mem.go Put, gc), the alert store with   *)
(* its per-alert-name buckets (store/store.go Set, GC; limit/bucket.go),    *)
(* alert.Merge (alert/alert.go) and GET /api/v2/alerts (getAlertsHandler,   *)
(* alertFilter).                                                            *)
(*                                                                         *)
(* One action per critical section: ApiPost (one pass of the handler, the   *)
(* provider mutex is held for the whole batch), GC / TickGC (one gc() of    *)
(* the provider: stale buckets, then resolved alerts), ApiGet, SilOn/SilOff *)
(* (the one silence of the model, for the status field of GET), Tick.       *)
(*                                                                         *)
(* Comparisons are transcribed with their strictness:                      *)
(*   Validate:   invalid iff EndsAt.Before(StartsAt)          end <  start *)
(*   Put:        merge iff (n.end > o.start /\ n.end < o.end) \/            *)
(*                         (n.start > o.start /\ n.start < o.end)   strict  *)
(*   Resolved:   !EndsAt.After(now)                           end <= now   *)
(*   GET:        hidden iff EndsAt.Before(now)                end <  now   *)
(*   bucket:     item expired iff priority.Before(now)        pri <  now   *)
(* The operators Gt/Lt/Le take a flag that turns the comparison into its    *)
(* other reading at equality; the actions use the code's reading (all flags *)
(* FALSE).  The other readings are only used by Gen to tell the replayer    *)
(* which outcomes differ from the code's by nothing but a boundary instant. *)
(*                                                                         *)
(* alert.Merge lets its argument be the younger alert unless the argument's *)
(* UpdatedAt is BEFORE the receiver's (strict).  Through the API UpdatedAt  *)
(* is the receive time, which never decreases, so with distinct stamps the  *)
(* submission is the younger one.  EQUAL stamps are part of the model: all   *)
(* alerts of one request body carry one stamp (postAlertsHandler reads the  *)
(* clock once), and so do two requests served at one clock reading.  The    *)
(* meaning of a body is fixed by the statement's "sequence of submissions": *)
(* its alerts are applied in body order, each exactly as a single-alert     *)
(* POST at that instant would be; at equal stamps the LATER SUBMISSION is   *)
(* the younger alert (old.Merge(new) with the strict test does that).  Flag *)
(* 7 is the other reading of the stamp comparison at equality (the stored   *)
(* alert taken as the younger one); Gen uses it to recognise outcomes in    *)
(* which an earlier submission overwrote a later one (OrderClauses tells    *)
(* whether the statement forbids the outcome).                              *)
(***************************************************************************)
EXTENDS Integers, FiniteSets, Sequences, TLC

CONSTANTS RT,          \* resolve_timeout
          Limit,       \* per-alert-name limit (0 = none)
          StaleRule,   \* "impl": Bucket.IsStale as written; "ref": AllExpired
          LabelsOf,    \* label-set id -> label set (function label name -> value), as posted
          CanonIds     \* the ids whose label sets are valid and free of empty values (fingerprints)

VARIABLES now,
          store,       \* fingerprint -> [start, end, timeout, upd]
          buckets,     \* alert name -> heap (sequence of [fp, pri]) of limit.Bucket
          limited,     \* alertmanager_alerts_limited_total
          sil,         \* the one silence: [start, end]
          orph,        \* history: fingerprints that were in a bucket dropped while they had not expired
          last         \* observation: last operation and reply

vars == <<now, store, buckets, limited, sil, orph, last>>

Unset == -1
Inf   == 1000
NoSil == [start |-> -1, end |-> -2]

Put(f, k, v) == [x \in DOMAIN f \cup {k} |-> IF x = k THEN v ELSE f[x]]
Drop(f, K)   == [x \in DOMAIN f \ K |-> f[x]]
Min(a, b)    == IF a < b THEN a ELSE b

NoTies == [i \in 1..7 |-> FALSE]
Gt(a, b, f) == a > b \/ (f /\ a = b)     \* the code's reading is strict
Lt(a, b, f) == a < b \/ (f /\ a = b)     \* the code's reading is strict
Le(a, b, f) == a < b \/ (~f /\ a = b)    \* the code's reading is non-strict

-----------------------------------------------------------------------------
(* Label sets: removeEmptyLabels + Alert.Validate (label part)              *)

\* (TLC evaluates the constant functions below once.  Do not name an operator
\* parameter like a variable of any module: TLC then re-evaluates them at every use.)
NonEmpty(v) == LET ls == LabelsOf[v]
                   D  == {n \in DOMAIN ls : ls[n] # ""}
               IN [n \in D |-> ls[n]]
\* the fingerprint of what remains, "" if that is not a valid label set
\* (no label pair left, or an empty label name)
CanonF == [v \in DOMAIN LabelsOf |->
             LET ls == NonEmpty(v)
             IN IF DOMAIN ls = {} \/ "" \in DOMAIN ls THEN ""
                ELSE IF \E c \in CanonIds : LabelsOf[c] = ls
                       THEN CHOOSE c \in CanonIds : LabelsOf[c] = ls
                       ELSE "?"]      \* (a label set outside this configuration)
Canon(v)   == CanonF[v]
Val(c, n)  == IF n \in DOMAIN LabelsOf[c] THEN LabelsOf[c][n] ELSE ""
NameF      == [c \in CanonIds |-> Val(c, "alertname")]
NameOf(c)  == NameF[c]
\* the route tree of every harness instance: root r0; child sev="p" -> r1, continue;
\* child b="y" -> r2
RecvF == [c \in CanonIds |->
            LET m1 == Val(c, "sev") = "p"
                m2 == Val(c, "b") = "y"
            IN IF m1 /\ m2 THEN <<"r1", "r2">> ELSE IF m1 THEN <<"r1">>
               ELSE IF m2 THEN <<"r2">> ELSE <<"r0">>]
Receivers(c) == RecvF[c]
\* the one silence has the matcher sev="p"
SilF == [c \in CanonIds |-> Val(c, "sev") = "p"]
SilMatches(c) == SilF[c]

-----------------------------------------------------------------------------
(* postAlertsHandler: defaulting and validation of one submitted alert      *)
(* p = [ls, s, e]; s, e = Unset when the field is missing                   *)

Defaulted(p, t) ==
  LET to == p.e = Unset
      s1 == IF p.s # Unset THEN p.s ELSE IF to THEN t ELSE p.e
      e1 == IF to THEN t + RT ELSE p.e
  IN [fp |-> Canon(p.ls), start |-> s1, end |-> e1, timeout |-> to, upd |-> t]

ValidAlert(a) == a.fp # "" /\ ~(a.end < a.start)

(* mem.Alerts.Put: the overlap test, and old.Merge(new)                     *)
Overlap(o, n, f) == \/ (Gt(n.end, o.start, f[1]) /\ Lt(n.end, o.end, f[2]))
                    \/ (Gt(n.start, o.start, f[3]) /\ Lt(n.start, o.end, f[4]))

Resolved(a, t, f) == Le(a.end, t, f[5])

\* o = the stored alert, n = the submission.  a = the older, y = the younger of the two:
\* y = n unless the stamps are equal and flag 7 selects the other reading.
MergeAlert(o, n, t, f) ==
  LET sw == f[7] /\ o.upd = n.upd
      a  == IF sw THEN n ELSE o
      y  == IF sw THEN o ELSE n
      st == IF a.start < y.start THEN a.start ELSE y.start
      en == IF Resolved(y, t, f)
              THEN IF Resolved(a, t, f) /\ a.end > y.end THEN a.end ELSE y.end
              ELSE IF a.end > y.end /\ ~a.timeout THEN a.end ELSE y.end
  IN [y EXCEPT !.start = st, !.end = en]

-----------------------------------------------------------------------------
(* limit.Bucket: container/heap over a slice, transcribed (1-based)         *)

Swap(h, i, j) == [h EXCEPT ![i] = h[j], ![j] = h[i]]
Less(h, i, j) == h[i].pri < h[j].pri

RECURSIVE Up(_, _)
Up(h, j) == IF j = 1 THEN h
            ELSE LET i == j \div 2
                 IN IF ~Less(h, j, i) THEN h ELSE Up(Swap(h, i, j), i)

\* returns <<heap, final index>>; n = number of leading elements that form the heap
RECURSIVE Down(_, _, _)
Down(h, i, n) ==
  LET j1 == 2 * i
  IN IF j1 > n THEN <<h, i>>
     ELSE LET j == IF j1 + 1 <= n /\ Less(h, j1 + 1, j1) THEN j1 + 1 ELSE j1
          IN IF ~Less(h, j, i) THEN <<h, i>> ELSE Down(Swap(h, i, j), j, n)

HeapFix(h, i)  == LET d == Down(h, i, Len(h)) IN IF d[2] > i THEN d[1] ELSE Up(h, i)
HeapPush(h, x) == Up(Append(h, x), Len(h) + 1)
HeapPop(h)     == LET n == Len(h) IN SubSeq(Down(Swap(h, 1, n), 1, n - 1)[1], 1, n - 1)

Members(h) == {h[i].fp : i \in 1..Len(h)}
IndexOf(h, fp) == CHOOSE i \in 1..Len(h) : h[i].fp = fp

\* Bucket.Upsert(value, priority): [ok, h]
Upsert(h, fp, pri, t, f) ==
  IF Limit < 1 THEN [ok |-> FALSE, h |-> h]
  ELSE IF fp \in Members(h)
    THEN LET i == IndexOf(h, fp) IN [ok |-> TRUE, h |-> HeapFix([h EXCEPT ![i].pri = pri], i)]
  ELSE IF Len(h) < Limit
    THEN [ok |-> TRUE, h |-> HeapPush(h, [fp |-> fp, pri |-> pri])]
  ELSE IF Lt(h[1].pri, t, f[6])      \* the earliest-ending item has expired
    THEN [ok |-> TRUE, h |-> HeapPush(HeapPop(h), [fp |-> fp, pri |-> pri])]
  ELSE [ok |-> FALSE, h |-> h]

\* Bucket.IsStale as implemented: looks at the LAST element of the heap's slice.
\* t2 is an instant in half units (GC runs between two model instants).
IsStaleImpl(h, t2) == Len(h) = 0 \/ 2 * h[Len(h)].pri < t2
\* what the comment promises ("the latest item in the bucket is expired")
AllExpired(h, t2)  == \A i \in 1..Len(h) : 2 * h[i].pri < t2
IsStale(h, t2)     == IF StaleRule = "impl" THEN IsStaleImpl(h, t2) ELSE AllExpired(h, t2)

-----------------------------------------------------------------------------
(* Put of the valid alerts of a batch, in order, under the provider mutex   *)

Rec(a) == [start |-> a.start, end |-> a.end, timeout |-> a.timeout, upd |-> a.upd]

\* S = [store, buckets, limited, res, how]
\* how (reported only): which path Put takes for the alert: "new", "replace" (ranges do not
\* overlap), "merge"; "sreplace" / "smerge" when the stored alert carries the SAME stamp
\* (an earlier alert of this body, or a request served at the same clock reading)
PutOne(S, a, t, f) ==
  IF ~ValidAlert(a) THEN [S EXCEPT !.res = Append(@, "invalid"), !.how = Append(@, "invalid")]
  ELSE
  LET fp  == a.fp
      ex  == fp \in DOMAIN S.store
      ov  == ex /\ Overlap(S.store[fp], Rec(a), f)
      rec == IF ov THEN MergeAlert(S.store[fp], Rec(a), t, f) ELSE Rec(a)
      hw  == IF ~ex THEN "new"
             ELSE IF S.store[fp].upd = t THEN (IF ov THEN "smerge" ELSE "sreplace")
             ELSE (IF ov THEN "merge" ELSE "replace")
  IN IF Limit > 0
       THEN LET name == NameOf(fp)
                h    == IF name \in DOMAIN S.buckets THEN S.buckets[name] ELSE << >>
                u    == Upsert(h, fp, rec.end, t, f)
            IN IF u.ok
                 THEN [store |-> Put(S.store, fp, rec), buckets |-> Put(S.buckets, name, u.h),
                       limited |-> S.limited, res |-> Append(S.res, "ok"), how |-> Append(S.how, hw)]
                 ELSE [S EXCEPT !.limited = @ + 1, !.res = Append(@, "limited"), !.how = Append(@, hw)]
       ELSE [S EXCEPT !.store = Put(S.store, fp, rec), !.res = Append(@, "ok"), !.how = Append(@, hw)]

RECURSIVE PutSeq(_, _, _, _, _)
PutSeq(S, as, i, t, f) == IF i > Len(as) THEN S ELSE PutSeq(PutOne(S, as[i], t, f), as, i + 1, t, f)

RunBatch(batch, t, f) ==
  PutSeq([store |-> store, buckets |-> buckets, limited |-> limited, res |-> << >>, how |-> << >>],
         [i \in 1..Len(batch) |-> Defaulted(batch[i], t)], 1, t, f)

Init == /\ now = 0 /\ store = << >> /\ buckets = << >> /\ limited = 0 /\ sil = NoSil
        /\ orph = {} /\ last = [op |-> "init"]

(* POST /api/v2/alerts.  Put never returns an error, so the reply is 400    *)
(* iff an alert of the batch was invalid, else 200.                         *)
ApiPost(batch) ==
  \E R \in {RunBatch(batch, now, NoTies)} :    \* (bound once: TLC re-evaluates LET definitions)
     /\ store' = R.store
     /\ buckets' = R.buckets
     /\ limited' = R.limited
     /\ orph' = orph \ {Defaulted(batch[i], now).fp : i \in {j \in 1..Len(batch) : R.res[j] = "ok"}}
     /\ last' = [op |-> "post", batch |-> batch, res |-> R.res, how |-> R.how,
                 code |-> IF \E i \in 1..Len(batch) : R.res[i] = "invalid" THEN 400 ELSE 200]
     /\ UNCHANGED <<now, sil>>

(* One gc() of the provider at the instant t2 (half units): store.GC =       *)
(* gcLimitBuckets, then gcAlerts.                                           *)
GCAt(t2, op) ==
  LET stale == {n \in DOMAIN buckets : IsStale(buckets[n], t2)}
      f4    == {n \in stale : ~AllExpired(buckets[n], t2)}
      dead  == {fp \in DOMAIN store : 2 * store[fp].end <= t2}
  IN /\ buckets' = Drop(buckets, stale)
     /\ store' = Drop(store, dead)
     /\ orph' = orph \cup UNION {{buckets[n][i].fp : i \in {j \in 1..Len(buckets[n]) : ~(2 * buckets[n][j].pri < t2)}} : n \in f4}
     /\ last' = [op |-> op, deleted |-> dead, dropped |-> stale, f4 |-> f4]
     /\ UNCHANGED <<limited, sil>>

GC     == GCAt(2 * now, "gc") /\ UNCHANGED now
\* the GC ticker fires between this model instant and the next
TickGC == GCAt(2 * now + 1, "tickgc") /\ now' = now + 1

Tick(d) == /\ d > 0 /\ now' = now + d
           /\ last' = [op |-> "tick", d |-> d]
           /\ UNCHANGED <<store, buckets, limited, sil, orph>>

(* the one silence: created active from now on, expired by DELETE           *)
SilLive == sil.start <= now /\ now <= sil.end
SilOn  == /\ ~SilLive
          /\ sil' = [start |-> now, end |-> Inf]
          /\ last' = [op |-> "silon"]
          /\ UNCHANGED <<now, store, buckets, limited, orph>>
\* (not at the instant of its creation: two writes to one silence at one instant are
\* outside every property's quantifier - the second is dropped by last-writer-wins)
SilOff == /\ SilLive /\ sil.end = Inf /\ sil.start < now
          /\ sil' = [sil EXCEPT !.end = now]
          /\ last' = [op |-> "siloff"]
          /\ UNCHANGED <<now, store, buckets, limited, orph>>

(* GET /api/v2/alerts with the default parameters: every stored alert whose *)
(* end is not before now, with merged times, receivers and status.  "must": *)
(* end after now; "may": end = now (the statement leaves that instant open) *)
StatusOf(c, s, t) == IF ~SilMatches(c) THEN "active"
                     ELSE IF t = s.start \/ t = s.end THEN "either"
                     ELSE IF s.start < t /\ t < s.end THEN "suppressed" ELSE "active"
Shown(st, s, fp, t) == [fp |-> fp, start |-> st[fp].start, end |-> st[fp].end,
                        state |-> StatusOf(fp, s, t), rcv |-> Receivers(fp)]
Visible(st, s, t) == [must |-> {Shown(st, s, fp, t) : fp \in {x \in DOMAIN st : st[x].end > t}},
                      may  |-> {Shown(st, s, fp, t) : fp \in {x \in DOMAIN st : st[x].end = t}}]
ApiGet == /\ last' = [op |-> "get", vis |-> Visible(store, sil, now)]
          /\ UNCHANGED <<now, store, buckets, limited, sil, orph>>

-----------------------------------------------------------------------------
(* Property C13 (contract clauses; they do not depend on boundary instants) *)

IsPost  == last'.op = "post"
PostedA(i) == Defaulted(last'.batch[i], now)
\* the clauses below speak about batches whose valid alerts have distinct label sets
DistinctBatch(batch, t) ==
  \A i, j \in 1..Len(batch) : (i # j /\ ValidAlert(Defaulted(batch[i], t)) /\ ValidAlert(Defaulted(batch[j], t)))
                                  => Defaulted(batch[i], t).fp # Defaulted(batch[j], t).fp
OkIdx == {i \in 1..Len(last'.batch) : last'.res[i] = "ok"}

\* every valid alert of a batch is stored even if others are rejected; the reply is an
\* error iff some alert was invalid; nothing else changes
BestEffort ==
  [][IsPost =>
       /\ \A i \in 1..Len(last'.batch) :
            LET a == PostedA(i)
            IN /\ (last'.res[i] = "invalid") = ~ValidAlert(a)
               /\ (ValidAlert(a) /\ Limit = 0) => last'.res[i] = "ok"
               /\ last'.res[i] = "ok" => (a.fp \in DOMAIN store' /\ store'[a.fp].upd = now)
       /\ (last'.code = 400) = (\E i \in 1..Len(last'.batch) : ~ValidAlert(PostedA(i)))
       /\ last'.code \in {200, 400}
       /\ \A fp \in DOMAIN store : fp \in DOMAIN store'
       /\ \A fp \in DOMAIN store' : (fp \notin DOMAIN store \/ store[fp] # store'[fp])
                                       => \E i \in OkIdx : PostedA(i).fp = fp]_vars

\* The clauses for ONE accepted submission a (defaulted), pre = the stored alerts before it,
\* n = the stored alert of its label set after it.
\* a missing startsAt becomes the receive time (or endsAt) unless an overlapping earlier
\* submission is kept; overlapping submissions keep the earliest start
StartClause(pre, a, n) ==
  IF a.fp \notin DOMAIN pre THEN n.start = a.start
  ELSE LET o == pre[a.fp]
       IN /\ (o.end < a.start \/ a.end < o.start) => n.start = a.start
          /\ (a.start < o.end /\ o.start < a.end) => n.start = Min(o.start, a.start)
          /\ n.start \in {o.start, a.start}
\* a missing endsAt becomes receive time + resolve_timeout and is pushed forward by
\* every re-send
TimeoutClause(pre, a, n, t) ==
  a.timeout => /\ n.end >= t + RT
               /\ n.timeout
               /\ (a.fp \notin DOMAIN pre \/ pre[a.fp].timeout) => n.end = t + RT
\* an explicit end in the past resolves the alert immediately
PastEndClause(a, n, t) == (~a.timeout /\ a.end < t) => n.end <= t

StartRule ==
  [][(IsPost /\ DistinctBatch(last'.batch, now)) =>
       \A i \in OkIdx : StartClause(store, PostedA(i), store'[PostedA(i).fp])]_vars
TimeoutRule ==
  [][(IsPost /\ DistinctBatch(last'.batch, now)) =>
       \A i \in OkIdx : TimeoutClause(store, PostedA(i), store'[PostedA(i).fp], now)]_vars
PastEndResolves ==
  [][(IsPost /\ DistinctBatch(last'.batch, now)) =>
       \A i \in OkIdx : PastEndClause(PostedA(i), store'[PostedA(i).fp], now)]_vars

\* A body that holds one label set more than once: its alerts are submissions in body
\* order, so the clauses hold for each of them against the stored alerts left by the ones
\* before it (Mid(k) = the store after the first k alerts of the body).
Mid(k) == RunBatch(SubSeq(last'.batch, 1, k), now, NoTies).store
DupRules ==
  [][(IsPost /\ ~DistinctBatch(last'.batch, now)) =>
       /\ Mid(Len(last'.batch)) = store'
       /\ \A i \in OkIdx :
            LET a == PostedA(i)
                n == Mid(i)[a.fp]
            IN /\ StartClause(Mid(i - 1), a, n)
               /\ TimeoutClause(Mid(i - 1), a, n, now)
               /\ PastEndClause(a, n, now)]_vars

\* Submission order (any batch, any stamps - in particular EQUAL stamps): what the statement
\* fixes about the stored alert n of a label set after a request, in terms of the LAST
\* accepted submission a of that label set in the request: an earlier submission never
\* overwrites it.  It is stored at this instant; a missing endsAt has pushed the end to
\* now + resolve_timeout at least ("fire" or heartbeat after anything stays firing); an
\* explicit end in the past has resolved the alert ("fire then resolve" ends resolved); an
\* end that has not passed is never cut short, so GET keeps showing the alert; the start is
\* never later than the submitted one.
\* Not fixed by the statement (hence not part of these clauses) when two overlapping
\* submissions carry one stamp: (i) whether an explicit future end e < now + RT submitted
\* after an alert without endsAt ends the alert at e or at now + RT; (ii) the timeout flag
\* when an alert without endsAt follows an explicit end later than now + RT (same end).
LastOk(batch, res, t) ==
  {i \in 1..Len(batch) : /\ res[i] = "ok"
                         /\ \A j \in (i + 1)..Len(batch) :
                               ~(res[j] = "ok" /\ Defaulted(batch[j], t).fp = Defaulted(batch[i], t).fp)}
OrderClauses(batch, res, t, st2) ==
  \A i \in LastOk(batch, res, t) :
     LET a == Defaulted(batch[i], t)
     IN /\ a.fp \in DOMAIN st2
        /\ LET n == st2[a.fp]
           IN /\ n.upd = t
              /\ a.timeout => n.end >= t + RT
              /\ (~a.timeout /\ a.end < t) => n.end <= t
              /\ a.end > t => n.end >= a.end
              /\ n.start <= a.start
SubmissionOrder == [][IsPost => OrderClauses(last'.batch, last'.res, now, store')]_vars

\* only resolved alerts are ever collected, and only by GC
OnlyResolvedCollected ==
  [][\A fp \in DOMAIN store :
        fp \notin DOMAIN store' => (last'.op \in {"gc", "tickgc"} /\ store[fp].end <= now)]_vars
\* GC collects what has resolved (strictly before the GC instant)
GCCollects ==
  [][last'.op \in {"gc", "tickgc"} => \A fp \in DOMAIN store' : store'[fp].end >= now]_vars

WellFormed == \A fp \in DOMAIN store : /\ store[fp].start <= store[fp].end
                                       /\ fp \in CanonIds

-----------------------------------------------------------------------------
(* Property C18 (per-alert-name limit)                                      *)

Names == {NameOf(c) : c \in CanonIds}
Unexpired(n) == {fp \in DOMAIN store : NameOf(fp) = n /\ store[fp].end > now}
InBucket(n)  == IF n \in DOMAIN buckets THEN Members(buckets[n]) ELSE {}
\* unexpired admitted alerts the bucket of their name no longer knows
Orphans(n)   == Unexpired(n) \ InBucket(n)

\* the number of distinct unexpired alerts admitted under one name never exceeds N
LimitHolds(n) == Cardinality(Unexpired(n)) <= Limit
\* re-sends of admitted (unexpired) alerts are always accepted
ResendOK(i) == LET a == PostedA(i)
               IN (ValidAlert(a) /\ a.fp \in DOMAIN store /\ store[a.fp].end > now) => last'.res[i] = "ok"
\* room is made only by expiry: an item leaves its bucket only when it has expired
LeavesOnlyExpired(n) ==
  \A i \in 1..Len(buckets[n]) :
     LET it == buckets[n][i]
     IN (n \notin DOMAIN buckets' \/ it.fp \notin Members(buckets'[n])) => it.pri < now'
\* every refusal is counted
RefusalCounted ==
  [][limited' = limited + (IF IsPost THEN Cardinality({i \in 1..Len(last'.batch) : last'.res[i] = "limited"}) ELSE 0)]_vars
\* a refusal leaves the stored alert untouched
RefusalChangesNothing ==
  [][IsPost => \A i \in 1..Len(last'.batch) :
        (last'.res[i] = "limited" /\ ~\E j \in OkIdx : PostedA(j).fp = PostedA(i).fp)
           => LET fp == PostedA(i).fp
              IN IF fp \in DOMAIN store THEN fp \in DOMAIN store' /\ store'[fp] = store[fp]
                 ELSE fp \notin DOMAIN store']_vars
\* the bucket of a name holds at most N items, each at most once, and the heap order holds
BucketOK == \A n \in DOMAIN buckets :
              LET h == buckets[n]
              IN /\ Len(h) >= 1 /\ Len(h) <= Limit
                 /\ \A i, j \in 1..Len(h) : i # j => h[i].fp # h[j].fp
                 /\ \A j \in 2..Len(h) : h[j \div 2].pri <= h[j].pri
                 /\ \A i \in 1..Len(h) : NameOf(h[i].fp) = n
\* a stored alert that is in its bucket has its end as priority
BucketAgrees == \A n \in DOMAIN buckets : \A i \in 1..Len(buckets[n]) :
                  LET it == buckets[n][i]
                  IN it.fp \in DOMAIN store => store[it.fp].end = it.pri

\* Finding F4 (DESIGN.md section 8): IsStaleImpl looks at the last slice element, so a
\* bucket can be dropped while an admitted alert has not expired.  F4Gap(n) characterises
\* exactly the states after such a drop: an unexpired stored alert of the name that was in
\* a bucket when it was dropped unexpired and has not been admitted again since.
F4Gap(n) == \E fp \in orph : NameOf(fp) = n /\ fp \in Unexpired(n) /\ fp \notin InBucket(n)
\* ... and nothing else produces such alerts
OrphansOnlyByStaleDrop == \A n \in Names : Orphans(n) \subseteq orph

=============================================================================
