------------------------------ MODULE AMDesign ------------------------------
(***************************************************************************)
(* Design model of one Alertmanager instance: provider -> dispatcher       *)
(* (aggregation groups with their timers and run loops) -> notification    *)
(* pipeline (mute stages, Dedup, Retry, SetNotifies) -> notification log.  *)
(* One action per step of the code that can interleave with the others:    *)
(*   Post            api.postAlertsHandler + provider.Put + groupAlert     *)
(*   FlushBegin      aggrGroup.run takes the timer tick, aggrGroup.flush   *)
(*                   freezes the alerts; mute stages + DedupStage decide   *)
(*   AttemptStep     one Integration.Notify inside RetryStage              *)
(*   Deadline        the flush context expires (retry / hang cut)          *)
(*   LogStep         SetNotifiesStage -> nflog.Log                         *)
(*   FlushOkStep     flush succeeded: DeleteIfNotModified, destroy if empty*)
(*   FlushDoneStep   the run loop is free again                            *)
(*   SilCreate / SilExpire, Tick                                           *)
(* Every step is also handed to the observer AMObs (the same module that   *)
(* judges recorded executions of the real code), so TLC checks that this   *)
(* design satisfies every clause of C01/C02/C03/C04/C05/C06/C20 over all   *)
(* interleavings within the bounds.                                        *)
(*                                                                         *)
(* Time is abstract (units); timers fire on time (Tick is disabled while a *)
(* step is due).  Ingestion workers are collapsed into Post (their         *)
(* interleavings are the subject of Dispatch.tla, C06/C14).                *)
(***************************************************************************)
EXTENDS AMObs, SequencesExt

CONSTANTS GW, GI, RI,        \* group_wait, group_interval, repeat_interval of the root route
          Routes,            \* child routes (records as in AMObs: rk, sel, cont, recv, gw, gi, ri, mute, active), all to receiver r1
          SR,                \* sequence of BOOLEAN: send_resolved per integration
          INH,               \* inhibition rule present
          Windows,           \* receiver script: sequence of [integ, from, to, kind]
          Used,              \* alerts the environment may post
          SilLib,            \* matcher sets the environment may silence with
          MaxTime, MaxPosts, MaxSils, MaxReloads,
          RetryGap           \* retry delay after a recoverable failure (abstract units)

VARIABLES grp,     \* group id -> [gk, al, due, st, dead, tick, dl, frozen, pl, pc]
          gmap,    \* group key -> id of the group the dispatcher's map holds
          nfl,     \* <<gk, integ>> -> notification-log entry [ts, firing, resolved]
          ids,     \* number of groups created
          nposts,  \* number of environment posts so far
          nrel     \* number of configuration reloads so far

dvars == <<grp, gmap, nfl, ids, nposts, nrel>>
allvars == <<ovars, dvars>>

IntegName(i) == "webhook/" \o ToString(i - 1)
TheCfg == [root |-> RootOnly(GW, GI, RI), routes |-> Routes,
           integs |-> [i \in 1..Len(SR) |-> [recv |-> "r1", name |-> IntegName(i), sr |-> SR[i]]],
           inhibit |-> INH, windows |-> Windows, wait |-> 0, maxwait |-> 0, agc |-> 0, maint |-> 0]
NInt == Len(SR)
AgName(i) == "ag" \o ToString(i)

\* notify/dedup_stage.go needsUpdate, verbatim (entry = NoEntry or [ts, firing, resolved])
NoEntry == [ts |-> -1, firing |-> {}, resolved |-> {}]
NeedsUpdate(entry, firing, resolved, sendResolved, tick, ri) ==
  IF entry.ts = -1 THEN firing # {}
  ELSE IF ~(firing \subseteq entry.firing) THEN TRUE
  ELSE IF firing = {} THEN entry.firing # {}
  ELSE IF sendResolved /\ ~(resolved \subseteq entry.resolved) THEN TRUE
  ELSE entry.ts < tick - ri

EntryOf(gk, i) == IF <<gk, i>> \in DOMAIN nfl THEN nfl[<<gk, i>>] ELSE NoEntry

\* the frozen copy handed to the pipeline: firing alerts lose their end time
Frozen(al, t) ==
  SetToSeq({ [l |-> a, status |-> IF al[a].end <= t THEN "resolved" ELSE "firing",
              start |-> al[a].start, end |-> IF al[a].end <= t THEN al[a].end ELSE -1, upd |-> al[a].upd]
             : a \in DOMAIN al })

KindAt(i, t) == IF \E w \in SeqToSet(Windows) : w.integ = IntegName(i) /\ w.from <= t /\ t < w.to
                  THEN (CHOOSE w \in SeqToSet(Windows) : w.integ = IntegName(i) /\ w.from <= t /\ t < w.to).kind
                  ELSE "ok"

Init == /\ now = 0 /\ cfg = Derive(TheCfg) /\ ver = << >> /\ sil = << >> /\ last = << >> /\ brk = << >> /\ fl = << >>
        /\ cancd = [seen |-> {}, dead |-> << >>, deadgk |-> {}, refl |-> {}, ing |-> << >>, mby |-> << >>, lastReload |-> 0 - 1, gone |-> << >>, born |-> << >>]
        /\ elig = << >> /\ chk = {}
        /\ grp = << >> /\ gmap = << >> /\ nfl = << >> /\ ids = 0 /\ nposts = 0 /\ nrel = 0

-----------------------------------------------------------------------------
(* Environment *)

\* routeAlert: the alert is handed to the group of every route chosen for it; a group is
\* created (first flush after the route's group_wait) where none is alive
RECURSIVE PostFold(_, _, _, _)
PostFold(st, a, v, gks) ==
  IF gks = << >> THEN st
  ELSE LET gk == Head(gks)
           live == gk \in DOMAIN st.gmap /\ ~st.grp[st.gmap[gk]].dead
           id == AgName(st.ids + 1)
           st2 == IF live THEN [st EXCEPT !.grp[st.gmap[gk]].al = Put(@, a, v)]
                  ELSE [grp |-> Put(st.grp, id, [gk |-> gk, al |-> (a :> v),
                                                  \* an alert older than group_wait is flushed at once
                                                  due |-> IF v.start + Opt(gk).gw < now THEN now ELSE now + Opt(gk).gw, st |-> "idle", dead |-> FALSE,
                                                  tick |-> 0, dl |-> 0, frozen |-> << >>, pl |-> {}, pc |-> << >>]),
                        gmap |-> Put(st.gmap, gk, id), ids |-> st.ids + 1]
       IN PostFold(st2, a, v, Tail(gks))

\* POST /api/v2/alerts with one alert: end = now + d (d = 0: resolved now)
Post(a, d) ==
  /\ nposts < MaxPosts
  \* no two updates of one alert at one instant (UpdatedAt has nanosecond resolution)
  /\ ~(a \in DOMAIN ver /\ ver[a].upd = now)
  /\ LET v  == [start |-> now, end |-> now + d, upd |-> now]
         st == PostFold([grp |-> grp, gmap |-> gmap, ids |-> ids], a, v, SetToSeq(GKeys(a)))
     IN /\ Ingest(a, v)
        /\ grp' = st.grp /\ gmap' = st.gmap /\ ids' = st.ids
  /\ nposts' = nposts + 1
  /\ UNCHANGED <<nfl, nrel>>

\* configuration reload: the dispatcher is stopped (its groups die where they stand, a flush in
\* progress is cancelled) and a new one is built, which routes every alert the provider holds
\* again; the notification log lives on
RECURSIVE ReloadFold(_, _)
ReloadFold(st, as) == IF as = << >> THEN st
                      ELSE ReloadFold(PostFold(st, Head(as), ver[Head(as)], SetToSeq(GKeys(Head(as)))), Tail(as))
ReloadD ==
  /\ nrel < MaxReloads
  \* Dispatcher.Stop waits for every group's run loop: a delivery that has succeeded is recorded
  \* (SetNotifiesStage does not look at the cancelled context) before the new dispatcher starts
  /\ \A id \in DOMAIN grp : grp[id].st = "flushing" => \A i \in 1..NInt : grp[id].pc[i].pc # "log"
  /\ Reloading(cfg.integs, cfg.routes)
  /\ LET st == ReloadFold([grp |-> [id \in DOMAIN grp |-> [grp[id] EXCEPT !.dead = TRUE, !.st = "idle"]], gmap |-> << >>, ids |-> ids],
                          SetToSeq(DOMAIN ver))
     IN grp' = st.grp /\ gmap' = st.gmap /\ ids' = st.ids
  /\ nrel' = nrel + 1
  /\ UNCHANGED <<nfl, nposts>>

SilCreate(ms, off, len) ==
  /\ Len(sil) < MaxSils
  /\ SilSet(ms, now + off, now + off + len)
  /\ UNCHANGED dvars

SilExp(idx) ==
  /\ idx + 1 \in 1..Len(sil)
  /\ SilExpire(idx)
  /\ UNCHANGED dvars

-----------------------------------------------------------------------------
(* Dispatcher and pipeline *)

\* the run loop takes the timer tick: freeze, mute stages, Dedup per integration
FlushBeginD(id) ==
  LET g == grp[id] IN
  /\ g.st = "idle" /\ ~g.dead /\ g.due <= now
  /\ LET fr  == Frozen(g.al, now)
         \* after the mute stages: inhibition, the route's active / mute intervals (evaluated at the
         \* timer instant; they drop the whole flush), silences
         pl  == IF TimeMuted(g.gk, g.due) THEN {} ELSE {a \in DOMAIN g.al : ~SuppressedAt(a, now)}
         F   == {a \in pl : g.al[a].end > now}
         R   == pl \ F
         pcs == [i \in 1..NInt |->
                   IF pl = {} THEN [pc |-> "done", n |-> 0, next |-> 0]   \* MultiStage stops on an empty list
                   ELSE IF NeedsUpdate(EntryOf(g.gk, i), F, R, SR[i], g.due, Opt(g.gk).ri)
                          THEN [pc |-> "retry", n |-> 0, next |-> now]
                          ELSE [pc |-> "done", n |-> 0, next |-> 0]]
     IN /\ FlushBegin(id, g.gk, fr, g.due)
        /\ grp' = [grp EXCEPT ![id] = [g EXCEPT !.st = "flushing", !.tick = g.due, !.due = now + Opt(g.gk).gi,
                                                 !.dl = now + Max2(Opt(g.gk).gi, MinTimeout), !.frozen = fr, !.pl = pl, !.pc = pcs]]
  /\ UNCHANGED <<gmap, nfl, ids, nposts, nrel>>

PayloadOf(g, i) ==
  SelectSeq(g.frozen, LAMBDA x : x.l \in g.pl /\ (SR[i] \/ x.status = "firing"))

\* one delivery attempt (RetryStage); without send_resolved and nothing firing the
\* stage returns at once and the log is still written
AttemptStep(id, i) ==
  LET g == grp[id]
      p == g.pc[i]
      F == {x.l : x \in {y \in SeqToSet(g.frozen) : y.l \in g.pl /\ y.status = "firing"}}
  IN
  /\ g.st = "flushing" /\ p.pc = "retry" /\ p.next <= now /\ now < g.dl
  /\ IF ~SR[i] /\ F = {}
       THEN /\ Other
            /\ grp' = [grp EXCEPT ![id].pc[i].pc = "log"]
       ELSE LET kind == KindAt(i, now)
            IN /\ Attempt(id, g.gk, "r1", IntegName(i), PayloadOf(g, i), kind, g.dl, now)
               /\ grp' = [grp EXCEPT ![id].pc[i] =
                            CASE kind = "ok"    -> [pc |-> "log", n |-> p.n + 1, next |-> 0]
                              [] kind = "unrec" -> [pc |-> "failed", n |-> p.n + 1, next |-> 0]
                              [] kind = "rec"   -> [pc |-> "retry", n |-> p.n + 1, next |-> now + RetryGap]
                              [] kind = "hang"  -> [pc |-> "hung", n |-> p.n + 1, next |-> 0]]
  /\ UNCHANGED <<gmap, nfl, ids, nposts, nrel>>

\* the flush context expires: pending retries and hung deliveries end as failures
Deadline(id) ==
  LET g == grp[id] IN
  /\ g.st = "flushing" /\ now >= g.dl
  /\ \E i \in 1..NInt : g.pc[i].pc \in {"retry", "hung"}
  /\ Other
  /\ grp' = [grp EXCEPT ![id].pc = [i \in 1..NInt |->
                IF g.pc[i].pc \in {"retry", "hung"} THEN [g.pc[i] EXCEPT !.pc = "failed"] ELSE g.pc[i]]]
  /\ UNCHANGED <<gmap, nfl, ids, nposts, nrel>>

\* SetNotifiesStage
LogStep(id, i) ==
  LET g == grp[id]
      F == {x.l : x \in {y \in SeqToSet(g.frozen) : y.l \in g.pl /\ y.status = "firing"}}
      R == {x.l : x \in {y \in SeqToSet(g.frozen) : y.l \in g.pl /\ y.status = "resolved"}}
  IN
  /\ g.st = "flushing" /\ g.pc[i].pc = "log"
  /\ NflogLog(g.gk, IntegName(i), F, R)
  /\ nfl' = Put(nfl, <<g.gk, i>>, [ts |-> now, firing |-> F, resolved |-> R])
  /\ grp' = [grp EXCEPT ![id].pc[i].pc = "done"]
  /\ UNCHANGED <<gmap, ids, nposts, nrel>>

Finished(g) == \A i \in 1..NInt : g.pc[i].pc \in {"done", "failed"}
Succeeded(g) == \A i \in 1..NInt : g.pc[i].pc = "done"

\* the pipeline returned without error: resolved alerts that were not updated since
\* the freeze are removed; the group is destroyed when nothing is left
FlushOkStep(id) ==
  LET g == grp[id] IN
  /\ g.st = "flushing" /\ Finished(g) /\ Succeeded(g)
  /\ FlushOk(id)
  /\ LET gone == {x.l : x \in {y \in SeqToSet(g.frozen) : y.status = "resolved" /\ y.l \in DOMAIN g.al /\ g.al[y.l].upd = y.upd}}
         al2  == Drop(g.al, gone)
     IN grp' = [grp EXCEPT ![id] = [g EXCEPT !.al = al2, !.dead = (DOMAIN al2 = {}), !.st = "ending"]]
  /\ UNCHANGED <<gmap, nfl, ids, nposts, nrel>>

FlushDoneStep(id) ==
  LET g == grp[id] IN
  /\ \/ g.st = "ending"
     \/ (g.st = "flushing" /\ Finished(g) /\ ~Succeeded(g))
  /\ FlushDone(id)
  /\ grp' = [grp EXCEPT ![id].st = "idle"]
  /\ UNCHANGED <<gmap, nfl, ids, nposts, nrel>>

\* something must happen now: time may not pass
Urgent ==
  \E id \in DOMAIN grp :
     LET g == grp[id] IN
     \/ (g.st = "idle" /\ ~g.dead /\ g.due <= now)
     \/ g.st = "ending"
     \/ (g.st = "flushing" /\ \/ Finished(g)
                              \/ now >= g.dl
                              \/ \E i \in 1..NInt : g.pc[i].pc = "log" \/ (g.pc[i].pc = "retry" /\ g.pc[i].next <= now))

TickD == /\ ~Urgent /\ now < MaxTime
         /\ Advance(now + 1)
         /\ UNCHANGED dvars

Next ==
  \/ \E a \in Used, d \in {0, 3, 9} : Post(a, d)
  \/ \E ms \in SilLib, off \in {0, 1}, len \in {2} : SilCreate(ms, off, len)
  \/ \E idx \in 0..1 : SilExp(idx)
  \/ ReloadD
  \/ \E id \in DOMAIN grp : \/ FlushBeginD(id) \/ Deadline(id) \/ FlushOkStep(id) \/ FlushDoneStep(id)
                            \/ \E i \in 1..NInt : AttemptStep(id, i) \/ LogStep(id, i)
  \/ TickD

Spec == Init /\ [][Next]_allvars

\* the observer's clauses are invariants of the design
NoClause == chk = {}
DeadlineInv == C01_Deadline /\ C05_Deadline /\ C04_Deadline
=============================================================================
