------------------------------ MODULE Routing -------------------------------
(***************************************************************************)
(* The routing tree of one Alertmanager configuration (dispatch/route.go,  *)
(* config.Route) -- property C07.                                          *)
(*                                                                         *)
(* A node of the tree is a record                                          *)
(*   ms   : sequence of matchers (AND), in the order the code sorts them   *)
(*          (name, then value, then type = < != < =~ < !~)                 *)
(*   cont : the `continue` flag                                            *)
(*   o    : the option overrides written on this node ("decoration")       *)
(*            rcv       <<>> (none) or <<name>>                            *)
(*            gbo, gb   "inherit" | "list" (group_by: gb, may be empty)    *)
(*                      | "all" (group_by: ['...'])                        *)
(*            gw gi ri  <<>> (none) or <<seconds>>                         *)
(*            lbl       sequence of [n, v]: the route's `labels`           *)
(*   kids : sequence of nodes                                              *)
(* A route is named by its path: the sequence of (1-based) child indices   *)
(* from the root; the root is <<>>.                                        *)
(*                                                                         *)
(* Implementation-shaped definitions: Match/Scan (Route.Match), Inherit    *)
(* (newRoute), KeyAt / IdAt (Route.Key, Route.ID).  Reference definitions: *)
(* Selected (which routes are chosen, without recursion over results) and  *)
(* OptsRef (nearest overriding ancestor).  TLC checks that they agree and  *)
(* the structural theorems of C07 over a tree space that is built by the   *)
(* action AddChild (one more subtree under the root).                      *)
(***************************************************************************)
EXTENDS Labels

-----------------------------------------------------------------------------
(* Library of matcher lists for routes (values and regexes of Labels).     *)
(* On LSets:  R1 L1,L5   R2 L1,L2,L5   R3 L2,L3,L4 (holds on absent a)     *)
(* R4 all but L4 (c absent)   R5 L1,L4 (b absent = empty)   R6 L3,L5       *)
(* R7 L2   R8 L1,L2,L5   R9 all   R10 L1,L3,L4,L5   R11 none   R12 L4      *)
RMs == [ R1  |-> <<Eq("a", "x")>>,
         R2  |-> <<Re("a", "x|y")>>,
         R3  |-> <<Ne("a", "x")>>,
         R4  |-> <<Nre("c", "x.*")>>,
         R5  |-> <<Eq("b", "")>>,
         R6  |-> <<Eq("b", "y")>>,
         R7  |-> <<Ne("a", "x"), Eq("b", "x")>>,
         R8  |-> <<Re("a", ".+"), Nre("c", "x.*")>>,
         R9  |-> << >>,
         R10 |-> <<Re("b", "y?")>>,
         R11 |-> <<Eq("a", "x"), Ne("a", "x")>>,
         R12 |-> <<Nre("a", "x"), Re("a", "x.*"), Eq("c", "x")>> ]
RMNames == DOMAIN RMs

NoDeco == [rcv |-> << >>, gbo |-> "inherit", gb |-> << >>,
           gw |-> << >>, gi |-> << >>, ri |-> << >>, lbl |-> << >>]

MkNode(ms, cont, o, kids) == [ms |-> ms, cont |-> cont, o |-> o, kids |-> kids]

Holds(n, ls) == MatchesAll(n.ms, ls)

-----------------------------------------------------------------------------
(* Route.Match: depth-first, left to right.                                *)
RECURSIVE Match(_, _, _), Scan(_, _, _, _)
Match(n, ls, p) ==
  IF ~Holds(n, ls) THEN << >>
  ELSE LET sub == Scan(n, ls, p, 1)
       IN IF sub = << >> THEN <<p>> ELSE sub          \* self only if no child matched
Scan(n, ls, p, i) ==                                  \* children i.. of n, in order
  IF i > Len(n.kids) THEN << >>
  ELSE LET m == Match(n.kids[i], ls, Append(p, i))
       IN IF m # << >> /\ ~n.kids[i].cont THEN m      \* break
          ELSE m \o Scan(n, ls, p, i + 1)

Route(t, ls) == Match(t, ls, << >>)

-----------------------------------------------------------------------------
(* newRoute: options copied from the parent, then overridden field by      *)
(* field.  `group_by: [...]` sets GroupByAll and leaves GroupBy as         *)
(* inherited (it is ignored while GroupByAll holds); a list (also the      *)
(* empty one) replaces GroupBy and clears GroupByAll.                      *)
ToSet(s) == {s[i] : i \in 1..Len(s)}
Opt(x, dflt) == IF x = << >> THEN dflt ELSE x[1]
LblFn(s) == [k \in {s[i].n : i \in 1..Len(s)} |->
               (CHOOSE e \in ToSet(s) : e.n = k).v]
Merged(a, b) == [k \in DOMAIN a \cup DOMAIN b |-> IF k \in DOMAIN b THEN b[k] ELSE a[k]]

DefaultOpts == [rcv |-> "", gb |-> {}, gba |-> FALSE,
                gw |-> 30, gi |-> 300, ri |-> 14400, lbl |-> << >>]

Inherit(po, n) ==
  [ rcv |-> Opt(n.o.rcv, po.rcv),
    gb  |-> IF n.o.gbo = "list" THEN ToSet(n.o.gb) ELSE po.gb,
    gba |-> CASE n.o.gbo = "list" -> FALSE
              [] n.o.gbo = "all"  -> TRUE
              [] OTHER            -> po.gba,
    gw  |-> Opt(n.o.gw, po.gw),
    gi  |-> Opt(n.o.gi, po.gi),
    ri  |-> Opt(n.o.ri, po.ri),
    lbl |-> IF n.o.lbl = << >> THEN po.lbl ELSE Merged(po.lbl, LblFn(n.o.lbl)) ]

RECURSIVE OptsAt(_, _, _)
OptsAt(n, po, p) == LET o == Inherit(po, n)
                    IN IF p = << >> THEN o ELSE OptsAt(n.kids[Head(p)], o, Tail(p))
Opts(t, p) == OptsAt(t, DefaultOpts, p)

\* the labels an alert is grouped by under options o (dispatch.getGroupLabels)
GroupNames(o, ls) == IF o.gba THEN DOMAIN ls ELSE o.gb \cap DOMAIN ls

-----------------------------------------------------------------------------
(* Navigation.                                                             *)
RECURSIVE NodeAt(_, _), PathsFrom(_, _), PreFrom(_, _), PreKids(_, _, _)
NodeAt(n, p) == IF p = << >> THEN n ELSE NodeAt(n.kids[Head(p)], Tail(p))
PathsFrom(n, p) == {p} \cup UNION {PathsFrom(n.kids[i], Append(p, i)) : i \in 1..Len(n.kids)}
Paths(t) == PathsFrom(t, << >>)
PreFrom(n, p) == <<p>> \o PreKids(n, p, 1)
PreKids(n, p, i) == IF i > Len(n.kids) THEN << >>
                    ELSE PreFrom(n.kids[i], Append(p, i)) \o PreKids(n, p, i + 1)
PreOrder(t) == PreFrom(t, << >>)
Prefix(p, k) == SubSeq(p, 1, k)
IsPrefix(p, q) == Len(p) <= Len(q) /\ Prefix(q, Len(p)) = p
Min2(a, b) == IF a < b THEN a ELSE b
\* position in the depth-first pre-order: an ancestor before its descendants, a
\* subtree before the subtrees of later siblings
Before(p, q) == \/ (IsPrefix(p, q) /\ p # q)
                \/ \E k \in 1..Min2(Len(p), Len(q)) : Prefix(p, k - 1) = Prefix(q, k - 1) /\ p[k] < q[k]

-----------------------------------------------------------------------------
(* Route.Key and Route.ID.                                                 *)
MStr(m) == m.n \o m.op \o "\"" \o m.v \o "\""
RECURSIVE JoinFrom(_, _)
JoinFrom(ms, i) == IF i > Len(ms) THEN ""
                   ELSE (IF i > 1 THEN "," ELSE "") \o MStr(ms[i]) \o JoinFrom(ms, i + 1)
MsStr(ms) == "{" \o JoinFrom(ms, 1) \o "}"
RECURSIVE KeyAt(_, _), IdAt(_, _)
KeyAt(t, p) == IF p = << >> THEN MsStr(t.ms)
               ELSE KeyAt(t, Prefix(p, Len(p) - 1)) \o "/" \o MsStr(NodeAt(t, p).ms)
IdAt(t, p)  == IF p = << >> THEN MsStr(t.ms)
               ELSE IdAt(t, Prefix(p, Len(p) - 1)) \o "/" \o MsStr(NodeAt(t, p).ms)
                      \o "/" \o ToString(p[Len(p)] - 1)

-----------------------------------------------------------------------------
(* Reference definitions (the property statement, without recursion over   *)
(* result lists).  A node "yields" iff its matchers hold (then either it   *)
(* or some descendant is chosen).  Route p is chosen iff                   *)
(*   - the matchers of every node on the path root..p hold,                *)
(*   - no child of p yields,                                               *)
(*   - on every level of the path no earlier sibling stopped the scan,     *)
(*     i.e. yields and has no `continue`.                                  *)
Selected(t, ls, p) ==
  /\ \A k \in 0..Len(p) : Holds(NodeAt(t, Prefix(p, k)), ls)
  /\ \A j \in 1..Len(NodeAt(t, p).kids) : ~Holds(NodeAt(t, p).kids[j], ls)
  /\ \A k \in 1..Len(p) : \A j \in 1..(p[k] - 1) :
        LET sib == NodeAt(t, Prefix(p, k - 1)).kids[j]
        IN ~(Holds(sib, ls) /\ ~sib.cont)

\* nearest node on the path root..p (p itself first) for which Has holds: its
\* depth, or -1 (the option is inherited from the defaults)
Nearest(t, p, Has(_)) ==
  LET S == {k \in 0..Len(p) : Has(NodeAt(t, Prefix(p, k)))}
  IN IF S = {} THEN 0 - 1 ELSE CHOOSE k \in S : \A j \in S : j <= k

OptsRef(t, p) ==
  LET At(k) == NodeAt(t, Prefix(p, k)).o
      HasRcv(n) == n.o.rcv # << >>
      HasGb(n)  == n.o.gbo # "inherit"
      HasGw(n)  == n.o.gw # << >>
      HasGi(n)  == n.o.gi # << >>
      HasRi(n)  == n.o.ri # << >>
      kr == Nearest(t, p, HasRcv)
      kb == Nearest(t, p, HasGb)
      kw == Nearest(t, p, HasGw)
      ki == Nearest(t, p, HasGi)
      kp == Nearest(t, p, HasRi)
      LblNames == UNION {{At(k).lbl[i].n : i \in 1..Len(At(k).lbl)} : k \in 0..Len(p)}
      HasLbl(x) == LET H(n) == \E i \in 1..Len(n.o.lbl) : n.o.lbl[i].n = x IN Nearest(t, p, H)
  IN [ rcv |-> IF kr < 0 THEN DefaultOpts.rcv ELSE At(kr).rcv[1],
       \* what the alerts are grouped by: "all", or a set of names
       grp |-> IF kb < 0 THEN [all |-> FALSE, by |-> {}]
               ELSE IF At(kb).gbo = "all" THEN [all |-> TRUE, by |-> {}]
               ELSE [all |-> FALSE, by |-> ToSet(At(kb).gb)],
       gw  |-> IF kw < 0 THEN DefaultOpts.gw ELSE At(kw).gw[1],
       gi  |-> IF ki < 0 THEN DefaultOpts.gi ELSE At(ki).gi[1],
       ri  |-> IF kp < 0 THEN DefaultOpts.ri ELSE At(kp).ri[1],
       lbl |-> [x \in LblNames |-> LblFn(At(HasLbl(x)).lbl)[x]] ]

\* projection of implementation-shaped options onto what OptsRef states
Proj(o) == [ rcv |-> o.rcv,
             grp |-> IF o.gba THEN [all |-> TRUE, by |-> {}] ELSE [all |-> FALSE, by |-> o.gb],
             gw |-> o.gw, gi |-> o.gi, ri |-> o.ri,
             lbl |-> [x \in DOMAIN o.lbl |-> o.lbl[x]] ]

-----------------------------------------------------------------------------
(* Well-formed configuration (config.Load): the root has a receiver, no    *)
(* matchers, no continue.                                                  *)
RECURSIVE NoDupLbl(_)
NoDupLbl(n) == /\ \A i, j \in 1..Len(n.o.lbl) : n.o.lbl[i].n = n.o.lbl[j].n => i = j
               /\ \A i \in 1..Len(n.kids) : NoDupLbl(n.kids[i])
WellFormed(t) == t.ms = << >> /\ ~t.cont /\ t.o.rcv # << >> /\ NoDupLbl(t)

\* the tree with `continue` cleared on the last child of the node at path p
RECURSIVE ClearLastCont(_, _)
ClearLastCont(n, p) ==
  IF p = << >>
    THEN IF n.kids = << >> THEN n
         ELSE [n EXCEPT !.kids[Len(n.kids)].cont = FALSE]
    ELSE [n EXCEPT !.kids[Head(p)] = ClearLastCont(n.kids[Head(p)], Tail(p))]

RECURSIVE AnyCont(_)
AnyCont(n) == n.cont \/ \E i \in 1..Len(n.kids) : AnyCont(n.kids[i])

-----------------------------------------------------------------------------------------------------------------------------------------------------
(* Structural theorems of C07, for one tree t, one label set ls and the    *)
(* result r = Route(t, ls).                                                *)
Elems(r) == {r[i] : i \in 1..Len(r)}
LastKidContinues(n) == n.kids # << >> /\ n.kids[Len(n.kids)].cont

ThNonEmpty(r)         == r # << >>
ThPreOrder(r)         == /\ \A i \in 1..(Len(r) - 1) : Before(r[i], r[i + 1])           \* depth-first order, no route twice
                         /\ \A i, j \in 1..Len(r) : i # j => ~IsPrefix(r[i], r[j])       \* never a route and its ancestor
ThPathHolds(t, ls, r) == \A p \in Elems(r) : \A k \in 0..Len(p) : Holds(NodeAt(t, Prefix(p, k)), ls)
ThReference(t, ls, r) == Elems(r) = {p \in Paths(t) : Selected(t, ls, p)}
ThLastCont(t, ls, r)  == \A p \in Paths(t) :
                            LastKidContinues(NodeAt(t, p)) => Route(ClearLastCont(t, p), ls) = r
ThReceiver(t, r)      == \A p \in Elems(r) : Opts(t, p).rcv # ""
ThFirstOnly(t, r)     == ~AnyCont(t) => Len(r) = 1
ThInherit(t)          == \A p \in Paths(t) : Proj(Opts(t, p)) = OptsRef(t, p)
ThUniqueIds(t)        == Cardinality({IdAt(t, p) : p \in Paths(t)}) = Cardinality(Paths(t))
ThPreOrderAll(t)      == LET s == PreOrder(t)
                         IN /\ Elems(s) = Paths(t)
                            /\ \A i \in 1..(Len(s) - 1) : Before(s[i], s[i + 1])

-----
(* The tree space: trees of bounded depth and fan-out built from sets of   *)
(* matcher lists and decorations.  With Pick(S) = S the sets are complete; *)
(* with Pick(S) = {RandomElement(S)} each evaluation yields one random     *)
(* subtree (simulation).                                                   *)
CONSTANTS Pick(_),
          MNames,       \* names (in RMs) of the matcher lists used
          Conts,        \* values of the `continue` flag used
          Decos,        \* decorations of inner nodes and leaves
          RootDecos,    \* decorations of the root (each with a receiver)
          Fan,          \* maximal number of children below the root level
          RootFan,      \* maximal number of children of the root
          Depth         \* maximal number of edges on a path from the root

RECURSIVE Sub(_), KidSeqs(_, _)
Sub(d) == { MkNode(RMs[m], c, o, ks) : m \in Pick(MNames), c \in Pick(Conts),
                                        o \in Pick(Decos), ks \in UNION {KidSeqs(d, k) : k \in Pick(0..(IF d = 0 THEN 0 ELSE Fan))} }
KidSeqs(d, k) == IF k = 0 THEN {<< >>}
                 ELSE { <<a>> \o r : a \in Sub(d - 1), r \in KidSeqs(d, k - 1) }

VARIABLE tree
vars == <<tree>>

Init == \E o \in RootDecos : tree = MkNode(<< >>, FALSE, o, << >>)

\* one more subtree under the root, taken from S
AddChild(S) == /\ Len(tree.kids) < RootFan
               /\ \E c \in S : tree' = [tree EXCEPT !.kids = Append(@, c)]

R(l) == Route(tree, LSets[l])
TypeOK       == WellFormed(tree)
NonEmpty     == \A l \in LSetNames : ThNonEmpty(R(l))
PreOrdered   == \A l \in LSetNames : ThPreOrder(R(l))
PathHolds    == \A l \in LSetNames : ThPathHolds(tree, LSets[l], R(l))
Reference    == \A l \in LSetNames : ThReference(tree, LSets[l], R(l))
LastContinue == \A l \in LSetNames : ThLastCont(tree, LSets[l], R(l))
HasReceiver  == \A l \in LSetNames : ThReceiver(tree, R(l))
FirstOnly    == \A l \in LSetNames : ThFirstOnly(tree, R(l))
Inheritance  == ThInherit(tree)
UniqueIds    == ThUniqueIds(tree)
PreOrderAll  == ThPreOrderAll(tree)
\* all theorems about results in one invariant (the result is computed once per label set)
Theorems ==
  \A l \in LSetNames :
     LET ls == LSets[l]
         r  == Route(tree, ls)
     IN /\ ThNonEmpty(r) /\ ThPreOrder(r) /\ ThPathHolds(tree, ls, r) /\ ThReference(tree, ls, r)
        /\ ThLastCont(tree, ls, r) /\ ThReceiver(tree, r) /\ ThFirstOnly(tree, r)
\* adding a later sibling never changes what the earlier siblings produce: the new
\* result extends the old one, or is the old one (the scan had stopped), or the
\* old one was the root alone
Growing == [][\A l \in LSetNames :
                LET a == Route(tree, LSets[l])
                    b == Route(tree', LSets[l])
                IN \/ a = << << >> >>
                   \/ (Len(b) >= Len(a) /\ SubSeq(b, 1, Len(a)) = a)]_vars
=============================================================================
