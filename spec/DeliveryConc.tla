---------------------------- MODULE DeliveryConc ----------------------------
(***************************************************************************)
(* Concurrent deliveries through ONE notifier instance (property C20).     *)
(*                                                                         *)
(* The notifier of a receiver's integration is one object shared by every  *)
(* aggregation group routed to the receiver: groups that flush at the same *)
(* instant call Notify on it concurrently (dispatch: one goroutine per     *)
(* group; notify.RetryStage and SetNotifiesStage are shared values too).   *)
(* C20: "the data handed to .. webhooks lists exactly the alerts of the    *)
(* batch", "recorded .. only after the integration reported success ..     *)
(* never lose it": the deliveries are INDEPENDENT - what the endpoint      *)
(* receives for a call is a function of that call's batch only (the        *)
(* payload definitions of Delivery.tla), whatever the other calls do.      *)
(*                                                                         *)
(*   notify/webhook/webhook.go  Notify: encode into a buffer, POST it      *)
(*   notify/util.go             PostJSON: the HTTP client reads the buffer *)
(*   notify/retry_stage.go, set_notifies_stage.go                          *)
(*                                                                         *)
(* A payload is abstracted to the chunks the HTTP client reads, each       *)
(* tagged with the call whose batch it encodes.  SharedBuffer = FALSE is   *)
(* the code as read (the buffer is a local variable of Notify); TRUE is a  *)
(* notifier that keeps the encoded payload in one of its fields: it must   *)
(* be REFUTED by the invariants (MC_DeliveryConc_shared.cfg).              *)
(***************************************************************************)
EXTENDS Integers, Sequences, FiniteSets

CONSTANTS Calls,         \* concurrent Notify calls (flushes of different groups) on one notifier
          Chunks,        \* a payload is read by the HTTP client in this many pieces
          SharedBuffer

PayloadOf(c) == [n \in 1 .. Chunks |-> [of |-> c, n |-> n]]   \* function of the call's own batch only
BufOf(c)     == IF SharedBuffer THEN "notifier" ELSE c
Bufs         == {BufOf(c) : c \in Calls}

VARIABLES pc,      \* per call: "start" | "encoded" | "sent" | "acked" | "done"
          buf,     \* per buffer: the bytes not yet read
          body,    \* per call: what its request has read from its buffer so far
          wire,    \* the requests the endpoint has received: [from, body]
          logged   \* calls recorded in the notification log
vars == <<pc, buf, body, wire, logged>>

Init == /\ pc = [c \in Calls |-> "start"]
        /\ buf = [b \in Bufs |-> << >>]
        /\ body = [c \in Calls |-> << >>]
        /\ wire = {}
        /\ logged = {}

\* buf.Reset(); json.NewEncoder(buf).Encode(msg)
Encode(c) == /\ pc[c] = "start"
             /\ buf' = [buf EXCEPT ![BufOf(c)] = PayloadOf(c)]
             /\ pc' = [pc EXCEPT ![c] = "encoded"]
             /\ UNCHANGED <<body, wire, logged>>
\* the HTTP client reads the next piece of the request body from the buffer (reading drains it)
Read(c) == /\ pc[c] = "encoded" /\ Len(body[c]) < Chunks /\ buf[BufOf(c)] # << >>
           /\ body' = [body EXCEPT ![c] = Append(@, Head(buf[BufOf(c)]))]
           /\ buf' = [buf EXCEPT ![BufOf(c)] = Tail(@)]
           /\ UNCHANGED <<pc, wire, logged>>
\* the request is complete (declared length reached, or nothing left to read): the endpoint has it
Send(c) == /\ pc[c] = "encoded" /\ (Len(body[c]) = Chunks \/ buf[BufOf(c)] = << >>)
           /\ wire' = wire \cup {[from |-> c, body |-> body[c]]}
           /\ pc' = [pc EXCEPT ![c] = "sent"]
           /\ UNCHANGED <<buf, body, logged>>
\* the endpoint answers 2xx to whatever arrived: the notifier reports success
Ack(c) == /\ pc[c] = "sent" /\ pc' = [pc EXCEPT ![c] = "acked"] /\ UNCHANGED <<buf, body, wire, logged>>
\* SetNotifiesStage
Record(c) == /\ pc[c] = "acked" /\ pc' = [pc EXCEPT ![c] = "done"] /\ logged' = logged \cup {c}
             /\ UNCHANGED <<buf, body, wire>>

Next == \E c \in Calls : Encode(c) \/ Read(c) \/ Send(c) \/ Ack(c) \/ Record(c)
Spec == Init /\ [][Next]_vars

\* what arrives for a call is exactly the payload of its own batch ..
Faithful       == \A m \in wire : m.body = PayloadOf(m.from)
\* .. once per call, and nothing else ..
NothingElse    == \A m1, m2 \in wire : m1.from = m2.from => m1 = m2
\* .. and only calls whose payload arrived intact are recorded
RecordedIntact == \A c \in logged : [from |-> c, body |-> PayloadOf(c)] \in wire
\* every call completes (no call waits for another)
Completes      == (\A c \in Calls : pc[c] = "done") \/ ENABLED Next
=============================================================================
