--------------------------- MODULE TimeIntervals ---------------------------
(***************************************************************************)
(* Time intervals of Alertmanager (timeinterval/timeinterval.go) and the   *)
(* mute/active gating of a flush (notify/mute.go), property C15.           *)
(*                                                                         *)
(* There is no state: the module is definitions.                           *)
(*   1. the proleptic Gregorian calendar from a day number (days since     *)
(*      1970-01-01), written from the leap rule and the month lengths;     *)
(*   2. zone offset rules, by hand, for the rule zones;                    *)
(*   3. Contains(ti, t, off): the REFERENCE definition, the statement of   *)
(*      C15 word by word, and ContainsImpl: the shape of                   *)
(*      TimeInterval.ContainsTime (begin-after-month-end skip, clamp);     *)
(*   4. the gating rule of a flush.                                        *)
(*                                                                         *)
(* An instant is a number of minutes since 1970-01-01T00:00Z; an offset is *)
(* a number of minutes east of UTC.  TLC integers are 32 bit: minutes fit  *)
(* for +-4000 years.                                                       *)
(*                                                                         *)
(* A time interval is a record                                             *)
(*   [times, weekdays, dom, months, years : sets of [b, e], loc : STRING]  *)
(* times: minute-of-day ranges, b inclusive, e exclusive, 0 <= b < e <=    *)
(* 1440; the others inclusive ranges; weekdays 0 = Sunday .. 6; dom 1..31  *)
(* or -31..-1 (counting from the month's end, -1 = last day); months       *)
(* 1..12; loc "" = UTC.  The empty set is the empty field.                 *)
(***************************************************************************)
EXTENDS Integers, FiniteSets, Sequences

-----------------------------------------------------------------------------
(* 1. Calendar                                                             *)

IsLeap(y) == (y % 4 = 0 /\ y % 100 # 0) \/ y % 400 = 0

MonthLen(y, m) == IF m = 2 THEN (IF IsLeap(y) THEN 29 ELSE 28)
                  ELSE IF m \in {4, 6, 9, 11} THEN 30
                  ELSE 31

YearLen(y) == IF IsLeap(y) THEN 366 ELSE 365

\* number of leap years among the years 1 .. y-1
LeapsBefore(y) == ((y - 1) \div 4) - ((y - 1) \div 100) + ((y - 1) \div 400)

\* day number of January 1st of year y
DaysBeforeYear(y) == 365 * (y - 1970) + LeapsBefore(y) - LeapsBefore(1970)

\* days of year y before the first of month m (MC proves: the running sum of MonthLen)
CumDays == <<0, 31, 59, 90, 120, 151, 181, 212, 243, 273, 304, 334>>
DaysBeforeMonth(y, m) == CumDays[m] + (IF m > 2 /\ IsLeap(y) THEN 1 ELSE 0)

\* civil date -> day number
DayNumber(y, m, d) == DaysBeforeYear(y) + DaysBeforeMonth(y, m) + (d - 1)

\* day number -> civil date.  The year is found from an estimate corrected in
\* both directions, the month likewise (no month is longer than 31 < 32 days).
RECURSIVE YearFrom(_, _)
YearFrom(y, n) == IF DaysBeforeYear(y) > n THEN YearFrom(y - 1, n)
                  ELSE IF DaysBeforeYear(y + 1) <= n THEN YearFrom(y + 1, n)
                  ELSE y
YearOfDay(n) == YearFrom(1970 + (n \div 365), n)

RECURSIVE MonthFrom(_, _, _)
MonthFrom(y, m, doy) == IF m < 12 /\ DaysBeforeMonth(y, m + 1) <= doy THEN MonthFrom(y, m + 1, doy) ELSE m

Civil(n) == LET y   == YearOfDay(n)
                doy == n - DaysBeforeYear(y)                 \* 0-based day of the year
                m   == MonthFrom(y, (doy \div 32) + 1, doy)
            IN [y |-> y, m |-> m, d |-> doy - DaysBeforeMonth(y, m) + 1]

\* 1970-01-01 was a Thursday; 0 = Sunday
Weekday(n) == (n + 4) % 7

\* the calendar by induction: the day after y-m-d (used by MC to prove Civil right)
NextDate(c) == IF c.d < MonthLen(c.y, c.m) THEN [c EXCEPT !.d = c.d + 1]
               ELSE IF c.m < 12 THEN [c EXCEPT !.m = c.m + 1, !.d = 1]
               ELSE [y |-> c.y + 1, m |-> 1, d |-> 1]

DayOf(t)    == t \div 1440          \* floor
MinuteOf(t) == t % 1440             \* 0 .. 1439

-----------------------------------------------------------------------------
(* 2. Zone rules (minutes east of UTC at UTC instant t)                    *)

FirstSunOnOrAfter(y, m, d) == LET n == DayNumber(y, m, d) IN n + ((7 - Weekday(n)) % 7)
LastSun(y, m)              == LET n == DayNumber(y, m, MonthLen(y, m)) IN n - Weekday(n)

\* Europe/Berlin: CET, no summer time 1950-1979; from 1980 the EU rule: summer time
\* from 01:00 UTC on the last Sunday of March (1980: first Sunday of April) to
\* 01:00 UTC on the last Sunday of October (until 1995: of September).
BerlinStart(y) == (IF y = 1980 THEN FirstSunOnOrAfter(1980, 4, 1) ELSE LastSun(y, 3)) * 1440 + 60
BerlinEnd(y)   == (IF y <= 1995 THEN LastSun(y, 9) ELSE LastSun(y, 10)) * 1440 + 60
BerlinOffset(t) == LET y == YearOfDay(DayOf(t))
                   IN IF y >= 1980 /\ BerlinStart(y) <= t /\ t < BerlinEnd(y) THEN 120 ELSE 60

\* America/New_York: EST -5:00; daylight time from 02:00 local standard time to 02:00
\* local daylight time.  Since 2007: second Sunday of March .. first Sunday of
\* November; 1987-2006: first Sunday of April .. last Sunday of October; 1976-1986 and
\* 1970-1973: last Sunday of April; 1974: January 6; 1975: February 23.
NYStartDay(y) == IF y >= 2007 THEN FirstSunOnOrAfter(y, 3, 8)
                 ELSE IF y >= 1987 THEN FirstSunOnOrAfter(y, 4, 1)
                 ELSE IF y = 1975 THEN DayNumber(1975, 2, 23)
                 ELSE IF y = 1974 THEN DayNumber(1974, 1, 6)
                 ELSE LastSun(y, 4)
NYEndDay(y)   == IF y >= 2007 THEN FirstSunOnOrAfter(y, 11, 1) ELSE LastSun(y, 10)
NYStart(y) == NYStartDay(y) * 1440 + 120 + 300
NYEnd(y)   == NYEndDay(y) * 1440 + 120 + 240
NYOffset(t) == LET y == YearOfDay(DayOf(t))
               IN IF NYStart(y) <= t /\ t < NYEnd(y) THEN 0 - 240 ELSE 0 - 300

\* Australia/Lord_Howe (rule written for 1996 and later): standard +10:30, summer
\* +11:00 (a 30 minute shift).  Summer time ends at 02:00 local summer time on the
\* first Sunday of April (1996-2005 and 2007: last Sunday of March) and begins at
\* 02:00 local standard time on the first Sunday of October (until 2007: last Sunday
\* of October; 2000: last Sunday of August).
LHEndDay(y)   == IF y >= 2008 \/ y = 2006 THEN FirstSunOnOrAfter(y, 4, 1) ELSE LastSun(y, 3)
LHStartDay(y) == IF y >= 2008 THEN FirstSunOnOrAfter(y, 10, 1)
                 ELSE IF y = 2000 THEN LastSun(2000, 8)
                 ELSE LastSun(y, 10)
LHEnd(y)   == LHEndDay(y) * 1440 + 120 - 660
LHStart(y) == LHStartDay(y) * 1440 + 120 - 630
LHOffset(t) == LET y == YearOfDay(DayOf(t))
               IN IF y >= 1996 /\ (t < LHEnd(y) \/ t >= LHStart(y)) THEN 660 ELSE 630

RuleZones  == {"Europe/Berlin", "America/New_York", "Australia/Lord_Howe"}
FixedZones == {"", "UTC", "Asia/Kolkata", "Asia/Kathmandu"}
Zones      == RuleZones \cup FixedZones

\* first year from which the rule of the zone is the zone's history
ZoneValidFrom(z) == CASE z = "Australia/Lord_Howe" -> 1996
                      [] z = "Asia/Kathmandu"      -> 1986
                      [] OTHER                     -> 1970

Offset(z, t) == CASE z = "" \/ z = "UTC"          -> 0
                  [] z = "Europe/Berlin"          -> BerlinOffset(t)
                  [] z = "America/New_York"       -> NYOffset(t)
                  [] z = "Australia/Lord_Howe"    -> LHOffset(t)
                  [] z = "Asia/Kolkata"           -> 330
                  [] z = "Asia/Kathmandu"         -> 345

StdOffset(z) == CASE z = "Europe/Berlin"       -> 60
                  [] z = "America/New_York"    -> 0 - 300
                  [] z = "Australia/Lord_Howe" -> 630
                  [] z = "Asia/Kolkata"        -> 330
                  [] z = "Asia/Kathmandu"      -> 345
                  [] OTHER                     -> 0

\* the instants of year y (UTC) at which the offset of the zone changes
Transitions(z, y) == CASE z = "Europe/Berlin"       -> IF y >= 1980 THEN {BerlinStart(y), BerlinEnd(y)} ELSE {}
                       [] z = "America/New_York"    -> {NYStart(y), NYEnd(y)}
                       [] z = "Australia/Lord_Howe" -> IF y >= 1996 THEN {LHEnd(y), LHStart(y)} ELSE {}
                       [] OTHER                     -> {}

-----------------------------------------------------------------------------
(* 3. Containment                                                          *)

InRange(x, r) == r.b <= x /\ x <= r.e

\* day-of-month member b (or e) of a month of L days: negative values count from the
\* month's end, -1 = day L
FromEnd(x, L) == IF x < 0 THEN L + 1 + x ELSE x

\* REFERENCE.  "ranges clamped to the month": the days selected by [b, e] in a month
\* of L days are the days 1..L between the two resolved ends, i.e. the intersection
\* of the resolved range with the month.
DomRef(r, d, L) == FromEnd(r.b, L) <= d /\ d <= FromEnd(r.e, L)

\* the local calendar reading of instant t at offset off
Local(t, off) == LET lt == t + off
                     n  == DayOf(lt)
                     c  == Civil(n)
                 IN [mod |-> MinuteOf(lt), wd |-> Weekday(n), y |-> c.y, m |-> c.m, d |-> c.d,
                     len |-> MonthLen(c.y, c.m)]

ContainsLocal(ti, l) ==
  /\ (ti.times    = {} \/ \E r \in ti.times    : r.b <= l.mod /\ l.mod < r.e)
  /\ (ti.weekdays = {} \/ \E r \in ti.weekdays : InRange(l.wd, r))
  /\ (ti.dom      = {} \/ \E r \in ti.dom      : DomRef(r, l.d, l.len))
  /\ (ti.months   = {} \/ \E r \in ti.months   : InRange(l.m, r))
  /\ (ti.years    = {} \/ \E r \in ti.years    : InRange(l.y, r))

\* The statement of C15: instant t lies in ti, whose location has offset off at t.
Contains(ti, t, off) == ContainsLocal(ti, Local(t, off))

\* IMPLEMENTATION SHAPE of TimeInterval.ContainsTime.  nilf = the fields that are nil
\* slices in the Go value (a field given as an explicit empty list is an empty
\* non-nil slice there: the loop runs zero times and nothing matches).
Clamp(n, lo, hi) == IF n <= lo THEN lo ELSE IF n >= hi THEN hi ELSE n
DomImpl(r, d, L) == LET b0 == IF r.b < 0 THEN L + r.b + 1 ELSE r.b
                        e0 == IF r.e < 0 THEN L + r.e + 1 ELSE r.e
                    IN /\ ~(b0 > L)                       \* "skip clamping if the beginning is after the end of the month"
                       /\ d >= Clamp(b0, 0 - L, L)
                       /\ d <= Clamp(e0, 0 - L, L)
ContainsImpl(ti, t, off, nilf) ==
  LET l == Local(t, off)
  IN /\ ("times"    \in nilf \/ \E r \in ti.times    : l.mod >= r.b /\ l.mod < r.e)
     /\ ("dom"      \in nilf \/ \E r \in ti.dom      : DomImpl(r, l.d, l.len))
     /\ ("months"   \in nilf \/ \E r \in ti.months   : l.m >= r.b /\ l.m <= r.e)
     /\ ("weekdays" \in nilf \/ \E r \in ti.weekdays : l.wd >= r.b /\ l.wd <= r.e)
     /\ ("years"    \in nilf \/ \E r \in ti.years    : l.y >= r.b /\ l.y <= r.e)

Fields == {"times", "weekdays", "dom", "months", "years"}
\* the nil fields of the value the YAML decoder builds when every empty field is absent
AbsentFields(ti) == {f \in Fields : ti[f] = {}}

\* what the configuration parser accepts (the quantifier of C15)
ValidTimes(r)   == 0 <= r.b /\ r.b < r.e /\ r.e <= 1440
ValidWeekday(r) == 0 <= r.b /\ r.b <= r.e /\ r.e <= 6
ValidMonth(r)   == 1 <= r.b /\ r.b <= r.e /\ r.e <= 12
ValidYear(r)    == r.b <= r.e
ValidDom(r)     == /\ r.b # 0 /\ 0 - 31 <= r.b /\ r.b <= 31
                   /\ r.e # 0 /\ 0 - 31 <= r.e /\ r.e <= 31
                   /\ ~(r.b < 0 /\ r.e > 0)
                   /\ FromEnd(r.b, 27) <= FromEnd(r.e, 27)    \* "28 + x" of the parser
ValidInterval(ti) == /\ \A r \in ti.times    : ValidTimes(r)
                     /\ \A r \in ti.weekdays : ValidWeekday(r)
                     /\ \A r \in ti.dom      : ValidDom(r)
                     /\ \A r \in ti.months   : ValidMonth(r)
                     /\ \A r \in ti.years    : ValidYear(r)
                     /\ ti.loc \in Zones

-----------------------------------------------------------------------------
(* 4. Gating of a flush.  defs maps an interval name to its set of time    *)
(* intervals (a name contains t iff one of them does); mute and active are *)
(* the route's sets of names.                                              *)

NameContains(defs, name, t) == \E ti \in defs[name] : Contains(ti, t, Offset(ti.loc, t))

MutingNames(defs, mute, t) == {n \in mute : NameContains(defs, n, t)}
Inactive(defs, active, t)  == active # {} /\ ~\E n \in active : NameContains(defs, n, t)

Notify(defs, mute, active, t) ==
  /\ ~\E n \in mute : NameContains(defs, n, t)
  /\ (active = {} \/ \E n \in active : NameContains(defs, n, t))

\* implementation shape: TimeActiveStage, then TimeMuteStage unless the first stage
\* has already dropped the alerts; reply = [sent, mutedBy]
StagesImpl(defs, mute, active, t) ==
  IF Inactive(defs, active, t) THEN [sent |-> FALSE, mutedBy |-> active]
  ELSE IF MutingNames(defs, mute, t) # {} THEN [sent |-> FALSE, mutedBy |-> MutingNames(defs, mute, t)]
  ELSE [sent |-> TRUE, mutedBy |-> {}]

\* C15, second sentence, on a reply of the stages
GatingOK(defs, mute, active, t, reply) ==
  /\ reply.sent = Notify(defs, mute, active, t)
  /\ (reply.sent => reply.mutedBy = {})
  /\ (~reply.sent => /\ reply.mutedBy # {}
                     /\ reply.mutedBy \subseteq
                          (MutingNames(defs, mute, t) \cup (IF Inactive(defs, active, t) THEN active ELSE {})))

=============================================================================
