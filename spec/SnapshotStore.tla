--------------------------- MODULE SnapshotStore ---------------------------
(***************************************************************************)
(* What a snapshot CAPTURES (C11: "the next start loads ... exactly the     *)
(* state captured by the last completed snapshot"; "writing a snapshot and  *)
(* loading it back reproduces every ... silence and log entry with          *)
(* identical content").  spec/Snapshot.tla treats the content of snapshot   *)
(* generation g as opaque and models the file system under a crash; this    *)
(* module is the layer above it: the store, its mutations between two       *)
(* snapshots, the maintenance pass (GC + snapshot, periodic and at          *)
(* shutdown), process kill and restart.  The file is atomic here (that is   *)
(* what Snapshot.tla establishes).                                           *)
(*                                                                         *)
(* silence/silence.go: Set (new id / in-place update of an existing id when *)
(* canUpdate), Expire, GC, Maintenance, New+loadSnapshot;                    *)
(* nflog/nflog.go: Log (new key / re-log of an existing (group, receiver)   *)
(* key), GC, Maintenance, New+loadSnapshot.                                  *)
(*                                                                         *)
(* A record is [p, e, c, a, dead, at]:                                       *)
(*   p     present                                                          *)
(*   e     silences: class of the end time (1 at creation, +1 per           *)
(*         extension, 0 once expired: EndsAt = instant of Expire)           *)
(*   c     silences: revision of the comment; log: revision of the entry's  *)
(*         content (firing alerts, receiver data)                           *)
(*   a     silences: revision of the annotations                            *)
(*   dead  silences: expired by the API                                     *)
(*   at    the maintenance interval in which the record was created         *)
(*         (silences), expired (dead silences) or last logged (log): what   *)
(*         GC compares with the retention                                   *)
(*                                                                         *)
(* Time: `now` counts maintenance ticks.  API calls happen strictly inside  *)
(* interval now (between tick now and tick now+1), the shutdown pass after   *)
(* all API calls of its interval, a restart at the next interval boundary:  *)
(* no two events share an instant.  A record that (silences: was expired /  *)
(* log: was last logged) in interval x has ExpiresAt inside interval        *)
(* x + Retention, so the pass at tick T (now = T - 1 before it) and the      *)
(* shutdown pass of interval now both collect it iff x + Retention <= now   *)
(* (GC: `!ExpiresAt.After(now)`).                                            *)
(*                                                                         *)
(* Skip selects the writer: "never" = the design (every pass rewrites the   *)
(* file); "version" = a writer that skips the file when GC removed nothing  *)
(* and the id-set version is the one of its last write - the version is     *)
(* bumped only when an id is ADDED, so this writer is wrong exactly for     *)
(* in-place updates and expiry (probe: Lossless must be violated, while     *)
(* the weaker LosslessIds still holds - the content is what decides).       *)
(***************************************************************************)
EXTENDS Integers, FiniteSets, Sequences, TLC

CONSTANTS Keys,       \* record keys (silence ids / (group, receiver) keys)
          Kind,       \* "sil" | "log"
          Retention,  \* in maintenance intervals, >= 1
          MaxTime,    \* bound of now
          MaxC,       \* bound of the revision counters e, c, a
          Skip        \* "never" | "version"

VARIABLES st,        \* the store: key -> record
          ver,       \* Silences.Version(): bumped when an id is added / a snapshot is loaded
          now,       \* maintenance ticks so far
          phase,     \* "up" | "down"
          file,      \* content of the snapshot file (key -> record); no file = empty state
          gen,       \* number of snapshots written
          snapVer,   \* Skip = "version": version at the last write of this process (-1 none)
          cap,       \* the state captured by the last completed maintenance pass
          loaded     \* [got, want]: what the last restart loaded / should have loaded

vars == <<st, ver, now, phase, file, gen, snapVer, cap, loaded>>

Absent == [p |-> FALSE, e |-> 0, c |-> 0, a |-> 0, dead |-> FALSE, at |-> 0]
Empty  == [k \in Keys |-> Absent]
Ids(s) == {k \in Keys : s[k].p}
Live(k) == st[k].p /\ ~st[k].dead

Init == /\ st = Empty /\ ver = 0 /\ now = 0 /\ phase = "up"
        /\ file = Empty /\ gen = 0 /\ snapVer = 0 - 1 /\ cap = Empty
        /\ loaded = [got |-> Empty, want |-> Empty]

----------------------------------------------------------------------------
(* API writes *)

\* Set of a new silence / first Log of a key
Add(k) ==
  /\ phase = "up" /\ ~st[k].p
  /\ st' = [st EXCEPT ![k] = [p |-> TRUE, e |-> IF Kind = "sil" THEN 1 ELSE 0, c |-> 0, a |-> 0,
                              dead |-> FALSE, at |-> now]]
  /\ ver' = ver + 1
  /\ UNCHANGED <<now, phase, file, gen, snapVer, cap, loaded>>

\* Set on an existing id, same matchers and start (canUpdate): the silence is replaced IN
\* PLACE - same id, Version() unchanged
CanExtend(k)   == phase = "up" /\ Kind = "sil" /\ Live(k) /\ st[k].e < MaxC
CanComment(k)  == phase = "up" /\ Kind = "sil" /\ Live(k) /\ st[k].c < MaxC
CanAnnotate(k) == phase = "up" /\ Kind = "sil" /\ Live(k) /\ st[k].a < MaxC
CanExpire(k)   == phase = "up" /\ Kind = "sil" /\ Live(k)
CanRelog(k)    == phase = "up" /\ Kind = "log" /\ st[k].p /\ st[k].c < MaxC
Extend(k) ==
  /\ CanExtend(k)
  /\ st' = [st EXCEPT ![k].e = @ + 1]
  /\ UNCHANGED <<ver, now, phase, file, gen, snapVer, cap, loaded>>
Comment(k) ==
  /\ CanComment(k)
  /\ st' = [st EXCEPT ![k].c = @ + 1]
  /\ UNCHANGED <<ver, now, phase, file, gen, snapVer, cap, loaded>>
Annotate(k) ==
  /\ CanAnnotate(k)
  /\ st' = [st EXCEPT ![k].a = @ + 1]
  /\ UNCHANGED <<ver, now, phase, file, gen, snapVer, cap, loaded>>

\* Expire of an active silence: EndsAt = now, same id, Version() unchanged
Expire(k) ==
  /\ CanExpire(k)
  /\ st' = [st EXCEPT ![k].dead = TRUE, ![k].e = 0, ![k].at = now]
  /\ UNCHANGED <<ver, now, phase, file, gen, snapVer, cap, loaded>>

\* Log of an existing (group, receiver) key: new content, new timestamp, new ExpiresAt
Relog(k) ==
  /\ CanRelog(k)
  /\ st' = [st EXCEPT ![k].c = @ + 1, ![k].at = now]
  /\ UNCHANGED <<ver, now, phase, file, gen, snapVer, cap, loaded>>

----------------------------------------------------------------------------
(* Maintenance: GC, then the snapshot.  final = the pass on shutdown. *)

Collect(r) == r.p /\ (Kind = "sil" => r.dead) /\ r.at + Retention <= now

Maint(final) ==
  /\ phase = "up"
  /\ final \/ now < MaxTime
  /\ LET g == [k \in Keys |-> IF Collect(st[k]) THEN Absent ELSE st[k]]
         n == Cardinality({k \in Keys : Collect(st[k])})
         write == ~(Skip = "version" /\ n = 0 /\ ver = snapVer)
     IN /\ st' = g
        /\ cap' = g          \* the pass completed: this is the state it captured
        /\ IF write THEN /\ file' = g /\ gen' = gen + 1 /\ snapVer' = ver
                    ELSE UNCHANGED <<file, gen, snapVer>>
  /\ IF final THEN phase' = "down" /\ now' = now
              ELSE phase' = phase /\ now' = now + 1
  /\ UNCHANGED <<ver, loaded>>

Tick     == Maint(FALSE)
Shutdown == Maint(TRUE)

\* the process is killed between two passes: nothing is written
Kill == /\ phase = "up" /\ phase' = "down"
        /\ UNCHANGED <<st, ver, now, file, gen, snapVer, cap, loaded>>

\* the next start (at the next interval boundary)
Restart ==
  /\ phase = "down" /\ now < MaxTime
  /\ phase' = "up" /\ now' = now + 1
  /\ st' = file
  /\ loaded' = [got |-> file, want |-> cap]
  /\ ver' = ver + 1 /\ snapVer' = 0 - 1
  /\ UNCHANGED <<file, gen, cap>>

Next == \/ \E k \in Keys : Add(k) \/ Extend(k) \/ Comment(k) \/ Annotate(k) \/ Expire(k) \/ Relog(k)
        \/ Tick \/ Shutdown \/ Kill \/ Restart
Spec == Init /\ [][Next]_vars

----------------------------------------------------------------------------
(* C11 at this level *)

\* the file holds exactly the state captured by the last completed pass: every field
Lossless == file = cap

\* the next start loads exactly that state
RestartLossless == loaded.got = loaded.want

\* the weaker reading (ids only): NOT sufficient - it holds for the "version" writer too
LosslessIds == Ids(file) = Ids(cap)

TypeOK == /\ \A k \in Keys : st[k].p => (st[k].e \in 0 .. MaxC /\ st[k].c \in 0 .. MaxC /\ st[k].a \in 0 .. MaxC
                                        /\ st[k].at \in 0 .. MaxTime)
          /\ phase \in {"up", "down"} /\ now \in 0 .. MaxTime

\* vacuity probes (must be violated)
\* a restart loads a state in which a record was changed in place after an earlier snapshot
ProbeInPlace == ~(\E k \in Keys : loaded.got[k].p /\ (loaded.got[k].c > 0 \/ loaded.got[k].e > 1 \/ loaded.got[k].dead) /\ gen >= 2)
\* a record that a restart loaded is collected by a later pass
ProbeGC == ~(phase = "up" /\ gen >= 2 /\ \E k \in Keys : loaded.got[k].p /\ ~st[k].p /\ ~file[k].p)
=============================================================================
