----------------------------- MODULE NflogConc ------------------------------
(***************************************************************************)
(* The notification log of Nflog.tla used by several goroutines at once.   *)
(*                                                                         *)
(* nflog.Log protects its map with one RWMutex; the instants at which a    *)
(* call takes effect cannot be hooked.  What a caller can observe is the   *)
(* CALL and the RETURN of every operation.  The specification says: every  *)
(* operation takes effect atomically, with the sequential meaning of       *)
(* Nflog.tla, at one instant between its call and its return (Lin).  The   *)
(* Lin steps are internal: a recorded history of calls and returns is      *)
(* explained by the specification iff some placement of the Lin steps      *)
(* yields every recorded reply (spec/mc/Trace_NflogConc.tla).              *)
(*                                                                         *)
(* Where the code reads the clock (transcribed from nflog/nflog.go):       *)
(*   Log    reads it BEFORE taking the lock: entry timestamp and expiry    *)
(*          are those of the call (c.e); the refusal test of state.merge   *)
(*          reads it again under the lock (now at Lin)                     *)
(*   GC     reads it BEFORE taking the lock (c.t)                          *)
(*   Merge  reads it under the lock (now at Lin)                           *)
(***************************************************************************)
EXTENDS Nflog

CONSTANT Threads

VARIABLE pend     \* per thread: the operation it is in, or Idle

cvars == <<vars, pend>>

Idle  == [op |-> "idle"]
NoRes == [none |-> TRUE]

Held(s) == {s[k] : k \in DOMAIN s}

\* the entry a local Log call builds from the clock value t it read at the call
LogEntry(k, p, x, t) ==
  [k |-> k, ts |-> t, exp |-> ExpiryOf(x, t), f |-> p.f, r |-> p.r, d |-> p.d]

(* A call record c has the fields op, t (clock at the call), done, res and *)
(*   log:   e (the entry, see LogEntry), k, p, x                            *)
(*   merge: b (set of entries with pairwise distinct keys)                  *)
(*   query: k                                                               *)
(*   gc, snap: nothing else                                                 *)
(* Effect = the sequential meaning (Nflog.tla) of c on log s at instant t:  *)
(* new log, reply, entries noted as written/received, broadcasts.           *)
Effect(c, s, t) ==
  CASE c.op = "log" ->
         IF c.e.k \in DOMAIN s /\ s[c.e.k].ts > c.e.ts
           THEN [st |-> s, res |-> [sent |-> 0, stored |-> FALSE], seen |-> {}, sent |-> 0]
           ELSE [st |-> MergeOne(s, c.e, t),
                 res |-> [sent |-> 1, stored |-> Accepts(s, c.e, t)], seen |-> {c.e}, sent |-> 1]
    [] c.op = "merge" ->
         LET n == IF \E e \in c.b : e.d = "big" THEN 0
                  ELSE Cardinality({e \in c.b : Accepts(s, e, t)})
         IN [st |-> MergeBatch(s, c.b, t), res |-> [sent |-> n], seen |-> c.b, sent |-> n]
    [] c.op = "gc" ->
         LET D == {k \in DOMAIN s : Collectable(s[k], c.t)}
         IN [st |-> [k \in DOMAIN s \ D |-> s[k]], res |-> [n |-> Cardinality(D)],
             seen |-> {}, sent |-> 0]
    [] c.op = "query" ->
         [st |-> s,
          res |-> IF c.k \in DOMAIN s THEN [found |-> TRUE, e |-> s[c.k]] ELSE [found |-> FALSE],
          seen |-> {}, sent |-> 0]
    [] c.op = "snap" ->
         [st |-> s, res |-> [held |-> Held(s)], seen |-> {}, sent |-> 0]

\* what Nflog.tla's action of the same operation leaves in `last`
LastOf(c, F) ==
  CASE c.op = "log"   -> [op |-> "log", k |-> c.k, p |-> c.p, x |-> c.x,
                          stored |-> F.res.stored, sent |-> F.res.sent]
    [] c.op = "merge" -> [op |-> "merge", b |-> c.b, sent |-> F.res.sent]
    [] c.op = "gc"    -> [op |-> "gc", n |-> F.res.n]
    [] c.op = "query" -> [op |-> "query", k |-> c.k, found |-> F.res.found]
    [] c.op = "snap"  -> [op |-> "restart", n |-> Cardinality(F.res.held)]

CInit == Init /\ pend = [g \in Threads |-> Idle]

Call(g, c) ==
  /\ pend[g] = Idle
  /\ pend' = [pend EXCEPT ![g] = c]
  /\ UNCHANGED vars

\* the linearization point of the operation thread g is in
Lin(g) ==
  /\ pend[g] # Idle
  /\ ~pend[g].done
  /\ LET c == pend[g]
         F == Effect(c, st, now)
     IN /\ st' = F.st
        /\ top' = Note(top, F.seen)
        /\ bcast' = bcast + F.sent
        /\ last' = LastOf(c, F)
        /\ pend' = [pend EXCEPT ![g] = [c EXCEPT !.done = TRUE, !.res = F.res]]
  /\ UNCHANGED now

Ret(g) ==
  /\ pend[g] # Idle
  /\ pend[g].done
  /\ pend' = [pend EXCEPT ![g] = Idle]
  /\ UNCHANGED vars

CTick(d) == Tick(d) /\ UNCHANGED pend

LogCall(k, p, x)  == [op |-> "log", k |-> k, p |-> p, x |-> x, e |-> LogEntry(k, p, x, now),
                      t |-> now, done |-> FALSE, res |-> NoRes]
MergeCall(B)      == [op |-> "merge", b |-> B, t |-> now, done |-> FALSE, res |-> NoRes]
GCCall            == [op |-> "gc", t |-> now, done |-> FALSE, res |-> NoRes]
QueryCall(k)      == [op |-> "query", k |-> k, t |-> now, done |-> FALSE, res |-> NoRes]
SnapCall          == [op |-> "snap", t |-> now, done |-> FALSE, res |-> NoRes]

-----------------------------------------------------------------------------
(* A Lin step of an operation whose clock value is still the current one   *)
(* is the step of Nflog.tla for that operation: the concurrent             *)
(* specification adds nothing but the freedom of placement.                *)
SeqStepOf(c) ==
  CASE c.op = "log"   -> Log(c.k, c.p, c.x)
    [] c.op = "merge" -> Merge(c.b)
    [] c.op = "gc"    -> GC
    [] c.op = "query" -> Query(c.k)
    [] c.op = "snap"  -> Restart
LinIsSequential ==
  [][\A g \in Threads :
       (pend[g] # Idle /\ pend'[g] # Idle /\ ~pend[g].done /\ pend'[g].done /\ pend[g].t = now)
          => SeqStepOf(pend[g])]_cvars

(* C10 for callers: an entry whose Log or Merge has RETURNED and that has  *)
(* not expired is held (NewestHeld of Nflog.tla speaks about `top`, which  *)
(* is advanced at the Lin step, i.e. never later than the return).         *)
=============================================================================
