SPECIFICATION TraceSpec
CONSTANTS
  Retention = 60
  Threads = {0, 1, 2, 3, 4}
  TraceFile = "trace_conc.ndjson"
CONSTRAINT HighWater
INVARIANTS NewestHeld
POSTCONDITION TraceAccepted
CHECK_DEADLOCK FALSE
