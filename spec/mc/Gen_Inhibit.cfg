SPECIFICATION GenSpec
CONSTANTS
  AlertLS <- MCAlertLS
  RuleSets <- MCRuleSets
  UseRuleSets = {"E1"}
  ScacheGCEvery = 1
  ProvGCEvery = 2
  MaxTime = 6
  HistLen = 5
  Pick <- PickAll
  KnownGaps = {"F2a", "F2b", "F2c"}
  PutAlerts = {"S1", "S2", "B"}
  Queries = {"S1", "B", "T", "T2"}
  MuteQueries = {}
  StartModes = {"same"}
  EndOffs = {1, 3}
  Timeouts = {TRUE}
  QueueBound = 0
INVARIANTS Emit
CHECK_DEADLOCK FALSE
