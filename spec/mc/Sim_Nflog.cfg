SPECIFICATION GenSpec
CONSTANTS
  Keys = {"g1:r/webhook/0", "g1:r/email/1"}
  MaxTime = 16
  HistLen = 40
  Retention = 4
  RemoteRetention = 3
  Pick <- PickOne
INVARIANTS Emit
CHECK_DEADLOCK FALSE
