SPECIFICATION GenSpec
CONSTANTS
  LNames = {"a", "b"}
  LVals = {"x"}
  ANames = {"s"}
  AVals = {"", "x"}
  GEnds = {"past", "none", "future"}
  KNames = {"a"}
  KVals = {"x"}
  MaxKV = 0
  MaxBatch = 3
  MaxSize = 8
  MaxStr = 7
  MaxRep = 64
  HistLen = 1
  MaxSimStr = 0
  Ends = {"past", "none", "future", "tpast", "tfuture"}
  Pick <- PickAll
INVARIANTS Emit
CHECK_DEADLOCK FALSE
