------------------------------ MODULE Gen_Config -----------------------------
EXTENDS MC_Config
(* Gen, configurations: one JSON line per reachable configuration with what   *)
(* the specification expects of the loader (valid), the clauses of the        *)
(* statement, and the options every route node must end up with.              *)
EffSeq(c) == [i \in DOMAIN c.routes |-> Eff(c)[i]]
EmitCfg == PrintT("@@H " \o ToJson([cfg |-> file, defect |-> defect, valid |-> Accepts(file),
                                    wf |-> WellFormed(file), clauses |-> Clauses(file),
                                    rt |-> RoundTripOK(file), gap |-> EmptyGroupByGap(file),
                                    eff |-> EffSeq(file)]))

(* Gen, coordinator: complete histories of HistLen operations.                *)
VARIABLE hist
(* Files are named by their index in PoolSeq; a write carries the file.        *)
Obs == [e |-> IF last'.op = "write" THEN [op |-> "write", cfg |-> file', defect |-> defect']
                                    ELSE last',
        fid |-> IdOf(file'), valid |-> Accepts(file'),
        running |-> IdOpt(running'), reported |-> IdOpt(reported'), handed |-> IdOpt(handed')]
GenCoordInit == CfgInit /\ hist = << >>
GenCoordNext == /\ Len(hist) < HistLen
                /\ CoordNext
                /\ hist' = Append(hist, Obs)
GenCoordSpec == GenCoordInit /\ [][GenCoordNext]_<<vars, hist>>
EmitCoord == Len(hist) = HistLen => PrintT("@@H " \o ToJson(hist))

GenCfgInit == CfgInit /\ hist = << >>
GenCfgNext == CfgNext /\ UNCHANGED hist
GenCfgSpec == GenCfgInit /\ [][GenCfgNext]_<<vars, hist>>
=============================================================================
