------------------------------ MODULE Gen_Config -----------------------------
EXTENDS MC_Config
(* Gen, configurations: one JSON line per reachable configuration with what   *)
(* the specification expects of the loader (valid), the clauses of the        *)
(* statement, and the options every route node must end up with.              *)
EffSeq(c) == [i \in DOMAIN c.routes |-> Eff(c)[i]]
EmitCfg == PrintT("@@H " \o ToJson([cfg |-> file, defect |-> defect, valid |-> Accepts(file),
                                    wf |-> WellFormed(file), clauses |-> Clauses(file),
                                    rt |-> RoundTripOK(file), gap |-> EmptyGroupByGap(file),
                                    gapsec |-> EmptySecretPointerGap(file),
                                    eff |-> EffSeq(file),
                                    \* time interval bodies: the values the loader must store and
                                    \* the tokens the textual form must show; secrets: what the
                                    \* textual form shows in their place
                                    bvals |-> BodyVals(file), bprinted |-> PrintedBodies(file),
                                    secp |-> [i \in DOMAIN file.sec |-> SecretPrinted(file.sec[i])]]))

(* Gen, coordinator: complete histories of HistLen operations.                *)
VARIABLE hist
(* Files are named by their index in PoolSeq; a write carries the file.        *)
Obs == [e |-> IF last'.op = "write" THEN [op |-> "write", cfg |-> file', defect |-> defect']
                                    ELSE last',
        fid |-> IdOf(file'), valid |-> Accepts(file'),
        running |-> IdOpt(running'), reported |-> IdOpt(reported'), handed |-> IdOpt(handed')]
GenCoordInit == CfgInit /\ hist = << >>
GenCoordNext == /\ Len(hist) < HistLen
                /\ CoordNext
                /\ hist' = Append(hist, Obs)
GenCoordSpec == GenCoordInit /\ [][GenCoordNext]_<<vars, hist>>
EmitCoord == Len(hist) = HistLen => PrintT("@@H " \o ToJson(hist))

GenCfgInit == CfgInit /\ hist = << >>
GenCfgNext == CfgNext /\ UNCHANGED hist
GenCfgSpec == GenCfgInit /\ [][GenCfgNext]_<<vars, hist>>

(* Gen, time interval bodies and secrets (SpecBody of MC_Config).               *)
GenBodyInit == BodyInit /\ hist = << >>
GenBodyNext == BodyNext /\ UNCHANGED hist
GenBodySpec == GenBodyInit /\ [][GenBodyNext]_<<vars, hist>>
=============================================================================
