---------------------------- MODULE MC_AlertsConc ---------------------------
(* Bounded instance of AlertsConc.tla: a few goroutines with fixed programs, *)
(* every interleaving of calls, linearization points, channel writes,       *)
(* returns and receives.  Stamps are read at the call (before the mutex).    *)
(* MC_AlertsConc.cfg: the code's design, InOrder and Quiescent hold.         *)
(* MC_AlertsConc_unlocked.cfg / _early.cfg: the rejected designs, TLC must   *)
(* refute a property.                                                       *)
EXTENDS AlertsConc

CONSTANT Scenario
VARIABLES pc, clk
mvars == <<cvars, pc, clk>>

CIds == {"a", "b"}
CLabelsOf == [x \in CIds |-> [alertname |-> x]]

V(x, s, e, tag) == [ls |-> x, s |-> s, e |-> e, tag |-> tag, u |-> 0]
Fire(x, tag)    == V(x, Now0 - 3, Now0 + 2, tag)
Refresh(x, tag) == V(x, Now0 - 3, Now0 + 4, tag)
Resolve(x, tag) == V(x, Now0 - 3, Now0 - 1, tag)
OpPut(b)   == [k |-> "put", b |-> b, ls |-> "", sub |-> ""]
OpSub(k, s) == [k |-> k, b |-> << >>, ls |-> "", sub |-> s]
OpGC       == [k |-> "gc", b |-> << >>, ls |-> "", sub |-> ""]

\* goroutine 0 is the GC ticker
ProgOf(sc) ==
  CASE sc = "race" ->     \* a resolve racing a larger batch that ends with the same alert's refresh
         <<  <<OpGC>>,
             <<OpSub("sub", "S1"), OpPut(<<Fire("a", 1)>>)>>,
             <<OpPut(<<Fire("b", 2), Refresh("a", 3)>>)>>,
             <<OpPut(<<Resolve("a", 4)>>)>> >>
    [] sc = "subscribe" -> \* Put against Subscribe / SlurpAndSubscribe
         <<  << >>,
             <<OpPut(<<Fire("a", 1)>>), OpPut(<<Fire("b", 2), Refresh("a", 3)>>)>>,
             <<OpSub("slurp", "S1")>>,
             <<OpSub("sub", "S2"), OpPut(<<Resolve("b", 4)>>)>> >>
Prog == ProgOf(Scenario)
Gs == 1..Len(Prog)
OpId(g, i) == g * 10 + i
Busy(g) == \E o \in DOMAIN ops : o \div 10 = g

MCInit == CInit /\ CHInit /\ pc = [g \in Gs |-> 1] /\ clk = 1

Stamped(b) == [i \in 1..Len(b) |-> [b[i] EXCEPT !.u = clk]]
MCCall(g) ==
  /\ pc[g] <= Len(Prog[g]) /\ ~Busy(g)
  /\ LET p == Prog[g][pc[g]]
     IN Call(OpId(g, pc[g]), p.k, Stamped(p.b), p.ls, p.sub)
  /\ pc' = [pc EXCEPT ![g] = @ + 1]
  /\ clk' = clk + 1
  /\ UNCHANGED <<hvars, rest>>

MCNext ==
  \/ \E g \in Gs : MCCall(g)
  \/ \E o \in DOMAIN ops :
       \/ LinPut(o) /\ HLinPut(o) /\ UNCHANGED <<rest, pc, clk>>
       \/ LinSub(o) /\ HLinSub(o) /\ UNCHANGED <<rest, pc, clk>>
       \/ (LinGet(o) \/ LinGetAll(o) \/ LinGC(o) \/ SnapEarly(o) \/ Deliver(o) \/ Ret(o))
            /\ UNCHANGED <<hvars, rest, pc, clk>>
  \/ \E s \in Regs : \E x \in LSets : \E m \in RecvMsg(s, x) :
       \* (a subscriber reads its channel once Subscribe has returned)
       /\ ~\E o \in DOMAIN ops : ops[o].sub = s
       /\ Recv(s, m) /\ HRecv(s, m) /\ UNCHANGED <<rest, pc, clk>>

MCSpec == MCInit /\ [][MCNext]_mvars

Done == \A g \in Gs : pc[g] > Len(Prog[g])
\* Quiescent speaks about the end of a history: GC may be pending forever
QuiescentEnd ==
  (Done /\ (\A o \in DOMAIN ops : ops[o].k = "gc") /\ (\A s \in Regs : Drained(s))
        /\ (\A o \in DOMAIN pend : pend[o] = << >>))
    => \A s \in DOMAIN know : \A x \in LSets :
         IF x \in DOMAIN store
           THEN know[s][x] # << >> /\ LastKnown(s, x) = Msg(x, store[x])
           ELSE know[s][x] = << >> \/ LastKnown(s, x).e <= Now0
=============================================================================
