SPECIFICATION Spec
CONSTANTS
  MaxDay = 146462
  ZoneTo = 49700
  OracleWindows <- MCOracleWindows
  ImplFrom = 10900
  ImplTo = 11400
  GateFrom = 10940
  GateTo = 11020
INVARIANTS CivilOK WeekdayOK MonthLenOK Cycle400 MinuteOK ZoneRuleOK OracleTable ImplEqualsRef ExplicitEmptyGap GatingRefines
CHECK_DEADLOCK FALSE
