SPECIFICATION Spec
CONSTANTS
  MaxDay = 20000
  ImplFrom = 10592
  ImplTo = 12053
INVARIANTS CivilOK WeekdayOK MonthLenOK Cycle400 MinuteOK ZoneRuleOK SpotChecks OracleTable ImplEqualsRef ExplicitEmptyGap GatingRefines
CHECK_DEADLOCK FALSE
