SPECIFICATION Spec
CONSTANTS
  Inst = {1, 2}
  InitUp = {2}
  Alerts = {"a"}
  GW = 1
  GI = 3
  RI = 20
  PT = 3
  ST = 2
  MinT = 10
  Maint = 7
  MaxDelay = 1
  Quantum = 3
  MaxTime = 30
  Rule = "sum"
  Cfgs = {"A"}
  InitCfg = "A"
  RL = "safe"
  Off = {}
  Lim <- FaultKill
VIEW View
INVARIANTS AtLeastOnce NoDuplicateWhenHealthy SilenceSurvivesRestart NoRepeatAfterRestart ReadyEventually RoutedByConfigInForce StatusShowsConfigInForce ReceiversAgree Sane
CHECK_DEADLOCK FALSE
