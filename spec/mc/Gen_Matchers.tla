---------------------------- MODULE Gen_Matchers ----------------------------
EXTENDS MC_Matchers
(* Gen: one JSON line per case (marker @@H).                                *)
(*  k = "p"    an input string with the expected result of every entry point *)
(*  k = "r"    a matcher with its printed form                               *)
(*  k = "rl"   a matcher list with its printed form                          *)
(*  k = "sem"  a matcher set (OR of AND-lists), a label set and the verdicts *)
(*  k = "lang" a pattern, a value and whether the value is in Lang(pattern)  *)
(*             (dotall: the verdict if '.' also matched the line feed)       *)
Out(x) == PrintT("@@H " \o ToJson(x))

EmitParse == ps.pc = "idle" =>
  LET r == All(inp)
  IN Out([k |-> "p", s |-> inp, u8l |-> r.u8l, u8m |-> r.u8m, clm |-> r.clm, cll |-> r.cll,
          stm |-> r.stm, fbm |-> r.fbm, fbl |-> r.fbl, gap |-> BraceGapR(inp, r)])

EmitPrint == ps.pc = "idle" =>
  /\ \A m \in MatchersOf(inp) : Out([k |-> "r", m |-> m, p |-> PrintM(m), cn |-> ClassicName(m.n)])
  /\ \A ms \in ListsOf(inp) : Out([k |-> "rl", ms |-> ms, p |-> PrintList(ms),
                                   cn |-> \A i \in 1 .. Len(ms) : ClassicName(ms[i].n)])

EmitSem == (inp = << >> /\ ps.pc = "idle") =>
  /\ \A st \in SemSets, n \in XNames :
       Out([k |-> "sem", sets |-> st, lsn |-> n, ls |-> XLS[n],
            all |-> [i \in 1 .. Len(st) |-> Sx!MatchesAll(st[i], XLS[n])],
            any |-> Sx!MatchesAny(st, XLS[n])])
  /\ \A p \in Pats, v \in Sx!Values : Out([k |-> "lang", src |-> p, val |-> v, in |-> v \in Sx!Lang(p),
                                             dotall |-> v \in Sx!DotAllTab[p]])
=============================================================================
