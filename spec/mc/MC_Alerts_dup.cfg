SPECIFICATION Spec
CONSTANTS
  RT = 2
  Limit = 0
  StaleRule = "impl"
  LabelsOf <- MCLabels
  CanonIds <- MCCanon13
  MaxTime = 4
  Pick <- PickAll
  KnownGaps = {}
  Variants = {"L1"}
  Variants2 = {}
  StartOffs = {0, 2, 3, 4}
  EndOffs = {0, 2, 3, 4, 6}
  FixedStart <- Unset
  MaxBatch = 2
  SameInstant = TRUE
  Ops = {"post1", "postdup", "gc", "tickgc", "tick"}
VIEW View
INVARIANTS WellFormed
PROPERTIES BestEffort StartRule TimeoutRule PastEndResolves DupRules SubmissionOrder OnlyResolvedCollected GCCollects RefusalCounted
CHECK_DEADLOCK FALSE
