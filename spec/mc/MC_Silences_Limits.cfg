SPECIFICATION Spec
CONSTANTS
  Retention = 2
  RemoteRetention = 2
  MaxSilences = 2
  LocalIds <- MCLocalIds
  MaxTime = 4
  Pick <- PickAll
  DerivedUpd <- DerivedNewer
  KnownGaps = {}
  LS = {}
  MSV = {"M1"}
  MSI = {"MNone"}
  Cmts = {"c1", "big"}
  StartOffs = {0, 1, 2}
  EndOffs = {0, 2, 4}
  PoolIds = {}
  Ops = {"set", "expire", "gc"}
VIEW View
INVARIANTS IndexOK
PROPERTIES RejectedChangesNothing CountLimit FreshIds NeverOlder
CHECK_DEADLOCK FALSE
