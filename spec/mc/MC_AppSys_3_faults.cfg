SPECIFICATION Spec
CONSTANTS
  Inst = {1, 2, 3}
  InitUp = {1, 3}
  Alerts = {"a"}
  GW = 1
  GI = 3
  RI = 20
  PT = 3
  ST = 2
  MinT = 10
  Maint = 7
  MaxDelay = 1
  Quantum = 3
  MaxTime = 40
  Rule = "sum"
  Off = {}
  Lim <- Faults3
VIEW View
INVARIANTS AtLeastOnce NoDuplicateWhenHealthy SilenceSurvivesRestart NoRepeatAfterRestart ReadyEventually Sane
CHECK_DEADLOCK FALSE
