--------------------------- MODULE Gen_GossipPeers ---------------------------
(* Generation of schedules for the real-peer harness (harness/peer): the      *)
(* actions of GossipPeers.tla plus a history variable; every complete         *)
(* behaviour is printed as one JSON line.  Each element of hist holds the     *)
(* operation with its arguments and replies (last) and what the specification *)
(* expects afterwards: who runs, the membership views, the merged updates,    *)
(* readiness, the phase of Settle and, per update, the peers that MUST hold   *)
(* it once the transport is quiet (must = cohort unless excused).             *)
(* The harness performs the environment operations (bcast, left, crashed,     *)
(* join, restart, flush) on real cluster.Peers and treats the others as       *)
(* synchronisation points of the real network (deliver: wait for the update   *)
(* on that peer; detect / learn / reconnect: wait for the membership view;    *)
(* tick: one gossip interval; poll / expire: wait for Settle).                *)
EXTENDS MC_GossipPeers
CONSTANT HistLen
VARIABLE hist

P(S) == IF S = {} THEN {} ELSE {RandomElement(S)}

Obs == [e |-> last', life |-> life', mem |-> mem', st |-> st', ready |-> ready',
        phase |-> [n \in Ids |-> settle'[n].phase],
        must |-> [u \in Updates |-> IF u \in Small /\ u \in wide' \cup hurt' THEN {} ELSE cohort'[u]]]
Obs0 == [e |-> [op |-> "init", ids |-> Ids, initup |-> InitUp, small |-> Small, big |-> Big,
                fanout |-> Fanout, txlimit |-> TxLimit, okay |-> OkayRequired, transport |-> Transport],
         life |-> [n \in Ids |-> IF n \in InitUp THEN "up" ELSE "new"],
         mem |-> [n \in Ids |-> IF n \in InitUp THEN InitUp \ {n} ELSE {}],
         st |-> [n \in Ids |-> {}], ready |-> [n \in Ids |-> n \in InitUp],
         phase |-> [n \in Ids |-> "returned"], must |-> [u \in Updates |-> {}]]

GenInit == Init /\ hist = <<Obs0>>

Fresh(C) == {u \in C : origin[u] = "-" /\ NextOfClass(u)}
Down == {n \in Ids : life[n] \in {"left", "crashed"}}

\* one candidate per kind of step, so that the kinds are equally likely in simulation
GenStep ==
  \/ \E s \in P(Up), u \in P(Fresh(Small)) : Bcast(s, u)
  \/ \E s \in P(Up), u \in P(Fresh(Big)) : Bcast(s, u)
  \/ \E s \in P({x \in Up : DOMAIN gq[x] # {} /\ G(x) # {}}) :
        \E q \in P(Orders(G(s), Min(Fanout, Cardinality(G(s))))) : Tick(s, q)
  \/ \E pk \in P(net) : Deliver(pk)
  \/ (used.stop < MaxStop /\ \E n \in P(Up) : Stop(n, "left"))
  \/ (used.stop < MaxStop /\ \E n \in P(Up) : Stop(n, "crashed"))
  \/ \E n \in P(Down) : \E m \in P({x \in Up : n \in mem[x]}) : Detect(m, n)
  \/ (used.join < MaxJoin /\ \E n \in P({x \in Ids : life[x] = "new"}), s \in P(Up), b \in P(Budgets) : Join(n, s, b))
  \/ \E n \in P(Up) : \E m \in P({x \in Up \ {n} : n \notin mem[x]}) : Learn(m, n)
  \/ (used.join < MaxJoin /\ \E n \in P(Down), b \in P(Budgets) : Restart(n, b))
  \/ \E n \in P(Up) : \E m \in P({x \in Up : n \in failed[x]}) : Reconnect(m, n)
  \/ (used.reset < MaxReset /\ \E n \in P({x \in Up : \E y \in Ids : pool[y][x] = "ok"}) : ResetIn(n))
  \/ \E a \in P(Up) : \E b \in P({x \in G(a) : Transport = "tls" /\ PoolAfter(a, x) # pool[a][x]}) : Probe(a, b)
  \/ \E n \in P({x \in Up : settle[x].phase = "polling"}) : Poll(n) \/ Expire(n)
  \/ \E n \in P(Up) : Flush(n)

GenNext == /\ Len(hist) < HistLen
           /\ GenStep
           /\ hist' = Append(hist, Obs)
GenSpec == GenInit /\ [][GenNext]_<<vars, hist>>
Emit == Len(hist) = HistLen => PrintT("@@H " \o ToJson(hist))
=============================================================================
