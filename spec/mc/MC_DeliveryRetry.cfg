SPECIFICATION Spec
CONSTANTS
  Timeout = 300
  SlowDelay = 80
  HangDelay = 700
  TimeoutRecoverable = TRUE
  BackoffGrows = TRUE
  MaxLenWebhook = 4
  MaxLenPagerduty = 3
  Deadlines = {450, 1600, 2900}
  CancelDeadline = 2900
  Cancels = {130, 950}
  LongDeadlines = {7000}
  LongLen = 1
INVARIANTS InvCanonical InvClauses InvClosed InvLogOnly InvBounded InvProgress
CHECK_DEADLOCK FALSE
