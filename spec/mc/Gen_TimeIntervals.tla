-------------------------- MODULE Gen_TimeIntervals -------------------------
(* Generation of test cases for C15 from spec/TimeIntervals.tla: TLC prints *)
(* one JSON line per (interval specification, location, year) with every    *)
(* instant of the year's instant set, the offset the zone rule gives and    *)
(* the verdict Contains(..) the statement demands; and one line per         *)
(* (mute names, active names) with the gating verdict at each instant.      *)
(*                                                                          *)
(* Interval specifications come from a grammar-driven enumeration: every    *)
(* field absent / single value / range / boundary values, one field at a    *)
(* time (exhaustive over the alternatives), hand-picked combinations, and   *)
(* NRandom pseudo-random combinations determined by Seed.                   *)
(*                                                                          *)
(* The state graph only schedules the work over TLC's workers:              *)
(*   start -> spec(i) -> ti(i, year)      and      start -> gate(g)         *)
(* the payload is printed by the invariant Emit.                            *)
EXTENDS TimeIntervals, Json, TLC

CONSTANTS Seed,        \* VERIF_SEED
          NRandom,     \* number of pseudo-random field combinations
          Years,       \* the years whose instants are generated
          FullYears,   \* years of which every day is taken (of the others: month edges, mid-month, one week)
          GateYears    \* years from which the gating instants are taken

R(b, e) == [b |-> b, e |-> e]

\* ---- the grammar: alternatives per field; the first one is "absent"
TimesAlts == << {},
                {R(0, 1440)},                 \* 00:00-24:00
                {R(540, 1020)},               \* 09:00-17:00
                {R(0, 1)},                    \* the first minute
                {R(1439, 1440)},              \* the last minute, end 24:00
                {R(0, 60), R(1380, 1440)},    \* two ranges at the day's ends
                {R(120, 180)},                \* 02:00-03:00: the hour the rule zones skip or repeat
                {R(90, 150)},                 \* 01:30-02:30: Lord Howe's half hour
                {R(719, 721)},
                {R(1, 1439)} >>
WeekdayAlts == << {},
                  {R(1, 5)}, {R(0, 0)}, {R(6, 6)}, {R(0, 6)}, {R(6, 6), R(0, 0)}, {R(2, 4)}, {R(5, 6)} >>
DomAlts == << {},
              {R(1, 1)}, {R(31, 31)}, {R(29, 29)}, {R(30, 31)}, {R(1, 31)}, {R(28, 28)},
              {R(0 - 1, 0 - 1)}, {R(0 - 3, 0 - 1)}, {R(0 - 31, 0 - 1)}, {R(0 - 31, 0 - 31)},
              {R(0 - 31, 0 - 29)}, {R(0 - 29, 0 - 28)}, {R(15, 0 - 1)}, {R(1, 0 - 27)}, {R(20, 0 - 8)},
              {R(1, 5), R(0 - 3, 0 - 1)}, {R(13, 13)}, {R(29, 31)}, {R(0 - 2, 0 - 2)} >>
MonthAlts == << {},
                {R(2, 2)}, {R(1, 12)}, {R(12, 12)}, {R(1, 1)}, {R(2, 3)},
                {R(4, 4), R(6, 6), R(9, 9), R(11, 11)}, {R(12, 12), R(1, 2)} >>
YearAlts == << {},
               {R(2000, 2000)}, {R(2024, 2024)}, {R(2100, 2100)}, {R(1999, 2001)}, {R(2023, 2025)},
               {R(2099, 2101)}, {R(1970, 2200)}, {R(2000, 2000), R(2100, 2100)} >>

ZoneSeq == <<"", "UTC", "Europe/Berlin", "America/New_York", "Australia/Lord_Howe", "Asia/Kolkata", "Asia/Kathmandu">>

Base == [times |-> {}, weekdays |-> {}, dom |-> {}, months |-> {}, years |-> {}, loc |-> "", explicit |-> {}]

\* one field at a time: every alternative of every field
Singles ==
       [i \in 1 .. Len(TimesAlts) - 1   |-> [Base EXCEPT !.times    = TimesAlts[i + 1]]]
   \o  [i \in 1 .. Len(WeekdayAlts) - 1 |-> [Base EXCEPT !.weekdays = WeekdayAlts[i + 1]]]
   \o  [i \in 1 .. Len(DomAlts) - 1     |-> [Base EXCEPT !.dom      = DomAlts[i + 1]]]
   \o  [i \in 1 .. Len(MonthAlts) - 1   |-> [Base EXCEPT !.months   = MonthAlts[i + 1]]]
   \o  [i \in 1 .. Len(YearAlts) - 1    |-> [Base EXCEPT !.years    = YearAlts[i + 1]]]

\* hand-picked combinations
Combos == <<
   Base,                                                               \* matches every instant
   [Base EXCEPT !.dom = {R(29, 29)}, !.months = {R(2, 2)}],            \* 29 February
   [Base EXCEPT !.dom = {R(0 - 1, 0 - 1)}, !.months = {R(2, 2)}],      \* last day of February
   [Base EXCEPT !.dom = {R(29, 29)}, !.months = {R(2, 2)}, !.years = {R(2100, 2100)}],   \* never
   [Base EXCEPT !.dom = {R(30, 31)}, !.months = {R(2, 2)}],            \* never
   [Base EXCEPT !.weekdays = {R(1, 5)}, !.times = {R(540, 1020)}],     \* business hours
   [Base EXCEPT !.weekdays = {R(5, 5)}, !.dom = {R(13, 13)}],          \* Friday 13th
   [Base EXCEPT !.dom = {R(0 - 1, 0 - 1)}, !.months = {R(12, 12)}, !.times = {R(1439, 1440)}],  \* last minute of the year
   [Base EXCEPT !.dom = {R(1, 1)}, !.months = {R(1, 1)}, !.times = {R(0, 1)}, !.years = {R(2000, 2000), R(2100, 2100)}],
   [Base EXCEPT !.weekdays = {R(0, 0)}, !.times = {R(60, 240)}],       \* Sunday 01:00-04:00: all transitions
   [Base EXCEPT !.weekdays = {R(6, 6)}, !.times = {R(1380, 1440)}, !.dom = {R(0 - 7, 0 - 1)}],
   \* an empty field given as an explicit empty list: "an empty field matches everything"
   [Base EXCEPT !.explicit = {"times"}],
   [Base EXCEPT !.weekdays = {R(1, 5)}, !.explicit = {"months", "years"}],
   [Base EXCEPT !.times = {R(540, 1020)}, !.explicit = {"weekdays", "dom"}]
 >>

\* pseudo-random combinations: alternative of field f in combination k; about every
\* second field stays absent so that the conjunction is not always false
Mix(k, f) == ((Seed * 7919 + k * 104729 + f * 1299709) % 1000003)
PickAlt(alts, k, f) == LET h == Mix(k, f) IN IF h % 2 = 0 THEN alts[1] ELSE alts[((h \div 2) % Len(alts)) + 1]
RandomSpec(k) == [times    |-> PickAlt(TimesAlts, k, 1),
                  weekdays |-> PickAlt(WeekdayAlts, k, 2),
                  dom      |-> PickAlt(DomAlts, k, 3),
                  months   |-> PickAlt(MonthAlts, k, 4),
                  years    |-> PickAlt(YearAlts, k, 5),
                  loc |-> "", explicit |-> {}]
Specs == Singles \o Combos \o [k \in 1 .. NRandom |-> RandomSpec(k)]

\* the location of specification i in year y: every specification meets every zone
ZoneFor(i, y) == ZoneSeq[((i + y + Seed) % Len(ZoneSeq)) + 1]
Strip(s, z) == [times |-> s.times, weekdays |-> s.weekdays, dom |-> s.dom, months |-> s.months,
                years |-> s.years, loc |-> z]

\* ---- instants
YearDays(y) == DaysBeforeYear(y) .. (DaysBeforeYear(y + 1) - 1)
EdgeDays(y) == UNION {{DayNumber(y, m, 1), DayNumber(y, m, 2), DayNumber(y, m, 13), DayNumber(y, m, 15),
                       DayNumber(y, m, MonthLen(y, m)) - 3, DayNumber(y, m, MonthLen(y, m)) - 2,
                       DayNumber(y, m, MonthLen(y, m)) - 1, DayNumber(y, m, MonthLen(y, m))} : m \in 1 .. 12}
               \cup (DayNumber(y, 6, 7) .. DayNumber(y, 6, 13))
DaysOf(y) == IF y \in FullYears THEN YearDays(y) ELSE EdgeDays(y)

\* local minutes of interest: day ends, noon, and the ends of the time ranges +-1
MOI(ti) == ({0, 1, 720, 1438, 1439}
            \cup UNION {{r.b - 1, r.b, r.b + 1, r.e - 1, r.e, r.e + 1} : r \in ti.times}) \cap (0 .. 1439)

\* the UTC instant that reads as minute m of day d in zone z (away from transitions)
LocalToUTC(z, d, m) == LET g == d * 1440 + m - StdOffset(z) IN d * 1440 + m - Offset(z, g)

Near == {0 - 61, 0 - 60, 0 - 31, 0 - 30, 0 - 1, 0, 1, 29, 30, 31, 59, 60, 61}
Instants(ti, z, y) == {LocalToUTC(z, d, m) : d \in DaysOf(y), m \in MOI(ti)}
                      \cup {x + k : x \in Transitions(z, y), k \in Near}

Cases(ti, z, y) == {<<t, Offset(z, t), Contains(ti, t, Offset(z, t))>> : t \in Instants(ti, z, y)}

\* ---- gating
Wk  == [Base EXCEPT !.weekdays = {R(6, 6), R(0, 0)}, !.loc = "Europe/Berlin"]
Bh  == [Base EXCEPT !.weekdays = {R(1, 5)}, !.times = {R(540, 1020)}, !.loc = "America/New_York"]
Eom == [Base EXCEPT !.dom = {R(0 - 1, 0 - 1)}]
Ngt == [Base EXCEPT !.times = {R(0, 360)}]
Eve == [Base EXCEPT !.times = {R(1320, 1440)}]
Lp  == [Base EXCEPT !.dom = {R(29, 29)}, !.months = {R(2, 2)}, !.loc = "Asia/Kathmandu"]
GStrip(s) == Strip(s, s.loc)
GDefs == [weekend |-> {GStrip(Wk)}, business |-> {GStrip(Bh)}, monthend |-> {GStrip(Eom)},
          offhours |-> {GStrip(Ngt), GStrip(Eve)}, leapday |-> {GStrip(Lp)}]
GNames == DOMAIN GDefs
Small == {s \in SUBSET GNames : Cardinality(s) <= 2}
GateCombos == {<<m, a>> : m \in Small, a \in Small}
GateDays == UNION {(DayNumber(y, 2, 26) .. DayNumber(y, 3, 2)) \cup (DayNumber(y, 6, 28) .. DayNumber(y, 7, 1)) : y \in GateYears}
GateMinutes == {0, 300, 359, 360, 480, 539, 540, 780, 1019, 1020, 1319, 1320, 1439}
GateInstants == {d * 1440 + m : d \in GateDays, m \in GateMinutes}
GateCases(mute, active) ==
  {<<t, Notify(GDefs, mute, active, t), MutingNames(GDefs, mute, t), Inactive(GDefs, active, t)>> : t \in GateInstants}

-----------------------------------------------------------------------------
VARIABLES kind, si, yr, gm, ga
gvars == <<kind, si, yr, gm, ga>>

GenInit == kind = "start" /\ si = 0 /\ yr = 0 /\ gm = {} /\ ga = {}
GenNext ==
  \/ /\ kind = "start"
     /\ \E i \in 1 .. Len(Specs) : kind' = "spec" /\ si' = i /\ UNCHANGED <<yr, gm, ga>>
  \/ /\ kind = "spec"
     /\ \E y \in Years : kind' = "ti" /\ yr' = y /\ UNCHANGED <<si, gm, ga>>
  \/ /\ kind = "start"
     /\ \E c \in GateCombos : kind' = "gate" /\ gm' = c[1] /\ ga' = c[2] /\ UNCHANGED <<si, yr>>
GenSpec == GenInit /\ [][GenNext]_gvars

TiLine == LET z  == ZoneFor(si, yr)
              ti == Strip(Specs[si], z)
          IN [kind |-> "ti", si |-> si, y |-> yr, ti |-> ti, explicit |-> Specs[si].explicit,
              c |-> Cases(ti, z, yr)]
GateLine == [kind |-> "gate", defs |-> GDefs, mute |-> gm, active |-> ga, c |-> GateCases(gm, ga)]

Emit == /\ kind = "ti"   => PrintT("@@H " \o ToJson(TiLine))
        /\ kind = "gate" => PrintT("@@H " \o ToJson(GateLine))

\* self-check of the generator: everything it produces is in the parser's language
GenValid == \A i \in 1 .. Len(Specs) : ValidInterval(Strip(Specs[i], "UTC"))
ASSUME GenValid
=============================================================================
