---------------------------- MODULE Trace_AppSys ----------------------------
(* Validation of runs recorded from COMPLETE Alertmanager processes          *)
(* (harness/appsys TestReplay: app.New + Start, real cluster over loopback,   *)
(* HTTP API, recording webhook) against the properties of AppSys.tla.         *)
(* The observable variables of AppSys (now, life, upAt, rdy, pos, has, sv,    *)
(* sent and the bookkeeping gen / since / owe / told / healthy / posted /     *)
(* expired) are rebuilt from the recorded events with AppSys's own            *)
(* bookkeeping operators (BkSend, BkDown, BkStart, BkPost, BkAck, BkExpire,   *)
(* Clock); AppSys's property definitions are then evaluated with the          *)
(* parameter record `par` of the run: its timers in ms and the REAL-TIME      *)
(* TOLERANCES                                                                *)
(*   slack   added to the AtLeastOnce bound (10 s)                            *)
(*   rslack  added to the settle timeout for ReadyEventually (10 s)           *)
(*   dupmin  two deliveries closer than this are the race the peer timeout    *)
(*           exists for.  base = max(10 x the gossip latency measured in this *)
(*           run through the API, 300 ms).  For an alert that was posted      *)
(*           exactly once, to all instances (one right after the other):      *)
(*           base - every later instance starts its wait before the first     *)
(*           delivery ends, so any duplicate farther apart than gossip is the *)
(*           program's; for an alert posted to the instances at different     *)
(*           times: base + the duration of a delivery (the receiver answers   *)
(*           after `hook` ms) + the stagger of a post.  No verdict when       *)
(*           dupmin is not below the peer timeout                             *)
(*   dupmax  repeat_interval / 2 (duplicates);  repmax: 3/4 repeat_interval   *)
(*           (a repeat after a restart: the log compares its own timestamps,  *)
(*           a legitimate repeat is more than repeat_interval later)          *)
(*   late    a delivery that reached the (slow) receiver less than 4.2 s      *)
(*           before a clean stop need not be remembered;  ptol: a kill keeps  *)
(*           what is older than the maintenance interval + 5.2 s.             *)
(* Every event is consumed; violated clauses and doubts are collected         *)
(* (register 2) and printed as the @@V line.  A clause is a VIOLATION only    *)
(* with control evidence, otherwise a DOUBT (inconclusive case):              *)
(*   AtLeastOnce: the instance answered GET /-/ready with 200, listed the     *)
(*     alert unsilenced in every observation of the window, stayed at one     *)
(*     position (all in `since`), and a control alert posted to every running *)
(*     instance at the beginning of the extension WAS delivered;              *)
(*   NoDuplicate: fault-free run (healthy: all instances up, ready and with   *)
(*     complete member lists at every post, no stop / kill / late start, no   *)
(*     incomplete member list observed afterwards), gap in (dupmin, dupmax];  *)
(*   ReadyEventually: the instance answers its API.                            *)
(*   SilenceSurvives / NoRepeat: positive observations (a delivery, an API    *)
(*     answer), no control needed.                                            *)
(* Reloads (C17, C07): `reload.begin` / `reload` events frame a reload        *)
(* request (no observation is made in between); inforce is the start's or the *)
(* last ACCEPTED (answer 200) reload's configuration.                          *)
(*   RejectedReloadKeepsConfig / AcceptedReloadTakesEffect: AtLeastOnce's      *)
(*     obligation is a delivery to the receiver of the configuration in force *)
(*     (named after the outcome of the instance's last reload request; control *)
(*     evidence for a single instance: it had delivered to that receiver       *)
(*     before, and the receiver answered a direct request during the           *)
(*     extension), and every delivery goes to the receiver of the              *)
(*     configuration in force, of the one in force until rltol (4.2 s) ago,    *)
(*     or of the reload in flight;                                             *)
(*   StatusShowsConfigInForce / ReceiversAgree: positive observations at       *)
(*     quiescence (status text; receivers of GET /api/v2/alerts against the    *)
(*     receivers of the dispatcher's groups, GET /api/v2/alerts/groups).       *)
EXTENDS AppSys, Json

CONSTANT TraceFile
Trace == ndJsonDeserialize(TraceFile)

VARIABLES l,
          par,     \* parameters of the current run
          seen,    \* i -> number of members the instance listed last
          resp,    \* i -> the last observation was answered completely
          ctl,     \* deliveries of control alerts: [i, c, t, ext]
          ext,     \* the run is in its extension (a control alert went to every running instance)
          cand,    \* i -> configuration of the reload request in flight, "-"
          probed   \* the receiver answered a direct request during the extension
tvars == <<vars, l, par, seen, resp, ctl, ext, cand, probed>>

NoLim == [start |-> 0, stop |-> 0, kill |-> 0, post |-> 0, sil |-> 0, exp |-> 0, rl |-> 0]
ev == Trace[l]
ToSetOf(s) == {s[k] : k \in 1 .. Len(s)}
MaxI(x, y) == IF x > y THEN x ELSE y

NoPar == [gw |-> 0, gi |-> 0, ri |-> 0, pt |-> 0, st |-> 0, mint |-> 0, slack |-> 0, rslack |-> 0,
          dupmin |-> [a \in Alerts |-> 0], dupmax |-> 0, repmax |-> 0, late |-> 0, ptol |-> 0, maint |-> 0, dupfloor |-> 0, n |-> 0, solo |-> FALSE, run |-> "", alerts |-> {},
          base |-> 0, hook |-> 0, inflight |-> 0, rltol |-> 0, np |-> [a \in Alerts |-> 0], full |-> [a \in Alerts |-> FALSE]]

Blank ==
  /\ now' = 0
  /\ life' = [i \in Inst |-> "new"]
  /\ upAt' = [i \in Inst |-> 0]
  /\ rdy' = [i \in Inst |-> FALSE]
  /\ has' = [i \in Inst |-> {}]
  /\ sv' = [i \in Inst |-> [a \in Alerts |-> 0]]
  /\ pos' = [i \in Inst |-> 0]
  /\ sent' = << >>
  /\ gen' = [i \in Inst |-> 0]
  /\ since' = [i \in Inst |-> [a \in Alerts |-> NONE]]
  /\ owe' = [i \in Inst |-> [a \in Alerts |-> NoOwe]]
  /\ told' = [i \in Inst |-> [a \in Alerts |-> NoTold]]
  /\ posted' = FALSE /\ expired' = {}
  /\ seen' = [i \in Inst |-> 0]
  /\ resp' = [i \in Inst |-> FALSE]
  /\ ctl' = {} /\ ext' = FALSE
  /\ api' = [i \in Inst |-> "-"] /\ rcv' = api' /\ grp' = api'
  /\ inforce' = [i \in Inst |-> "-"] /\ prevc' = inforce' /\ chg' = [i \in Inst |-> 0]
  /\ lastrl' = [i \in Inst |-> "none"]
  /\ cand' = [i \in Inst |-> "-"] /\ probed' = FALSE

\* the AppSys variables no property reads keep their initial values
Unused == UNCHANGED <<due, pend, nfl, snapN, snapS, mt, net, cnt, last, cfg, file>>

TraceInit ==
  /\ l = 1 /\ par = NoPar
  /\ now = 0
  /\ life = [i \in Inst |-> "new"] /\ upAt = [i \in Inst |-> 0] /\ rdy = [i \in Inst |-> FALSE]
  /\ has = [i \in Inst |-> {}] /\ sv = [i \in Inst |-> [a \in Alerts |-> 0]]
  /\ due = [i \in Inst |-> [a \in Alerts |-> NONE]] /\ pend = [i \in Inst |-> [a \in Alerts |-> Idle]]
  /\ nfl = [i \in Inst |-> NoLog] /\ snapN = nfl /\ snapS = sv
  /\ mt = [i \in Inst |-> 0] /\ net = {} /\ cnt = 0 /\ last = 0
  /\ pos = [i \in Inst |-> 0] /\ sent = << >> /\ gen = [i \in Inst |-> 0]
  /\ since = [i \in Inst |-> [a \in Alerts |-> NONE]]
  /\ owe = [i \in Inst |-> [a \in Alerts |-> NoOwe]] /\ told = [i \in Inst |-> [a \in Alerts |-> NoTold]]
  /\ healthy = FALSE /\ posted = FALSE /\ expired = {}
  /\ seen = [i \in Inst |-> 0] /\ resp = [i \in Inst |-> FALSE] /\ ctl = {} /\ ext = FALSE
  /\ cfg = [i \in Inst |-> "-"] /\ api = cfg /\ file = 0 /\ rcv = cfg /\ grp = cfg
  /\ inforce = cfg /\ prevc = cfg /\ chg = [i \in Inst |-> 0] /\ lastrl = [i \in Inst |-> "none"]
  /\ cand = cfg /\ probed = FALSE

Same(vs) == UNCHANGED vs
Obs1 == <<life, upAt, rdy, has, sv, pos, api, rcv, grp>>
Tr1 == <<par, seen, resp, ctl, ext, cand, probed>>

\* ---- one action per kind of event; every one sets now' = ev.t and ends with Clock -------------
Cfg ==
  /\ Blank
  /\ par' = [gw |-> ev.gw, gi |-> ev.gi, ri |-> ev.ri, pt |-> ev.pt, st |-> ev.st, mint |-> ev.mint,
             slack |-> ev.slack, rslack |-> ev.rslack,
             dupmin |-> [a \in Alerts |-> ev.pt], dupmax |-> ev.ri \div 2, repmax |-> (3 * ev.ri) \div 4,
             late |-> ev.late, ptol |-> ev.ptol, maint |-> ev.maint, dupfloor |-> ev.dupfloor,
             n |-> ev.n, solo |-> ev.solo, run |-> ev.run, alerts |-> ToSetOf(ev.alerts),
             base |-> ev.pt,                                   \* no latency measured yet: NoDuplicate gives no verdict
             rltol |-> ev.rltol, hook |-> ev.hook + ev.n * ev.stagger, inflight |-> ev.hook + ev.n * ev.stagger, np |-> [a \in Alerts |-> 0], full |-> [a \in Alerts |-> FALSE]]
  /\ healthy' = ~ev.solo

EvStart ==
  LET i == ev.i IN
  /\ life' = [life EXCEPT ![i] = "up"]
  /\ upAt' = [upAt EXCEPT ![i] = ev.t]
  /\ rdy' = [rdy EXCEPT ![i] = par.solo]
  /\ has' = [has EXCEPT ![i] = {}]
  /\ sv' = [sv EXCEPT ![i] = [a \in Alerts |-> 3]]       \* not observed yet
  /\ pos' = [pos EXCEPT ![i] = 0]
  /\ seen' = [seen EXCEPT ![i] = IF par.solo THEN 1 ELSE 0]
  /\ resp' = [resp EXCEPT ![i] = TRUE]
  /\ api' = [api EXCEPT ![i] = "-"] /\ rcv' = [rcv EXCEPT ![i] = "-"] /\ grp' = [grp EXCEPT ![i] = "-"]
  /\ BkStart(i, ev.c)
  /\ UNCHANGED <<par, ctl, ext, cand, probed>>

EvDown ==
  LET i == ev.i
      keepN == IF ev.kind = "stop"
                 THEN {a \in Alerts : told[i][a].t # NONE /\ told[i][a].t + par.late <= ev.t}
                 ELSE {a \in Alerts : told[i][a].t # NONE /\ told[i][a].t + par.maint + par.ptol <= ev.t}
      keepS == IF ev.kind = "stop"
                 THEN {a \in Alerts : owe[i][a].lvl # 0}
                 ELSE {a \in Alerts : owe[i][a].lvl # 0 /\ owe[i][a].t + par.maint + par.ptol <= ev.t}
  IN
  /\ life' = [life EXCEPT ![i] = "down"]
  /\ rdy' = [rdy EXCEPT ![i] = FALSE]
  /\ has' = [has EXCEPT ![i] = {}]
  /\ BkDown(i, keepN, keepS)
  /\ UNCHANGED <<upAt, sv, pos, api, rcv, grp, par, seen, resp, ctl, ext, cand, probed>>

AllReady == \A i \in 1 .. par.n : life[i] = "up" /\ rdy[i] /\ resp[i] /\ seen[i] = par.n

DupMinOf(b, h, np, full) == [a \in Alerts |-> IF np[a] = 1 /\ full[a] THEN b ELSE b + h]

EvPost ==
  LET a == ev.a
      np == IF a \in Alerts THEN [par.np EXCEPT ![a] = @ + 1] ELSE par.np
      full == IF a \in Alerts THEN [par.full EXCEPT ![a] = (Len(ev.to) = par.n)] ELSE par.full
  IN
  /\ BkPost(AllReady /\ \A k \in 1 .. Len(ev.codes) : ev.codes[k] = 200)
  /\ par' = [par EXCEPT !.np = np, !.full = full, !.dupmin = DupMinOf(par.base, par.hook, np, full)]
  /\ Same(Obs1) /\ UNCHANGED <<seen, resp, ctl, ext, cand, probed>>

EvSil ==
  /\ IF ev.code = 200 THEN BkAck(ev.i, ev.a, ev.t) ELSE BkSame
  /\ Same(Obs1) /\ Same(Tr1)

EvExpire ==
  /\ IF ev.code = 200 THEN BkExpire(ev.a) ELSE BkSame
  /\ Same(Obs1) /\ Same(Tr1)

\* an observation of one running instance (status, alerts, silences, /-/ready)
EvObs ==
  LET i == ev.i IN
  IF life[i] # "up" THEN BkSame /\ Same(Obs1) /\ Same(Tr1)
  ELSE
  /\ resp' = [resp EXCEPT ![i] = ev.ok]
  /\ IF ev.ok
       THEN /\ rdy' = [rdy EXCEPT ![i] = ev.rdy]
            /\ pos' = [pos EXCEPT ![i] = ev.pos]
            /\ has' = [has EXCEPT ![i] = ToSetOf(ev.has) \cap Alerts]
            /\ sv' = [sv EXCEPT ![i] = [a \in Alerts |-> IF a \in DOMAIN ev.sil THEN ev.sil[a] ELSE 0]]
            /\ seen' = [seen EXCEPT ![i] = ev.n]
            /\ api' = [api EXCEPT ![i] = ev.stc] /\ rcv' = [rcv EXCEPT ![i] = ev.rcv] /\ grp' = [grp EXCEPT ![i] = ev.grp]
       ELSE /\ has' = [has EXCEPT ![i] = {}]                 \* not demonstrably holding anything
            /\ UNCHANGED <<rdy, pos, sv, seen, api, rcv, grp>>
  /\ healthy' = (healthy /\ (~posted \/ ~ev.ok \/ ev.n = par.n))
  /\ UNCHANGED <<life, upAt, sent, gen, owe, told, posted, expired, bkr, par, ctl, ext, cand, probed>>

\* a webhook delivery; one from an instance that is being torn down counts as a delivery
\* but is not something its data directory has to remember
EvDeliver ==
  LET i == ev.i IN
  /\ IF i \in Inst /\ ev.a \in Alerts
       THEN IF life[i] = "up" THEN BkSend(i, ev.a, ev.c, ev.t, par)
            ELSE /\ sent' = Append(sent, [i |-> i, a |-> ev.a, c |-> ev.c, t |-> ev.t, g |-> gen[i], owe |-> 0, rep |-> FALSE, ok |-> TRUE])
                 /\ UNCHANGED <<gen, owe, told, healthy, posted, expired, bkr>>
       ELSE BkSame
  /\ Same(Obs1) /\ Same(Tr1)

EvCtl ==
  /\ ctl' = ctl \cup {[i |-> ev.i, c |-> ev.c, t |-> ev.t, ext |-> ext]}
  /\ BkSame /\ Same(Obs1) /\ UNCHANGED <<par, seen, resp, ext, cand, probed>>

EvCtlPost ==
  /\ ext' = (ext \/ ev.ext)
  /\ BkSame /\ Same(Obs1) /\ UNCHANGED <<par, seen, resp, ctl, cand, probed>>

EvReloadBegin ==
  /\ cand' = [cand EXCEPT ![ev.i] = ev.c]
  /\ BkSame /\ Same(Obs1) /\ UNCHANGED <<par, seen, resp, ctl, ext, probed>>

\* the reload request has been answered: 200 = accepted
EvReload ==
  /\ cand' = [cand EXCEPT ![ev.i] = "-"]
  /\ BkReload(ev.i, ev.c, ev.code = 200, ev.t)
  /\ Same(Obs1) /\ UNCHANGED <<par, seen, resp, ctl, ext, probed>>

EvProbe ==
  /\ probed' = (probed \/ ev.ok)
  /\ BkSame /\ Same(Obs1) /\ UNCHANGED <<par, seen, resp, ctl, ext, cand>>

EvLat ==
  LET m == MaxI(10 * ev.ms, par.dupfloor)
      b == IF par.base = par.pt THEN m ELSE MaxI(par.base, m)
  IN
  /\ par' = [par EXCEPT !.base = b, !.dupmin = DupMinOf(b, par.hook, par.np, par.full)]
  /\ BkSame /\ Same(Obs1) /\ UNCHANGED <<seen, resp, ctl, ext, cand, probed>>

Other == BkSame /\ Same(Obs1) /\ Same(Tr1)

TraceStep ==
  /\ l <= Len(Trace)
  /\ l' = l + 1
  /\ Unused
  /\ CASE ev.ev = "cfg" -> Cfg
       [] ev.ev = "start" -> EvStart
       [] ev.ev = "down" -> EvDown
       [] ev.ev = "post" -> EvPost
       [] ev.ev = "sil" -> EvSil
       [] ev.ev = "expire" -> EvExpire
       [] ev.ev = "obs" -> EvObs
       [] ev.ev = "deliver" -> EvDeliver
       [] ev.ev = "ctl" -> EvCtl
       [] ev.ev = "ctlpost" -> EvCtlPost
       [] ev.ev = "lat" -> EvLat
       [] ev.ev = "reload.begin" -> EvReloadBegin
       [] ev.ev = "reload" -> EvReload
       [] ev.ev = "probe" -> EvProbe
       [] OTHER -> Other
  /\ IF ev.ev = "cfg" THEN TRUE ELSE now' = ev.t /\ Clock(ev.t)

-----------------------------------------------------------------------------
(* verdicts *)
Note(x) == TLCSet(2, Append(TLCGet(2), x))
N(kind, clause, detail) == Note([run |-> par'.run, line |-> l, t |-> now', kind |-> kind, clause |-> clause, detail |-> detail])

\* the pairs that make AtLeastOnce fail in the state after the step
Starved == {q \in Inst \X Alerts :
              /\ since'[q[1]][q[2]] # NONE /\ now' - since'[q[1]][q[2]] > Bound(par', pos'[q[1]])
              /\ ~\E k \in 1 .. Len(sent') : sent'[k].a = q[2] /\ sent'[k].c = inforce'[q[1]]}
\* control evidence: a control alert was delivered during the extension; for an instance whose own
\* dispatcher is in question (single instance): it had delivered to that receiver before and the receiver
\* answered a direct request during the extension
Controlled(q) ==
  \/ \E c \in ctl' : c.ext /\ c.t >= since'[q[1]][q[2]]
  \/ /\ probed'
     /\ \/ \E k \in 1 .. Len(sent') : sent'[k].i = q[1] /\ sent'[k].c = inforce'[q[1]]
        \/ \E c \in ctl' : c.i = q[1] /\ c.c = inforce'[q[1]]
AloClause(i) == IF lastrl'[i] = "rejected" THEN "C17_RejectedReloadKeepsConfig"
                ELSE IF lastrl'[i] = "good" THEN "C17_AcceptedReloadTakesEffect"
                ELSE IF par'.solo THEN "C01_AtLeastOnce" ELSE "C08_AtLeastOnce"
ClosePairs == {pr \in (1 .. Len(sent')) \X (1 .. Len(sent')) :
                 /\ pr[1] < pr[2] /\ sent'[pr[1]].a = sent'[pr[2]].a
                 /\ sent'[pr[2]].t - sent'[pr[1]].t <= par'.dupmin[sent'[pr[2]].a] /\ pr[2] = Len(sent')}
Unready == {i \in Inst : life'[i] = "up" /\ now' - upAt'[i] > par'.st + par'.rslack /\ ~rdy'[i]}
Lost == {q \in Inst \X Alerts : life'[q[1]] = "up" /\ owe'[q[1]][q[2]].lvl = 2 /\ sv'[q[1]][q[2]] \notin {1, 3}}

Report ==
  /\ ((ev.ev = "end" /\ ~AtLeastOnceP(par)') =>
        \A q \in Starved :
          IF Controlled(q)
            THEN N("violation", AloClause(q[1]),
                   [i |-> q[1], a |-> q[2], since |-> since'[q[1]][q[2]], pos |-> pos'[q[1]], bound |-> Bound(par', pos'[q[1]]),
                    in_force |-> inforce'[q[1]], last_reload |-> lastrl'[q[1]]])
            ELSE N("doubt", "AtLeastOnce_without_control_delivery", [i |-> q[1], a |-> q[2]]))
  /\ ((ev.ev = "deliver" /\ Len(sent') > Len(sent)) =>
        /\ ((~NoDuplicateP(par)' /\ DupPairs(par)' # DupPairs(par)) =>
              N("violation", "C08_NoDuplicateWhenHealthy", [second |-> sent'[Len(sent')], pairs |-> DupPairs(par)' \ DupPairs(par), dupmin |-> par'.dupmin]))
        /\ ((healthy' /\ par'.n > 1 /\ ev.a \in Alerts /\ par'.dupmin[ev.a] < par'.pt /\ ClosePairs # {}) =>
              N("doubt", "duplicate_within_gossip_latency", [second |-> sent'[Len(sent')], dupmin |-> par'.dupmin]))
        /\ ((healthy' /\ par'.n > 1 /\ ev.a \in Alerts /\ par'.dupmin[ev.a] >= par'.pt /\ \E k \in 1 .. Len(sent) : sent[k].a = ev.a /\ ev.t - sent[k].t <= par'.dupmax) =>
              N("doubt", "duplicate_but_gossip_not_faster_than_peer_timeout", [second |-> sent'[Len(sent')], dupmin |-> par'.dupmin]))
        /\ ((~RoutedByConfigInForceP' /\ ~sent'[Len(sent')].ok /\ ev.c # cand[ev.i]) =>
              N("violation", IF lastrl[ev.i] = "rejected" THEN "C17_RejectedReloadKeepsConfig" ELSE "C17_AcceptedReloadTakesEffect",
                [delivered |-> sent'[Len(sent')], in_force |-> inforce[ev.i], before |-> prevc[ev.i], replaced_at |-> chg[ev.i], last_reload |-> lastrl[ev.i]]))
        /\ ((~NoRepeatP' /\ sent'[Len(sent')].rep) =>
              N("violation", "C11_NoRepeatAfterRestart", [second |-> sent'[Len(sent')], first |-> told[ev.i][ev.a]]))
        /\ ((~SilenceSurvivesP' /\ sent'[Len(sent')].owe = 2) =>
              N("violation", "C11_SilenceSurvivesRestart", [delivered |-> sent'[Len(sent')], acked |-> owe[ev.i][ev.a].t])))
  /\ ((ev.ev = "obs" /\ ev.ok /\ life[ev.i] = "up") =>
        /\ ((~StatusShowsConfigInForceP' /\ api'[ev.i] \notin {inforce'[ev.i], "-"}) =>
              N("violation", "C17_StatusShowsConfigInForce", [i |-> ev.i, status_shows |-> api'[ev.i], in_force |-> inforce'[ev.i], last_reload |-> lastrl'[ev.i]]))
        /\ ((~ReceiversAgreeP' /\ rcv'[ev.i] # "-" /\ grp'[ev.i] \notin {"-", "!"} /\ rcv'[ev.i] # grp'[ev.i]) =>
              N("violation", "C07_ReceiversAgree", [i |-> ev.i, api_receivers |-> rcv'[ev.i], dispatcher_groups |-> grp'[ev.i], in_force |-> inforce'[ev.i], last_reload |-> lastrl'[ev.i]])))
  /\ ((ev.ev = "reload" /\ ev.kind = "good" /\ ev.code # 200) => N("doubt", "good_configuration_refused", [i |-> ev.i, c |-> ev.c, code |-> ev.code]))
  /\ ((ev.ev = "reload" /\ ev.kind # "good" /\ ev.code = 200) => N("doubt", "bad_configuration_accepted", [i |-> ev.i, c |-> ev.c, how |-> ev.how]))
  /\ (ev.ev = "obs" =>
        /\ (~SilenceSurvivesP' => \A q \in Lost : (q[1] = ev.i /\ ev.ok) =>
              N("violation", "C11_SilenceSurvivesRestart", [i |-> q[1], a |-> q[2], acked |-> owe'[q[1]][q[2]].t, listed |-> sv'[q[1]][q[2]]]))
        /\ (~ReadyP(par)' => \A i \in Unready : (i = ev.i) =>
              IF ev.ok THEN N("violation", "C08_ReadyEventually", [i |-> i, up_since |-> upAt'[i], settle_timeout |-> par'.st])
              ELSE N("doubt", "not_ready_and_not_answering", [i |-> i])))
  /\ (ev.ev = "end" => \A i \in Inst : (life'[i] = "up" /\ ~resp'[i]) => N("doubt", "instance_not_answering_its_api_at_the_end", [i |-> i]))
  /\ (ev.ev = "abort" => N("doubt", "harness", [why |-> ev.why]))

TraceNext == TraceStep /\ Report
TraceSpec == TraceInit /\ [][TraceNext]_tvars

HighWater == TLCSet(1, IF l > TLCGet(1) THEN l ELSE TLCGet(1))
TraceAccepted ==
  /\ PrintT("@@V " \o ToJson(TLCGet(2)))
  /\ IF TLCGet(1) = Len(Trace) + 1 THEN TRUE
     ELSE Print(<<"@@REJECT", TLCGet(1)>>, FALSE)
ASSUME TLCSet(1, 0) /\ TLCSet(2, << >>)
=============================================================================
