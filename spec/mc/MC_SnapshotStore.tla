-------------------------- MODULE MC_SnapshotStore --------------------------
(* Bounded configurations of SnapshotStore: exhaustive runs (MC_SnapshotStore_*.cfg) and, *)
(* through Gen_SnapshotStore, generation of behaviours that harness/c11 TestReplay        *)
(* executes on the real silence.Silences / nflog.Log with the real Maintenance.           *)
EXTENDS SnapshotStore, Json

CONSTANTS HistLen,
          Pick(_)     \* PickAll: every parameter value (exhaustive); PickOne: one at random (simulation)
PickAll(S) == S
PickOne(S) == IF S = {} THEN {} ELSE {RandomElement(S)}

MCKeys1 == {"k1"}
MCKeys2 == {"k1", "k2"}
=============================================================================
