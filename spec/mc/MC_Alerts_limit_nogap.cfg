SPECIFICATION Spec
CONSTANTS
  RT = 2
  Limit = 3
  StaleRule = "impl"
  LabelsOf <- MCLabels
  CanonIds <- MCCanonF4
  MaxTime = 2
  Pick <- PickAll
  KnownGaps = {}
  Variants = {"F1", "F2", "F3", "F4"}
  Variants2 = {}
  StartOffs = {0}
  EndOffs = {2, 4, 7}
  FixedStart = 0
  MaxBatch = 1
  SameInstant = TRUE
  Ops = {"post1", "tickgc", "tick"}
VIEW View
INVARIANTS LimitHoldsOrKnown
CHECK_DEADLOCK FALSE
