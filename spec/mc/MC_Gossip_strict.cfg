SPECIFICATION Spec
CONSTANTS
  Nodes = {"A", "B"}
  InitUp = {"A", "B"}
  Updates = {"s1", "f1", "f2"}
  Foreign = {"f1", "f2"}
  MaxPacket = 1400
  TxLimit = 3
  GOverhead = 3
  GLimit = 1398
  OversizeCap = 1
  D = 2
  MaxRound = 2
  MaxNet = 2
  MaxLose = 0
  MaxDup = 0
  MaxCrash = 0
  MaxInject = 1
  MaxBurst = 0
  MaxSweep = 2
  PPOn = TRUE
  BurstSizes = {2, 3}
  FullLen = 3
  PartKinds = {"garbage"}
  UKey <- AllKey
  DLen <- AllLen
VIEW View
PROPERTIES BadInputHarmlessStrict
CHECK_DEADLOCK FALSE
