SPECIFICATION GenSpec
CONSTANTS
  Nodes = {"A", "B", "C"}
  Ids = {"s1", "s2"}
  Retention = 2
  MaxTime = 14
  MaxNet = 6
  CreateLen = 4
  HistLen = 40
INVARIANTS Emit
CHECK_DEADLOCK FALSE
