SPECIFICATION Spec
CONSTANTS
  Inst = {1, 2}
  InitUp = {1, 2}
  Alerts = {"a"}
  GW = 1
  GI = 3
  RI = 10
  PT = 3
  ST = 2
  MinT = 10
  Maint = 1000
  MaxDelay = 1
  Quantum = 2
  MaxTime = 30
  Rule = "sum"
  Cfgs = {"A"}
  InitCfg = "A"
  RL = "safe"
  Off = {"nflgossip"}
  Lim <- NoFaults
VIEW View
INVARIANTS AtLeastOnce NoDuplicateWhenHealthy SilenceSurvivesRestart NoRepeatAfterRestart ReadyEventually RoutedByConfigInForce StatusShowsConfigInForce ReceiversAgree Sane
CHECK_DEADLOCK FALSE
