SPECIFICATION Spec
CONSTANTS
  Sym = {"l", "eq", "dq", "com", "ob", "cb"}
  L = 5
  LV = 0
  LN = 0
  MaxEdit = 0
  Pick <- PickAll
INVARIANTS TypeOK RunAgrees
PROPERTIES StepsProgress
CHECK_DEADLOCK FALSE
