SPECIFICATION GenSpec
CONSTANTS
  RT = 3
  Limit = 0
  StaleRule = "impl"
  LabelsOf <- MCLabels
  CanonIds <- MCCanon13x
  MaxTime = 40
  HistLen = 40
  Pick <- PickOne
  KnownGaps = {}
  Variants = {"L1", "L1e", "L2", "L2e", "L3", "Lbad", "Lnone"}
  Variants2 = {}
  StartOffs = {0, 1, 2, 3, 4, 5}
  EndOffs = {0, 1, 2, 3, 4, 5, 7}
  FixedStart <- Unset
  MaxBatch = 3
  SameInstant = FALSE
  GCPers = {1, 2, 3, 5, 100}
  Ops = {"postn", "sil"}
INVARIANTS Emit
CHECK_DEADLOCK FALSE
