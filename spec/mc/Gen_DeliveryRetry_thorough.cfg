SPECIFICATION GenSpec
CONSTANTS
  Timeout = 300
  SlowDelay = 80
  HangDelay = 700
  TimeoutRecoverable = TRUE
  MaxLenWebhook = 4
  MaxLenPagerduty = 3
  Deadlines = {450, 1600, 2900}
  CancelDeadline = 2900
  Cancels = {130, 950}
INVARIANTS Emit
CHECK_DEADLOCK FALSE
