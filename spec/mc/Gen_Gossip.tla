----------------------------- MODULE Gen_Gossip -----------------------------
(* Generation of network schedules for the conformance harness (harness/c19): *)
(* the actions of Gossip.tla plus a history variable; every complete          *)
(* behaviour is printed as one JSON line.  Each element of hist holds the     *)
(* operation with its arguments and expected replies (last), and the abstract  *)
(* state after it: the merged updates of every node and, per node, what the    *)
(* harness can observe of the transport (length of the gossip queue, length of *)
(* the oversize queue, pending reliable sends, counters).                      *)
EXTENDS MC_Gossip
CONSTANT HistLen
VARIABLE hist

P(S) == IF S = {} THEN {} ELSE {RandomElement(S)}

Q(n) == [gq |-> Cardinality(tr'[n].gq),
         ov |-> [k \in Keys |-> [oq |-> QLen(tr'[n].ov[k].oq), pend |-> tr'[n].ov[k].hand.pend,
                                dropped |-> tr'[n].ov[k].dropped, sent |-> tr'[n].ov[k].sent, failed |-> tr'[n].ov[k].failed]]]
Obs == [e |-> last', up |-> up', st |-> st', q |-> [n \in Nodes |-> Q(n)],
        gap |-> (last'.op = "injectfull" /\ last'.blocked /\ F5Gap(last'.fs))]
Obs0 == [e |-> [op |-> "init", nodes |-> Nodes, initup |-> InitUp,
                dlen |-> [u \in Updates |-> DLen[u]], ukey |-> [u \in Updates |-> UKey[u]],
                foreign |-> Foreign, cap |-> OversizeCap, txlimit |-> TxLimit,
                glimit |-> GLimit, goverhead |-> GOverhead, maxpacket |-> MaxPacket],
         up |-> InitUp, st |-> [n \in Nodes |-> [k \in Keys |-> {}]],
         q |-> [n \in Nodes |-> [gq |-> 0, ov |-> [k \in Keys |-> [oq |-> 0, pend |-> {}, dropped |-> 0, sent |-> 0, failed |-> 0]]]],
         gap |-> FALSE]

GenInit == Init /\ hist = <<Obs0>>

\* parts of an injected full state: bad ones, foreign ones, and parts seen before
PartsNow == PartU \cup {GoodPart(u) : u \in Held(st)}
NotNone(x) == x.kind # "none"
FullOf(a, b, c) == [kind |-> "full", parts |-> SelectSeq(<<a, b, c>>, NotNone)]
None == Bad("none", "")

\* one candidate per kind of step, so that the kinds are equally likely in simulation
GenStep ==
  \/ \E n \in P(up), u \in P({x \in Updates \ Foreign : born[x].r = 0}) : Broadcast(n, u)
  \/ (used.burst < MaxBurst /\
        \E n \in P({x \in up : Busy(tr[x])}) :
          \E u \in P({x \in HeldBy(n) : Oversized(PartLen(DLen[x])) /\ tr[n].ov[UKey[x]].hand.pend # {}}), k \in P(BurstSizes) : Burst(n, u, k))
  \/ (Cardinality(net) < MaxNet /\ \E n \in P({x \in up : tr[x].gq # {}}) : \E p \in P(view[n] \ served[n]) : Gossip(n, p))
  \/ \E pk \in P(net) : Deliver(pk, FALSE)
  \/ (used.dup < MaxDup /\ \E pk \in P(net) : Deliver(pk, TRUE))
  \/ \E pk \in P(net) : (IF pk.to \in up THEN used.lose < MaxLose ELSE TRUE) /\ Lose(pk)
  \/ \E n \in P({x \in up : Busy(tr[x])}) : \E k \in P({x \in Keys : tr[n].ov[x].hand.pend # {}}) :
        \E p \in P(tr[n].ov[k].hand.pend) : SendReliable(n, k, p)
  \/ (PPOn /\ \E a \in P(up) : \E b \in P({x \in up \ {a} : {a, x} \notin ppdone}) : PushPull(a, b))
  \/ (PPOn /\ EndSweep)
  \/ (used.crash < MaxCrash /\ \E n \in P(up) : Crash(n))
  \/ \E n \in P(Nodes \ up) : \E m \in P({x \in up : n \in view[x]}) : Detect(m, n)
  \/ \E n \in P(Nodes \ up), s \in P(up), keep \in P(BOOLEAN) : Join(n, s, keep)
  \/ (used.inject < MaxInject /\ \E n \in P(up), p \in P(BadMsgs \cup Replays) : InjectMsg(n, p))
  \/ (used.inject < MaxInject /\
        \E n \in P(up), a \in P(PartsNow), b \in P(PartsNow \cup {None}), c \in P(PartsNow \cup {None}) :
           InjectFull(n, FullOf(a, b, c)))
  \/ (used.inject < MaxInject /\ \E n \in P(up) : InjectFull(n, [kind |-> "trunc", parts |-> << >>]))
  \/ EndRound

GenNext == /\ Len(hist) < HistLen
           /\ GenStep
           /\ hist' = Append(hist, Obs)
GenSpec == GenInit /\ [][GenNext]_<<vars, hist>>
Emit == Len(hist) = HistLen => PrintT("@@H " \o ToJson(hist))
=============================================================================
