----------------------------- MODULE MC_Routing -----------------------------
(* Bounded tree spaces for Routing: exhaustive checking of the structural   *)
(* theorems (MC) and generation of cases for replay on the real code (Gen). *)
EXTENDS Routing, Json

PickAll(S) == S
PickOne(S) == {RandomElement(S)}

D(rcv, gbo, gb, gw, gi, ri, lbl) ==
  [rcv |-> rcv, gbo |-> gbo, gb |-> gb, gw |-> gw, gi |-> gi, ri |-> ri, lbl |-> lbl]
L(n, v) == [n |-> n, v |-> v]

DecosNone  == {NoDeco}
DecosFour  == { NoDeco,
                D(<<"r1">>, "list", <<"a">>, <<10>>, << >>, << >>, << >>),
                D(<< >>, "all", << >>, << >>, << >>, <<3600>>, <<L("team", "y")>>),
                D(<<"r2">>, "list", << >>, <<0>>, <<60>>, << >>, <<L("team", "z"), L("sev", "1")>>) }
DecosSmall == DecosFour \cup {
                D(<< >>, "inherit", << >>, << >>, <<120>>, <<600>>, <<L("sev", "2")>>),
                D(<<"r1">>, "list", <<"b", "c">>, << >>, << >>, << >>, << >>) }
DecosAll   == [ rcv : {<< >>, <<"r1">>, <<"r2">>},
                gbo : {"inherit", "list", "all"},
                gb  : {<< >>, <<"a">>, <<"b", "c">>},
                gw  : {<< >>, <<0>>, <<10>>},
                gi  : {<< >>, <<60>>, <<120>>},
                ri  : {<< >>, <<600>>, <<3600>>},
                lbl : {<< >>, <<L("team", "y")>>, <<L("team", "z"), L("sev", "1")>>, <<L("sev", "2")>>} ]

RootDecosOne   == { D(<<"r0">>, "inherit", << >>, << >>, << >>, << >>, << >>) }
RootDecosSmall == { D(<<"r0">>, "inherit", << >>, << >>, << >>, << >>, << >>),
                    D(<<"r0">>, "list", <<"a", "b">>, <<5>>, <<50>>, <<500>>, <<L("team", "root")>>),
                    D(<<"r0">>, "all", << >>, << >>, << >>, <<700>>, << >>) }
RootDecosAll   == {d \in DecosAll : d.rcv = <<"r1">>}     \* the root names a receiver

\* MC: the subtrees that may be put under the root, evaluated once
Level1 == Sub(Depth - 1)
Next == AddChild(Level1)
Spec == Init /\ [][Next]_vars
=============================================================================
