SPECIFICATION GenSpec
CONSTANTS
  Ids = {"A", "B", "C", "D", "E"}
  InitUp = {"A", "B", "C"}
  Small = {"s1", "s2", "s3"}
  Big = {"b1", "b2", "b3", "b4"}
  Fanout = 3
  TxLimit = 3
  SendList = "current"
  OnTimeout = "ready"
  OkayRequired = 3
  Budgets = {0, 2, 8}
  MaxStop = 2
  Transport = "tls"
  Redial = "on_failure"
  MaxReset = 2
  MaxJoin = 2
  HistLen = 26
  UOrder <- MCOrder
INVARIANTS Emit Delivered Readiness Sane
PROPERTIES JoinGetsAll FlushPasses
CHECK_DEADLOCK FALSE
