SPECIFICATION Spec
CONSTANTS
  Nodes = {"A", "B"}
  Ids = {"s1", "s2"}
  Retention = 1
  MaxTime = 3
  MaxNet = 1
  CreateLen = 2
VIEW View
CONSTRAINT Bound
INVARIANTS NewestHeld NoStale Converged
PROPERTIES NeverOlder NoPastRetention RemergeSilent
CHECK_DEADLOCK FALSE
