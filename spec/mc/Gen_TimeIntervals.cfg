SPECIFICATION GenSpec
CONSTANTS
  Seed = 1
  NRandom = 12
  Years = {1999, 2000, 2001, 2004, 2023, 2024, 2025, 2032, 2096, 2099, 2100, 2101}
  FullYears = {2000, 2024, 2100}
  GateYears = {2000, 2023, 2024, 2100}
INVARIANTS Emit
CHECK_DEADLOCK FALSE
