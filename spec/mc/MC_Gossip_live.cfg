SPECIFICATION LiveSpec
CONSTANTS
  Nodes = {"A", "B"}
  InitUp = {"A", "B"}
  Updates = {"s1", "s4"}
  Foreign = {}
  MaxPacket = 1400
  TxLimit = 3
  GOverhead = 3
  GLimit = 1398
  OversizeCap = 1
  D = 2
  MaxRound = 2
  MaxNet = 2
  MaxLose = 1
  MaxDup = 0
  MaxCrash = 0
  MaxInject = 0
  MaxBurst = 0
  MaxSweep = 1
  PPOn = TRUE
  BurstSizes = {2, 3}
  FullLen = 3
  PartKinds = {"garbage"}
  UKey <- AllKey
  DLen <- AllLen
PROPERTIES DeliveredEventually
CHECK_DEADLOCK FALSE
