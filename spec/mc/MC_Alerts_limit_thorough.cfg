SPECIFICATION Spec
CONSTANTS
  RT = 2
  Limit = 3
  StaleRule = "impl"
  LabelsOf <- MCLabels
  CanonIds <- MCCanonF4
  MaxTime = 3
  Pick <- PickAll
  KnownGaps = {"F4"}
  Variants = {"F1", "F2", "F3", "F4"}
  Variants2 = {}
  StartOffs = {0}
  EndOffs = {0, 2, 4, 7}
  FixedStart = 0
  MaxBatch = 1
  SameInstant = TRUE
  Ops = {"post1", "tickgc", "tick"}
VIEW View
INVARIANTS WellFormed BucketOK BucketAgrees LimitHoldsOrKnown OrphansOnlyByStaleDrop NoOrphans
PROPERTIES BestEffort RefusalCounted RefusalChangesNothing ResendAcceptedOrKnown RoomOnlyByExpiryOrKnown OnlyResolvedCollected
CHECK_DEADLOCK FALSE
