------------------------------ MODULE Gen_Nflog -----------------------------
EXTENDS MC_Nflog
(* Gen: complete histories of HistLen operations, one JSON line each.       *)
VARIABLE hist
GenInit == Init /\ hist = << >>
Obs == [e |-> last', t |-> now', bc |-> bcast', st |-> st']
GenNext == /\ Len(hist) < HistLen
           /\ \/ Next
              \/ \E k \in Pick(Keys) : Query(k)
              \/ \E k \in Pick(Keys) : Tamper(k)
           /\ hist' = Append(hist, Obs)
GenSpec == GenInit /\ [][GenNext]_<<vars, hist>>
Emit == Len(hist) = HistLen => PrintT("@@H " \o ToJson(hist))
=============================================================================
