SPECIFICATION Spec
CONSTANTS
  Ids = {"A", "B", "C"}
  InitUp = {"A", "B", "C"}
  Small = {"s1", "s2"}
  Big = {}
  Fanout = 3
  TxLimit = 3
  SendList = "current"
  OnTimeout = "ready"
  OkayRequired = 3
  Budgets = {0}
  MaxStop = 0
  Transport = "tls"
  Redial = "on_failure"
  MaxReset = 1
  MaxJoin = 0
  UOrder <- MCOrder
VIEW View
INVARIANTS Delivered Readiness Sane
PROPERTIES JoinGetsAll FlushPasses
CHECK_DEADLOCK FALSE
