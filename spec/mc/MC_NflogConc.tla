---------------------------- MODULE MC_NflogConc ----------------------------
(* Bounded configuration of NflogConc: a few threads issue a bounded number *)
(* of calls on one log; the properties of C10 hold for EVERY interleaving   *)
(* of calls, linearization points and returns.                              *)
(*                                                                          *)
(* GCMode = "split" is the garbage collection that scans under the read     *)
(* lock and deletes under the write lock without looking again (seeded      *)
(* C10-4): it MUST be refuted (KeptUntilExpiry / NewestHeld), which shows    *)
(* that the properties are sensitive to the atomicity the specification     *)
(* demands.                                                                  *)
EXTENDS NflogConc

CONSTANTS Keys, MaxTime, MaxCalls, RemoteRetention, GCMode,
          Payloads     \* Payloads1 (quick) or Payloads2

VARIABLE calls

Payloads1 == { [f |-> {1}, r |-> {}, d |-> "none"] }
Payloads2 == { [f |-> {1}, r |-> {}, d |-> "none"], [f |-> {}, r |-> {1}, d |-> "str"] }
Expiries == {0, 2}
RemoteTs == {t \in 0 .. MaxTime : t % 2 = 1}
Pool == { [k |-> k, ts |-> ts, exp |-> ts + RemoteRetention, f |-> {3}, r |-> {}, d |-> "int"]
          : k \in Keys, ts \in RemoteTs }
Batches == {{a} : a \in Pool} \cup {{a, b} : a, b \in Pool}

\* split GC: phase 1 remembers the collectable keys, phase 2 deletes them blindly
SplitGCCall == [op |-> "gc", t |-> now, done |-> FALSE, res |-> NoRes, ph |-> 0, D |-> {}]
Scan(g) ==
  /\ pend[g] # Idle /\ pend[g].op = "gc" /\ ~pend[g].done /\ pend[g].ph = 0
  /\ pend' = [pend EXCEPT ![g] = [@ EXCEPT !.ph = 1,
                                             !.D = {k \in DOMAIN st : Collectable(st[k], pend[g].t)}]]
  /\ UNCHANGED vars
Delete(g) ==
  /\ pend[g] # Idle /\ pend[g].op = "gc" /\ ~pend[g].done /\ pend[g].ph = 1
  /\ st' = [k \in DOMAIN st \ pend[g].D |-> st[k]]
  /\ last' = [op |-> "gc", n |-> Cardinality(pend[g].D)]
  /\ pend' = [pend EXCEPT ![g] = [@ EXCEPT !.done = TRUE, !.res = [n |-> Cardinality(pend[g].D)]]]
  /\ UNCHANGED <<now, top, bcast>>

NewCall(g) ==
  \/ \E k \in Keys, p \in Payloads, x \in Expiries : Call(g, LogCall(k, p, x))
  \/ \E B \in Batches : DistinctKeys(B) /\ Call(g, MergeCall(B))
  \/ Call(g, IF GCMode = "split" THEN SplitGCCall ELSE GCCall)
  \/ \E k \in Keys : Call(g, QueryCall(k))
  \/ Call(g, SnapCall)

Next ==
  \/ \E g \in Threads : calls < MaxCalls /\ NewCall(g) /\ calls' = calls + 1
  \/ \E g \in Threads : /\ ~(GCMode = "split" /\ pend[g] # Idle /\ pend[g].op = "gc")
                        /\ Lin(g) /\ UNCHANGED calls
  \/ \E g \in Threads : GCMode = "split" /\ (Scan(g) \/ Delete(g)) /\ UNCHANGED calls
  \/ \E g \in Threads : Ret(g) /\ UNCHANGED calls
  \/ (now < MaxTime /\ CTick(2) /\ UNCHANGED calls)

Spec == CInit /\ calls = 0 /\ [][Next]_<<cvars, calls>>

View == <<now, st, top, pend, calls>>

\* what a caller may rely on: after the RETURN of a Log that stored its entry,
\* a Query that is CALLED later finds an entry at least as new while that entry
\* has not expired (follows from NewestHeld + linearization inside the call)
=============================================================================
