---------------------------- MODULE MC_Silences -----------------------------
(* Bounded configuration of Silences for exhaustive checking and generation. *)
EXTENDS Silences, Json

CONSTANTS MaxTime, RemoteRetention, DerivedUpd(_), Pick(_), KnownGaps,
          LS,        \* label sets queried (alerts)
          MSV, MSI,  \* valid / invalid matcher sets used by Set
          Cmts, StartOffs, EndOffs, PoolIds, Ops, Vias
PickAll(S) == S
DerivedBoth(t) == {t - 1, t}
DerivedNewer(t) == {t}
PickOne(S) == {RandomElement(S)}
MCLocalIds == <<"s1", "s2">>
MCLocalIds1 == <<"s1">>
MCLocalIds6 == <<"s1", "s2", "s3", "s4", "s5", "s6">>


R(id, ms, start, end, upd) ==
  [id |-> id, ms |-> ms, start |-> start, end |-> end, upd |-> upd, exp |-> end + RemoteRetention, cmt |-> "r"]

\* versions of silences created and edited on a peer
PoolAll == { R("r1", "M1", 1, 3, 1), R("r1", "M1", 1, 6, 2), R("r1", "M1", 1, 4, 4),
             R("r2", "M4", 5, 7, 0), R("r2", "M4", 5, 5, 3) }
Pool == {e \in PoolAll : e.id \in PoolIds}
\* a peer's edit of a silence this instance holds: newer or older update time,
\* end moved before or after now
Derived == { [st[id] EXCEPT !.upd = u, !.end = e, !.exp = e + RemoteRetention, !.cmt = "r"] :
               id \in DOMAIN st, u \in DerivedUpd(now), e \in {now - 1, now + 2} }
DerivedOK == {d \in Derived : d.upd >= 0 /\ d.end >= d.start /\ d.upd # st[d.id].upd}
Batches == {{a} : a \in Pool \cup DerivedOK} \cup {{a, b} : a \in Pool, b \in DerivedOK}

Times == 0 .. MaxTime
Starts(t) == {Unset} \cup ({t + o - 3 : o \in StartOffs} \cap Times)   \* offsets are shifted by 3 (cfg files have no negative numbers)
Ends(t)   == {t + o - 1 : o \in EndOffs} \cap Times

\* No two writes to one id at one instant (a nanosecond clock never does that;
\* under last-writer-wins with a strict comparison the second would be dropped).
Quiet(id) == id \notin DOMAIN st \/ st[id].upd # now

SetOp == \E id \in Pick({""} \cup DOMAIN st \cup {"nosuch"}), ms \in Pick(MSV \cup MSI),
            s \in Pick(Starts(now)), e \in Pick(Ends(now)), c \in Pick(Cmts), via \in Pick(Vias) :
           /\ (IF id \in DOMAIN st THEN st[id].upd # now ELSE TRUE)
           \* the API carries one matcher set, an explicit start, and ids in UUID form
           /\ (via = "api" => (Len(MSets[ms]) = 1 /\ s # Unset /\ id \notin {"r1", "r2"}))
           /\ SetV(id, ms, s, e, c, via)
\* an edit that keeps every matcher's name and pattern and changes only an operator
Twin(ms) == CASE ms = "M2" -> "M7" [] ms = "M7" -> "M2" [] ms = "M3" -> "M8" [] ms = "M8" -> "M3" [] OTHER -> ms
TwinOp == \E id \in Pick({x \in DOMAIN st : Twin(st[x].ms) # st[x].ms /\ Twin(st[x].ms) \in MSV /\ st[x].upd # now}),
             e \in Pick(Ends(now)), via \in Pick(Vias) :
            /\ (via = "api" => (Len(MSets[Twin(st[id].ms)]) = 1 /\ id \notin {"r1", "r2"}))
            /\ SetV(id, Twin(st[id].ms), st[id].start, e, "c1", via)
ExpireOp == \E id \in Pick(DOMAIN st \cup {"nosuch"}) :
           (IF id \in DOMAIN st THEN st[id].upd # now ELSE TRUE) /\ Expire(id)
MergeOp == \E B \in Pick(Batches), big \in Pick(BOOLEAN) : Merge(B, big)
MutesOp == \E ls \in Pick(LS) : Mutes(ls)
AlertGCOp == \E ls \in Pick(LS) : AlertGC({ls})

Next == \/ ("set" \in Ops /\ SetOp)
        \/ ("set" \in Ops /\ TwinOp)
        \/ ("expire" \in Ops /\ ExpireOp)
        \/ ("merge" \in Ops /\ MergeOp)
        \/ ("gc" \in Ops /\ GC)
        \/ ("restart" \in Ops /\ Restart)
        \/ ("mutes" \in Ops /\ MutesOp)
        \/ ("alertgc" \in Ops /\ AlertGCOp)
        \/ (now < MaxTime /\ Tick(1))

Spec == Init /\ [][Next]_vars
View == <<now, st, version, vi, mi, cache, nid>>

-----------------------------------------------------------------------------
(* F1: the stored version of id was installed over an existing version      *)
(* without a version bump, and the cache entry of ls, evaluated when the id *)
(* was not live, does not list it.  Checked as MuteVerdictExact \/ F1Gap.   *)
F1Gap(ls, ids, ref) ==
  /\ ids \subseteq ref
  /\ \A id \in ref \ ids :
       /\ ls \in DOMAIN cache
       /\ id \notin cache[ls].ids
       /\ \E i \in 1..Len(vi) : vi[i].id = id /\ vi[i].v <= cache[ls].v
MuteVerdictExactOrKnown ==
  [][last'.op = "mutes" =>
       \/ last'.ids = last'.ref
       \/ ("F1" \in KnownGaps /\ F1Gap(last'.ls, last'.ids, last'.ref))]_vars
=============================================================================
