----------------------------- MODULE MC_Delivery -----------------------------
(* Bounded universes for Delivery (payload half of C20).                    *)
(* MC: every case of the universes is one state `c` (a successor of a root  *)
(* state); the laws of the statement are invariants, checked by TLC on the  *)
(* reference AND on the implementation-shaped definitions (the latter as    *)
(* P \/ KnownGap: EmptyValueGap, F6Gap).                                    *)
(* Gen_Delivery prints cases with the expected payloads as JSON.            *)
EXTENDS Delivery, TLC, Json

CONSTANTS LNames, LVals,   \* label names / values (values never empty: the API strips empty labels)
          ANames, AVals,   \* annotation names / values (may contain "")
          KNames, KVals,   \* MC only: key/value universe of the CommonLabels theorems
          MaxKV,           \* MC only: longest sequence of key/value sets
          MaxBatch,        \* longest batch enumerated exhaustively
          MaxStr,          \* every width sequence up to this length is enumerated
          MaxRep,          \* uniform strings w^k up to k = MaxRep
          Ends,            \* the kinds of alert ends of the universe (subset of AllEnds)
          Pick(_)          \* PickAll: exhaustive; PickOne: one random element (simulation)
PickAll(S) == S
PickOne(S) == {RandomElement(S)}

KVs(N, V) == UNION {[D -> V] : D \in SUBSET N}
LabelU    == {kv \in KVs(LNames, LVals) : DOMAIN kv # {}}   \* an alert has at least one label
AnnU      == KVs(ANames, AVals)
ASSUME Ends \subseteq AllEnds
AlertU    == [l : LabelU, a : AnnU, end : Ends]
GroupU    == {NoKV, [a |-> "x"]}
Widths    == 1 .. 4

SeqsUpTo(S, n) == UNION {[1 .. m -> S] : m \in 0 .. n}
Rep(w, k)      == [i \in 1 .. k |-> w]
Limits(s)      == 0 .. (Bytes(s) + 2)

-----------------------------------------------------------------------------
(* MC: one case per state.                                                  *)
\* (Initial states are evaluated by one thread; so the initial states are "roots"
\* - the first element of the sequence of a case - and the cases are their
\* successors, generated and checked by all workers.)
VARIABLE c
KVU == KVs(KNames, KVals)
From(S, h, n) == {<<h>> \o t : t \in SeqsUpTo(S, n - 1)}   \* sequences over S of length 1 .. n starting with h
Roots ==
  {[k |-> "root", kind |-> "empty"]}
  \cup (IF MaxKV > 0 THEN {[k |-> "root", kind |-> "kv", kv |-> h] : h \in KVU} ELSE {})
  \cup (IF MaxBatch > 0 THEN {[k |-> "root", kind |-> "batch", al |-> h] : h \in AlertU} ELSE {})
  \cup (IF MaxStr > 0 THEN {[k |-> "root", kind |-> "str", w1 |-> h[1], w2 |-> h[2]] : h \in Widths \X Widths} ELSE {})
  \cup (IF MaxRep > 0 THEN {[k |-> "root", kind |-> "rep", w |-> h] : h \in Widths} ELSE {})
BatchCase(bs) == [k : {"batch"}, b : bs, sr : BOOLEAN, max : 0 .. (MaxBatch + 1)]
StrCase(ss)   == UNION {{[k |-> "str", s |-> s, n |-> n] : n \in Limits(s)} : s \in ss}
CasesOf(r) ==
  CASE r.kind = "empty" -> [k : {"kv"}, kvs : {<< >>}] \cup BatchCase({<< >>})
                           \cup StrCase({<< >>} \cup {<<w>> : w \in Widths})
    [] r.kind = "kv"    -> [k : {"kv"}, kvs : From(KVU, r.kv, MaxKV)]
    [] r.kind = "batch" -> BatchCase(From(AlertU, r.al, MaxBatch))
    [] r.kind = "str"   -> StrCase({<<r.w1, r.w2>> \o t : t \in SeqsUpTo(Widths, MaxStr - 2)})
    [] r.kind = "rep"   -> StrCase({Rep(r.w, j) : j \in 0 .. MaxRep})
Init == c \in Roots
Next == c.k = "root" /\ c' \in CasesOf(c)
Spec == Init /\ [][Next]_c

\* --- common labels / annotations
Perms == [n \in 0 .. 4 |-> {p \in [1 .. n -> 1 .. n] : \A i, j \in 1 .. n : p[i] = p[j] => i = j}]
KVLaws == c.k = "kv" =>
  LET kvs == c.kvs IN
  /\ CommonLaw(kvs, CommonRef(kvs))                                    \* the reference is the intersection
  /\ \A p \in Perms[Len(kvs)] : CommonRef([i \in 1 .. Len(kvs) |-> kvs[p[i]]]) = CommonRef(kvs)
  /\ (CommonImpl(kvs) = CommonRef(kvs)) <=> ~EmptyValueGap(kvs)       \* code = reference except on the gap
  /\ PairsOf(CommonRef(kvs)) \subseteq PairsOf(CommonImpl(kvs))
  /\ (\A i \in 1 .. Len(kvs) : \A k \in DOMAIN kvs[i] : kvs[i][k] # "") => ~EmptyValueGap(kvs)

\* --- payload of a batch
BatchLaws == c.k = "batch" =>
  LET b   == c.b
      all == Indices(Len(b))
      d   == DataRef(b, all, NoKV)
      w   == WebhookRef(c.sr, c.max, b, NoKV)
      wi  == WebhookImpl(c.sr, c.max, b, NoKV)
      elig == IF c.sr THEN all ELSE FiringIdx(b, all)
  IN
  /\ d.idx = all /\ StatusLaw(b, d) /\ PartitionLaw(b, d)
  \* where the end came from (client / resolve_timeout) makes no difference
  /\ \A i \in 1 .. Len(b) : (AlertStatus(b[i]) = "resolved") <=> (b[i].end \in {"past", "tpast"})
  /\ (d.status = "resolved") <=> (\A i \in 1 .. Len(b) : b[i].end \in {"past", "tpast"})
  /\ CommonLaw(LabelsOf(b, all), d.cl) /\ CommonLaw(AnnsOf(b, all), d.ca)
  /\ TruncateLaw(c.max, elig, TruncateAlerts(c.max, elig))
  \* what is posted: the eligible alerts cut to max_alerts, in order, the rest counted
  /\ w.sent <=> (c.sr \/ \E i \in 1 .. Len(b) : Firing(b[i]))
  /\ w.sent => /\ w.data.idx = SubSeq(elig, 1, Len(w.data.idx))
               /\ w.dropped = Len(elig) - Len(w.data.idx)
               /\ (c.max = 0 => w.dropped = 0)
               /\ (c.max # 0 => Len(w.data.idx) <= c.max /\ (w.dropped > 0 => Len(w.data.idx) = c.max))
               /\ StatusLaw(b, w.data) /\ PartitionLaw(b, w.data)
               /\ CommonLaw(LabelsOf(b, w.data.idx), w.data.cl)
               /\ CommonLaw(AnnsOf(b, w.data.idx), w.data.ca)
               /\ (~c.sr => w.data.resolved = << >> /\ w.data.status = "firing")
  \* the implementation differs from the reference only in the common sets, only on the gap
  /\ [wi EXCEPT !.data.cl = << >>, !.data.ca = << >>] = [w EXCEPT !.data.cl = << >>, !.data.ca = << >>]
  /\ wi.data.cl = w.data.cl          \* label values are never empty
  /\ (wi.data.ca = w.data.ca) <=> ~EmptyValueGap(AnnsOf(b, w.data.idx))

\* --- text truncation
StrLaws == c.k = "str" =>
  LET s == c.s
      n == c.n
      r == TruncateRunes(s, n)
      q == TruncateBytesRef(s, n)
      i == TruncateBytesImpl(s, n)
  IN
  /\ RunesLaw(s, n, r) /\ RunesDoc(s, n, r)
  /\ BytesLaw(s, n, q) /\ BytesDoc(s, n, q) /\ FitLaw(s, n)
  /\ i.oob <=> F6Gap(s, n)                       \* the code goes out of bounds exactly on the F6 class
  /\ ~i.oob => i.r = q                           \* ... and is the reference everywhere else
  /\ (BytesLaw(s, n, i.r) /\ ~i.oob) \/ F6Gap(s, n)

-----------------------------------------------------------------------------
(* Expected payloads, as printed by Gen_Delivery.                           *)
RuneExp(s, r)  == [k |-> r.k, kb |-> PrefixBytes(s, r.k), ell |-> r.ell, dots |-> r.dots, trunc |-> r.trunc]
StrObsAt(s, N) ==
  [k |-> "str", w |-> s, bytes |-> Bytes(s),
   e |-> LET ns == SelectSeq([j \in 1 .. (Bytes(s) + 3) |-> j - 1], LAMBDA n : n \in N) IN
         [j \in 1 .. Len(ns) |->
            [n |-> ns[j],
             r |-> RuneExp(s, TruncateRunes(s, ns[j])),
             b |-> RuneExp(s, TruncateBytesRef(s, ns[j])),
             gap |-> F6Gap(s, ns[j])]]]
StrObs(s) == StrObsAt(s, Limits(s))

DataExp(b, idx, gl) ==
  LET r == DataRef(b, idx, gl)
      i == DataImpl(b, idx, gl)
  IN [status |-> r.status, idx |-> r.idx, firing |-> r.firing, resolved |-> r.resolved,
      cl |-> r.cl, ca |-> r.ca, gl |-> r.gl,
      icl |-> i.cl, ica |-> i.ca,                                  \* what the code's algorithm yields
      gapl |-> EmptyValueGap(LabelsOf(b, idx)), gapa |-> EmptyValueGap(AnnsOf(b, idx))]
BatchObs(b, gl, sr, max) ==
  LET w == WebhookRef(sr, max, b, gl) IN
  [k |-> "batch", alerts |-> b, gl |-> gl, sr |-> sr, max |-> max,
   sts |-> [i \in 1 .. Len(b) |-> AlertStatus(b[i])],             \* per alert: status and which end is shown
   ends |-> [i \in 1 .. Len(b) |-> ExposedEnd(b[i])],
   td |-> DataExp(b, Indices(Len(b)), gl),                        \* notify.GetTemplateData on the whole batch
   wh |-> [sent |-> w.sent, dropped |-> w.dropped, data |-> DataExp(b, w.data.idx, gl)]]
=============================================================================
