SPECIFICATION DupSpec
CONSTANTS
  RT = 3
  Limit = 0
  StaleRule = "impl"
  LabelsOf <- MCLabels
  CanonIds <- MCCanon13
  MaxTime = 6
  HistLen = 3
  T0 = 2
  Pick <- PickAll
  KnownGaps = {}
  Variants = {"L1"}
  Variants2 = {}
  StartOffs = {0, 1, 2, 3, 4, 5}
  EndOffs = {0, 1, 2, 3, 4, 5, 7}
  FixedStart <- Unset
  MaxBatch = 2
  SameInstant = FALSE
  GCPers = {100}
  Ops = {"post1", "postdup", "postsame"}
INVARIANTS Emit
CHECK_DEADLOCK FALSE
