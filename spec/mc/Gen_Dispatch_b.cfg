\* quick: fire / resolve / re-fire / resolve, 3 workers, at most 1 preemption (296 schedules)
SPECIFICATION GSpec
CONSTANTS
  Workers <- GenWorkers
  NW = 3
  NVersions = 4
  Resolved = {2, 4}
  MaxGroups = 4
  MonotonicSet = FALSE
  MaxFlush = 2
  MaxMaint = 1
  MaxPreempt = 1
  Eager = {"Create", "FlushNotify"}
INVARIANTS Emit InOrderLatest
CHECK_DEADLOCK FALSE
