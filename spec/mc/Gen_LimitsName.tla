--------------------------- MODULE Gen_LimitsName ---------------------------
(***************************************************************************)
(* Behaviours of LimitsName for the replay on the real provider + API.      *)
(*  GenSpec (simulation, Pick <- PickOne): new alerts, re-sends and ticks in *)
(*    random order, N up to 6, end offsets from >= 5 values.                *)
(*  ExhSpec (exhaustive, Pick <- PickAll): the family fill / wait / probe:  *)
(*    Fill alerts a1..aFill of one name submitted at instant 0 with EVERY   *)
(*    assignment of end times from FillEnds (= every admission order of the *)
(*    end times; pairwise distinct ones only if Distinct), then Wait ticks  *)
(*    for EVERY Wait in Waits (every instant between and after the          *)
(*    expiries), then the probe: Fresh new alerts and a re-send of each of  *)
(*    a1..aFill.  The GC period of the behaviour is every element of GCPers *)
(*    (1 = alert GC between any two instants).                              *)
(***************************************************************************)
EXTENDS MC_LimitsName
CONSTANTS HistLen, Fill, FillEnds, Distinct, Waits, Fresh
VARIABLES hist, wait
ASSUME PrintT("@@L " \o ToJson([n |-> N, names |-> [i \in Ids |-> NameOf(i)]]))

UnexpiredMap == [nm \in Names |-> [i \in Unexpired(nm)' |-> adm'[i]]]
Obs == [e |-> last', t |-> now', g |-> gcper', lim |-> limited', u |-> UnexpiredMap]

GenInit == Init /\ hist = << >> /\ wait = 0
GenNext == Len(hist) < HistLen /\ Next /\ hist' = Append(hist, Obs) /\ UNCHANGED wait
GenSpec == GenInit /\ [][GenNext]_<<vars, hist, wait>>
Emit == Len(hist) = HistLen => PrintT("@@H " \o ToJson(hist))

\* ---- fill / wait / probe
IdSeq == <<"a1", "a2", "a3", "a4", "a5", "a6", "a7", "a8", "a9", "a10", "a11", "a12">>
ExhLen == Fill + wait + Fresh + Fill
ExhInit == Init /\ hist = << >> /\ wait \in Waits
ExhStep ==
  LET k == Len(hist) + 1 IN
    IF k <= Fill
      THEN \E e \in FillEnds : /\ Distinct => \A j \in 1..(k - 1) : hist[j].e.end # e
                               /\ Post(IdSeq[k], e)
    ELSE IF k <= Fill + wait THEN Tick
    ELSE IF k <= Fill + wait + Fresh THEN Post(IdSeq[k - wait], now + 2)
    ELSE Post(IdSeq[k - Fill - wait - Fresh], now + 3)
ExhNext == Len(hist) < ExhLen /\ ExhStep /\ hist' = Append(hist, Obs) /\ UNCHANGED wait
ExhSpec == ExhInit /\ [][ExhNext]_<<vars, hist, wait>>
ExhEmit == Len(hist) = ExhLen => PrintT("@@H " \o ToJson(hist))
=============================================================================
