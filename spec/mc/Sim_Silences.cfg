SPECIFICATION GenSpec
CONSTANTS
  Retention = 2
  RemoteRetention = 2
  MaxSilences = 4
  LocalIds <- MCLocalIds6
  MaxTime = 12
  HistLen = 40
  Pick <- PickOne
  DerivedUpd <- DerivedBoth
  KnownGaps = {}
  LS = {"L1", "L2", "L3", "L4", "L5", "L6"}
  MSV = {"M1", "M2", "M3", "M4", "M5", "M6", "M7", "M8"}
  MSI = {"MBadEmpty", "MBadRe", "MNone"}
  Cmts = {"c1", "c2", "big"}
  StartOffs = {0, 2, 3, 4}
  EndOffs = {0, 2, 4}
  PoolIds = {"r1", "r2"}
  Vias = {"lib", "api"}
  Ops = {"set", "expire", "merge", "gc", "restart", "mutes", "alertgc"}
INVARIANTS Emit
CHECK_DEADLOCK FALSE
