SPECIFICATION Spec
CONSTANTS
  Keys = {"g1:r/webhook/0", "g1:r/email/1"}
  Threads = {1, 2}
  MaxTime = 2
  MaxCalls = 3
  Retention = 4
  RemoteRetention = 3
  Payloads <- Payloads1
  GCMode = "split"
VIEW View
PROPERTIES KeptUntilExpiry
CHECK_DEADLOCK FALSE
