SPECIFICATION GenSpec
CONSTANTS
  Pick <- PickAll
  MNames = {"R1", "R3", "R6"}
  Conts = {FALSE, TRUE}
  Decos <- DecosNone
  RootDecos <- RootDecosOne
  Fan = 2
  RootFan = 2
  Depth = 2
INVARIANTS Emit
CHECK_DEADLOCK FALSE
