------------------------- MODULE Trace_TimeIntervals ------------------------
(* Direction B for C15: every recorded line (zone, interval, instant, offset *)
(* Go's zone database reports, verdict of the real ContainsTime) must        *)
(* satisfy   verdict = Contains(interval, instant, logged offset).           *)
(* The offset is trusted, the calendar logic is what is validated, for all   *)
(* IANA zones.  One line = one step; a line whose verdict differs is not a   *)
(* step and is reported by @@REJECT.                                         *)
EXTENDS TimeIntervals, Json, SequencesExt, TLC

CONSTANT TraceFile
Trace == ndJsonDeserialize(TraceFile)

VARIABLE l
TraceInit == l = 1

Rs(s) == {[b |-> x.b, e |-> x.e] : x \in ToSet(s)}
Ti(j) == [times |-> Rs(j.times), weekdays |-> Rs(j.weekdays), dom |-> Rs(j.dom),
          months |-> Rs(j.months), years |-> Rs(j.years), loc |-> j.loc]

ev == Trace[l]
TraceNext == /\ l <= Len(Trace)
             /\ Contains(Ti(ev.ti), ev.t, ev.off) = ev.v
             /\ l' = l + 1
TraceSpec == TraceInit /\ [][TraceNext]_l

TraceAccepted ==
  LET d == TLCGet("stats").diameter
  IN IF d - 1 = Len(Trace) THEN TRUE
     ELSE Print(<<"@@REJECT", d>>, FALSE)
=============================================================================
