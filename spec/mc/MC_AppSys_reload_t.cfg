SPECIFICATION Spec
CONSTANTS
  Inst = {1}
  InitUp = {1}
  Alerts = {"a"}
  GW = 1
  GI = 3
  RI = 20
  PT = 3
  ST = 0
  MinT = 10
  Maint = 1000
  MaxDelay = 1
  Quantum = 4
  MaxTime = 44
  Rule = "sum"
  Cfgs = {"A", "B"}
  InitCfg = "A"
  RL = "safe"
  Off = {}
  Lim <- TReload
VIEW View
INVARIANTS AtLeastOnce NoDuplicateWhenHealthy SilenceSurvivesRestart NoRepeatAfterRestart ReadyEventually RoutedByConfigInForce StatusShowsConfigInForce ReceiversAgree Sane
CHECK_DEADLOCK FALSE
