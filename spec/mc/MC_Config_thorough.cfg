SPECIFICATION SpecCfg
CONSTANTS
  RecvNames = {"r1", "r2", "r3"}
  IntNames = {"t1", "t2"}
  GBLabels = {"a", "b"}
  MaxEdits = 4
  MaxNodes = 4
  MaxDepth = 2
  MinDefectEdits = 0
  MaxSecrets = 1
  HistLen = 0
  Pick <- PickAll
INVARIANTS AcceptedWellFormed EditsAccepted DefectsRejected RoundTrip RoundTripExact
CHECK_DEADLOCK FALSE
