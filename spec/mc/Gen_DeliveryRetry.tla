-------------------------- MODULE Gen_DeliveryRetry --------------------------
(* Prints every delivery of the universe of MC_DeliveryRetry with what the  *)
(* specification expects (one JSON line per delivery, marker @@H): per      *)
(* scripted outcome what happens in the attempt (why), its class by the     *)
(* statement (sc: ok / rec / unrec / open) and by the notifier's code (ic), *)
(* the bounds of the number of attempts and the possible results over the   *)
(* gaps of the back-off ticker, and the gap tables.                         *)
EXTENDS MC_DeliveryRetry

GenInit == InitWith(Params)
GenSpec == GenInit /\ [][FALSE]_vars
Emit    == PrintT("@@H " \o ToJson(CaseOf(p)))
=============================================================================
