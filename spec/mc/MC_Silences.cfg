SPECIFICATION Spec
CONSTANTS
  Retention = 2
  RemoteRetention = 2
  MaxSilences = 0
  LocalIds <- MCLocalIds1
  MaxTime = 4
  Pick <- PickAll
  DerivedUpd <- DerivedNewer
  KnownGaps = {}
  LS = {"L1"}
  MSV = {"M4"}
  MSI = {}
  Cmts = {"c1"}
  StartOffs = {4}
  EndOffs = {3}
  PoolIds = {"r1"}
  Vias = {"lib"}
  Ops = {"set", "expire", "merge", "gc", "restart", "mutes", "alertgc"}
VIEW View
INVARIANTS IndexOK
PROPERTIES MuteVerdictExactOrKnown NeverOlder
CHECK_DEADLOCK FALSE
