SPECIFICATION Spec
CONSTANTS
  Sym = {"l", "n", "d", "col", "dash", "sp", "lf", "dq", "bs", "sq", "ob", "cb", "com", "eq", "bang", "til", "u2"}
  L = 4
  LV = 3
  LN = 2
  MaxEdit = 0
  Pick <- PickAll
INVARIANTS TypeOK RunAgrees InputLaws RoundTrips SemLawsInv
PROPERTIES StepsProgress
CHECK_DEADLOCK FALSE
