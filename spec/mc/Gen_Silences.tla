---------------------------- MODULE Gen_Silences ----------------------------
(* Behaviours of Silences printed as JSON for replay on the real code.       *)
EXTENDS MC_Silences

CONSTANT HistLen
VARIABLE hist

ASSUME PrintT("@@L " \o ToJson([ms |-> MSets, ls |-> LSets]))

GenInit == Init /\ hist = << >>
Obs == [e |-> last', t |-> now', bc |-> bcast', st |-> st',
        gap |-> IF last'.op = "mutes" /\ last'.ids # last'.ref THEN F1Gap(last'.ls, last'.ids, last'.ref) ELSE FALSE]
GenNext == /\ Len(hist) < HistLen
           /\ \/ Next
              \/ \E S \in Pick({{"active"}, {"pending"}, {"expired"}, {"active", "pending"}, {"active", "pending", "expired"}}) : QueryState(S)
           /\ hist' = Append(hist, Obs)
GenSpec == GenInit /\ [][GenNext]_<<vars, hist>>
Emit == Len(hist) = HistLen => PrintT("@@H " \o ToJson(hist))
=============================================================================
