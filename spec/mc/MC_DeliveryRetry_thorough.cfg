SPECIFICATION Spec
CONSTANTS
  Timeout = 300
  SlowDelay = 80
  HangDelay = 700
  TimeoutRecoverable = TRUE
  MaxLenWebhook = 5
  MaxLenPagerduty = 4
  Deadlines = {450, 1600, 2900}
  CancelDeadline = 2900
  Cancels = {130, 950}
INVARIANTS InvCanonical InvClauses InvClosed InvLogOnly InvBounded InvProgress
CHECK_DEADLOCK FALSE
