SPECIFICATION Spec
CONSTANTS
  Timeout = 300
  SlowDelay = 80
  HangDelay = 700
  TimeoutRecoverable = TRUE
  BackoffGrows = TRUE
  MaxLenWebhook = 5
  MaxLenPagerduty = 4
  Deadlines = {450, 1600, 2900}
  CancelDeadline = 2900
  Cancels = {130, 950}
  LongDeadlines = {5000, 8000}
  LongLen = 2
INVARIANTS InvCanonical InvClauses InvClosed InvLogOnly InvBounded InvProgress
CHECK_DEADLOCK FALSE
