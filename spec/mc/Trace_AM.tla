------------------------------ MODULE Trace_AM ------------------------------
(* Validation of traces recorded from one real Alertmanager instance        *)
(* (harness/e2e TestScenarios) by the observer layer AMObs.tla.  Each        *)
(* recorded event is the corresponding AMObs action; time advances through  *)
(* every instant at which eligibility can change.  A trace is rejected when *)
(* an event sets chk (a property clause is violated) or C01_Deadline fails. *)
EXTENDS AMObs, Json, SequencesExt

CONSTANT TraceFile
Trace == ndJsonDeserialize(TraceFile)

VARIABLE l
tvars == <<ovars, l>>

ev == Trace[l]

TraceInit == ObsInit /\ l = 1

\* instants in (now, t) at which suppression / eligibility may change
Stops(t) ==
  {x \in UNION { {ver[a].end, ver[a].start} : a \in DOMAIN ver }
         \cup UNION { {sil[i].start, sil[i].end + 1} : i \in 1..Len(sil) }
         \cup UNION { {w.from, w.to} : w \in SeqToSet(cfg.windows) }
         \cup AllEdgeStops :
     now < x /\ x < t}

Tick == /\ l <= Len(Trace)
        /\ ev.ev # "cfg"
        /\ ev.t > now
        /\ LET S == Stops(ev.t) IN Advance(IF S = {} THEN ev.t ELSE CHOOSE m \in S : \A x \in S : m <= x)
        /\ UNCHANGED l

Ver(j) == [start |-> j.start, end |-> j.end, upd |-> j.upd]

Step ==
  /\ l <= Len(Trace)
  /\ (ev.ev = "cfg" \/ ev.t = now)
  /\ l' = l + 1
  /\ CASE ev.ev = "cfg" ->
            Cfg([root |-> ev.data.root, routes |-> ev.data.routes, integs |-> ev.data.integs,
                 inhibit |-> ev.data.inhibit, windows |-> ev.data.windows, wait |-> ev.data.wait, maxwait |-> ev.data.maxwait, agc |-> ev.data.agc, maint |-> ev.data.maint])
       [] ev.ev = "wait" -> SetWait(ev.data.wait)
       [] ev.ev = "nflog.merge" -> NflogMerge(ev.gk, ev.integ, ev.data.ts, ToSet(ev.firing), ToSet(ev.resolved))
       [] ev.ev = "ingest" -> Ingest(ev.alerts[1].l, Ver(ev.alerts[1]))
       [] ev.ev = "sil.set" -> IF ev.data.code = 200 THEN SilSet(ev.data.ms, ev.data.start, ev.data.end) ELSE Other
       [] ev.ev = "sil.update" -> IF ev.data.code = 200 THEN SilUpdate(ev.data.idx, ev.data.start, ev.data.end) ELSE Other
       [] ev.ev = "sil.expire" -> IF ev.data.code = 200 THEN SilExpire(ev.data.idx) ELSE Other
       [] ev.ev = "flush.begin" -> FlushBegin(ev.ag, ev.gk, ev.alerts, IF ev.tick <= 0 THEN ev.t ELSE ev.tick)
       [] ev.ev = "attempt" -> Attempt(ev.ag, ev.gk, ev.recv, ev.integ, ev.alerts, ev.outcome, ev.deadline, ev.st)
       [] ev.ev = "nflog.log" -> NflogLog(ev.gk, ev.integ, ToSet(ev.firing), ToSet(ev.resolved))
       [] ev.ev = "flush.ok" -> FlushOk(ev.ag)
       [] ev.ev = "flush.done" -> FlushDone(ev.ag)
       [] ev.ev = "reloading" -> Reloading(ev.data.integs, ev.data.routes)
       [] ev.ev = "end" -> Cancelling
       [] ev.ev = "api.alerts" -> ApiAlerts(ev.data.alerts)
       [] ev.ev = "api.groups" -> ApiGroups(ev.data.groups)
       [] OTHER -> Other

\* violated clauses are collected (register 2) and validation goes on, so one TLC
\* run judges every recorded run
Note(x) == TLCSet(2, Append(TLCGet(2), x))
Report(line) ==
  /\ (chk' # {} => Note([run |-> Trace[line].run, line |-> line, t |-> now', clauses |-> chk']))
  /\ (~C01_Deadline' => Note([run |-> Trace[line].run, line |-> line, t |-> now', clauses |-> {"C01_eligible_alert_not_notified_within_bound"}]))
  /\ (~C04_Deadline' => Note([run |-> Trace[line].run, line |-> line, t |-> now', clauses |-> {"C04_repeat_overdue"}]))
  /\ (~C05_Deadline' => Note([run |-> Trace[line].run, line |-> line, t |-> now', clauses |-> {"C05_resolution_not_notified_within_bound"}]))

TraceNext == (Tick \/ Step) /\ Report(l)
TraceSpec == TraceInit /\ [][TraceNext]_tvars

\* acceptance: every line consumed (high-water mark of l; silent Tick steps
\* make the diameter useless)
HighWater == TLCSet(1, IF l > TLCGet(1) THEN l ELSE TLCGet(1))
TraceAccepted ==
  /\ PrintT("@@V " \o ToJson(TLCGet(2)))
  /\ IF TLCGet(1) = Len(Trace) + 1 THEN TRUE
     ELSE Print(<<"@@REJECT", TLCGet(1)>>, FALSE)
ASSUME TLCSet(1, 0) /\ TLCSet(2, << >>)
=============================================================================
