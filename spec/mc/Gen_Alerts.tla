----------------------------- MODULE Gen_Alerts -----------------------------
(* Behaviours of Alerts printed as JSON lines for the replay on the real     *)
(* provider + API handlers.  The provider's GC runs on a ticker: its period  *)
(* gcper is chosen per behaviour, the ticker fires half a unit before the    *)
(* model instants k * gcper (TickGC).                                        *)
EXTENDS MC_Alerts

CONSTANTS HistLen, GCPers
VARIABLES hist, gcper

ASSUME PrintT("@@L " \o ToJson([labels |-> [v \in Variants \cup CanonIds |-> LabelsOf[v]],
                                canon  |-> [v \in Variants \cup CanonIds |-> Canon(v)],
                                name   |-> NameF, rt |-> RT, limit |-> Limit, stale |-> StaleRule]))

GenInit == Init /\ hist = << >> /\ gcper \in GCPers

\* outcomes that differ from the code's only by the reading of a comparison at equality
\* (computed only when some compared pair is equal)
HasTie(batch) ==
  \/ \E i \in 1..Len(batch) :
        LET a == Defaulted(batch[i], now)
        IN /\ ValidAlert(a)
           /\ \/ a.end = now
              \/ /\ a.fp \in DOMAIN store
                 /\ LET o == store[a.fp]
                    IN a.end = o.start \/ a.end = o.end \/ a.start = o.start \/ a.start = o.end \/ o.end = now
  \/ (Limit > 0 /\ \E n \in DOMAIN buckets : buckets[n][1].pri = now)
Alts(batch) ==
  LET proj(R) == [st |-> R.store, lim |-> R.limited, res |-> R.res]
  IN IF ~HasTie(batch) THEN {}
     ELSE {proj(RunBatch(batch, now, f)) : f \in [1..6 -> BOOLEAN]} \ {proj(RunBatch(batch, now, NoTies))}

Obs == [e |-> last', t |-> now', st |-> store', lim |-> limited', gcper |-> gcper,
        vis  |-> Visible(store', sil', now'),
        alts |-> IF last'.op = "post" THEN Alts(last'.batch) ELSE {},
        \* C18: names over their limit after this step, names in the state of finding F4,
        \* re-sends of admitted unexpired alerts that this step refuses
        over |-> IF Limit = 0 THEN {} ELSE {n \in Names : ~LimitHolds(n)'},
        f4   |-> {n \in Names : F4Gap(n)'},
        refused |-> IF last'.op = "post" THEN {i \in 1..Len(last'.batch) : ~ResendOK(i)} ELSE {}]

TickStep == now < MaxTime /\ IF (now + 1) % gcper = 0 THEN TickGC ELSE Tick(1)

GenNext == /\ Len(hist) < HistLen
           /\ \/ ("post1" \in Ops /\ Post1)
              \/ ("postn" \in Ops /\ PostN)
              \/ ("postn" \in Ops /\ PostN)       \* (twice: submissions are the subject)
              \/ TickStep
              \/ ("sil" \in Ops /\ SilOn)
              \/ ("sil" \in Ops /\ SilOff)
           /\ hist' = Append(hist, Obs)
           /\ UNCHANGED gcper
GenSpec == GenInit /\ [][GenNext]_<<vars, hist, gcper>>
Emit == Len(hist) = HistLen => PrintT("@@H " \o ToJson(hist))
=============================================================================
