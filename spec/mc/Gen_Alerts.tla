----------------------------- MODULE Gen_Alerts -----------------------------
(* Behaviours of Alerts printed as JSON lines for the replay on the real     *)
(* provider + API handlers.  The provider's GC runs on a ticker: its period  *)
(* gcper is chosen per behaviour, the ticker fires half a unit before the    *)
(* model instants k * gcper (TickGC).  Ops "postdup" / "postsame" add bodies *)
(* with a duplicated label set and repeated requests at one instant (equal   *)
(* stamps); Obs.swaps lists, for such a step, the outcomes in which the       *)
(* earlier submission overwrote the later one, with the statement's verdict.  *)
EXTENDS MC_Alerts

CONSTANTS HistLen, GCPers
VARIABLES hist, gcper

ASSUME PrintT("@@L " \o ToJson([labels |-> [v \in Variants \cup CanonIds |-> LabelsOf[v]],
                                canon  |-> [v \in Variants \cup CanonIds |-> Canon(v)],
                                name   |-> NameF, rt |-> RT, limit |-> Limit, stale |-> StaleRule]))

GenInit == Init /\ hist = << >> /\ gcper \in GCPers

\* outcomes that differ from the code's only by the reading of a comparison at equality
\* (computed only when some compared pair is equal)
\* a stamp tie: the body holds one label set more than once, or a submitted label set was
\* stored at this very instant (then every comparison of the second alert is made against
\* what the first left: all readings are computed)
StampTie(batch) ==
  \/ ~DistinctBatch(batch, now)
  \/ \E i \in 1..Len(batch) :
        LET a == Defaulted(batch[i], now)
        IN ValidAlert(a) /\ a.fp \in DOMAIN store /\ store[a.fp].upd = now
HasTie(batch) ==
  \/ StampTie(batch)
  \/ \E i \in 1..Len(batch) :
        LET a == Defaulted(batch[i], now)
        IN /\ ValidAlert(a)
           /\ \/ a.end = now
              \/ /\ a.fp \in DOMAIN store
                 /\ LET o == store[a.fp]
                    IN a.end = o.start \/ a.end = o.end \/ a.start = o.start \/ a.start = o.end \/ o.end = now
  \/ (Limit > 0 /\ \E n \in DOMAIN buckets : buckets[n][1].pri = now)
Readings(sw) == {[i \in 1..7 |-> IF i = 7 THEN sw ELSE g[i]] : g \in [1..6 -> BOOLEAN]}
Proj(R) == [st |-> R.store, lim |-> R.limited, res |-> R.res]
Alts(batch) ==
  IF ~HasTie(batch) THEN {}
  ELSE {Proj(RunBatch(batch, now, f)) : f \in Readings(FALSE)} \ {Proj(RunBatch(batch, now, NoTies))}
\* outcomes in which, at equal stamps, the stored alert was taken as the younger one (an
\* earlier submission overwrote a later one), that are not outcomes above; fixed = the
\* statement forbids the outcome (Alerts!OrderClauses), otherwise it is left open
Swaps(batch) ==
  IF ~StampTie(batch) THEN {}
  ELSE LET base == Alts(batch) \cup {Proj(RunBatch(batch, now, NoTies))}
           outs == {RunBatch(batch, now, f) : f \in Readings(TRUE)}
       IN {[st |-> R.store, lim |-> R.limited, res |-> R.res,
            fixed |-> ~OrderClauses(batch, R.res, now, R.store)] : R \in {X \in outs : Proj(X) \notin base}}

Obs == [e |-> last', t |-> now', st |-> store', lim |-> limited', gcper |-> gcper,
        vis  |-> Visible(store', sil', now'),
        alts |-> IF last'.op = "post" THEN Alts(last'.batch) ELSE {},
        swaps |-> IF last'.op = "post" THEN Swaps(last'.batch) ELSE {},
        t0   |-> now,
        \* C18: names over their limit after this step, names in the state of finding F4,
        \* re-sends of admitted unexpired alerts that this step refuses
        over |-> IF Limit = 0 THEN {} ELSE {n \in Names : ~LimitHolds(n)'},
        f4   |-> {n \in Names : F4Gap(n)'},
        refused |-> IF last'.op = "post" THEN {i \in 1..Len(last'.batch) : ~ResendOK(i)} ELSE {}]

TickStep == now < MaxTime /\ IF (now + 1) % gcper = 0 THEN TickGC ELSE Tick(1)

GenNext == /\ Len(hist) < HistLen
           /\ \/ ("post1" \in Ops /\ Post1)
              \/ ("postn" \in Ops /\ PostN)
              \/ ("postn" \in Ops /\ PostN)       \* (twice: submissions are the subject)
              \/ ("postdup" \in Ops /\ PostDup)
              \/ ("postsame" \in Ops /\ PostSame)
              \/ TickStep
              \/ ("sil" \in Ops /\ SilOn)
              \/ ("sil" \in Ops /\ SilOff)
           /\ hist' = Append(hist, Obs)
           /\ UNCHANGED gcper
GenSpec == GenInit /\ [][GenNext]_<<vars, hist, gcper>>
Emit == Len(hist) = HistLen => PrintT("@@H " \o ToJson(hist))
=============================================================================
