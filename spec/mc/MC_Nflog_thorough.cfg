SPECIFICATION Spec
CONSTANTS
  Keys = {"g1:r/webhook/0", "g1:r/email/1"}
  MaxTime = 10
  HistLen = 0
  Retention = 4
  RemoteRetention = 3
  Pick <- PickAll
VIEW View
INVARIANTS NewestHeld
PROPERTIES OnlySeen NeverBackwards NeverAcceptExpired KeptUntilExpiry RemergeSilent GCDropsExpired
CHECK_DEADLOCK FALSE
