SPECIFICATION TraceSpec
CONSTANTS
  RT = 2
  Limit = 0
  StaleRule = "impl"
  LabelsOf <- CLabelsOf3
  CanonIds <- CIds3
  Fanout = "locked"
  Slurp = "atomic"
  Now0 = 10
  Batch = "alert"
  TraceFile = "trace.ndjson"
CONSTRAINT HighWater
POSTCONDITION TraceAccepted
CHECK_DEADLOCK FALSE
