----------------------------- MODULE MC_Alerts ------------------------------
(* Bounded configurations of Alerts for exhaustive checking (C13: no limit,  *)
(* C18: per-alert-name limit) and for the generation of behaviours.          *)
EXTENDS Alerts, Json

CONSTANTS MaxTime, Pick(_), KnownGaps,
          Variants,              \* label-set ids that are posted
          Variants2,             \* label-set ids of the second alert of Post2
          StartOffs, EndOffs,    \* offset 0: the field is missing; o >= 1: explicit startsAt / endsAt = now + o - 3
                                 \* (cfg files have no negative numbers)
          FixedStart,            \* >= 0: every submission carries this startsAt (limit configurations); -1: see StartOffs
          MaxBatch, Ops,
          SameInstant            \* TRUE: Post1/Post2/PostN may submit a label set stored at this very instant
                                 \* (PostDup / PostSame do that by construction)
PickAll(S) == S
PickOne(S) == {RandomElement(S)}

\* label sets as posted.  L1e / L2e carry an empty-valued label (removed by the handler);
\* Lbad has an empty label name, Lnone nothing but an empty-valued label: both invalid.
\* L3 has a label name that only the UTF-8 mode accepts.  F*, G1, H1: limit scenarios.
MCLabels ==
     "L1"    :> ("alertname" :> "A" @@ "sev" :> "p")
  @@ "L1e"   :> ("alertname" :> "A" @@ "sev" :> "p" @@ "c" :> "")
  @@ "L2"    :> ("alertname" :> "B" @@ "b" :> "y")
  @@ "L2e"   :> ("alertname" :> "B" @@ "b" :> "y" @@ "sev" :> "")
  @@ "L3"    :> ("alertname" :> "B" @@ "b" :> "y" @@ "sev" :> "p" @@ "k-1" :> "v 1")
  @@ "Lbad"  :> ("alertname" :> "A" @@ "" :> "x")
  @@ "Lnone" :> ("c" :> "")
  @@ "F1"    :> ("alertname" :> "A" @@ "inst" :> "1")
  @@ "F2"    :> ("alertname" :> "A" @@ "inst" :> "2")
  @@ "F3"    :> ("alertname" :> "A" @@ "inst" :> "3")
  @@ "F4"    :> ("alertname" :> "A" @@ "inst" :> "4")
  @@ "F5"    :> ("alertname" :> "A" @@ "inst" :> "5")
  @@ "G1"    :> ("alertname" :> "B" @@ "inst" :> "1" @@ "sev" :> "p")
  @@ "G2"    :> ("alertname" :> "B" @@ "inst" :> "2")
  @@ "H1"    :> ("inst" :> "9")
MCCanon13  == {"L1", "L2"}
MCCanon13x == {"L1", "L2", "L3"}
MCCanonF3  == {"F1", "F2", "F3"}
MCCanonF4  == {"F1", "F2", "F3", "F4"}
MCCanonFx  == {"F1", "F2", "F3", "F4", "F5", "G1", "G2", "H1"}

Times     == 0 .. (MaxTime + 6)
Offs(t, O) == (IF 0 \in O THEN {Unset} ELSE {}) \cup ({t + o - 3 : o \in O \ {0}} \cap Times)
Starts(t)  == IF FixedStart >= 0 THEN {FixedStart} ELSE Offs(t, StartOffs)
Ends(t)    == Offs(t, EndOffs)
P(ls, s, e) == [ls |-> ls, s |-> s, e |-> e]

\* No two submissions of one label set at one instant (a nanosecond clock never does
\* that); exhaustive runs allow it to show that it is harmless for the invariants.
Quiet(batch) == SameInstant \/ \A i \in 1..Len(batch) :
                   LET a == Defaulted(batch[i], now)
                   IN ValidAlert(a) => ~(a.fp \in DOMAIN store /\ store[a.fp].upd = now)
Legal(batch) == DistinctBatch(batch, now) /\ Quiet(batch)

Post1 == \E ls \in Pick(Variants), s \in Pick(Starts(now)), e \in Pick(Ends(now)) :
           LET b == <<P(ls, s, e)>> IN Legal(b) /\ ApiPost(b)
\* exhaustive runs: batches of two, one alert arbitrary, the other with default times
\* (an invalid one, or the other label sets), in both orders
Post2 == \E ls \in Pick(Variants), s \in Pick(Starts(now)), e \in Pick(Ends(now)), l2 \in Pick(Variants2), o \in Pick({1, 2}) :
           LET b == IF o = 1 THEN <<P(ls, s, e), P(l2, Unset, Unset)>> ELSE <<P(l2, Unset, Unset), P(ls, s, e)>>
           IN Legal(b) /\ ApiPost(b)
\* generation: batches of 1..MaxBatch arbitrary alerts
PostN == \E n \in Pick(1..MaxBatch),
            l1 \in Pick(Variants), s1 \in Pick(Starts(now)), e1 \in Pick(Ends(now)),
            l2 \in Pick(Variants), s2 \in Pick(Starts(now)), e2 \in Pick(Ends(now)),
            l3 \in Pick(Variants), s3 \in Pick(Starts(now)), e3 \in Pick(Ends(now)) :
           LET b == SubSeq(<<P(l1, s1, e1), P(l2, s2, e2), P(l3, s3, e3)>>, 1, n)
           IN Legal(b) /\ ApiPost(b)


(* Equal stamps.  PostDup: one body that holds the same label set at least twice (a sender  *)
(* flushing a backlog: [firing version, resolved version], [fire, heartbeat], [resolve,    *)
(* fire], ...), every combination of present / missing startsAt and endsAt, so that Put    *)
(* takes the merge path (ranges overlap) as well as the replace path; optionally a third   *)
(* arbitrary alert (invalid, another label set, the same label set once more) at any       *)
(* position.  PostSame: a second request for a label set at the instant of the first.      *)
PickNE(S)   == IF S = {} THEN {} ELSE Pick(S)
ValidVars   == {v \in Variants : Canon(v) \in CanonIds}
SameAs(l)   == {v \in Variants : Canon(v) = Canon(l)}
InsertAt(q, x, k) == SubSeq(q, 1, k - 1) \o <<x>> \o SubSeq(q, k, Len(q))
HasDup(batch) == ~DistinctBatch(batch, now)
DupPair(Q(_)) == \E l1 \in PickNE(ValidVars), s1 \in Pick(Starts(now)), e1 \in Pick(Ends(now)) :
                 \E l2 \in Pick(SameAs(l1)), s2 \in Pick(Starts(now)), e2 \in Pick(Ends(now)) :
                    Q(<<P(l1, s1, e1), P(l2, s2, e2)>>)
PostDup2 == LET Q(pair) == HasDup(pair) /\ ApiPost(pair) IN DupPair(Q)
PostDup3 == LET Q(pair) == \E k \in Pick(1..3), l3 \in Pick(Variants), s3 \in Pick(Starts(now)), e3 \in Pick(Ends(now)) :
                             LET b == InsertAt(pair, P(l3, s3, e3), k) IN HasDup(b) /\ ApiPost(b)
            IN DupPair(Q)
PostDup == \E n \in Pick(2..MaxBatch) : IF n = 2 THEN PostDup2 ELSE PostDup3
Stamped == {v \in ValidVars : Canon(v) \in DOMAIN store /\ store[Canon(v)].upd = now}
PostSame == \E ls \in PickNE(Stamped), s \in Pick(Starts(now)), e \in Pick(Ends(now)) :
              LET b == <<P(ls, s, e)>> IN ValidAlert(Defaulted(b[1], now)) /\ ApiPost(b)

Next == \/ ("post1" \in Ops /\ Post1)
        \/ ("post2" \in Ops /\ Post2)
        \/ ("postn" \in Ops /\ PostN)
        \/ ("postdup" \in Ops /\ PostDup)
        \/ ("postsame" \in Ops /\ PostSame)
        \/ ("gc" \in Ops /\ GC)
        \/ ("tickgc" \in Ops /\ now < MaxTime /\ TickGC)
        \/ ("tick" \in Ops /\ now < MaxTime /\ Tick(1))
        \/ ("sil" \in Ops /\ SilOn)
        \/ ("sil" \in Ops /\ SilOff)
        \/ ("get" \in Ops /\ ApiGet)

Spec == Init /\ [][Next]_vars
\* upd (only reported), the counter and the observation do not influence any step
View == <<now, [fp \in DOMAIN store |-> <<store[fp].start, store[fp].end, store[fp].timeout>>], buckets, sil, orph>>
\* (with the other reading of the stamp comparison the stamp matters while it can tie with
\* the next submission: at the current instant)
ViewSwap == <<now, [fp \in DOMAIN store |-> <<store[fp].start, store[fp].end, store[fp].timeout, store[fp].upd = now>>], buckets, sil, orph>>
\* the other reading of the stamp comparison at equality (MC_Alerts_swap.cfg: TLC must find
\* a history that contradicts SubmissionOrder - the clauses decide the same-stamp family)
SwapTies == [i \in 1..7 |-> i = 7]

-----------------------------------------------------------------------------
(* C18 with the known finding F4 (see Alerts!F4Gap): P \/ KnownGap           *)
Known(k) == k \in KnownGaps
LimitHoldsOrKnown ==
  Limit = 0 \/ \A n \in Names : LimitHolds(n) \/ (Known("F4") /\ F4Gap(n))
ResendAcceptedOrKnown ==
  [][IsPost => \A i \in 1..Len(last'.batch) :
        \/ ResendOK(i)
        \/ (Known("F4") /\ LET fp == PostedA(i).fp IN fp \in orph /\ fp \notin InBucket(NameOf(fp)))]_vars
RoomOnlyByExpiryOrKnown ==
  [][\A n \in DOMAIN buckets :
        \/ LeavesOnlyExpired(n)
        \/ (Known("F4") /\ last'.op \in {"gc", "tickgc"} /\ n \in last'.f4)]_vars
\* without the finding nothing is ever orphaned
NoOrphans == Known("F4") \/ orph = {}
=============================================================================
