SPECIFICATION Spec
CONSTANTS
  Sym = {"l", "n", "d", "col", "dash", "sp", "lf", "dq", "bs", "sq", "bt", "ob", "cb", "com", "eq", "bang", "til", "u2", "u4", "bad", "rep"}
  L = 3
  LV = 2
  LN = 2
  MaxEdit = 0
  Pick <- PickAll
INVARIANTS TypeOK RunAgrees InputLaws RoundTrips SemLawsInv
PROPERTIES StepsProgress
CHECK_DEADLOCK FALSE
