----------------------------- MODULE MC_Cluster -----------------------------
EXTENDS Cluster
View == <<now, up, nfl, due, pend, net, ncrash, Len(sent), Last>>
=============================================================================
