SPECIFICATION Spec
CONSTANTS
  Inst = {1, 2}
  InitUp = {2}
  Alerts = {"a"}
  GW = 1
  GI = 10
  RI = 35
  PT = 12
  ST = 2
  MinT = 10
  Maint = 1000
  MaxDelay = 1
  Quantum = 6
  MaxTime = 120
  Rule = "defective"
  Cfgs = {"A"}
  InitCfg = "A"
  RL = "safe"
  Off = {}
  Lim <- LateStart
VIEW View
INVARIANTS AtLeastOnce NoDuplicateWhenHealthy SilenceSurvivesRestart NoRepeatAfterRestart ReadyEventually RoutedByConfigInForce StatusShowsConfigInForce ReceiversAgree Sane
CHECK_DEADLOCK FALSE
