SPECIFICATION Spec
CONSTANTS
  AlertLS <- MCAlertLS
  RuleSets <- MCRuleSets
  UseRuleSets = {"E1"}
  ScacheGCEvery = 1
  ProvGCEvery = 1
  MaxTime = 3
  Pick <- PickAll
  KnownGaps = {"F2a", "F2b", "F2c"}
  PutAlerts = {"S1", "S2", "B"}
  Queries = {"S1", "B", "T", "T2"}
  MuteQueries = {"B", "T"}
  StartModes = {"same"}
  EndOffs = {1, 2, 3}
  Timeouts = {TRUE, FALSE}
  QueueBound = 0
VIEW View
INVARIANTS InvRefinesOrKnown InvSound IndexInCache CacheComplete InvNameBlind
PROPERTIES MuteVerdictExactOrKnown
CHECK_DEADLOCK FALSE
