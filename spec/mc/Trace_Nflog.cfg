SPECIFICATION TraceSpec
CONSTANTS
  Retention = 120000
  TraceFile = "trace.ndjson"
INVARIANTS NewestHeld
PROPERTIES TNeverBackwards TNeverAcceptExpired TKeptUntilExpiry TGCDropsExpired
POSTCONDITION TraceAccepted
CHECK_DEADLOCK FALSE
