\* thorough: fire / resolve / re-fire, 2 workers, no eager steps, at most 3 preemptions (7314 schedules)
SPECIFICATION GSpec
CONSTANTS
  Workers <- GenWorkers
  NW = 2
  NVersions = 3
  Resolved = {2}
  MaxGroups = 3
  MonotonicSet = FALSE
  MaxFlush = 2
  MaxMaint = 1
  MaxPreempt = 3
  Eager = {}
INVARIANTS Emit InOrderLatest
CHECK_DEADLOCK FALSE
