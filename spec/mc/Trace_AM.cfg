SPECIFICATION TraceSpec
CONSTANTS
  TraceFile = "trace.ndjson"
  MinTimeout = 10000
  RetrySlack = 90000
  SchedSlack = 5000
  RepeatLag = 5000
  GapBound <- GapBoundMs
CONSTRAINT HighWater
POSTCONDITION TraceAccepted
CHECK_DEADLOCK FALSE
