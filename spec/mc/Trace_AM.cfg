SPECIFICATION TraceSpec
CONSTANTS
  TraceFile = "trace.ndjson"
CONSTRAINT HighWater
POSTCONDITION TraceAccepted
CHECK_DEADLOCK FALSE
