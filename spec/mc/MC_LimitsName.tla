--------------------------- MODULE MC_LimitsName ----------------------------
EXTENDS LimitsName, Json, Sequences
CONSTANT Pick(_)
PickAll(S) == S
PickOne(S) == {RandomElement(S)}
\* identities: "a1".."a9" under alert name A, "b1", "b2" under alert name B
MCName(i) == IF i \in {"b1", "b2"} THEN "B" ELSE "A"
Known == DOMAIN adm
Next == \/ \E i \in Pick(IF Ids \ Known = {} THEN Ids ELSE Ids \ Known) : \E o \in Pick(EndOffs) : Post(i, now + o)   \* a new alert (or one long gone)
        \/ \E i \in Pick(IF Known = {} THEN Ids ELSE Known) : \E o \in Pick(EndOffs) : Post(i, now + o)               \* a re-send / heartbeat
        \/ Tick
Spec == Init /\ [][Next]_vars
View == <<now, adm, gcper>>
=============================================================================
