SPECIFICATION TraceSpec
CONSTANTS
  TraceFile = "trace.ndjson"
POSTCONDITION TraceAccepted
CHECK_DEADLOCK FALSE
