\* thorough: fire / resolve / re-fire, 3 workers, at most 4 preemptions (16906 schedules)
SPECIFICATION GSpec
CONSTANTS
  Workers <- GenWorkers
  NW = 3
  NVersions = 3
  Resolved = {2}
  MaxGroups = 3
  MonotonicSet = FALSE
  MaxFlush = 2
  MaxMaint = 1
  MaxPreempt = 4
  Eager = {"Create", "FlushNotify"}
INVARIANTS Emit InOrderLatest
CHECK_DEADLOCK FALSE
