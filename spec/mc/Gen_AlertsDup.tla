---------------------------- MODULE Gen_AlertsDup ---------------------------
(* Equal stamps, exhaustively: every pair (A, B) of submissions of one label   *)
(* set (startsAt / endsAt missing or explicit around the instant) arriving at   *)
(* one instant T0 on an empty store, (a) in one request body [A, B], (b) as two *)
(* requests A, B without the clock moving; then the clock moves on (what GET    *)
(* shows afterwards).  Printed like the behaviours of Gen_Alerts.               *)
EXTENDS Gen_Alerts

CONSTANTS T0

DupInit == /\ now = T0 /\ store = << >> /\ buckets = << >> /\ limited = 0 /\ sil = NoSil
           /\ orph = {} /\ last = [op |-> "init"] /\ hist = << >> /\ gcper \in GCPers

DupNext == /\ Len(hist) < HistLen
           /\ \/ (Len(hist) = 0 /\ (Post1 \/ PostDup))
              \/ (Len(hist) = 1 /\ hist[1].e.how = <<"new">> /\ PostSame)
              \/ (Len(hist) >= 1 /\ ~(Len(hist) = 1 /\ hist[1].e.how = <<"new">>) /\ TickStep)
           /\ hist' = Append(hist, Obs)
           /\ UNCHANGED gcper
DupSpec == DupInit /\ [][DupNext]_<<vars, hist, gcper>>
=============================================================================
