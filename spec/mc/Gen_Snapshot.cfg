SPECIFICATION Spec
CONSTANTS
  Ops <- OpsGood
  Recs <- MCRecs
  U <- MCU
  Final = "final"
  ZeroFill = TRUE
  OnWriteError = "rename"
  CrossDevice = FALSE
INVARIANTS Emit
CHECK_DEADLOCK FALSE
