SPECIFICATION Spec
CONSTANTS
  Ids = {"A", "B"}
  InitUp = {"A", "B"}
  Small = {"s1", "s2"}
  Big = {}
  Fanout = 3
  TxLimit = 3
  SendList = "current"
  OnTimeout = "ready"
  OkayRequired = 3
  Budgets = {0}
  MaxStop = 1
  Transport = "tls"
  Redial = "on_failure"
  MaxReset = 2
  MaxJoin = 1
  UOrder <- MCOrder
VIEW View
INVARIANTS Delivered Readiness Sane
PROPERTIES JoinGetsAll FlushPasses
CHECK_DEADLOCK FALSE
