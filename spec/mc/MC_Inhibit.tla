----------------------------- MODULE MC_Inhibit -----------------------------
(* Bounded configurations of Inhibit for exhaustive checking (free GC       *)
(* instants, subscription queue) and for generation (Gen_Inhibit).          *)
EXTENDS Inhibit, Json

CONSTANTS MaxTime, Pick(_), KnownGaps,
          PutAlerts,    \* alerts the environment may send
          Queries,      \* alerts whose label set is judged in every state (invariants)
          MuteQueries,  \* alerts whose label set is given to the Mutes action (may be empty: the invariants say the same)
          StartModes,   \* subset of {"same", "now"}
          EndOffs,      \* ends offered by Put: now + o - 1 (cfg files have no negative numbers)
          Timeouts,     \* subset of BOOLEAN: EndsAt derived from resolve_timeout or explicit
          QueueBound    \* alerts in the subscription channel at most
PickAll(S) == S
PickOne(S) == {RandomElement(S)}

\* 2 one-sided sources sharing the equal-label values (S1, S2), a source with other
\* values (S3), an alert matching both sides (B), targets (T, T2, T3)
MCAlertLS == [ S1 |-> [a |-> "x", c |-> "x", i |-> "x"],
               S2 |-> [a |-> "x", c |-> "x", i |-> "y"],
               S3 |-> [a |-> "x", c |-> "y", d |-> "y"],
               B  |-> [a |-> "x", b |-> "x", c |-> "x"],
               B2 |-> [a |-> "x", b |-> "x", c |-> "x", i |-> "y"],   \* a second alert matching both sides
               T  |-> [b |-> "x", c |-> "x"],
               T2 |-> [b |-> "x", c |-> "x", d |-> "y"],
               T3 |-> [b |-> "x", c |-> "y", d |-> "y"] ]

RA(eq) == [name |-> "", src |-> <<Eq("a", "x")>>, tgt |-> <<Eq("b", "x")>>, eq |-> eq]
RRev   == [name |-> "", src |-> <<Eq("b", "x")>>, tgt |-> <<Eq("a", "x")>>, eq |-> {"c", "d"}]
RB     == [name |-> "", src |-> <<Re("a", "x|y"), Ne("i", "x")>>, tgt |-> <<Ne("b", "")>>, eq |-> {"d"}]
Named(r, n) == [r EXCEPT !.name = n]
\* E*, D1: no names; D2: two different names; N1: the rules of D1 under ONE name (two different rules,
\* the later one is the only one with source b=x); N1r: the same in the other order; N2: two rules that
\* are identical, name included; N3: named, unnamed, and a third repeating the first one's name
MCRuleSets == [ E0 |-> <<RA({})>>,
                E1 |-> <<RA({"c"})>>,
                E2 |-> <<RA({"c", "d"})>>,
                D1 |-> <<RA({"c"}), RRev>>,
                D2 |-> <<Named(RA({"c", "d"}), "core"), Named(RB, "edge")>>,
                N1 |-> <<Named(RA({"c"}), "dup"), Named(RRev, "dup")>>,
                N1r |-> <<Named(RRev, "dup"), Named(RA({"c"}), "dup")>>,
                N2 |-> <<Named(RA({"c"}), "dup"), Named(RA({"c"}), "dup")>>,
                N3 |-> <<Named(RA({"c", "d"}), "dup"), RB, Named(RRev, "dup")>> ]

Ends(t) == {e \in {t + o - 1 : o \in EndOffs} : e >= 0}

\* QueueBound = 0: the environment waits for the inhibitor after every Put (PutSync)
PutOp  == \E a \in Pick(PutAlerts), sm \in Pick(StartModes), e \in Pick(Ends(now)), to \in Pick(Timeouts) :
            IF QueueBound = 0 THEN PutSync(a, sm, e, to)
            ELSE Len(queue) < QueueBound /\ Put(a, sm, e, to)
MutesOp == \E q \in Pick(MuteQueries) : Mutes(q)

Next == \/ PutOp
        \/ Process
        \/ \E i \in RuleIdx : ScacheGC(i)
        \/ ProvGC
        \/ (now < MaxTime /\ Tick)
        \/ MutesOp

Spec == Init /\ [][Next]_vars
View == <<now, rs, prov, queue, scache, sindex>>

-----------------------------------------------------------------------------
(* C03 on the model.  F2 (three variants) is open: the implementation layer *)
(* keeps the defective index, and the refinement is checked as              *)
(* "exact, or missed for a listed reason" (DESIGN.md 4.4).                  *)
InvRefinesExact   == Refines(Queries)                       \* expected to fail while F2 is open
InvRefinesOrKnown == RefinesOrKnown(Queries, KnownGaps)
InvSound          == Sound(Queries)
InvNameBlind      == NameBlind(Queries) /\ AllLoaded
\* the same as an action property over the Mutes replies
MuteVerdictExactOrKnown ==
  [][(last'.op = "mutes" /\ last'.quiet) => VerdictOK(AlertLS[last'.ls], KnownGaps)]_vars
=============================================================================
