SPECIFICATION Spec
CONSTANTS
  Keys = {"g1:r/webhook/0", "g1:r/email/1"}
  Threads = {1, 2, 3}
  MaxTime = 2
  MaxCalls = 3
  Retention = 4
  RemoteRetention = 3
  Payloads <- Payloads2
  GCMode = "atomic"
VIEW View
INVARIANTS NewestHeld
PROPERTIES NeverBackwards NeverAcceptExpired KeptUntilExpiry RemergeSilent LinIsSequential
CHECK_DEADLOCK FALSE
