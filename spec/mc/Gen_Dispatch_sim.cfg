\* simulation (-simulate): 4 versions, 3 workers, any number of preemptions, no eager steps
SPECIFICATION GSpec
CONSTANTS
  Workers <- GenWorkers
  NW = 3
  NVersions = 4
  Resolved = {2, 4}
  MaxGroups = 5
  MonotonicSet = FALSE
  MaxFlush = 2
  MaxMaint = 1
  MaxPreempt = 99
  Eager = {}
INVARIANTS Emit InOrderLatest
CHECK_DEADLOCK FALSE
