-------------------------- MODULE MC_DeliveryRetry --------------------------
(* Bounded universe for DeliveryRetry (retry half of C20, one integration). *)
(* Every delivery = (notifier type, canonical outcome script up to MaxLen,  *)
(* own timeout configured or not, position of the end of the flush) is an   *)
(* initial state; the machine (RetryStage loop + SetNotifiesStage) runs it  *)
(* with the extreme gaps of the back-off ticker.  Invariants: the clauses   *)
(* of C20 hold on every complete run, and the machine's runs are exactly    *)
(* those of the closed form from which Gen_DeliveryRetry prints the         *)
(* expectations.  MC_DeliveryRetry_seed.cfg (TimeoutRecoverable = FALSE)    *)
(* must be REJECTED by InvClauses: the clauses have teeth; the same for     *)
(* MC_DeliveryRetry_flat.cfg (BackoffGrows = FALSE).                        *)
EXTENDS DeliveryRetry, TLC, Json

CONSTANTS MaxLenWebhook, MaxLenPagerduty,  \* longest script per notifier type
          Deadlines,                       \* flush deadlines without cancellation
          CancelDeadline, Cancels,         \* reload cancels at c (in Cancels) a flush whose deadline is CancelDeadline
          LongDeadlines, LongLen           \* long flushes: scripts of <= LongLen outcomes that all fail recoverably
                                           \* (the last one repeating): five and more consecutive failures

EndsU == {[dl |-> d, cancel |-> 0] : d \in Deadlines} \cup {[dl |-> CancelDeadline, cancel |-> x] : x \in Cancels}

\* outcomes after which another attempt follows (so something may be scripted behind them)
Going(nt, to) == {o \in Outcomes \ {"hangD"} :
                    IClass(nt, WhyOf([to |-> to], o)) = "rec"}
SeqsUpTo(S, n) == UNION {[1 .. m -> S] : m \in 0 .. n}
ScriptsOf(nt, to, n) == {pre \o <<o>> : pre \in SeqsUpTo(Going(nt, to), n - 1), o \in Outcomes}
MaxLenOf(nt) == IF nt = "webhook" THEN MaxLenWebhook ELSE MaxLenPagerduty
ParamsOf(nt) == UNION {{[nt |-> nt, script |-> s, to |-> to, dl |-> e.dl, cancel |-> e.cancel] :
                          s \in ScriptsOf(nt, to, MaxLenOf(nt)), e \in EndsU} : to \in BOOLEAN}
LongOf(nt) == UNION {{[nt |-> nt, script |-> s, to |-> to, dl |-> d, cancel |-> 0] :
                        s \in SeqsUpTo(Going(nt, to), LongLen) \ {<< >>}, d \in LongDeadlines} : to \in BOOLEAN}
Params == UNION {ParamsOf(nt) \cup LongOf(nt) : nt \in NotifierTypes}

Init == InitWith(Params)
Spec == Init /\ [][Next]_vars

RunNow == [att |-> att, res |-> res, ret |-> ret, logged |-> logged]
InvCanonical == Canonical(p)
InvClauses   == pc = "done" => Clauses(p, RunNow)
InvClosed    == pc = "done" => RunNow \in Runs(p)
InvLogOnly   == logged > 0 => (Len(att) > 0 /\ Last(att).why = "2xx" /\ logged = 1)
InvBounded   == Len(att) <= 8 /\ \A i \in 1 .. Len(att) : att[i].start <= att[i].end /\ att[i].end <= EndOf(p)
\* every terminal state is a returned stage (no run stops half way)
InvProgress  == pc = "tick" => (ENABLED Attempt \/ ENABLED GiveUp)

-----------------------------------------------------------------------------
(* Expectation of one delivery, as printed by Gen_DeliveryRetry.            *)
Whys == {"2xx", "4xx", "429", "5xx", "conn", "timeout", "cut"}
ExpOf(q) ==
  LET R == Runs(q) IN
  [steps  |-> [i \in 1 .. Len(q.script) |->
                 LET o == q.script[i] IN
                 [o |-> o, why |-> WhyOf(q, o), sc |-> SClass(WhyOf(q, o)), ic |-> IClass(q.nt, WhyOf(q, o)),
                  dur |-> DurOf(q, o)]],
   min    |-> SetMin({Len(r.att) : r \in R}),
   max    |-> SetMax({Len(r.att) : r \in R}),
   finals |-> {r.res : r \in R},
   nruns  |-> Cardinality(R)]
CaseOf(q) == [k |-> "retry", nt |-> q.nt, script |-> q.script, to |-> q.to, dl |-> q.dl, cancel |-> q.cancel,
              timeout |-> Timeout, slow |-> SlowDelay, hang |-> HangDelay,
              hi |-> GapHi, lo |-> GapLo, lofrom |-> JudgedLoFrom,
              sclass |-> [w \in Whys |-> SClass(w)],          \* classes by the statement ..
              iclass |-> [w \in Whys |-> IClass(q.nt, w)],    \* .. and by this notifier's code
              exp |-> ExpOf(q)]
=============================================================================
