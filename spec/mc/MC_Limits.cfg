SPECIFICATION Spec
CONSTANTS
  K = 2
  T = 2
  Reqs = {1, 2, 3, 4, 5}
  Pick <- PickAll
  Ops = {"get", "finish", "getquick", "post", "tick"}
VIEW View
INVARIANTS TypeOK SlotsBounded
PROPERTIES RefusedIffFull RefusalCounted PostUnaffected ReleaseOnReturn TimeoutKeepsSlot
CHECK_DEADLOCK FALSE
