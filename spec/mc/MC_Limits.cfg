SPECIFICATION Spec
CONSTANTS
  K = 2
  Reqs = {"g1", "g2", "g3", "g4"}
  Pick <- PickAll
VIEW View
INVARIANTS SlotsBounded
PROPERTIES RefusedIffFull RefusalCounted PostUnaffected ReleaseOnAnswer
CHECK_DEADLOCK FALSE
