SPECIFICATION Spec
CONSTANTS
  Sym = {"l", "d", "sp", "dq", "bs", "ob", "cb", "com", "eq", "til"}
  L = 5
  LV = 0
  LN = 0
  MaxEdit = 0
  Pick <- PickAll
INVARIANTS TypeOK RunAgrees InputLaws RoundTrips SemLawsInv
PROPERTIES StepsProgress
CHECK_DEADLOCK FALSE
