SPECIFICATION Spec
CONSTANTS
  LNames = {"a", "b"}
  LVals = {"x", "y"}
  ANames = {"s"}
  AVals = {"", "x"}
  KNames = {"a", "b", "c"}
  KVals = {"", "x"}
  MaxKV = 4
  MaxBatch = 3
  MaxStr = 7
  MaxRep = 24
  Ends = {"tpast", "none", "future"}
  Pick <- PickAll
INVARIANTS KVLaws BatchLaws StrLaws
CHECK_DEADLOCK FALSE
