----------------------------- MODULE MC_AppSys -----------------------------
(* Bounded configurations of AppSys.tla.  MC_AppSys_defective.cfg selects    *)
(* the seeded flush-deadline rule and MUST violate AtLeastOnce (the          *)
(* invariant discriminates); MC_AppSys_nosnap.cfg / _nogossip.cfg switch     *)
(* off the shutdown snapshot / the gossip of the notification log and MUST   *)
(* violate NoRepeatAfterRestart / NoDuplicateWhenHealthy.  Reloads:          *)
(* MC_AppSys_reload*.cfg; RL = "stopfirst" (seeded C17-5) MUST violate        *)
(* AtLeastOnce, RL = "apifirst" (seeded C07-4) MUST violate                   *)
(* StatusShowsConfigInForce and ReceiversAgree.                               *)
EXTENDS AppSys, Json

NoFaults == [start |-> 0, stop |-> 0, kill |-> 0, post |-> 2, sil |-> 0, exp |-> 0, rl |-> 0]
LateStart == [start |-> 1, stop |-> 0, kill |-> 0, post |-> 2, sil |-> 0, exp |-> 0, rl |-> 0]
QStop == [start |-> 1, stop |-> 1, kill |-> 0, post |-> 2, sil |-> 1, exp |-> 0, rl |-> 0]
QKill == [start |-> 1, stop |-> 0, kill |-> 1, post |-> 2, sil |-> 1, exp |-> 0, rl |-> 0]
QFault == [start |-> 2, stop |-> 1, kill |-> 0, post |-> 2, sil |-> 0, exp |-> 0, rl |-> 0]
SoloStop == [start |-> 1, stop |-> 1, kill |-> 0, post |-> 3, sil |-> 1, exp |-> 1, rl |-> 0]
SoloKill == [start |-> 1, stop |-> 0, kill |-> 1, post |-> 3, sil |-> 1, exp |-> 0, rl |-> 0]
Restarts == [start |-> 2, stop |-> 1, kill |-> 1, post |-> 3, sil |-> 1, exp |-> 1, rl |-> 0]
FaultKill == [start |-> 2, stop |-> 0, kill |-> 1, post |-> 2, sil |-> 0, exp |-> 0, rl |-> 0]

OnePost == [start |-> 0, stop |-> 0, kill |-> 0, post |-> 1, sil |-> 0, exp |-> 0, rl |-> 0]
GenRestart == [start |-> 2, stop |-> 1, kill |-> 1, post |-> 3, sil |-> 1, exp |-> 0, rl |-> 0]
QReload == [start |-> 0, stop |-> 0, kill |-> 0, post |-> 2, sil |-> 0, exp |-> 0, rl |-> 2]
TReload == [start |-> 0, stop |-> 0, kill |-> 0, post |-> 2, sil |-> 0, exp |-> 0, rl |-> 3]
GenReload == [start |-> 0, stop |-> 0, kill |-> 0, post |-> 4, sil |-> 0, exp |-> 0, rl |-> 3]
GenFaults == [start |-> 2, stop |-> 1, kill |-> 1, post |-> 4, sil |-> 1, exp |-> 1, rl |-> 0]
GenHealthy == [start |-> 0, stop |-> 0, kill |-> 0, post |-> 4, sil |-> 0, exp |-> 0, rl |-> 0]

View == <<now, life, upAt, rdy, has, sv, due, pend, nfl, snapN, snapS, mt, net, cnt, cfg, api, file,
          pos, rcv, grp, sent, gen, since, owe, told, healthy, posted, expired, inforce, prevc, chg, lastrl>>
=============================================================================
