SPECIFICATION GenCoordSpec
CONSTANTS
  RecvNames = {"r1", "r2", "r3"}
  IntNames = {"t1", "t2"}
  GBLabels = {"a", "b"}
  MaxEdits = 0
  MaxNodes = 3
  MaxDepth = 2
  MinDefectEdits = 0
  MaxSecrets = 1
  HistLen = 14
  Pick <- PickOne
INVARIANTS EmitCoord
CHECK_DEADLOCK FALSE
