SPECIFICATION GenCfgSpec
CONSTANTS
  RecvNames = {"r1", "r2", "r3"}
  IntNames = {"t1", "t2"}
  GBLabels = {"a", "b"}
  MaxEdits = 12
  MaxNodes = 6
  MaxDepth = 3
  MinDefectEdits = 5
  MaxSecrets = 1
  HistLen = 0
  Pick <- PickOne
INVARIANTS EmitCfg
CHECK_DEADLOCK FALSE
