SPECIFICATION Spec
CONSTANTS
  Ids = {"A", "B", "C"}
  InitUp = {"A", "B"}
  Small = {}
  Big = {}
  Fanout = 3
  TxLimit = 3
  SendList = "current"
  OnTimeout = "ready"
  OkayRequired = 3
  Budgets = {0, 2, 6}
  MaxStop = 2
  Transport = "udp"
  Redial = "on_failure"
  MaxReset = 0
  MaxJoin = 2
  UOrder <- MCOrder
VIEW View
INVARIANTS Delivered Readiness Sane
PROPERTIES JoinGetsAll FlushPasses
CHECK_DEADLOCK FALSE
