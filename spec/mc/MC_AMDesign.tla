---------------------------- MODULE MC_AMDesign -----------------------------
EXTENDS AMDesign
SR_both == <<TRUE, FALSE>>
SR_one  == <<TRUE>>
W_none  == << >>
W_rec   == << [recv |-> "r1", integ |-> "webhook/0", from |-> 3, to |-> 6, kind |-> "rec"] >>
W_unrec == << [recv |-> "r1", integ |-> "webhook/0", from |-> 2, to |-> 5, kind |-> "unrec"] >>
W_hang  == << [recv |-> "r1", integ |-> "webhook/0", from |-> 2, to |-> 4, kind |-> "hang"] >>
GapOne(k) == 1
R_none == << >>
NoIv == << >>
\* a continuing route for g="1" with its own (shorter) timers in front of a catch-all:
\* alerts with g="1" live in two groups, the others in one
R_cont == << [parent |-> 0, rk |-> "{}/{g=\"1\"}", sel |-> "G1", cont |-> TRUE, recv |-> "r1", gby |-> "all", gw |-> 0, gi |-> 2, ri |-> 3, mute |-> NoIv, active |-> NoIv],
             [parent |-> 0, rk |-> "{}/{alertname=~\".+\"}", sel |-> "ALL", cont |-> FALSE, recv |-> "r1", gby |-> "none", gw |-> 1, gi |-> 3, ri |-> 4, mute |-> NoIv, active |-> NoIv] >>
\* first match wins: critical alerts leave the root
\* a nested tree: g="1" (own timers, continue) with a child for a="x" that inherits them; catch-all after it
R_nest == << [parent |-> 0, rk |-> "{}/{g=\"1\"}", sel |-> "G1", cont |-> TRUE, recv |-> "r1", gby |-> "g", gw |-> 0, gi |-> 2, ri |-> 3, mute |-> NoIv, active |-> NoIv],
             [parent |-> 1, rk |-> "{}/{g=\"1\"}/{a=\"x\"}", sel |-> "AX", cont |-> FALSE, recv |-> "", gby |-> "none", gw |-> 0 - 1, gi |-> 0 - 1, ri |-> 0 - 1, mute |-> NoIv, active |-> NoIv],
             [parent |-> 0, rk |-> "{}/{alertname=~\".+\"}", sel |-> "ALL", cont |-> FALSE, recv |-> "", gby |-> "", gw |-> 1, gi |-> 3, ri |-> 4, mute |-> NoIv, active |-> NoIv] >>
\* a catch-all child that is muted during [3, 6) and, in the second variant, active only during [0, 4)
R_mute == << [parent |-> 0, rk |-> "{}/{alertname=~\".+\"}", sel |-> "ALL", cont |-> FALSE, recv |-> "", gby |-> "", gw |-> 0 - 1, gi |-> 0 - 1, ri |-> 0 - 1,
              mute |-> << [name |-> "m1", from |-> 3, to |-> 6] >>, active |-> NoIv] >>
R_active == << [parent |-> 0, rk |-> "{}/{alertname=~\".+\"}", sel |-> "ALL", cont |-> FALSE, recv |-> "", gby |-> "", gw |-> 0 - 1, gi |-> 0 - 1, ri |-> 0 - 1,
              mute |-> NoIv, active |-> << [name |-> "a1", from |-> 0, to |-> 4] >>] >>
R_first == << [parent |-> 0, rk |-> "{}/{sev=\"crit\"}", sel |-> "CRIT", cont |-> FALSE, recv |-> "r1", gby |-> "g", gw |-> 2, gi |-> 2, ri |-> 4, mute |-> NoIv, active |-> NoIv] >>
\* observation-only variables are hidden: none here (the monitor state is part of the judgement)
=============================================================================
