---------------------------- MODULE MC_AMDesign -----------------------------
EXTENDS AMDesign
SR_both == <<TRUE, FALSE>>
SR_one  == <<TRUE>>
W_none  == << >>
W_rec   == << [recv |-> "r1", integ |-> "webhook/0", from |-> 3, to |-> 6, kind |-> "rec"] >>
W_unrec == << [recv |-> "r1", integ |-> "webhook/0", from |-> 2, to |-> 5, kind |-> "unrec"] >>
W_hang  == << [recv |-> "r1", integ |-> "webhook/0", from |-> 2, to |-> 4, kind |-> "hang"] >>
GapOne(k) == 1
\* observation-only variables are hidden: none here (the monitor state is part of the judgement)
=============================================================================
