---------------------------- MODULE MC_AMDesign -----------------------------
EXTENDS AMDesign
SR_both == <<TRUE, FALSE>>
SR_one  == <<TRUE>>
W_none  == << >>
W_rec   == << [integ |-> "webhook/0", from |-> 3, to |-> 6, kind |-> "rec"] >>
W_unrec == << [integ |-> "webhook/0", from |-> 2, to |-> 5, kind |-> "unrec"] >>
W_hang  == << [integ |-> "webhook/0", from |-> 2, to |-> 4, kind |-> "hang"] >>
GapOne(k) == 1
\* observation-only variables are hidden: none here (the monitor state is part of the judgement)
=============================================================================
