SPECIFICATION Spec
CONSTANTS
  GW = 1
  GI = 2
  RI = 4
  Routes <- R_cont
  SR <- SR_one
  INH = FALSE
  Windows <- W_rec
  Used = {"A1", "A3"}
  SilLib = {"S1"}
  MaxTime = 8
  MaxPosts = 2
  MaxSils = 1
  MaxReloads = 0
  RetryGap = 1
  MinTimeout = 3
  RetrySlack = 1
  SchedSlack = 0
  RepeatLag = 0
  GapBound <- GapOne
INVARIANTS NoClause DeadlineInv
CHECK_DEADLOCK FALSE
