SPECIFICATION SpecStrings
CONSTANTS
  Sym = {"l", "n", "d", "col", "dash", "sp", "lf", "dq", "bs", "sq", "ob", "cb", "com", "eq", "bang", "til", "u2"}
  L = 4
  LV = 4
  LN = 0
  MaxEdit = 0
  Pick <- PickAll
INVARIANTS RoundTrips

CHECK_DEADLOCK FALSE
