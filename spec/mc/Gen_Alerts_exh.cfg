SPECIFICATION GenSpec
CONSTANTS
  RT = 2
  Limit = 0
  StaleRule = "impl"
  LabelsOf <- MCLabels
  CanonIds <- MCCanon13
  MaxTime = 6
  HistLen = 3
  Pick <- PickAll
  KnownGaps = {}
  Variants = {"L1", "L1e", "Lbad"}
  Variants2 = {}
  StartOffs = {0, 2, 4}
  EndOffs = {0, 2, 4}
  FixedStart <- Unset
  MaxBatch = 1
  SameInstant = FALSE
  GCPers = {1, 100}
  Ops = {"post1"}
INVARIANTS Emit
CHECK_DEADLOCK FALSE
