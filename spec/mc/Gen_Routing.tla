----------------------------- MODULE Gen_Routing ----------------------------
(* Cases for replay on the real code, one JSON line per tree: the tree, for *)
(* every node (in pre-order) its path, inherited options, key and id, and   *)
(* for every label set of Labels!LSets the ordered list of chosen routes.   *)
EXTENDS MC_Routing

ASSUME PrintT("@@L " \o ToJson([ls |-> LSets]))

Case(t) ==
  LET pre == PreOrder(t)
  IN [ tree  |-> t,
       nodes |-> [i \in 1..Len(pre) |->
                    [p |-> pre[i], o |-> Opts(t, pre[i]), key |-> KeyAt(t, pre[i]), id |-> IdAt(t, pre[i])]],
       exp   |-> [l \in LSetNames |-> Route(t, LSets[l])] ]

\* With Pick = PickOne every evaluation of Sub draws afresh.  TLC evaluates a
\* constant-level expression only once, so the argument mentions the state.
GenNext == AddChild(Sub(Depth - 1 + 0 * Len(tree.kids)))
GenSpec == Init /\ [][GenNext]_vars
Emit == PrintT("@@H " \o ToJson(Case(tree)))
=============================================================================
