SPECIFICATION GenSpec
CONSTANTS
  Keys <- MCKeys2
  Kind = "sil"
  Retention = 2
  MaxTime = 20
  MaxC = 3
  Skip = "never"
  HistLen = 16
  Pick <- PickOne
  Prefix <- MCPrefix0
INVARIANTS Emit Lossless RestartLossless
CHECK_DEADLOCK FALSE
