---------------------------- MODULE Gen_AppSys ----------------------------
(* Generation of scenarios for the whole-program harness (harness/appsys):   *)
(* the actions of AppSys.tla plus a history variable; every complete         *)
(* behaviour is printed as one JSON line.  Each element of hist holds the    *)
(* step (last), the model time and what the specification expects after it   *)
(* (who runs, who is ready, positions, alerts in memory, silences, the        *)
(* notification log, the deliveries so far).  The harness performs the       *)
(* ENVIRONMENT steps (start, stop, kill, post, silence, expire, reload) on    *)
(* app.App instances through their HTTP API in real time and treats the      *)
(* program's own steps as synchronisation points (ready: wait for the         *)
(* cluster status; dedup with sends = TRUE: wait for that webhook delivery).  *)
EXTENDS MC_AppSys
CONSTANTS HistLen,
          EarlyPost,   \* posts may come before every running instance is ready
          Pace         \* an environment step of a kind is offered with probability 1 / Pace at a quiet instant
VARIABLE hist

Pk(S) == IF S = {} THEN {} ELSE {RandomElement(S)}
Gate(k) == RandomElement(1 .. k) = 1       \* (a parameter keeps TLC from evaluating it only once)
Calm == EarlyPost \/ \A i \in Up : rdy[i]
IA == Up \X Alerts

Obs == [e |-> last', now |-> now', life |-> life', rdy |-> rdy', pos |-> pos', has |-> has', sv |-> sv',
        nfl |-> nfl', snapN |-> snapN', snapS |-> snapS',
        sent |-> [k \in 1 .. Len(sent') |-> [i |-> sent'[k].i, a |-> sent'[k].a, c |-> sent'[k].c, t |-> sent'[k].t]],
        healthy |-> healthy', cfg |-> cfg', api |-> api', inforce |-> inforce']
Obs0 == [e |-> [op |-> "init", inst |-> Inst, initup |-> InitUp, alerts |-> Alerts, gw |-> GW, gi |-> GI, ri |-> RI,
                pt |-> PT, st |-> ST, mint |-> MinT, maint |-> Maint, rule |-> Rule, cfgs |-> Cfgs, initcfg |-> InitCfg],
         now |-> 0, life |-> life, rdy |-> rdy, pos |-> pos, has |-> has, sv |-> sv, nfl |-> nfl, snapN |-> snapN, snapS |-> snapS, sent |-> << >>,
         healthy |-> TRUE, cfg |-> cfg, api |-> api, inforce |-> inforce]

GenInit == Init /\ hist = <<Obs0>>

\* one candidate per kind of step, so that the kinds are equally likely in simulation
GenEnv ==
  \/ (Gate(Pace) /\ \E i \in Pk(Inst \ Up) : Start(i))
  \/ (Gate(Pace) /\ \E i \in Pk(Up) : Stop(i))
  \/ (Gate(Pace) /\ \E i \in Pk(Up) : Kill(i))
  \/ (Gate(Pace) /\ Calm /\ \E a \in Pk({b \in Alerts : \E i \in Up : b \notin has[i]}) : Post(Up, a))
  \/ (Gate(Pace) /\ Calm /\ \E q \in Pk({x \in IA : x[2] \notin has[x[1]]}) : Post({q[1]}, q[2]))
  \/ (Gate(Pace) /\ \E q \in Pk({x \in IA : sv[x[1]][x[2]] = 0}) : Silence(q[1], q[2]))
  \/ (Gate(Pace) /\ \E q \in Pk({x \in IA : sv[x[1]][x[2]] = 1}) : Expire(q[1], q[2]))
  \/ (Gate(Pace) /\ \E i \in Pk(Up) : \E c \in Pk(Cfgs \ {cfg[i]}) : \E ov \in Pk(BOOLEAN) : Reload(i, c, "good", ov))
  \/ (Gate(2 * Pace) /\ \E i \in Pk(Up) : \E c \in Pk(Cfgs \cap {cfg[i]}) : Reload(i, c, "good", FALSE))
  \/ (Gate(Pace) /\ \E i \in Pk(Up) : \E c \in Pk(Cfgs \ {cfg[i]}) : Reload(i, c, "badapply", FALSE))
  \/ (Gate(2 * Pace) /\ \E i \in Pk(Up) : \E c \in Pk(Cfgs \ {cfg[i]}) : Reload(i, c, "badload", FALSE))
GenStep ==
  \/ (~Urgent /\ GenEnv)
  \/ \E i \in Pk({j \in Up : ~rdy[j] /\ upAt[j] + ST <= now}) : Ready(i)
  \/ \E i \in Pk({j \in Up : mt[j] <= now}) : Maintain(i)
  \/ \E q \in Pk({x \in IA : x[2] \in has[x[1]] /\ pend[x[1]][x[2]].st = "idle" /\ due[x[1]][x[2]] # NONE /\ due[x[1]][x[2]] <= now}) : FlushStart(q[1], q[2])
  \/ \E q \in Pk({x \in IA : pend[x[1]][x[2]].st = "settle" /\ rdy[x[1]]}) : SettleDone(q[1], q[2])
  \/ \E q \in Pk({x \in IA : pend[x[1]][x[2]].st = "wait" /\ pend[x[1]][x[2]].at <= now}) : Dedup(q[1], q[2])
  \/ \E q \in Pk({x \in IA : pend[x[1]][x[2]].st # "idle" /\ pend[x[1]][x[2]].dl <= now}) : FlushTimeout(q[1], q[2])
  \/ \E m \in Pk({x \in net : x.by <= now}) : Deliver(m)
  \/ (~Urgent /\ Gate(Pace) /\ \E x \in Pk(Up) : \E y \in Pk({z \in Up : z > x}) : PushPull(x, y))
  \/ Tick

GenNext == /\ Len(hist) < HistLen
           /\ GenStep /\ Observe
           /\ hist' = Append(hist, Obs)
GenSpec == GenInit /\ [][GenNext]_<<vars, hist>>
Emit == Len(hist) = HistLen => PrintT("@@H " \o ToJson(hist))
=============================================================================
