SPECIFICATION SpecStrings
CONSTANTS
  Sym = {"l", "n", "d", "col", "dash", "sp", "lf", "dq", "bs", "sq", "bt", "ob", "cb", "com", "eq", "bang", "til", "u2", "u4", "bad", "rep"}
  L = 4
  LV = 3
  LN = 2
  MaxEdit = 0
  Pick <- PickAll
INVARIANTS EmitParse EmitPrint EmitSem

CHECK_DEADLOCK FALSE
