SPECIFICATION ConcSpec
CONSTANTS
  LNames = {"a", "b", "c"}
  LVals = {"x", "y"}
  ANames = {"s", "d"}
  AVals = {"", "x", "y"}
  GEnds = {"past", "none"}
  KNames = {"a"}
  KVals = {"x"}
  MaxKV = 0
  MaxBatch = 4
  MaxSize = 0
  MaxStr = 5
  MaxRep = 0
  HistLen = 25
  MaxSimStr = 48
  Ends = {"past", "none", "future", "tpast", "tfuture"}
  Pick <- PickOne
INVARIANTS EmitSim
CHECK_DEADLOCK FALSE
