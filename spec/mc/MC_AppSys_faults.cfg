SPECIFICATION Spec
CONSTANTS
  Inst = {1, 2}
  InitUp = {2}
  Alerts = {"a"}
  GW = 1
  GI = 3
  RI = 20
  PT = 3
  ST = 2
  MinT = 10
  Maint = 1000
  MaxDelay = 1
  Quantum = 4
  MaxTime = 24
  Rule = "sum"
  Cfgs = {"A"}
  InitCfg = "A"
  RL = "safe"
  Off = {}
  Lim <- QFault
VIEW View
INVARIANTS AtLeastOnce NoDuplicateWhenHealthy SilenceSurvivesRestart NoRepeatAfterRestart ReadyEventually RoutedByConfigInForce StatusShowsConfigInForce ReceiversAgree Sane
CHECK_DEADLOCK FALSE
