SPECIFICATION GenBodySpec
CONSTANTS
  RecvNames = {"r1", "r2", "r3"}
  IntNames = {"t1", "t2"}
  GBLabels = {"a", "b"}
  MaxEdits = 8
  MaxNodes = 3
  MaxDepth = 2
  MinDefectEdits = 4
  MaxSecrets = 3
  HistLen = 0
  Pick <- PickOne
INVARIANTS EmitCfg
CHECK_DEADLOCK FALSE
