SPECIFICATION GenSpec
CONSTANTS
  RT = 2
  Limit = 3
  StaleRule = "impl"
  LabelsOf <- MCLabels
  CanonIds <- MCCanonFx
  MaxTime = 40
  HistLen = 40
  Pick <- PickOne
  KnownGaps = {"F4"}
  Variants = {"F1", "F2", "F3", "F4", "F5", "G1", "G2", "H1", "Lbad"}
  Variants2 = {}
  StartOffs = {0, 2, 3}
  EndOffs = {0, 2, 4, 5, 7}
  FixedStart <- Unset
  MaxBatch = 3
  SameInstant = FALSE
  GCPers = {1, 2, 3, 5}
  Ops = {"postn"}
INVARIANTS Emit
CHECK_DEADLOCK FALSE
