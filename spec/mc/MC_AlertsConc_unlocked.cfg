SPECIFICATION MCSpec
CONSTANTS
  RT = 2
  Limit = 0
  StaleRule = "impl"
  LabelsOf <- CLabelsOf
  CanonIds <- CIds
  Fanout = "unlocked"
  Slurp = "atomic"
  Now0 = 10
  Batch = "alert"
  Scenario = "race"
INVARIANTS InOrder QuiescentEnd
CHECK_DEADLOCK FALSE
