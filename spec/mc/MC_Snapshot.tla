----------------------------- MODULE MC_Snapshot ----------------------------
(* Bounded configurations of Snapshot.  The operation sequences below are   *)
(* the DESIGN (what silence/silence.go and nflog/nflog.go are meant to do)  *)
(* and hypothetical defective writers used as vacuity probes; the check     *)
(* (checks/c11.py) generates MC_Snapshot_real_*.tla at run time with the    *)
(* sequence recorded from the real code by strace and runs the same         *)
(* invariants on it.  OpsWriteFail*: a snapshot whose write fails after a    *)
(* prefix (fault WriteFail); the writer's reaction is Snapshot!ErrorPath,     *)
(* selected by the constant OnWriteError ("rename" = what doMaintenance       *)
(* does, must be rejected; "remove" = repaired, must satisfy the invariants). *)
EXTENDS Snapshot, Json

OD(op, a, b, n, g, da, db) == [op |-> op, a |-> a, b |-> b, n |-> n, g |-> g, da |-> da, db |-> db]
O(op, a, b, n, g) == OD(op, a, b, n, g, "data", "data")      \* everything in the data directory

MCU    == 4
MCRecs == <<2, 3, 2, 2>>    \* generation 0: 2 records, 1: 3 records, 2 and 3: 2 records

\* one snapshot = openReplace; Snapshot (io.Copy: one or more writes); Sync; Close; Rename
Cycle(t, g, w1, w2) == << O("create", t, "", 0, g), O("write", t, "", w1, g), O("write", t, "", w2, g),
                          O("fsync", t, "", 0, g), O("close", t, "", 0, g), O("rename", t, "final", 0, g) >>

\* a maintenance snapshot followed by the shutdown snapshot
OpsGood == Cycle("tmp1", 1, 12, 0) \o Cycle("tmp2", 2, 5, 3)

\* the same with an fsync of the directory after each rename
OpsDirSync == Cycle("tmp1", 1, 12, 0) \o << O("dirsync", "", "", 0, 1) >>
              \o Cycle("tmp2", 2, 5, 3) \o << O("dirsync", "", "", 0, 2) >>

\* defective writers (each must violate AtomicRecover / NoStartupError)
OpsNoFsync == << O("create", "tmp1", "", 0, 1), O("write", "tmp1", "", 12, 1),
                 O("close", "tmp1", "", 0, 1), O("rename", "tmp1", "final", 0, 1) >>
OpsRenameFirst == << O("create", "tmp1", "", 0, 1), O("write", "tmp1", "", 12, 1),
                     O("rename", "tmp1", "final", 0, 1), O("fsync", "tmp1", "", 0, 1),
                     O("close", "tmp1", "", 0, 1) >>
OpsInPlace == << O("create", "final", "", 0, 1), O("write", "final", "", 12, 1),
                 O("fsync", "final", "", 0, 1), O("close", "final", "", 0, 1) >>

\* a good maintenance snapshot (generation 1, 3 records), then a snapshot (generation 2, 2 records
\* = 8 units) whose write fails after a prefix; what happens next is Snapshot!ErrorPath (OnWriteError)
WriteFailAfter(w, f) == Cycle("tmp1", 1, 12, 0)
                        \o << O("create", "tmp2", "", 0, 2), O("write", "tmp2", "", w, 2), O("writefail", "tmp2", "", f, 2) >>
OpsWriteFailTorn     == WriteFailAfter(5, 1)    \* 6 units stored: one record and half of the next
OpsWriteFailBoundary == WriteFailAfter(4, 0)    \* 4 units stored: exactly one record of two
OpsWriteFailEmpty    == WriteFailAfter(0, 0)    \* nothing stored
\* ... followed by a further, successful snapshot (the shutdown snapshot after a failed periodic one)
OpsWriteFailThenGood == WriteFailAfter(5, 1) \o Cycle("tmp3", 3, 4, 4)

\* the temporary file is created in $TMPDIR (os.CreateTemp("", ...)) and renamed into the data directory:
\* fine on one file system (CrossDevice = FALSE), never delivered on two (CrossDevice = TRUE)
CycleTmpDir(t, g, w) == << OD("create", t, "", 0, g, "tmpdir", ""), OD("write", t, "", w, g, "tmpdir", ""),
                           OD("fsync", t, "", 0, g, "tmpdir", ""), OD("close", t, "", 0, g, "tmpdir", ""),
                           OD("rename", t, "final", 0, g, "tmpdir", "data") >>
OpsTmpElsewhere == CycleTmpDir("tmp1", 1, 12) \o CycleTmpDir("tmp2", 2, 8)

View == <<pc, ino, dir, ddir, dlog, hnd, begun, done, failed, errh, epc, hasPrev, phase, post>>
=============================================================================
