SPECIFICATION Spec
CONSTANTS
  Nodes = {"A", "B"}
  Ids = {"s1"}
  Retention = 1
  MaxTime = 5
  MaxNet = 2
  CreateLen = 2
VIEW View
CONSTRAINT Bound
INVARIANTS NewestHeld NoStaleStrict ConvergedStrict
PROPERTIES NeverOlder NoPastRetention RemergeSilent
CHECK_DEADLOCK FALSE
