SPECIFICATION GenSpec
CONSTANTS
  Keys = {"g1:r/webhook/0", "g1:r/email/1"}
  MaxTime = 6
  HistLen = 3
  Retention = 4
  RemoteRetention = 3
  Pick <- PickAll
INVARIANTS Emit
CHECK_DEADLOCK FALSE
