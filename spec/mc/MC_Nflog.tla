------------------------------ MODULE MC_Nflog ------------------------------
(* Bounded configuration of Nflog for exhaustive checking (MC) and for      *)
(* generation of behaviours (Gen: history variable, printed as JSON).       *)
EXTENDS Nflog, Json

CONSTANTS Keys, MaxTime, HistLen, RemoteRetention,
          Pick(_)     \* PickAll: every parameter value (exhaustive); PickOne: one at random (simulation)
PickAll(S) == S
PickOne(S) == {RandomElement(S)}

Payloads == { [f |-> {1},    r |-> {},  d |-> "none"],
              [f |-> {1, 2}, r |-> {},  d |-> "int"],
              [f |-> {},     r |-> {1}, d |-> "str"],
              [f |-> {2},    r |-> {1}, d |-> "float"] }
Expiries == {0, 2}

\* Time advances in steps of 2, so local Log timestamps are even; what gossip
\* may deliver are entries logged by a peer at odd instants: no two different
\* entries ever share key and timestamp (the property's quantifier).
RemoteTs == {t \in 0 .. MaxTime : t % 2 = 1}
\* d = "big": receiver data large enough to make the gossip message oversized
PayloadOf(ts) == IF ts % 4 = 1 THEN [f |-> {3},   r |-> {},  d |-> "str"]
                 ELSE IF ts % 8 = 3 THEN [f |-> {2,3}, r |-> {3}, d |-> "big"]
                 ELSE [f |-> {2,3}, r |-> {3}, d |-> "int"]
Pool == { [k |-> k, ts |-> ts, exp |-> ts + RemoteRetention,
           f |-> PayloadOf(ts).f, r |-> PayloadOf(ts).r, d |-> PayloadOf(ts).d]
          : k \in Keys, ts \in RemoteTs }
Batches == {{a} : a \in Pool} \cup {{a, b} : a, b \in Pool}

TieFreeLog(k)  == ~(k \in DOMAIN st /\ st[k].ts = now)

Next == \/ \E k \in Pick(Keys), p \in Pick(Payloads), x \in Pick(Expiries) : TieFreeLog(k) /\ Log(k, p, x)
        \/ \E B \in Pick(Batches) : Merge(B)
        \/ GC
        \/ Restart
        \/ (now < MaxTime /\ Tick(2))

Spec == Init /\ [][Next]_vars

View == <<now, st, top>>

=============================================================================
