SPECIFICATION Spec
CONSTANTS
  Pick <- PickAll
  MNames = {"R1"}
  Conts = {FALSE}
  Decos <- DecosSmall
  RootDecos <- RootDecosSmall
  Fan = 2
  RootFan = 2
  Depth = 2
INVARIANTS TypeOK Inheritance HasReceiver NonEmpty
CHECK_DEADLOCK FALSE
