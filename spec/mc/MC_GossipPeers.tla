--------------------------- MODULE MC_GossipPeers ---------------------------
(* Bounded configurations of GossipPeers.tla: exhaustive checking             *)
(* (MC_GossipPeers*.cfg; two of them MUST fail: the cached send list of       *)
(* seeded C19-1 and the settle timeout of seeded C08-1 - they show that the   *)
(* invariants discriminate) and generation of schedules (Gen_GossipPeers).    *)
EXTENDS GossipPeers, Json

CONSTANTS MaxStop, MaxJoin, MaxReset, UOrder      \* UOrder: the updates in the order in which they are broadcast (symmetry)

MCOrder == <<"s1", "s2", "s3", "b1", "b2", "b3", "b4">>
Idx(u) == CHOOSE i \in 1 .. Len(UOrder) : UOrder[i] = u
NextOfClass(u) == \A v \in Updates : (origin[v] = "-" /\ (v \in Small <=> u \in Small)) => Idx(u) <= Idx(v)

Next ==
  \/ \E s \in Ids, u \in Updates : NextOfClass(u) /\ Bcast(s, u)
  \/ \E s \in Ids : \E k \in 1 .. Min(Fanout, Cardinality(G(s))) : \E q \in Orders(G(s), k) : Tick(s, q)
  \/ \E pk \in net : Deliver(pk)
  \/ (used.stop < MaxStop /\ \E n \in Ids, how \in {"left", "crashed"} : Stop(n, how))
  \/ \E m \in Ids, n \in Ids : Detect(m, n)
  \/ (used.join < MaxJoin /\ \E n \in Ids, s \in Ids, b \in Budgets : Join(n, s, b))
  \/ \E m \in Ids, n \in Ids : Learn(m, n)
  \/ (used.join < MaxJoin /\ \E n \in Ids, b \in Budgets : Restart(n, b))
  \/ \E m \in Ids, n \in Ids : Reconnect(m, n)
  \/ \E a \in Ids, b \in Ids : Probe(a, b)
  \/ (used.reset < MaxReset /\ \E n \in Ids : ResetIn(n))
  \/ \E n \in Ids : Poll(n)
  \/ \E n \in Ids : Expire(n)
  \/ \E n \in Ids : Flush(n)

Spec == Init /\ [][Next]_vars

View == <<life, mem, ghost, failed, cache, st, gq, net, origin, cohort, pool, hurt, wide, ready, settle, used>>
=============================================================================
