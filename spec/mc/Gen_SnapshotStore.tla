-------------------------- MODULE Gen_SnapshotStore -------------------------
(* Complete histories of HistLen operations of SnapshotStore, one JSON line each.  Every     *)
(* element: the operation (op, k), and AFTER it: the store st, now, the number of snapshots  *)
(* written gen, the file content file, the state captured by the last completed pass cap,     *)
(* and for a restart what it loads (= file) and must load (= cap).                             *)
(* Prefix (a sequence of [op, k]) fixes the first operations, so that the exhaustive          *)
(* enumeration starts from a store that has been snapshotted.                                  *)
EXTENDS MC_SnapshotStore
CONSTANT Prefix
VARIABLE hist

MCPrefix0 == << >>
MCPrefix1 == << [op |-> "add", k |-> "k1"], [op |-> "tick", k |-> ""] >>

Allowed(op, k) == IF Len(hist) >= Len(Prefix) THEN TRUE ELSE Prefix[Len(hist) + 1] = [op |-> op, k |-> k]
Rec(op, k) == /\ Allowed(op, k)
              /\ hist' = Append(hist, [op |-> op, k |-> k, st |-> st', now |-> now', phase |-> phase',
                                       gen |-> gen', file |-> file', cap |-> cap', loaded |-> loaded'])

GenInit == Init /\ hist = << >>
GenNext == /\ Len(hist) < HistLen
           /\ \/ \E k \in Pick({x \in Keys : phase = "up" /\ ~st[x].p}) : Add(k) /\ Rec("add", k)
              \/ \E k \in Pick({x \in Keys : CanExtend(x)})   : Extend(k)   /\ Rec("extend", k)
              \/ \E k \in Pick({x \in Keys : CanComment(x)})  : Comment(k)  /\ Rec("comment", k)
              \/ \E k \in Pick({x \in Keys : CanAnnotate(x)}) : Annotate(k) /\ Rec("annotate", k)
              \/ \E k \in Pick({x \in Keys : CanExpire(x)})   : Expire(k)   /\ Rec("expire", k)
              \/ \E k \in Pick({x \in Keys : CanRelog(x)})    : Relog(k)    /\ Rec("relog", k)
              \/ Tick /\ Rec("tick", "")
              \/ Shutdown /\ Rec("shutdown", "")
              \/ Kill /\ Rec("kill", "")
              \/ Restart /\ Rec("restart", "")
GenSpec == GenInit /\ [][GenNext]_<<vars, hist>>
Emit == Len(hist) = HistLen => PrintT("@@H " \o ToJson(hist))
=============================================================================
