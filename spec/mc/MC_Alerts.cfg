SPECIFICATION Spec
CONSTANTS
  RT = 2
  Limit = 0
  StaleRule = "impl"
  LabelsOf <- MCLabels
  CanonIds <- MCCanon13
  MaxTime = 4
  Pick <- PickAll
  KnownGaps = {}
  Variants = {"L1", "L1e", "L2", "Lbad", "Lnone"}
  Variants2 = {"L2", "Lbad", "Lnone"}
  StartOffs = {1, 2, 3}
  EndOffs = {1, 2, 3, 5}
  MaxBatch = 2
  SameInstant = TRUE
  Ops = {"post1", "post2", "gc", "tickgc", "tick", "get"}
VIEW View
INVARIANTS WellFormed
PROPERTIES BestEffort StartRule TimeoutRule PastEndResolves OnlyResolvedCollected GCCollects RefusalCounted
CHECK_DEADLOCK FALSE
