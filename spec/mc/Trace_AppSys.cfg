SPECIFICATION TraceSpec
CONSTANTS
  TraceFile = "trace.ndjson"
  Inst = {1, 2, 3}
  InitUp = {}
  Alerts = {"a", "b"}
  GW = 0
  GI = 0
  RI = 0
  PT = 0
  ST = 0
  MinT = 0
  Maint = 0
  MaxDelay = 0
  Quantum = 1
  MaxTime = 0
  Rule = "sum"
  Cfgs = {"A", "B", "C"}
  InitCfg = "A"
  RL = "safe"
  Off = {}
  Lim <- NoLim
CONSTRAINT HighWater
POSTCONDITION TraceAccepted
CHECK_DEADLOCK FALSE
