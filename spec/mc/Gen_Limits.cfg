SPECIFICATION GenSpec
CONSTANTS
  K = 2
  Reqs = {"g1", "g2", "g3", "g4", "g5", "g6", "g7", "g8"}
  Pick <- PickOne
  HistLen = 16
INVARIANTS Emit
CHECK_DEADLOCK FALSE
