SPECIFICATION GenSpec
CONSTANTS
  K = 2
  T = 2
  Reqs = {1, 2, 3, 4, 5, 6, 7, 8, 9, 10}
  Pick <- PickOne
  Ops = {"get", "finish", "getquick", "post", "tick"}
  HistLen = 18
INVARIANTS Emit
CHECK_DEADLOCK FALSE
