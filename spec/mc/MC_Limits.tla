----------------------------- MODULE MC_Limits ------------------------------
EXTENDS Limits, Json, Sequences
CONSTANTS Pick(_),   \* PickAll: every choice (exhaustive); PickOne: one random choice (simulation)
          Ops        \* operation types of this configuration
PickAll(S) == S
PickOne(S) == {RandomElement(S)}
Min(S) == CHOOSE x \in S : \A y \in S : x <= y
\* parked requests are interchangeable: they arrive in the order of their numbers
Next == \/ "get" \in Ops /\ Unused # {} /\ GetArrive(Min(Unused))
        \/ "finish" \in Ops /\ \E r \in Pick(IF running = {} THEN Reqs ELSE running) : GetFinish(r)
        \/ "getquick" \in Ops /\ GetQuick
        \/ "post" \in Ops /\ Post
        \/ "tick" \in Ops /\ Tick
Spec == Init /\ [][Next]_vars
View == <<running, waiting, age, answered>>
=============================================================================
