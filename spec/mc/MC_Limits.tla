----------------------------- MODULE MC_Limits ------------------------------
EXTENDS Limits, Json, Sequences
CONSTANT Pick(_)
PickAll(S) == S
PickOne(S) == {RandomElement(S)}
Next == \/ \E r \in Pick(Reqs) : GetArrive(r)
        \/ \E r \in Pick(IF inflight = {} THEN Reqs ELSE inflight) : GetFinish(r)
        \/ GetQuick
        \/ Post
Spec == Init /\ [][Next]_vars
View == <<inflight, served>>
=============================================================================
