SPECIFICATION SpecBody
CONSTANTS
  RecvNames = {"r1", "r2", "r3"}
  IntNames = {"t1", "t2"}
  GBLabels = {"a", "b"}
  MaxEdits = 3
  MaxNodes = 3
  MaxDepth = 2
  MinDefectEdits = 0
  MaxSecrets = 1
  HistLen = 0
  Pick <- PickAll
INVARIANTS AcceptedWellFormed EditsAccepted DefectsRejected RoundTrip RoundTripExact NoSecretLeak
CHECK_DEADLOCK FALSE
