----------------------------- MODULE Gen_Inhibit ----------------------------
(* Behaviours of Inhibit printed as JSON for replay on the real provider +  *)
(* inhibitor.  The environment waits for the inhibitor after every Put      *)
(* (PutSync); the garbage collectors run on their tickers (TickPeriodic).   *)
(* Every step carries, for every queried label set, the verdict of the      *)
(* implementation layer (impl, by), of the reference (ref, q = the alerts   *)
(* that may be named as inhibitor) and the gap classes that explain a       *)
(* difference.  The library line (@@L) carries every rule with its optional *)
(* name; the harness renders the rule set as the inhibit_rules section of a *)
(* configuration file and loads it with the real config.Load.               *)
EXTENDS MC_Inhibit

CONSTANT HistLen
VARIABLE hist

ASSUME PrintT("@@L " \o ToJson([ls |-> AlertLS, rules |-> RuleSets,
                                sgc |-> ScacheGCEvery, pgc |-> ProvGCEvery]))

\* verdicts in the state after the step (explicit-state operators: only variables are primed)
Verdicts ==
  LET R == RuleSets[rs] IN
  { LET ls == AlertLS[q]
        m  == MutesImplAt(Loaded(R), scache', sindex', now', ls)   \* what NewInhibitor keeps
        rf == InhibitedRefAt(R, prov', now', ls)
    IN [ls |-> q, impl |-> m.muted, by |-> m.by, rule |-> m.rule, ref |-> rf,
        q |-> QualifyingAt(R, prov', now', ls),
        gap |-> IF m.muted = rf THEN {} ELSE GapClassesAt(R, prov', scache', sindex', now', ls)]
    : q \in Queries }
IndexOf(si) == {[k |-> eq, v |-> si[eq]] : eq \in DOMAIN si}
Obs == [e |-> last', t |-> now', rs |-> rs', prov |-> prov',
        sc |-> scache', si |-> [i \in DOMAIN sindex' |-> IndexOf(sindex'[i])],
        firing |-> Firing(prov', now'), v |-> Verdicts]

\* the end is picked among those Alert.Validate accepts (start <= end), so that a random
\* pick (simulation) never disables the step
GenPut == \E a \in Pick(PutAlerts), sm \in Pick(StartModes), to \in Pick(Timeouts) :
            \E e \in Pick({x \in Ends(now) : x >= NewAlert(a, sm, x, to).start}) :
               PutSync(a, sm, e, to)
\* simulation: time passes in about a quarter of the steps (PickAll: always offered)
\* (written over `now` so that TLC does not pre-evaluate it as a constant)
TickGate == \E k \in Pick({now, now + 1}) : k = now
GenNext == /\ Len(hist) < HistLen
           /\ \/ GenPut
              \/ (now < MaxTime /\ TickGate /\ TickPeriodic)
           /\ hist' = Append(hist, Obs)
GenInit == Init /\ hist = << >>
GenSpec == GenInit /\ [][GenNext]_<<vars, hist>>
Emit == Len(hist) = HistLen => PrintT("@@H " \o ToJson(hist))
=============================================================================
