SPECIFICATION Spec
CONSTANTS
  GW = 1
  GI = 2
  RI = 4
  Routes <- R_none
  SR <- SR_both
  INH = FALSE
  Windows <- W_none
  Used = {"A1", "A2"}
  SilLib = {"S1"}
  MaxTime = 8
  MaxPosts = 2
  MaxSils = 0
  MaxReloads = 1
  RetryGap = 1
  MinTimeout = 3
  RetrySlack = 1
  SchedSlack = 0
  RepeatLag = 0
  GapBound <- GapOne
INVARIANTS NoClause DeadlineInv
CHECK_DEADLOCK FALSE
