-------------------------- MODULE Gen_DeliveryConc --------------------------
(* Sets of 2 - 4 batches that are delivered concurrently through ONE real   *)
(* notifier instance (DeliveryConc.tla): every step of a simulated          *)
(* behaviour prints one set (marker @@H): the notifier's configuration      *)
(* (type, send_resolved, max_alerts) and per call a batch over the universe *)
(* of Delivery.tla with the payload the statement expects for it alone      *)
(* (MC_Delivery!BatchObs).  Seeded by VERIF_SEED (Pick <- PickOne).         *)
EXTENDS Gen_Delivery

NCalls == <<2, 2, 3, 3, 4, 4, 4>>   \* weighted
\* a batch of 1 - 3 alerts (j: so that every use is evaluated afresh)
ConcBatch(j) ==
  {SubSeq(<<a1, a2, a3>>, 1, m) : m \in Pick(1 .. 3), a1 \in Slot(LabelU, AnnU, TRUE),
                                  a2 \in Slot(LabelU, AnnU, TRUE), a3 \in Slot(LabelU, AnnU, TRUE)}
ConcNext ==
  /\ c.i < HistLen
  /\ \E i \in Pick(1 .. Len(NCalls)) :
       LET n == NCalls[i] IN
       \E nt \in Pick({"webhook", "pagerduty"}), sr \in Pick(BOOLEAN), mx \in Pick(0 .. 2),
          b1 \in ConcBatch(1), b2 \in ConcBatch(2), b3 \in ConcBatch(3), b4 \in ConcBatch(4),
          g1 \in Pick(GroupU), g2 \in Pick(GroupU) :
         LET max == IF nt = "webhook" THEN mx ELSE 0
             bs  == <<b1, b2, b3, b4>>
             gs  == <<g1, g2, g1, g2>>
         IN Put([k |-> "conc", nt |-> nt, sr |-> sr, max |-> max,
                 calls |-> [j \in 1 .. n |-> BatchObs(bs[j], gs[j], sr, max)]])
ConcSpec == SimInit /\ [][ConcNext]_c
=============================================================================
