SPECIFICATION Spec
CONSTANTS
  Nodes = {"A", "B", "C"}
  InitUp = {"A"}
  Updates = {"s1", "s5"}
  Foreign = {}
  MaxPacket = 1400
  TxLimit = 3
  GOverhead = 3
  GLimit = 1398
  OversizeCap = 1
  D = 2
  MaxRound = 2
  MaxNet = 2
  MaxLose = 0
  MaxDup = 0
  MaxCrash = 0
  MaxInject = 0
  MaxBurst = 0
  MaxSweep = 3
  PPOn = FALSE
  BurstSizes = {2, 3}
  FullLen = 3
  PartKinds = {"garbage"}
  UKey <- AllKey
  DLen <- AllLen
VIEW View
INVARIANTS DeliveredFast DeliveredSweep Accounted OversizeSane
PROPERTIES JoinGetsAll BadInputHarmless DuplicateSilent GrowOnly
CHECK_DEADLOCK FALSE
