SPECIFICATION Spec
CONSTANTS
  Calls = {1, 2, 3}
  Chunks = 2
  SharedBuffer = FALSE
INVARIANTS Faithful NothingElse RecordedIntact Completes
CHECK_DEADLOCK FALSE
