SPECIFICATION GenSpec
CONSTANTS
  Keys <- MCKeys1
  Kind = "sil"
  Retention = 1
  MaxTime = 12
  MaxC = 3
  Skip = "never"
  HistLen = 6
  Pick <- PickAll
  Prefix <- MCPrefix1
INVARIANTS Emit
CHECK_DEADLOCK FALSE
