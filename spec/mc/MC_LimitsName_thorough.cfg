SPECIFICATION Spec
CONSTANTS
  N = 3
  Ids = {"a1", "a2", "a3", "a4", "b1"}
  NameOf <- MCName
  EndOffs = {0, 1, 3}
  GCPers = {1}
  MaxTime = 4
  Pick <- PickAll
VIEW View
INVARIANTS LimitHolds
PROPERTIES ResendAccepted RoomOnlyByExpiry RefusalCounted RefusalChangesNothing
CHECK_DEADLOCK FALSE
