SPECIFICATION GenSpec
CONSTANTS
  N = 4
  Ids = {"a1", "a2", "a3", "a4", "a5", "a6", "a7", "a8", "a9", "b1", "b2"}
  NameOf <- MCName
  EndOffs = {0, 1, 2, 3, 5, 8}
  GCPers = {1, 2, 3}
  MaxTime = 100
  Pick <- PickOne
  HistLen = 40
  Fill = 0
  FillEnds = {}
  Distinct = FALSE
  Waits = {}
  Fresh = 0
INVARIANTS Emit
CHECK_DEADLOCK FALSE
