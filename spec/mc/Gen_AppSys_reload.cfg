SPECIFICATION GenSpec
CONSTANTS
  Inst = {1}
  InitUp = {1}
  Alerts = {"a", "b"}
  GW = 1
  GI = 3
  RI = 20
  PT = 3
  ST = 0
  MinT = 10
  Maint = 1000
  MaxDelay = 1
  Quantum = 2
  MaxTime = 100000
  Rule = "sum"
  Cfgs = {"A", "B"}
  InitCfg = "A"
  RL = "safe"
  Off = {}
  Lim <- GenReload
  HistLen = 50
  EarlyPost = TRUE
  Pace = 2
INVARIANTS Emit AtLeastOnce NoDuplicateWhenHealthy SilenceSurvivesRestart NoRepeatAfterRestart ReadyEventually RoutedByConfigInForce StatusShowsConfigInForce ReceiversAgree Sane
CHECK_DEADLOCK FALSE
