SPECIFICATION Spec
CONSTANTS
  Workers = {"w1", "w2", "w3"}
  NVersions = 4
  Resolved = {2, 4}
  MaxGroups = 4
  MonotonicSet = FALSE
INVARIANTS OneLiveGroup
CHECK_DEADLOCK FALSE
