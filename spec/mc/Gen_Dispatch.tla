---------------------------- MODULE Gen_Dispatch ----------------------------
(***************************************************************************)
(* Gen: complete SCHEDULES of Dispatch.tla, one JSON line each, for the     *)
(* replay on the real dispatcher (harness/dsched).  A schedule is a         *)
(* sequence of steps [a(ctor), act(ion), v(ersion), g(roup)] with the       *)
(* abstract state after the step: map entry, per group id version held /    *)
(* destroyed / cancelled / running / position of the run goroutine, the     *)
(* position of every worker and of the maintenance sweep.                   *)
(* Actors: the workers, "f<g>" = the run goroutine of group g, "m" = the    *)
(* maintenance sweep.  An actor is BUSY while it is between two of its      *)
(* blocking points (a worker that holds an alert, a flush in progress, a    *)
(* sweep that handles a group).  Schedules are filtered inside the next-    *)
(* state relation (no CONSTRAINT):                                          *)
(*  - at most MaxPreempt PREEMPTIONS: steps of an actor other than the one   *)
(*    that made the previous step while that one is still busy              *)
(*    (context-bounded enumeration: every schedule with at most MaxPreempt  *)
(*    forced context switches, whatever its length);                        *)
(*  - at most MaxFlush flushes and MaxMaint maintenance sweeps;             *)
(*  - symmetric workers: the next version is received by the first idle     *)
(*    worker;                                                               *)
(*  - actions listed in Eager (private steps that commute with everything:  *)
(*    Create, FlushNotify) are taken as soon as they are enabled.           *)
(* A schedule is complete when every version has been handed over, nobody   *)
(* is busy and no further flush / sweep can start within the bounds.        *)
(***************************************************************************)
EXTENDS Dispatch, Json

CONSTANTS NW, MaxFlush, MaxMaint, MaxPreempt, Eager

VARIABLES hist, last, np, nfl, nm

gvars == <<vars, hist, last, np, nfl, nm>>

WS == <<"w1", "w2", "w3", "w4">>
GenWorkers == {WS[i] : i \in 1..NW}
WIdx(x) == CHOOSE i \in 1..NW : WS[i] = x
FS == <<"f1", "f2", "f3", "f4", "f5", "f6">>

GInit == Init /\ hist = << >> /\ last = "none" /\ np = 0 /\ nfl = 0 /\ nm = 0

Busy(a) == IF a \in Workers THEN w[a].pc # "idle"
           ELSE IF a = "m" THEN maint.pc # "idle"
           ELSE IF a = "none" THEN FALSE
           ELSE \E g \in DOMAIN grp : FS[g] = a /\ grp[g].fl # "wait"

\* the eager step that is pending, if any
EagerPending ==
  \/ "Create" \in Eager /\ \E x \in Workers : w[x].pc = "create"
  \/ "FlushNotify" \in Eager /\ \E g \in DOMAIN grp : grp[g].fl = "begun"
  \/ "MaintStop" \in Eager /\ maint.pc = "stop"
IsEager(act) == act \in Eager

Obs == [gmap |-> gmap',
        grp  |-> [g \in DOMAIN grp' |-> [ver |-> grp'[g].ver, destroyed |-> grp'[g].destroyed, cancelled |-> grp'[g].cancelled,
                                         running |-> grp'[g].running, frozen |-> grp'[g].frozen, fl |-> grp'[g].fl]],
        w    |-> [x \in Workers |-> [pc |-> w'[x].pc, v |-> w'[x].v, el |-> w'[x].el, ag |-> w'[x].ag, loaded |-> w'[x].loaded]],
        maint |-> maint']

\* bookkeeping of a step of actor a (evaluated after the action so that primed variables are known)
Log(a, act, v, g, ok) ==
  /\ (EagerPending => IsEager(act))
  /\ LET p == IF last # a /\ Busy(last) THEN 1 ELSE 0 IN
       /\ np + p <= MaxPreempt
       /\ np' = np + p
  /\ last' = a
  /\ hist' = Append(hist, [a |-> a, act |-> act, v |-> v, g |-> g, ok |-> ok, st |-> Obs])

FirstIdle(x) == w[x].pc = "idle" /\ \A y \in Workers : w[y].pc = "idle" => WIdx(x) <= WIdx(y)

GNext ==
  \/ \E x \in Workers :
       \/ FirstIdle(x) /\ Recv(x) /\ Log(x, "Recv", Head(chan), 0, TRUE) /\ UNCHANGED <<nfl, nm>>
       \/ Load(x)   /\ Log(x, "Load", w[x].v, gmap, gmap # 0) /\ UNCHANGED <<nfl, nm>>
       \/ Insert(x) /\ Log(x, "Insert", w[x].v, w[x].el, w'[x].pc = "idle") /\ UNCHANGED <<nfl, nm>>
       \/ Create(x) /\ Log(x, "Create", w[x].v, nid', TRUE) /\ UNCHANGED <<nfl, nm>>
       \/ Store(x)  /\ Log(x, "Store", w[x].v, w[x].ag, w'[x].pc = "idle") /\ UNCHANGED <<nfl, nm>>
  \/ \E g \in DOMAIN grp :
       \/ nfl < MaxFlush /\ FlushBegin(g) /\ Log(FS[g], "FlushBegin", grp[g].ver, g, TRUE) /\ nfl' = nfl + 1 /\ nm' = nm
       \/ FlushNotify(g) /\ Log(FS[g], "FlushNotify", grp[g].frozen, g, TRUE) /\ UNCHANGED <<nfl, nm>>
       \/ FlushEnd(g)    /\ Log(FS[g], "FlushEnd", grp[g].frozen, g, grp'[g].destroyed) /\ UNCHANGED <<nfl, nm>>
  \/ nm < MaxMaint /\ MaintCheck /\ Log("m", "MaintCheck", 0, gmap, TRUE) /\ nm' = nm + 1 /\ nfl' = nfl
  \/ MaintStop   /\ Log("m", "MaintStop", 0, maint.g, TRUE) /\ UNCHANGED <<nfl, nm>>
  \/ MaintDelete /\ Log("m", "MaintDelete", 0, maint.g, gmap' # gmap) /\ UNCHANGED <<nfl, nm>>

GSpec == GInit /\ [][GNext]_gvars

-----------------------------------------------------------------------------
AllIdle == Quiescent /\ maint.pc = "idle" /\ \A g \in DOMAIN grp : grp[g].fl = "wait"
CanFlush == nfl < MaxFlush /\ \E g \in DOMAIN grp : grp[g].running /\ ~grp[g].destroyed /\ ~grp[g].cancelled /\ grp[g].ver # 0
CanMaint == nm < MaxMaint /\ gmap # 0 /\ grp[gmap].destroyed
Complete == AllIdle /\ ~CanFlush /\ ~CanMaint

\* a version is handed over when a successful Insert or Store makes it part of a group of the map
HandOvers == {i \in 1..Len(hist) : hist[i].act \in {"Insert", "Store"} /\ hist[i].ok}
InOrder == \A i, j \in HandOvers : i < j => hist[i].v < hist[j].v
\* C14 at the end of the schedule (a resolved last version may have been notified and removed)
LatestOK == \A g \in Holders : grp[g].ver = NVersions
NoOrphanOK == NVersions \notin Resolved => gmap # 0 /\ Live(gmap) /\ grp[gmap].running /\ grp[gmap].ver # 0

Emit == Complete => PrintT("@@H " \o ToJson([steps |-> hist, inorder |-> InOrder, latest |-> LatestOK,
                                             noorphan |-> NoOrphanOK, onelive |-> OneLiveGroup, np |-> np]))
\* on the model, handing the versions over in submission order is enough for C14
InOrderLatest == Complete /\ InOrder => LatestOK
=============================================================================
