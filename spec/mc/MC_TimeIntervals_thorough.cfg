SPECIFICATION Spec
CONSTANTS
  MaxDay = 146462
  ZoneTo = 146462
  OracleWindows <- MCOracleWindowsThorough
  ImplFrom = 10592
  ImplTo = 12784
  GateFrom = 10900
  GateTo = 11300
INVARIANTS CivilOK WeekdayOK MonthLenOK Cycle400 MinuteOK ZoneRuleOK OracleTable ImplEqualsRef ExplicitEmptyGap GatingRefines
CHECK_DEADLOCK FALSE
