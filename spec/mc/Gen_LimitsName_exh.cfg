SPECIFICATION ExhSpec
CONSTANTS
  N = 4
  Ids = {"a1", "a2", "a3", "a4", "a5", "a6", "a7", "a8", "a9", "a10", "a11", "a12"}
  NameOf <- MCName
  EndOffs = {}
  GCPers = {1}
  MaxTime = 100
  Pick <- PickAll
  HistLen = 0
  Fill = 4
  FillEnds = {1, 2, 3, 4, 6}
  Distinct = FALSE
  Waits = {1, 2, 3, 4, 5, 6, 7}
  Fresh = 4
INVARIANTS ExhEmit
CHECK_DEADLOCK FALSE
