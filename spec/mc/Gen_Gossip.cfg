SPECIFICATION GenSpec
CONSTANTS
  Nodes = {"A", "B", "C"}
  InitUp = {"A", "B", "C"}
  Updates = {"s1", "s2", "s3", "s4", "s5", "s6", "s7", "n1", "n2", "f1", "f2"}
  Foreign = {"f1", "f2"}
  MaxPacket = 1400
  TxLimit = 3
  GOverhead = 3
  GLimit = 1398
  OversizeCap = 200
  D = 2
  MaxRound = 99
  MaxNet = 6
  MaxLose = 4
  MaxDup = 3
  MaxCrash = 2
  MaxInject = 5
  MaxBurst = 2
  MaxSweep = 99
  PPOn = TRUE
  BurstSizes = {199, 200, 201, 205}
  FullLen = 3
  PartKinds = {"garbage", "nilent", "empty"}
  HistLen = 60
  UKey <- AllKey
  DLen <- AllLen
INVARIANTS Emit DeliveredFast DeliveredSweep Accounted OversizeSane
PROPERTIES JoinGetsAll BadInputHarmless DuplicateSilent GrowOnly
CHECK_DEADLOCK FALSE
