SPECIFICATION GenSpec
CONSTANTS
  LNames = {"a", "b"}
  LVals = {"x", "y"}
  ANames = {"s"}
  AVals = {"", "x"}
  GEnds = {"past", "none"}
  KNames = {"a"}
  KVals = {"x"}
  MaxKV = 0
  MaxBatch = 2
  MaxSize = 6
  MaxStr = 5
  MaxRep = 44
  HistLen = 1
  MaxSimStr = 0
  Ends = {"past", "none", "future", "tpast", "tfuture"}
  Pick <- PickAll
INVARIANTS Emit
CHECK_DEADLOCK FALSE
