SPECIFICATION MCSpec
CONSTANTS
  RT = 2
  Limit = 0
  StaleRule = "impl"
  LabelsOf <- CLabelsOf
  CanonIds <- CIds
  Fanout = "locked"
  Slurp = "early"
  Now0 = 10
  Batch = "alert"
  Scenario = "subscribe"
INVARIANTS InOrder QuiescentEnd
CHECK_DEADLOCK FALSE
