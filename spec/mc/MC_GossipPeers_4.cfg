SPECIFICATION Spec
CONSTANTS
  Ids = {"A", "B", "C", "D"}
  InitUp = {"A", "B", "C"}
  Small = {}
  Big = {"b1", "b2"}
  Fanout = 3
  TxLimit = 3
  SendList = "current"
  OnTimeout = "ready"
  OkayRequired = 3
  Budgets = {0}
  MaxStop = 1
  Transport = "udp"
  Redial = "on_failure"
  MaxReset = 0
  MaxJoin = 1
  UOrder <- MCOrder
VIEW View
INVARIANTS Delivered Readiness Sane
PROPERTIES JoinGetsAll FlushPasses
CHECK_DEADLOCK FALSE
