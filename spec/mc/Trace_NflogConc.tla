-------------------------- MODULE Trace_NflogConc ---------------------------
(* Validation of concurrent histories recorded from ONE real nflog.Log     *)
(* (harness/c10 TestConc) against NflogConc.tla.                            *)
(*                                                                          *)
(* A history is the sequence of CALL and RETURN events of the operations    *)
(* of several goroutines, ordered by a global atomic counter taken just     *)
(* before each call and just after each return.  A "call" line carries the  *)
(* arguments AND the reply that was observed at the return (the whole       *)
(* history is known when it is validated, so a linearization point whose    *)
(* reply differs from the recorded one is pruned at once).  The Lin steps   *)
(* of NflogConc are silent: they consume no line and may be placed anywhere *)
(* between the call line and the return line of their operation.  A round   *)
(* is explained iff TLC finds a placement under which                       *)
(*   - every Lin step yields exactly the recorded reply (Query: found and    *)
(*     the entry; GC: number of dropped entries; Log / Merge: number of      *)
(*     broadcasts; MarshalBinary / Snapshot: the entries held), and          *)
(*   - the state read at quiescence ("quiesce") is the state of the model.   *)
(* Rounds are concatenated; "reset" starts a round with the state the real  *)
(* log held for the round's keys and the round's instant.  Instants are     *)
(* ranks (see the harness): inside a round the clock does not cross any     *)
(* expiry or remote timestamp, so `now` is constant between two resets.     *)
(*                                                                          *)
(* Acceptance = high-water mark of the line counter (silent steps make the  *)
(* diameter useless): every line was consumed on some path.                 *)
EXTENDS NflogConc, Json, SequencesExt

CONSTANT TraceFile
Trace == ndJsonDeserialize(TraceFile)

VARIABLE l
tvars == <<cvars, l>>

Ent(j)  == [k |-> j.k, ts |-> j.ts, exp |-> j.exp, f |-> ToSet(j.f), r |-> ToSet(j.r), d |-> j.d]
Ents(s) == {Ent(j) : j \in ToSet(s)}
Pay(j)  == [f |-> ToSet(j.f), r |-> ToSet(j.r), d |-> j.d]
StateOf(S) == [k \in {e.k : e \in S} |-> CHOOSE e \in S : e.k = k]
NoExp(e) == [e EXCEPT !.exp = 0]

ev == Trace[l]

\* the call record of a "call" line; `at` = the line, where the recorded reply is
\* (a Log that broadcast nothing: ent.ts is the clock value read BEFORE the call,
\* a lower bound of the one Log used - the reply is explained iff the held entry
\* is newer than that)
CallRec(j, line) ==
  CASE j.op = "log"   -> [op |-> "log", k |-> j.k, p |-> Pay(j.p), x |-> j.x, e |-> Ent(j.ent),
                          t |-> now, done |-> FALSE, res |-> NoRes, at |-> line]
    [] j.op = "merge" -> [op |-> "merge", b |-> Ents(j.b), t |-> now, done |-> FALSE, res |-> NoRes, at |-> line]
    [] j.op = "gc"    -> [op |-> "gc", t |-> now, done |-> FALSE, res |-> NoRes, at |-> line]
    [] j.op = "query" -> [op |-> "query", k |-> j.k, t |-> now, done |-> FALSE, res |-> NoRes, at |-> line]
    [] j.op = "snap"  -> [op |-> "snap", t |-> now, done |-> FALSE, res |-> NoRes, at |-> line]

\* the reply computed by the specification is the recorded one
Matches(res, j) ==
  CASE j.op = "log"   -> res.sent = j.sent
    [] j.op = "merge" -> res.sent = j.sent
    [] j.op = "gc"    -> res.n = j.n
    [] j.op = "query" -> /\ res.found = j.found
                         /\ j.found => NoExp(res.e) = NoExp(Ent(j.ent))
    [] j.op = "snap"  -> res.held = Ents(j.st)

AllIdle == \A g \in Threads : pend[g] = Idle

Reset == /\ AllIdle
         /\ now' = ev.now
         /\ st' = StateOf(Ents(ev.st))
         /\ top' = st'
         /\ bcast' = 0
         /\ last' = [op |-> "init"]
         /\ UNCHANGED pend

Quiesce == /\ AllIdle
           /\ Held(st) = Ents(ev.st)
           /\ UNCHANGED cvars

TLin(g) == /\ Lin(g)
           /\ Matches(pend'[g].res, Trace[pend[g].at])

Line ==
  /\ l <= Len(Trace)
  /\ l' = l + 1
  /\ CASE ev.e = "reset"   -> Reset
       [] ev.e = "call"    -> Call(ev.g, CallRec(ev, l))
       [] ev.e = "ret"     -> pend[ev.g] # Idle /\ pend[ev.g].at < l /\ Ret(ev.g)
       [] ev.e = "quiesce" -> Quiesce

\* Placement of the silent steps, without loss of generality: a linearization
\* point can be moved later as long as it stays before the next RETURN line of the
\* history whose operation is not linearized yet (no reply is observed in between),
\* so Lin steps are tried only when the next line is such a return.  Every
\* operation has returned at "quiesce", hence none is left out.
Silent == /\ l <= Len(Trace)
          /\ ev.e = "ret"
          /\ pend[ev.g] # Idle
          /\ ~pend[ev.g].done
          /\ \E g \in Threads : TLin(g)
          /\ UNCHANGED l

TraceInit == CInit /\ l = 1
TraceNext == Line \/ Silent
TraceSpec == TraceInit /\ [][TraceNext]_tvars

HighWater == TLCSet(1, IF l > TLCGet(1) THEN l ELSE TLCGet(1))
TraceAccepted ==
  IF TLCGet(1) = Len(Trace) + 1 THEN TRUE
  ELSE Print(<<"@@REJECT", TLCGet(1)>>, FALSE)
ASSUME TLCSet(1, 0)

\* (The invariant NewestHeld in the cfg is a sanity check of the model along the
\* explaining paths; the verdict about the real code is the acceptance above.)
=============================================================================
