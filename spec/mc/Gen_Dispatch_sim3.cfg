\* simulation (-simulate): fire / resolve / re-fire, 3 workers, any number of preemptions, no eager steps
SPECIFICATION GSpec
CONSTANTS
  Workers <- GenWorkers
  NW = 3
  NVersions = 3
  Resolved = {2}
  MaxGroups = 4
  MonotonicSet = FALSE
  MaxFlush = 2
  MaxMaint = 1
  MaxPreempt = 99
  Eager = {}
INVARIANTS Emit InOrderLatest
CHECK_DEADLOCK FALSE
