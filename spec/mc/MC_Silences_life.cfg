SPECIFICATION Spec
CONSTANTS
  Retention = 2
  RemoteRetention = 2
  MaxSilences = 2
  LocalIds <- MCLocalIds
  MaxTime = 5
  Pick <- PickAll
  DerivedUpd <- DerivedNewer
  KnownGaps = {}
  LS = {}
  MSV = {"M1", "M4"}
  MSI = {"MBadEmpty", "MNone"}
  Cmts = {"c1", "c2", "big"}
  StartOffs = {0, 2, 3, 4}
  EndOffs = {0, 2, 4}
  PoolIds = {}
  Vias = {"lib", "api"}
  Ops = {"set", "expire", "gc", "restart"}
VIEW View
INVARIANTS IndexOK
PROPERTIES IdsStable ExpiredForever NoGCOfLive KeptForRetention FreshIds NeverStartsInPast RejectedChangesNothing CountLimit NeverOlder
CHECK_DEADLOCK FALSE
