SPECIFICATION Spec
CONSTANTS
  Workers = {"w1", "w2"}
  NVersions = 3
  Resolved = {2}
  MaxGroups = 3
  MonotonicSet = TRUE
INVARIANTS LatestWins OneLiveGroup NoOrphan
CHECK_DEADLOCK FALSE
