----------------------------- MODULE Gen_Ingest -----------------------------
EXTENDS Ingest, Json
CONSTANT MaxFlush
NFlush == Cardinality({i \in 1..Len(hist) : hist[i].a = "flush"})
\* no two flushes in a row, bounded number of flushes
GNext == \/ Recv \/ (\E v \in held : Proc(v))
         \/ (NFlush < MaxFlush /\ Len(hist) > 0 /\ hist[Len(hist)].a # "flush" /\ Flush)
GSpec == Init /\ [][GNext]_vars
Done == next > NVersions /\ held = {}
Emit == Done => PrintT("@@H " \o ToJson([steps |-> hist, latest |-> LatestWins, inorder |-> InOrder]))
\* after the last version has been handed over, one closing flush at most
Stop == ~(Done /\ Len(hist) > 0 /\ hist[Len(hist)].a = "flush")
=============================================================================
