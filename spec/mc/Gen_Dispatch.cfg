\* quick: fire / resolve / re-fire, 2 workers, 2 flushes, 1 sweep, every schedule with at most 2 preemptions (657 schedules)
SPECIFICATION GSpec
CONSTANTS
  Workers <- GenWorkers
  NW = 2
  NVersions = 3
  Resolved = {2}
  MaxGroups = 3
  MonotonicSet = FALSE
  MaxFlush = 2
  MaxMaint = 1
  MaxPreempt = 2
  Eager = {"Create", "FlushNotify"}
INVARIANTS Emit InOrderLatest
CHECK_DEADLOCK FALSE
