----------------------------- MODULE Gen_Limits -----------------------------
EXTENDS MC_Limits
CONSTANT HistLen
VARIABLE hist
ASSUME PrintT("@@L " \o ToJson([k |-> K, t |-> T]))
GenInit == Init /\ hist = << >>
Obs == [e |-> last', running |-> running', waiting |-> waiting', exceeded |-> exceeded']
GenNext == Len(hist) < HistLen /\ Next /\ hist' = Append(hist, Obs)
GenSpec == GenInit /\ [][GenNext]_<<vars, hist>>
Emit == (Len(hist) = HistLen \/ (Len(hist) > 0 /\ ~ENABLED GenNext)) => PrintT("@@H " \o ToJson(hist))
=============================================================================
