SPECIFICATION GenSpec
CONSTANTS
  AlertLS <- MCAlertLS
  RuleSets <- MCRuleSets
  UseRuleSets = {"E0", "E1", "E2", "D1", "D2", "N1", "N1r", "N2", "N3"}
  ScacheGCEvery = 3
  ProvGCEvery = 2
  MaxTime = 10
  HistLen = 30
  Pick <- PickOne
  KnownGaps = {"F2a", "F2b", "F2c"}
  PutAlerts = {"S1", "S2", "S3", "B", "B2", "T", "T3"}
  Queries = {"S1", "S2", "S3", "B", "B2", "T", "T2", "T3"}
  MuteQueries = {}
  StartModes = {"same", "now"}
  EndOffs = {0, 1, 2, 3, 5}
  Timeouts = {TRUE, FALSE}
  QueueBound = 0
INVARIANTS Emit
CHECK_DEADLOCK FALSE
