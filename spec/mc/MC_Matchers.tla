---------------------------- MODULE MC_Matchers ----------------------------
(* Bounded configuration of Matchers (C16): the product of matchers that   *)
(* are printed and parsed back, the semantic universe taken from Labels,   *)
(* and the invariants checked by TLC.  Gen_Matchers prints the cases.      *)
EXTENDS Matchers, Json

Lb == INSTANCE Labels

CONSTANTS LV,         \* every input string up to this length is also used as a matcher value
          LN,         \* ... and, from length 1 to LN, as a matcher name
          MaxEdit,    \* simulation: longest string that is still edited
          Pick(_)     \* PickAll: exhaustive; PickOne: one random element (simulation)
PickAll(S) == S
PickOne(S) == {RandomElement(S)}

-----------------------------------------------------------------------------
(* Print / parse round trip: the matchers tried.                           *)
NameLib  == { <<"l">>, <<"col", "d">>, <<"n", "l">>,                  \* classic names
              <<"dash">>, <<"d">>, <<"u2", "u4">>, <<"l", "dash", "rep">>,  \* UTF-8 names without reserved runes
              <<"sp">>, <<"dq", "bs">>, <<"l", "lf">>, <<"ob", "cb", "com">>,
              <<"eq", "bang", "til">>, <<"sq", "bt">> }               \* names with reserved runes
ValueLib == { << >>, <<"l">>, <<"sp", "l", "sp">>, <<"dq">>, <<"bs">>, <<"lf">>, <<"bs", "n">>,
              <<"bs", "bs", "dq">>, <<"com", "cb">>, <<"ob", "l", "eq", "dq", "l", "dq", "cb">>,
              <<"u4", "u2", "rep">>, <<"l", "ob", "d", "com", "d", "cb">>, <<"sq", "bt", "til", "bang">> }

\* longer values are tried with one name of each kind only
ShortNameLib == { <<"l">>, <<"dash">>, <<"sp">> }
NamesFor(s) == IF Len(s) > LV THEN {} ELSE IF Len(s) <= 2 THEN NameLib ELSE ShortNameLib
ValuesFor(s) == IF Len(s) >= 1 /\ Len(s) <= LN THEN ValueLib ELSE {}

MatchersOf(s) ==
  {m \in ({M(t, n, s) : t \in Ops, n \in NamesFor(s)} \cup {M(t, s, v) : t \in Ops, v \in ValuesFor(s)})
     : Printable(m)}

ListsOf(s) ==
  IF Len(s) > 2 \/ Len(s) > LV THEN {}
  ELSE {ms \in { <<M("=", <<"l">>, s), M("!=", <<"dash">>, s)>>,
                 <<M("=~", <<"sp">>, s), M("=", <<"col">>, <<"com">> \o s)>>,
                 <<M("=", <<"l">>, s), M("!~", <<"n", "d">>, s \o <<"dq", "com">>)>>,
                 <<M("!=", s \o <<"l">>, s), M("=", <<"l">> \o s, << >>)>> }
          : \A i \in 1 .. Len(ms) : Printable(ms[i])}
       \cup (IF s = << >> THEN { << >> } ELSE {})

RoundTrips == ps.pc = "idle" =>
                /\ \A m \in MatchersOf(inp) : RoundTrip(m)
                /\ \A ms \in ListsOf(inp) : RoundTripList(ms)

-----------------------------------------------------------------------------
(* Match semantics: the universe of Labels.tla, extended by label sets     *)
(* with an explicitly empty value and the empty label set.                 *)
SemNames == {"a", "b", "c"}
Pats     == {"x|y", ".*", ".+", "x.*", "x", "y?", ""}
XNames   == DOMAIN Lb!LSets \cup {"L0", "L6", "L7"}
XLS      == [n \in XNames |-> CASE n = "L0" -> << >>
                                [] n = "L6" -> [a |-> ""]
                                [] n = "L7" -> [b |-> "xy", c |-> ""]
                                [] OTHER    -> Lb!LSets[n]]
SemMatchers == {Lb!Eq(n, v) : n \in SemNames, v \in Lb!Values} \cup {Lb!Ne(n, v) : n \in SemNames, v \in Lb!Values}
               \cup {Lb!Re(n, p) : n \in SemNames, p \in Pats} \cup {Lb!Nre(n, p) : n \in SemNames, p \in Pats}
SemCore == {Lb!Eq("a", "x"), Lb!Ne("a", "x"), Lb!Eq("b", ""), Lb!Ne("c", ""), Lb!Re("a", "x"), Lb!Re("a", "x|y"),
            Lb!Nre("b", ".+"), Lb!Nre("c", "x.*"), Lb!Re("c", "y?"), Lb!Ne("b", "y")}
MSetRange == {Lb!MSets[k] : k \in DOMAIN Lb!MSets}
SemSets == {<< <<m>> >> : m \in SemMatchers}
           \cup {<< <<m1, m2>> >> : m1 \in SemCore, m2 \in SemCore}
           \cup {<< <<m1>>, <<m2>> >> : m1 \in SemCore, m2 \in SemCore}
           \cup MSetRange \cup { << << >> >> }

With(ls, n) == [x \in DOMAIN ls \cup {n} |-> IF x \in DOMAIN ls THEN ls[x] ELSE ""]

SemLaws ==
  /\ \A m \in SemMatchers, k \in XNames :
       LET ls == XLS[k] IN
       /\ Lb!Matches(m, ls) = Lb!Matches(m, With(ls, m.n))                 \* missing label = ""
       /\ Lb!Matches(Lb!Ne(m.n, m.v), ls) = ~Lb!Matches(Lb!Eq(m.n, m.v), ls)
       /\ (m.v \in Pats => Lb!Matches(Lb!Nre(m.n, m.v), ls) = ~Lb!Matches(Lb!Re(m.n, m.v), ls))
  \* anchoring: whole-string match, also for an alternation
  /\ ~Lb!Matches(Lb!Re("a", "x"), [a |-> "xy"])
  /\ ~Lb!Matches(Lb!Re("a", "x|y"), [a |-> "xy"])
  /\ Lb!Matches(Lb!Nre("a", "x"), [a |-> "xy"])
  /\ Lb!Matches(Lb!Re("a", "x.*"), [a |-> "xy"])
  \* negative matchers on an absent label
  /\ Lb!Matches(Lb!Ne("c", "x"), [a |-> "x"]) /\ ~Lb!Matches(Lb!Ne("c", ""), [a |-> "x"])
  /\ Lb!Matches(Lb!Nre("c", ".+"), [a |-> "x"]) /\ ~Lb!Matches(Lb!Nre("c", ".*"), [a |-> "x"])
  \* AND inside a list, OR across lists
  /\ \A k \in XNames :
       LET ls == XLS[k] IN
       /\ Lb!MatchesAll(<< >>, ls) /\ ~Lb!MatchesAny(<< >>, ls)
       /\ \A m1 \in SemCore, m2 \in SemCore :
            /\ Lb!MatchesAll(<<m1, m2>>, ls) = (Lb!Matches(m1, ls) /\ Lb!Matches(m2, ls))
            /\ Lb!MatchesAny(<< <<m1>>, <<m2>> >>, ls) = (Lb!Matches(m1, ls) \/ Lb!Matches(m2, ls))
SemLawsInv == (inp = << >> /\ ps.pc = "idle") => SemLaws

-----------------------------------------------------------------------------
(* Simulation (longer inputs): a printed matcher or list, then random edits *)
SeedMatchers == {m \in {M(t, n, v) : t \in Ops, n \in NameLib, v \in ValueLib} : Printable(m)}
Seed == /\ ps.pc = "idle" /\ inp = << >>
        /\ \E m1 \in Pick(SeedMatchers), m2 \in Pick(SeedMatchers), form \in Pick({"m", "m", "l1", "l2", "b2"}) :
             inp' = CASE form = "m"  -> PrintM(m1)
                      [] form = "l1" -> PrintList(<<m1>>)
                      [] form = "l2" -> PrintList(<<m1, m2>>)
                      [] form = "b2" -> PrintM(m1) \o <<"com">> \o PrintM(m2)
        /\ UNCHANGED ps
Edit == /\ ps.pc = "idle" /\ inp # << >> /\ Len(inp) <= MaxEdit
        /\ \E i \in Pick(1 .. Len(inp)), x \in Pick(Sym), kind \in Pick({"ins", "del", "sub"}) :
             inp' = CASE kind = "ins" -> Sub(inp, 1, i) \o <<x>> \o Sub(inp, i, Len(inp) + 1)
                      [] kind = "del" -> Sub(inp, 1, i) \o Sub(inp, i + 1, Len(inp) + 1)
                      [] kind = "sub" -> [inp EXCEPT ![i] = x]
        /\ UNCHANGED ps
SimNext == Seed \/ Edit
SimSpec == Init /\ [][SimNext]_vars
=============================================================================
