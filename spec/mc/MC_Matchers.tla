---------------------------- MODULE MC_Matchers ----------------------------
(* Bounded configuration of Matchers (C16): the product of matchers that   *)
(* are printed and parsed back, the semantic universe (Labels.tla extended *)
(* by MatchersSem.tla: multi-line values, dot / anchor / flag patterns),   *)
(* and the invariants checked by TLC.  Gen_Matchers prints the cases.      *)
EXTENDS Matchers, Json

Lb == INSTANCE Labels
Sx == INSTANCE MatchersSem

CONSTANTS LV,         \* every input string up to this length is also used as a matcher value
          LN,         \* ... and, from length 1 to LN, as a matcher name
          MaxEdit,    \* simulation: longest string that is still edited
          Pick(_)     \* PickAll: exhaustive; PickOne: one random element (simulation)
PickAll(S) == S
PickOne(S) == {RandomElement(S)}

-----------------------------------------------------------------------------
(* Print / parse round trip: the matchers tried.                           *)
NameLib  == { <<"l">>, <<"col", "d">>, <<"n", "l">>,                  \* classic names
              <<"dash">>, <<"d">>, <<"u2", "u4">>, <<"l", "dash", "rep">>,  \* UTF-8 names without reserved runes
              <<"sp">>, <<"dq", "bs">>, <<"l", "lf">>, <<"ob", "cb", "com">>,
              <<"eq", "bang", "til">>, <<"sq", "bt">> }               \* names with reserved runes
ValueLib == { << >>, <<"l">>, <<"sp", "l", "sp">>, <<"dq">>, <<"bs">>, <<"lf">>, <<"bs", "n">>,
              <<"bs", "bs", "dq">>, <<"com", "cb">>, <<"ob", "l", "eq", "dq", "l", "dq", "cb">>,
              <<"u4", "u2", "rep">>, <<"l", "ob", "d", "com", "d", "cb">>, <<"sq", "bt", "til", "bang">> }

\* longer values are tried with one name of each kind only
ShortNameLib == { <<"l">>, <<"dash">>, <<"sp">> }
NamesFor(s) == IF Len(s) > LV THEN {} ELSE IF Len(s) <= 2 THEN NameLib ELSE ShortNameLib
ValuesFor(s) == IF Len(s) >= 1 /\ Len(s) <= LN THEN ValueLib ELSE {}

MatchersOf(s) ==
  {m \in ({M(t, n, s) : t \in Ops, n \in NamesFor(s)} \cup {M(t, s, v) : t \in Ops, v \in ValuesFor(s)})
     : Printable(m)}

ListsOf(s) ==
  IF Len(s) > 2 \/ Len(s) > LV THEN {}
  ELSE {ms \in { <<M("=", <<"l">>, s), M("!=", <<"dash">>, s)>>,
                 <<M("=~", <<"sp">>, s), M("=", <<"col">>, <<"com">> \o s)>>,
                 <<M("=", <<"l">>, s), M("!~", <<"n", "d">>, s \o <<"dq", "com">>)>>,
                 <<M("!=", s \o <<"l">>, s), M("=", <<"l">> \o s, << >>)>> }
          : \A i \in 1 .. Len(ms) : Printable(ms[i])}
       \cup (IF s = << >> THEN { << >> } ELSE {})

RoundTrips == ps.pc = "idle" =>
                /\ \A m \in MatchersOf(inp) : RoundTrip(m)
                /\ \A ms \in ListsOf(inp) : RoundTripList(ms)

-----------------------------------------------------------------------------
(* Match semantics: MatchersSem (regular-expression fragment defined over   *)
(* character sequences, '.' excluding the line feed) over the label sets    *)
(* and matcher sets of Labels.tla, extended by label sets with an           *)
(* explicitly empty value, the empty label set and multi-line values.       *)
SemNames == {"a", "b", "c"}
Pats     == Sx!Pats
XNames   == DOMAIN Lb!LSets \cup {"L0", "L6", "L7", "L8", "L9", "L10", "L11", "L12"}
XLS      == [n \in XNames |-> CASE n = "L0"  -> << >>
                                [] n = "L6"  -> [a |-> ""]
                                [] n = "L7"  -> [b |-> "xy", c |-> ""]
                                [] n = "L8"  -> [a |-> "\n"]
                                [] n = "L9"  -> [a |-> "x\ny", b |-> "x\n"]
                                [] n = "L10" -> [a |-> "x\n", c |-> "\n"]
                                [] n = "L11" -> [b |-> "\n", c |-> "x\ny"]
                                [] n = "L12" -> [a |-> "\ny", b |-> "x\ny", c |-> "x\n"]
                                [] OTHER     -> Lb!LSets[n]]
SemMatchers == {Sx!Eq(n, v) : n \in SemNames, v \in Sx!Values} \cup {Sx!Ne(n, v) : n \in SemNames, v \in Sx!Values}
               \cup {Sx!Re(n, p) : n \in SemNames, p \in Pats} \cup {Sx!Nre(n, p) : n \in SemNames, p \in Pats}
SemCore == {Sx!Eq("a", "x"), Sx!Ne("a", "x"), Sx!Eq("b", ""), Sx!Ne("c", ""), Sx!Re("a", "x"), Sx!Re("a", "x|y"),
            Sx!Nre("b", ".+"), Sx!Nre("c", "x.*"), Sx!Re("c", "y?"), Sx!Ne("b", "y")}
\* a second core around the line feed: catch-all and dot patterns, dot-all, anchors, the literal
SemCoreLF == {Sx!Re("a", ".*"), Sx!Nre("a", ".+"), Sx!Re("b", ".+"), Sx!Nre("c", ".*"), Sx!Re("b", "(?s).+"),
              Sx!Re("a", "x.y"), Sx!Nre("c", "."), Sx!Re("a", "x$"), Sx!Eq("a", "x\n"), Sx!Ne("c", "\n"),
              Sx!Re("b", "x\\ny"), Sx!Eq("b", "")}
MSetRange == {Lb!MSets[k] : k \in DOMAIN Lb!MSets}
SemSets == {<< <<m>> >> : m \in SemMatchers}
           \cup {<< <<m1, m2>> >> : m1 \in SemCore, m2 \in SemCore}
           \cup {<< <<m1>>, <<m2>> >> : m1 \in SemCore, m2 \in SemCore}
           \cup {<< <<m1, m2>> >> : m1 \in SemCoreLF, m2 \in SemCoreLF}
           \cup {<< <<m1>>, <<m2>> >> : m1 \in SemCoreLF, m2 \in SemCoreLF}
           \cup MSetRange \cup { << << >> >> }

With(ls, n) == [x \in DOMAIN ls \cup {n} |-> IF x \in DOMAIN ls THEN ls[x] ELSE ""]

\* the (pattern, value) pairs on which "'.' does not match the line feed" decides the verdict
DotDecides == {pv \in Pats \X Sx!Values : (pv[2] \in Sx!Lang(pv[1])) # (pv[2] \in Sx!DotAllTab[pv[1]])}

\* Labels.tla (hand-written languages, used by the other properties) is the restriction
\* of MatchersSem to its single-line universe
LabelsAgree ==
  /\ Lb!Values \subseteq Sx!Values
  /\ \A p \in Sx!OldPats : Lb!Lang(p) = Sx!Lang(p) \cap Lb!Values
  /\ \A k \in DOMAIN Lb!MSets, n \in DOMAIN Lb!LSets :
       Lb!MatchesAny(Lb!MSets[k], Lb!LSets[n]) = Sx!MatchesAny(Lb!MSets[k], Lb!LSets[n])

SemLaws ==
  /\ LabelsAgree
  /\ \A m \in SemMatchers, k \in XNames :
       LET ls == XLS[k] IN
       /\ Sx!Matches(m, ls) = Sx!Matches(m, With(ls, m.n))                 \* missing label = ""
       /\ Sx!Matches(Sx!Ne(m.n, m.v), ls) = ~Sx!Matches(Sx!Eq(m.n, m.v), ls)
       /\ (m.v \in Pats => Sx!Matches(Sx!Nre(m.n, m.v), ls) = ~Sx!Matches(Sx!Re(m.n, m.v), ls))
  \* anchoring: whole-string match, also for an alternation
  /\ ~Sx!Matches(Sx!Re("a", "x"), [a |-> "xy"])
  /\ ~Sx!Matches(Sx!Re("a", "x|y"), [a |-> "xy"])
  /\ Sx!Matches(Sx!Nre("a", "x"), [a |-> "xy"])
  /\ Sx!Matches(Sx!Re("a", "x.*"), [a |-> "xy"])
  \* negative matchers on an absent label
  /\ Sx!Matches(Sx!Ne("c", "x"), [a |-> "x"]) /\ ~Sx!Matches(Sx!Ne("c", ""), [a |-> "x"])
  /\ Sx!Matches(Sx!Nre("c", ".+"), [a |-> "x"]) /\ ~Sx!Matches(Sx!Nre("c", ".*"), [a |-> "x"])
  \* '.' is not the line feed: the catch-all patterns do not catch a multi-line value
  /\ ~Sx!Matches(Sx!Re("a", ".*"), [a |-> "\n"]) /\ ~Sx!Matches(Sx!Re("a", ".+"), [a |-> "x\ny"])
  /\ ~Sx!Matches(Sx!Re("a", ".*"), [a |-> "x\n"]) /\ Sx!Matches(Sx!Nre("a", ".*"), [a |-> "x\ny"])
  /\ Sx!Matches(Sx!Nre("a", ".+"), [a |-> "\n"]) /\ ~Sx!Matches(Sx!Re("a", "x.y"), [a |-> "x\ny"])
  /\ ~Sx!Matches(Sx!Re("a", "."), [a |-> "\n"]) /\ Sx!Matches(Sx!Re("a", "."), [a |-> "x"])
  \* ... the s flag, the escape, the raw literal and the idiom do
  /\ Sx!Matches(Sx!Re("a", "(?s).+"), [a |-> "x\ny"]) /\ Sx!Matches(Sx!Re("a", "(?s).*"), [a |-> "\n"])
  /\ ~Sx!Matches(Sx!Re("a", "(?s).+"), << >>)
  /\ Sx!Matches(Sx!Re("a", "x\\ny"), [a |-> "x\ny"]) /\ Sx!Matches(Sx!Re("a", "x\ny"), [a |-> "x\ny"])
  /\ Sx!Matches(Sx!Re("a", "(.|\\n)*"), [a |-> "x\ny"]) /\ Sx!Matches(Sx!Re("a", "(.|\\n)*"), [a |-> "x\n"])
  \* '$' is the end of the text, not the place before a final line feed
  /\ Sx!Matches(Sx!Re("a", "x$"), [a |-> "x"]) /\ ~Sx!Matches(Sx!Re("a", "x$"), [a |-> "x\n"])
  /\ Sx!Matches(Sx!Re("a", "^x$"), [a |-> "x"]) /\ ~Sx!Matches(Sx!Re("a", "^x$"), [a |-> "x\n"])
  \* the alternation is inside the anchoring group
  /\ Sx!Matches(Sx!Re("a", ".+|x\n"), [a |-> "x\n"]) /\ ~Sx!Matches(Sx!Re("a", ".+|x\n"), [a |-> "x\ny"])
  \* the universe is not vacuous for the dot / line feed question
  /\ Cardinality(DotDecides) >= 15
  /\ \A p \in {".*", ".+", ".", "x.y", "x.*", ".*y"} : \E v \in Sx!Values : <<p, v>> \in DotDecides
  \* AND inside a list, OR across lists
  /\ \A k \in XNames :
       LET ls == XLS[k] IN
       /\ Sx!MatchesAll(<< >>, ls) /\ ~Sx!MatchesAny(<< >>, ls)
       /\ \A m1 \in SemCore \cup SemCoreLF, m2 \in SemCore \cup SemCoreLF :
            /\ Sx!MatchesAll(<<m1, m2>>, ls) = (Sx!Matches(m1, ls) /\ Sx!Matches(m2, ls))
            /\ Sx!MatchesAny(<< <<m1>>, <<m2>> >>, ls) = (Sx!Matches(m1, ls) \/ Sx!Matches(m2, ls))
SemLawsInv == (inp = << >> /\ ps.pc = "idle") => SemLaws

-----------------------------------------------------------------------------
(* Simulation (longer inputs): a printed matcher or list, then random edits *)
SeedMatchers == {m \in {M(t, n, v) : t \in Ops, n \in NameLib, v \in ValueLib} : Printable(m)}
Seed == /\ ps.pc = "idle" /\ inp = << >>
        /\ \E m1 \in Pick(SeedMatchers), m2 \in Pick(SeedMatchers), form \in Pick({"m", "m", "l1", "l2", "b2"}) :
             inp' = CASE form = "m"  -> PrintM(m1)
                      [] form = "l1" -> PrintList(<<m1>>)
                      [] form = "l2" -> PrintList(<<m1, m2>>)
                      [] form = "b2" -> PrintM(m1) \o <<"com">> \o PrintM(m2)
        /\ UNCHANGED ps
Edit == /\ ps.pc = "idle" /\ inp # << >> /\ Len(inp) <= MaxEdit
        /\ \E i \in Pick(1 .. Len(inp)), x \in Pick(Sym), kind \in Pick({"ins", "del", "sub"}) :
             inp' = CASE kind = "ins" -> Sub(inp, 1, i) \o <<x>> \o Sub(inp, i, Len(inp) + 1)
                      [] kind = "del" -> Sub(inp, 1, i) \o Sub(inp, i + 1, Len(inp) + 1)
                      [] kind = "sub" -> [inp EXCEPT ![i] = x]
        /\ UNCHANGED ps
SimNext == Seed \/ Edit
SimSpec == Init /\ [][SimNext]_vars
=============================================================================
