SPECIFICATION Spec
CONSTANTS
  Ids = {"A", "B", "C", "D", "E"}
  InitUp = {"A", "B", "C", "D", "E"}
  Small = {"s1"}
  Big = {"b1"}
  Fanout = 3
  TxLimit = 3
  SendList = "current"
  OnTimeout = "ready"
  OkayRequired = 3
  Budgets = {0}
  MaxStop = 0
  MaxJoin = 0
  UOrder <- MCOrder
VIEW View
INVARIANTS Delivered DeliveredStrict Sane
CHECK_DEADLOCK FALSE
