SPECIFICATION Spec
CONSTANTS
  Ops <- OpsGood
  Recs <- MCRecs
  U <- MCU
  Final = "final"
  ZeroFill = TRUE
INVARIANTS NoStartupError AtomicRecover SyncedBeforeRename FinalOnlyByRename
CHECK_DEADLOCK FALSE
