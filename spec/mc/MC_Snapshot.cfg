SPECIFICATION Spec
CONSTANTS
  Ops <- OpsGood
  Recs <- MCRecs
  U <- MCU
  Final = "final"
  ZeroFill = TRUE
  OnWriteError = "rename"
  CrossDevice = FALSE
INVARIANTS NoStartupError AtomicRecover SyncedBeforeRename FinalOnlyByRename SameDirRename Delivered
CHECK_DEADLOCK FALSE
