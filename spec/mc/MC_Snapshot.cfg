SPECIFICATION Spec
CONSTANTS
  Ops <- OpsGood
  Recs <- MCRecs
  U <- MCU
  Final = "final"
  ZeroFill = TRUE
  OnWriteError = "rename"
INVARIANTS NoStartupError AtomicRecover SyncedBeforeRename FinalOnlyByRename
CHECK_DEADLOCK FALSE
