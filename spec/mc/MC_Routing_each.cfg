SPECIFICATION Spec
CONSTANTS
  Pick <- PickAll
  MNames = {"R1", "R3"}
  Conts = {FALSE, TRUE}
  Decos <- DecosNone
  RootDecos <- RootDecosOne
  Fan = 2
  RootFan = 2
  Depth = 2
INVARIANTS TypeOK NonEmpty PreOrdered PathHolds Reference LastContinue HasReceiver FirstOnly UniqueIds PreOrderAll Inheritance
PROPERTIES Growing
CHECK_DEADLOCK FALSE
