-------------------------- MODULE MC_TimeIntervals --------------------------
(* Sanity theorems of spec/TimeIntervals.tla, checked exhaustively by TLC.  *)
(*                                                                          *)
(* The model walks the calendar BY INDUCTION from 1970-01-01 (a Thursday):  *)
(* state = (day number n, date y-m-d, weekday wd), one step = the next day  *)
(* by the leap rule and the month lengths alone.  The invariants compare    *)
(* the closed-form definitions (Civil, DayNumber, Weekday, the zone rules,  *)
(* Contains / ContainsImpl) with that walk on every day.                    *)
EXTENDS TimeIntervals, TLC

CONSTANTS MaxDay,            \* last day number of the walk
          ZoneTo,            \* the zone rules are checked on days 0 .. ZoneTo
          OracleWindows,     \* set of <<from, to>>: days on which the oracle table is evaluated
          ImplFrom, ImplTo,  \* days on which ContainsImpl = Contains is evaluated
          GateFrom, GateTo   \* days on which the gating refinement is evaluated

VARIABLES n, date, wd
vars == <<n, date, wd>>

Init == n = 0 /\ date = [y |-> 1970, m |-> 1, d |-> 1] /\ wd = 4

NextDay == /\ n < MaxDay
           /\ n' = n + 1
           /\ date' = NextDate(date)
           /\ wd' = (wd + 1) % 7            \* weekday continuity over consecutive days

Spec == Init /\ [][NextDay]_vars

-----------------------------------------------------------------------------
\* the closed forms agree with the walk, in both directions
CivilOK   == Civil(n) = date /\ DayNumber(date.y, date.m, date.d) = n
WeekdayOK == Weekday(n) = wd
\* month lengths: 1 <= d <= length; the 12 lengths add up to the year's length; the
\* year has 365 days, 366 iff leap
MonthLenOK == /\ 1 <= date.d /\ date.d <= MonthLen(date.y, date.m)
              /\ DaysBeforeMonth(date.y, 1) = 0
              /\ (date.d = 1 /\ date.m < 12) =>
                    DaysBeforeMonth(date.y, date.m + 1) = DaysBeforeMonth(date.y, date.m) + MonthLen(date.y, date.m)
              /\ (date.m = 1 /\ date.d = 1) =>
                    /\ DaysBeforeMonth(date.y, 12) + MonthLen(date.y, 12) = YearLen(date.y)
                    /\ DaysBeforeYear(date.y + 1) - DaysBeforeYear(date.y) = YearLen(date.y)
                    /\ DaysBeforeYear(date.y) = n
\* the Gregorian cycle: 400 years = 146097 days = 20871 weeks
Cycle400 == /\ Civil(n + 146097) = [date EXCEPT !.y = date.y + 400]
            /\ Weekday(n + 146097) = wd
            /\ 146097 = 20871 * 7
\* the instant arithmetic: every minute of day n reads as day n
MinuteOK == /\ DayOf(n * 1440) = n /\ MinuteOf(n * 1440) = 0
            /\ DayOf(n * 1440 + 1439) = n /\ MinuteOf(n * 1440 + 1439) = 1439
            /\ DayOf(0 - 1) = 0 - 1 /\ MinuteOf(0 - 1) = 1439          \* floor, also before 1970

-----------------------------------------------------------------------------
\* zone rules: the offset takes only the zone's two values; it changes only in the
\* night to a Sunday (noon UTC of a Saturday vs noon UTC of the Sunday), exactly
\* twice a year; in the north summer time holds on July 1st and not on January 1st,
\* for Lord Howe the other way round.
Noon(k) == k * 1440 + 720
ZoneValues == [z \in RuleZones |-> CASE z = "Europe/Berlin" -> {60, 120}
                                     [] z = "America/New_York" -> {0 - 300, 0 - 240}
                                     [] z = "Australia/Lord_Howe" -> {630, 660}]
\* local minute-of-day before and at a transition: Berlin 01:59 -> 03:00 and 02:59 -> 02:00;
\* New York 01:59 -> 03:00 and 01:59 -> 01:00; Lord Howe 01:59 -> 02:30 and 01:59 -> 01:30
LocalJumps == [z \in RuleZones |-> CASE z = "Europe/Berlin" -> {<<119, 180>>, <<179, 120>>}
                                     [] z = "America/New_York" -> {<<119, 180>>, <<119, 60>>}
                                     [] z = "Australia/Lord_Howe" -> {<<119, 150>>, <<119, 90>>}]
ZoneRuleOK ==
  n <= ZoneTo =>
  \A z \in {r \in RuleZones : date.y >= ZoneValidFrom(r)} :
     /\ Offset(z, Noon(n)) \in ZoneValues[z]
     /\ (Offset(z, Noon(n)) # Offset(z, Noon(n + 1))) =>
            /\ Weekday(n + 1) = 0
            /\ \E x \in Transitions(z, date.y) : Noon(n) < x /\ x < Noon(n + 1)
     /\ (date.m = 1 /\ date.d = 1) =>
          /\ Cardinality(Transitions(z, date.y)) = (IF z = "Europe/Berlin" /\ date.y < 1980 THEN 0 ELSE 2)
          /\ \A x \in Transitions(z, date.y) :
            /\ Offset(z, x - 1) # Offset(z, x)
            /\ Weekday(DayOf(x + Offset(z, x))) = 0                 \* a Sunday, local
            /\ <<MinuteOf(x - 1 + Offset(z, x - 1)), MinuteOf(x + Offset(z, x))>> \in LocalJumps[z]
     /\ (date.m = 7 /\ date.d = 1 /\ date.y >= 1996) =>
            Offset(z, Noon(n)) = (IF z = "Australia/Lord_Howe" THEN 630 ELSE StdOffset(z) + 60)
     /\ (date.m = 1 /\ date.d = 1 /\ date.y >= 1997) =>
            Offset(z, Noon(n)) = (IF z = "Australia/Lord_Howe" THEN 660 ELSE StdOffset(z))

\* spot checks against well-known facts (day numbers and transition instants)
SpotChecks ==      \* constant: checked once, as an assumption
  /\ DayNumber(2000, 1, 1) = 10957 /\ Weekday(10957) = 6
  /\ DayNumber(2000, 2, 29) = 11016 /\ Civil(11016) = [y |-> 2000, m |-> 2, d |-> 29]
  /\ DayNumber(2024, 2, 29) = 19782 /\ Weekday(19782) = 4
  /\ Civil(47540) = [y |-> 2100, m |-> 2, d |-> 28] /\ Civil(47541) = [y |-> 2100, m |-> 3, d |-> 1]
  /\ DayNumber(2370, 1, 1) = 146097
  /\ Civil(0 - 1) = [y |-> 1969, m |-> 12, d |-> 31] /\ Weekday(0 - 1) = 3
  /\ IsLeap(2000) /\ IsLeap(2024) /\ ~IsLeap(2100) /\ ~IsLeap(1900) /\ IsLeap(2400)
  \* Berlin 2024: summer time 31 March 01:00Z .. 27 October 01:00Z; 1995 ended 24 September; 1980 began 6 April
  /\ BerlinStart(2024) = DayNumber(2024, 3, 31) * 1440 + 60
  /\ BerlinEnd(2024) = DayNumber(2024, 10, 27) * 1440 + 60
  /\ BerlinEnd(1995) = DayNumber(1995, 9, 24) * 1440 + 60
  /\ BerlinStart(1980) = DayNumber(1980, 4, 6) * 1440 + 60
  /\ Offset("Europe/Berlin", DayNumber(1979, 7, 1) * 1440) = 60
  \* New York 2024: 10 March 07:00Z .. 3 November 06:00Z; 2006: 2 April .. 29 October
  /\ NYStart(2024) = DayNumber(2024, 3, 10) * 1440 + 420
  /\ NYEnd(2024) = DayNumber(2024, 11, 3) * 1440 + 360
  /\ NYStart(2006) = DayNumber(2006, 4, 2) * 1440 + 420
  /\ NYEnd(2006) = DayNumber(2006, 10, 29) * 1440 + 360
  \* Lord Howe 2024: summer time ends 7 April 02:00 (+11) = 6 April 15:00Z, begins 6 October 02:00 (+10:30) = 5 October 15:30Z
  /\ LHEnd(2024) = DayNumber(2024, 4, 6) * 1440 + 900
  /\ LHStart(2024) = DayNumber(2024, 10, 5) * 1440 + 930
  /\ LHStart(2000) = DayNumber(2000, 8, 26) * 1440 + 930
  /\ Offset("Asia/Kolkata", 0) = 330 /\ Offset("Asia/Kathmandu", 0) = 345 /\ Offset("", 0) = 0

-----------------------------------------------------------------------------
\* oracle table: Contains on the walk's own date (no Civil involved on the right)
R(b, e) == [b |-> b, e |-> e]
AnyTime == [times |-> {}, weekdays |-> {}, dom |-> {}, months |-> {}, years |-> {}, loc |-> ""]
L == MonthLen(date.y, date.m)
At(mod) == n * 1440 + mod
OracleTable ==
  (\E w \in OracleWindows : w[1] <= n /\ n <= w[2]) =>
  /\ Contains(AnyTime, At(0), 0) /\ Contains(AnyTime, At(1439), 0)
  /\ Contains([AnyTime EXCEPT !.times = {R(0, 1440)}], At(0), 0)
  /\ Contains([AnyTime EXCEPT !.times = {R(0, 1440)}], At(1439), 0)
  /\ ~Contains([AnyTime EXCEPT !.times = {R(540, 1020)}], At(539), 0)
  /\ Contains([AnyTime EXCEPT !.times = {R(540, 1020)}], At(540), 0)
  /\ Contains([AnyTime EXCEPT !.times = {R(540, 1020)}], At(1019), 0)
  /\ ~Contains([AnyTime EXCEPT !.times = {R(540, 1020)}], At(1020), 0)
  /\ Contains([AnyTime EXCEPT !.weekdays = {R(1, 5)}], At(720), 0) = (wd \in 1 .. 5)
  /\ Contains([AnyTime EXCEPT !.weekdays = {R(0, 0), R(6, 6)}], At(720), 0) = (wd \in {0, 6})
  /\ Contains([AnyTime EXCEPT !.dom = {R(1, 31)}], At(720), 0)
  /\ Contains([AnyTime EXCEPT !.dom = {R(0 - 31, 0 - 1)}], At(720), 0)
  /\ Contains([AnyTime EXCEPT !.dom = {R(0 - 1, 0 - 1)}], At(720), 0) = (date.d = L)
  /\ Contains([AnyTime EXCEPT !.dom = {R(0 - 3, 0 - 1)}], At(720), 0) = (date.d >= L - 2)
  /\ Contains([AnyTime EXCEPT !.dom = {R(31, 31)}], At(720), 0) = (date.d = 31)
  /\ Contains([AnyTime EXCEPT !.dom = {R(29, 31)}], At(720), 0) = (date.d >= 29)
  /\ Contains([AnyTime EXCEPT !.dom = {R(0 - 31, 0 - 31)}], At(720), 0) = (date.d = 1 /\ L = 31)
  /\ Contains([AnyTime EXCEPT !.dom = {R(15, 0 - 1)}], At(720), 0) = (date.d >= 15)
  /\ Contains([AnyTime EXCEPT !.dom = {R(29, 29)}, !.months = {R(2, 2)}], At(720), 0)
        = (date.m = 2 /\ date.d = 29)
  /\ (date.m = 2 /\ date.d = 29) => IsLeap(date.y)
  /\ Contains([AnyTime EXCEPT !.months = {R(4, 4), R(6, 6), R(9, 9), R(11, 11)}], At(720), 0) = (L = 30)
  /\ Contains([AnyTime EXCEPT !.years = {R(1999, 2001)}], At(720), 0) = (date.y \in 1999 .. 2001)
  \* offsets move the calendar reading: 23:59 UTC is already tomorrow at +5:45, still yesterday's evening at -5:00
  /\ Contains([AnyTime EXCEPT !.dom = {R(1, 1)}], At(1439), 345) = (date.d = L)
  /\ Contains([AnyTime EXCEPT !.dom = {R(0 - 1, 0 - 1)}], At(0), 0 - 300) = (date.d = 1)
  /\ Contains([AnyTime EXCEPT !.times = {R(0, 30)}], At(1110), 330)

\* the implementation-shaped day-of-month test (skip, clamp) equals the reference one for
\* EVERY range the parser accepts, every month length and every day: a constant theorem
AllDomRanges == {r \in {R(b, e) : b \in (0 - 31) .. 31, e \in (0 - 31) .. 31} : ValidDom(r)}
DomImplEqualsRef == \A len \in 28 .. 31 : \A d \in 1 .. len : \A r \in AllDomRanges :
                       DomImpl(r, d, len) = DomRef(r, d, len)
\* .. and so do the complete definitions, on the days ImplFrom .. ImplTo
ImplEqualsRef ==
  (ImplFrom <= n /\ n <= ImplTo) =>
     \A r \in {R(1, 1), R(0 - 1, 0 - 1), R(29, 31), R(0 - 31, 0 - 29), R(15, 0 - 1)} :
          LET ti == [AnyTime EXCEPT !.dom = {r}, !.times = {R(0, 720)}, !.weekdays = {R(1, 5)},
                                    !.months = {R(1, 3), R(12, 12)}, !.years = {R(2000, 2001)}]
          IN \A mod \in {0, 719, 720} : \A off \in {0, 345, 0 - 300} :
                ContainsImpl(ti, At(mod), off, AbsentFields(ti)) = Contains(ti, At(mod), off)

\* the known gap between the implementation shape and the statement: a field given as
\* an explicit empty list (not nil in Go) matches nothing, while "an empty field
\* matches everything"
ExplicitEmptyGap == ~ContainsImpl(AnyTime, At(0), 0, Fields \ {"times"}) /\ Contains(AnyTime, At(0), 0)

-----------------------------------------------------------------------------
\* gating: the two stages, as composed in the pipeline, implement the rule
Wk  == [AnyTime EXCEPT !.weekdays = {R(6, 6), R(0, 0)}]
Bh  == [AnyTime EXCEPT !.weekdays = {R(1, 5)}, !.times = {R(540, 1020)}]
Eom == [AnyTime EXCEPT !.dom = {R(0 - 1, 0 - 1)}]
GDefs == [weekend |-> {Wk}, business |-> {Bh}, monthend |-> {Eom}, both |-> {Wk, Eom}]
GNames == DOMAIN GDefs
GatingRefines ==
  (GateFrom <= n /\ n <= GateTo) =>
    \A mute \in SUBSET GNames : \A active \in SUBSET GNames :
       GatingOK(GDefs, mute, active, At(600), StagesImpl(GDefs, mute, active, At(600)))

ASSUME SpotChecks
ASSUME DomImplEqualsRef
ASSUME Cardinality(AllDomRanges) > 1000
\* two windows need negative-free tuples in the cfg: defined here
MCOracleWindows == {<<0, 13200>>, <<19700, 20100>>, <<47400, 48000>>}
MCOracleWindowsThorough == {<<0, 49700>>}
=============================================================================
