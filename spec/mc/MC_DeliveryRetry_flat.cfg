SPECIFICATION Spec
CONSTANTS
  Timeout = 300
  SlowDelay = 80
  HangDelay = 700
  TimeoutRecoverable = TRUE
  BackoffGrows = FALSE
  MaxLenWebhook = 2
  MaxLenPagerduty = 1
  Deadlines = {450, 1600, 2900}
  CancelDeadline = 2900
  Cancels = {130, 950}
  LongDeadlines = {3000}
  LongLen = 1
INVARIANTS InvClauses
CHECK_DEADLOCK FALSE
