SPECIFICATION Spec
CONSTANTS
  Keys <- MCKeys2
  Kind = "sil"
  Retention = 1
  MaxTime = 3
  MaxC = 1
  Skip = "never"
  HistLen = 0
  Pick <- PickAll
INVARIANTS TypeOK Lossless RestartLossless LosslessIds
CHECK_DEADLOCK FALSE
