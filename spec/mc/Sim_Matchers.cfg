SPECIFICATION SimSpec
CONSTANTS
  Sym = {"l", "n", "d", "col", "dash", "sp", "lf", "dq", "bs", "sq", "bt", "ob", "cb", "com", "eq", "bang", "til", "u2", "u4", "bad", "rep"}
  L = 4
  LV = 0
  LN = 0
  MaxEdit = 16
  Pick <- PickOne
INVARIANTS EmitParse
CHECK_DEADLOCK FALSE
