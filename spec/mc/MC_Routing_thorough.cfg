SPECIFICATION Spec
CONSTANTS
  Pick <- PickAll
  MNames = {"R1", "R3", "R6", "R9"}
  Conts = {FALSE, TRUE}
  Decos <- DecosNone
  RootDecos <- RootDecosOne
  Fan = 2
  RootFan = 2
  Depth = 2
INVARIANTS TypeOK Theorems UniqueIds PreOrderAll
PROPERTIES Growing
CHECK_DEADLOCK FALSE
