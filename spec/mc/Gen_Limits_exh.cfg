SPECIFICATION GenSpec
CONSTANTS
  K = 2
  T = 1
  Reqs = {1, 2, 3, 4, 5, 6}
  Pick <- PickAll
  Ops = {"get", "finish", "getquick", "tick"}
  HistLen = 6
INVARIANTS Emit
CHECK_DEADLOCK FALSE
