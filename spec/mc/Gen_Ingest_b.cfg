SPECIFICATION GSpec
CONSTANTS
  NVersions = 3
  Resolved = {2}
  MaxHeld = 3
  MonotonicSet = FALSE
  MaxFlush = 2
INVARIANTS Emit
CONSTRAINT Stop
CHECK_DEADLOCK FALSE
