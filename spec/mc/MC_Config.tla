------------------------------ MODULE MC_Config ------------------------------
(* Bounded configurations of Config.tla.                                     *)
(*  SpecCfg   : every configuration reachable from a minimal valid one by at *)
(*              most MaxEdits validity-preserving edits, followed by at most *)
(*              one defect of the catalogue (MC: Accepts => WellFormed;      *)
(*              Gen: one JSON line per configuration).                       *)
(*  SpecCoord : the coordinator over a pool of files (valid and defective),  *)
(*              reloads with and without a failing subscriber.               *)
(*  SpecBody  : the parts of a document below the routing tree.  (a) time    *)
(*              interval bodies: from a configuration with one interval in   *)
(*              `time_intervals:` and one in `mute_time_intervals:`, every    *)
(*              body of at most MaxEdits tokens out of the boundary shapes   *)
(*              of every field that has a parser and a marshaller of its     *)
(*              own, then at most one ill-formed token; (b) secrets: every   *)
(*              secret-bearing field (SecretSites) in every shape, at most   *)
(*              MaxSecrets per document.                                     *)
EXTENDS Config, Json, Sites_Config

CONSTANTS MaxEdits, MaxNodes, MaxDepth, HistLen,
          MinDefectEdits,   \* a defect is injected only after this many edits (0 in exhaustive runs)
          MaxSecrets,       \* secret-bearing fields set by one document (SpecBody)
          Pick(_)     \* PickAll: every parameter value (exhaustive); PickOne: one at random (simulation)
PickAll(S) == S
PickOne(S) == IF S = {} THEN {} ELSE {RandomElement(S)}

L1 == CHOOSE l \in GBLabels : TRUE
L2 == CHOOSE l \in GBLabels : l # L1
R1 == CHOOSE r \in RecvNames : TRUE

GBValid == { << >>, <<L1>>, <<L1, L2>>, <<All>>, <<All, All>> }
GBDup   == { <<L1, L1>>, <<L1, L2, L1>> }
GBMix   == { <<All, L1>>, <<L1, All>>, <<L1, All, L2>> }
GIVals  == {2}
RIVals  == {5}
MKinds  == {"none", "match", "match_re", "matchers"}
Secs    == {"mti", "ti"}

Nodes    == DOMAIN file.routes
Kids     == Nodes \ {1}
Unused   == RecvNames \ Range(file.recv)
Undef    == IntNames \ Defined(file)

CfgInit == /\ file = Base(R1)
           /\ defect = "none"
           /\ edits = 0
           /\ CoordInit
           /\ last = [op |-> "init"]

Edit(c) == /\ defect = "none"
           /\ edits < MaxEdits
           /\ file' = c
           /\ edits' = edits + 1
           /\ last' = [op |-> "edit"]
           /\ UNCHANGED <<defect, running, reported, handed>>

Inject(c, d) == /\ defect = "none"
                /\ edits >= MinDefectEdits
                /\ file' = c
                /\ defect' = d
                /\ last' = [op |-> "inject"]
                /\ UNCHANGED <<edits, running, reported, handed>>

ValidEdit ==
  \/ \E r \in Pick(Unused) : Edit(AddRecv(file, r))
  \/ \E s \in Pick(Secs), t \in Pick(Undef) : Edit(AddInt(file, s, t))
  \/ \E p \in Pick({n \in Nodes : Depth(file, n) < MaxDepth}) :
        Len(file.routes) < MaxNodes /\ Edit(AddChild(file, p))
  \/ \E i \in Pick(Nodes), r \in Pick(Range(file.recv) \cup {""}) :
        (i > 1 \/ r # "") /\ r # file.routes[i].recv /\ Edit(SetRecv(file, i, r))
  \/ \E i \in Pick(Nodes), g \in Pick(GBValid) :
        ~(file.routes[i].gbset /\ file.routes[i].gb = g) /\ Edit(SetGB(file, i, g))
  \/ \E i \in Pick(Nodes), v \in Pick(GIVals) : file.routes[i].gi # v /\ Edit(SetGI(file, i, v))
  \/ \E i \in Pick(Nodes), v \in Pick(RIVals) : file.routes[i].ri # v /\ Edit(SetRI(file, i, v))
  \/ \E i \in Pick(Kids), k \in Pick(MKinds) : file.routes[i].m # k /\ Edit(SetM(file, i, k))
  \/ \E i \in Pick(Kids) : ~file.routes[i].cont /\ Edit(SetCont(file, i))
  \/ \E i \in Pick(Kids), t \in Pick(Defined(file)) :
        t \notin Range(file.routes[i].mute) /\ Edit(AddMute(file, i, t))
  \/ \E i \in Pick(Kids), t \in Pick(Defined(file)) :
        t \notin Range(file.routes[i].active) /\ Edit(AddActive(file, i, t))

Defect ==
  \/ Inject(SetRecv(file, 1, ""), "root_no_receiver")
  \/ \E k \in Pick(MKinds \ {"none"}) : Inject(SetM(file, 1, k), "root_matchers")
  \/ \E t \in Pick(IntNames) : Inject(AddMute(file, 1, t), "root_mute")
  \/ \E t \in Pick(IntNames) : Inject(AddActive(file, 1, t), "root_active")
  \/ Inject(SetCont(file, 1), "root_continue")
  \/ \E i \in Pick(Nodes), r \in Pick(Unused) : Inject(SetRecv(file, i, r), "undefined_receiver")
  \/ \E i \in Pick(Kids), t \in Pick(Undef) : Inject(AddMute(file, i, t), "undefined_mute_interval")
  \/ \E i \in Pick(Kids), t \in Pick(Undef) : Inject(AddActive(file, i, t), "undefined_active_interval")
  \/ \E r \in Pick(Range(file.recv)) : Inject(AddRecv(file, r), "duplicate_receiver")
  \/ \E s \in Pick(Secs), t \in Pick(Defined(file)) : Inject(AddInt(file, s, t), "duplicate_interval")
  \/ \E i \in Pick(Nodes), g \in Pick(GBDup) : Inject(SetGB(file, i, g), "group_by_duplicate")
  \/ \E i \in Pick(Nodes), g \in Pick(GBMix) : Inject(SetGB(file, i, g), "group_by_mix")
  \/ \E i \in Pick(Nodes) : Inject(SetGI(file, i, 0), "group_interval_zero")
  \/ \E i \in Pick(Nodes) : Inject(SetRI(file, i, 0), "repeat_interval_zero")
  \/ Inject(AddRecv(file, ""), "empty_receiver_name")
  \/ \E s \in Pick(Secs) : Inject(AddInt(file, s, ""), "empty_interval_name")

CfgNext == ValidEdit \/ Defect
SpecCfg == CfgInit /\ [][CfgNext]_vars

-----------------------------------------------------------------------------
(* The coordinator over a pool of files.                                     *)
R2 == CHOOSE r \in RecvNames : r # R1
T1 == CHOOSE t \in IntNames : TRUE
V0 == Base(R1)
V1 == SetRecv(AddChild(AddRecv(V0, R2), 1), 2, R2)
V2 == AddMute(SetGB(AddInt(V1, "ti", T1), 2, <<L1>>), 2, T1)
PoolSeq == << <<V0, "none">>, <<V1, "none">>, <<V2, "none">>,
             <<AddRecv(V1, R1), "duplicate_receiver">>,
             <<SetM(V2, 1, "matchers"), "root_matchers">>,
             <<AddMute(V1, 2, T1), "undefined_mute_interval">>,
             <<SetGI(V0, 1, 0), "group_interval_zero">> >>
Pool == Range(PoolSeq)
IdOf(c) == CHOOSE i \in DOMAIN PoolSeq : PoolSeq[i][1] = c
IdOpt(s) == IF s = << >> THEN 0 ELSE IdOf(s[1])

CoordNext == \/ \E f \in Pick(Pool) : f[1] # file /\ WriteFile(f[1], f[2])
             \/ \E b \in Pick(BOOLEAN) : Reload(b)
SpecCoord == CfgInit /\ [][CoordNext]_vars

-----------------------------------------------------------------------------
(* Time interval bodies and secrets (SpecBody).                              *)

\* --- boundary shapes of every field with a parser / marshaller of its own
TimeToks   == { <<0, 0>>, <<0, 1>>, <<9, 0>>, <<17, 30>>, <<23, 59>>, <<24, 0>> }
TimesValid == { k \in [s : TimeToks, e : TimeToks] : TimesOK(k) }
TimesBad   == { [s |-> <<9, 0>>,   e |-> <<9, 0>>],      \* start = end
                [s |-> <<17, 30>>, e |-> <<9, 0>>],      \* start > end
                [s |-> <<24, 0>>,  e |-> <<24, 0>>],
                [s |-> <<0, 0>>,   e |-> <<24, 1>>],     \* no such time
                [s |-> <<0, 0>>,   e |-> <<25, 0>>],
                [s |-> <<9, 60>>,  e |-> <<24, 0>>] }
Rg(b, e, r)    == [b |-> b, e |-> e, rng |-> r]
Mo(b, e, r, n) == [b |-> b, e |-> e, rng |-> r, names |-> n]
\* 0 = sunday .. 6 = saturday
WeekValid  == { Rg(0, 0, FALSE), Rg(1, 1, FALSE), Rg(6, 6, FALSE),
                Rg(0, 6, TRUE), Rg(1, 5, TRUE), Rg(5, 6, TRUE), Rg(0, 1, TRUE), Rg(3, 3, TRUE) }
WeekBad    == { Rg(6, 0, TRUE), Rg(5, 1, TRUE) }
DomValid   == { Rg(1, 1, FALSE), Rg(15, 15, FALSE), Rg(31, 31, FALSE), Rg(-1, -1, FALSE), Rg(-31, -31, FALSE),
                Rg(1, 31, TRUE), Rg(1, -1, TRUE), Rg(-31, -1, TRUE), Rg(-3, -1, TRUE), Rg(28, 31, TRUE),
                Rg(15, 15, TRUE) }
DomBad     == { Rg(0, 0, FALSE), Rg(32, 32, FALSE), Rg(-32, -32, FALSE), Rg(-1, 1, TRUE), Rg(5, 1, TRUE),
                Rg(-1, -5, TRUE), Rg(1, -31, TRUE), Rg(0, 5, TRUE) }
MonthValid == { Mo(1, 1, FALSE, TRUE), Mo(6, 6, FALSE, TRUE), Mo(12, 12, FALSE, TRUE),
                Mo(1, 1, FALSE, FALSE), Mo(12, 12, FALSE, FALSE), Mo(13, 13, FALSE, FALSE),
                Mo(1, 12, TRUE, TRUE), Mo(11, 12, TRUE, TRUE), Mo(1, 2, TRUE, TRUE), Mo(12, 12, TRUE, TRUE),
                Mo(1, 12, TRUE, FALSE), Mo(6, 8, TRUE, FALSE) }
MonthBad   == { Mo(12, 1, TRUE, TRUE), Mo(8, 6, TRUE, FALSE) }
YearValid  == { Rg(2024, 2024, FALSE), Rg(2024, 2030, TRUE), Rg(1970, 1970, TRUE) }
YearBad    == { Rg(2030, 2024, TRUE) }
LocBad     == { "Mars/Olympus" }

FieldToks  == [times |-> TimesValid, weekdays |-> WeekValid, dom |-> DomValid,
               months |-> MonthValid, years |-> YearValid]
FieldBad   == [times |-> TimesBad, weekdays |-> WeekBad, dom |-> DomBad,
               months |-> MonthBad, years |-> YearBad]
Fields     == DOMAIN FieldToks
MaxPerField == 3
MaxElems    == 3

T2 == CHOOSE t \in IntNames : t # T1
\* one interval of each section, both referenced by the child route, both with a body
BodyStart == AddBody(AddBody(AddActive(AddMute(AddInt(AddInt(V1, "ti", T1), "mti", T2), 2, T1), 2, T2), T1), T2)

InBody   == file.ibody # << >>
Elems    == file.ibody[1].elems
CurElem  == Elems[Len(Elems)]
WithTok(f, k) == SetElems(file, [Elems EXCEPT ![Len(Elems)][f] = Append(@, k)])
WithLoc(l)    == SetElems(file, [Elems EXCEPT ![Len(Elems)].loc = l])

BodyEdit ==
  /\ InBody
  /\ \/ \E f \in Pick(Fields) : \E k \in Pick(FieldToks[f] \ Range(CurElem[f])) :
          Len(CurElem[f]) < MaxPerField /\ Edit(WithTok(f, k))
     \/ \E l \in Pick(Zones) : CurElem.loc = "" /\ Edit(WithLoc(l))
     \/ Len(Elems) < MaxElems /\ CurElem # EmptyElem /\ Edit(SetElems(file, Append(Elems, EmptyElem)))

DefectName(f) == CASE f = "times" -> "interval_times" [] f = "weekdays" -> "interval_weekdays"
                   [] f = "dom" -> "interval_days_of_month" [] f = "months" -> "interval_months"
                   [] f = "years" -> "interval_years"
BodyDefect ==
  /\ InBody
  /\ edits <= MinDefectEdits + 1
  /\ \/ \E f \in Pick(Fields) : \E k \in Pick(FieldBad[f]) : Inject(WithTok(f, k), DefectName(f))
     \/ \E l \in Pick(LocBad) : CurElem.loc = "" /\ Inject(WithLoc(l), "interval_location")

Taken == {file.sec[i].site : i \in DOMAIN file.sec}
SecretEdit ==
  /\ ~InBody
  /\ Len(file.sec) < MaxSecrets
  /\ \E s \in Pick({x \in SecretSites : x.id \notin Taken}) : \E sh \in Pick(Shapes) :
        (sh = "file" => s.file) /\ Edit(AddSecret(file, [site |-> s.id, type |-> s.type, shape |-> sh]))

BodyInit == /\ file \in {BodyStart, V0}
            /\ defect = "none"
            /\ edits = 0
            /\ CoordInit
            /\ last = [op |-> "init"]
BodyNext == BodyEdit \/ BodyDefect \/ SecretEdit
SpecBody == BodyInit /\ [][BodyNext]_vars

=============================================================================
