SPECIFICATION Spec
CONSTANTS
  Inst = {1, 2}
  GW = 1
  GI = 2
  RI = 5
  PT = 2
  MaxDelay = 3
  Lossy = TRUE
  Crashes = 2
  MaxTime = 12
INVARIANTS AtLeastOnce NoDupWhenHealthy
PROPERTIES SilentIfCovered
CHECK_DEADLOCK FALSE
