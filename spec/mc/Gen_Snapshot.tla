----------------------------- MODULE Gen_Snapshot ---------------------------
(* Prints every post-crash directory state TLC enumerates as one JSON line:  *)
(*  at    number of calls of Ops executed before the crash                   *)
(*  kd    number of pending directory operations that reached the disk       *)
(*  hp    a generation-0 snapshot existed at the start                       *)
(*  files name -> {present, c}: c = list of units [g, i] ([0,0] = zeros);    *)
(*        unit i of generation g: record (i-1) div U, cut class (i-1) mod U  *)
(*  adm   generations whose captured state the next start may load (not the   *)
(*        failed ones: a snapshot whose write failed captured nothing)        *)
(*  failed generations whose write failed                                     *)
(*  load  name -> {err, recs}: what the specification's loader returns for   *)
(*        that file (recs = set of [g, k]: record k of generation g)          *)
(*  nrec, u   the constants Recs and U                                        *)
EXTENDS MC_Snapshot

Obs == [at |-> pc, kd |-> kd, hp |-> hasPrev, begun |-> begun, done |-> done,
        files |-> post, adm |-> Admissible, failed |-> failed,
        load |-> [n \in Names |-> Load(post[n])], nrec |-> Recs, u |-> U]
Emit == phase = "crashed" => PrintT("@@H " \o ToJson(Obs))
=============================================================================
