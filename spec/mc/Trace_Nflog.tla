----------------------------- MODULE Trace_Nflog ----------------------------
(* Validation of traces recorded from the real nflog.Log (harness/c10       *)
(* TestRecord) against Nflog.tla: every recorded operation must be the      *)
(* corresponding action of the specification, with the recorded reply, and  *)
(* must produce exactly the recorded state; the properties of C10 are       *)
(* evaluated at every step.  Runs are concatenated; "end" resets.           *)
EXTENDS Nflog, Json, SequencesExt

CONSTANT TraceFile
Trace == ndJsonDeserialize(TraceFile)

VARIABLE l
tvars == <<vars, l>>

Ent(j) == [k |-> j.k, ts |-> j.ts, exp |-> j.exp, f |-> ToSet(j.f), r |-> ToSet(j.r), d |-> j.d]
Pay(j) == [f |-> ToSet(j.f), r |-> ToSet(j.r), d |-> j.d]
Held(s) == {s[k] : k \in DOMAIN s}

TraceInit == Init /\ l = 1

ev == Trace[l]

Reset == /\ now' = 0 /\ st' = << >> /\ top' = << >> /\ bcast' = 0
         /\ last' = [op |-> "init"]

TraceNext ==
  /\ l <= Len(Trace)
  /\ l' = l + 1
  /\ \/ ev.op = "tick"    /\ Tick(ev.n)
     \/ ev.op = "log"     /\ Log(ev.k, Pay(ev.p), ev.x) /\ last'.sent = ev.sent
     \/ ev.op = "merge"   /\ Merge({Ent(j) : j \in ToSet(ev.b)}) /\ last'.sent = ev.sent
     \/ ev.op = "gc"      /\ GC /\ last'.n = ev.n
     \/ ev.op = "query"   /\ Query(ev.k) /\ last'.found = ev.found
     \/ ev.op = "restart" /\ Restart
     \/ ev.op = "end"     /\ Reset
  /\ ev.op # "end" => /\ now' = ev.t
                      /\ Held(st') = {Ent(j) : j \in ToSet(ev.st)}
                      /\ bcast' = ev.bc

TraceSpec == TraceInit /\ [][TraceNext]_tvars

\* the trace is accepted iff every line was consumed; otherwise the first
\* line that is not a step of the specification is printed
TraceAccepted ==
  LET d == TLCGet("stats").diameter
  IN IF d - 1 = Len(Trace) THEN TRUE
     ELSE Print(<<"@@REJECT", d>>, FALSE)

\* the action properties of Nflog over the trace variables
TNeverBackwards     == [][\A k \in DOMAIN st : (last'.op # "init" /\ k \in DOMAIN st') => st'[k].ts >= st[k].ts]_tvars
TNeverAcceptExpired == [][last'.op # "init" => \A k \in DOMAIN st' :
                           (k \notin DOMAIN st \/ st[k] # st'[k]) => st'[k].exp >= now]_tvars
TKeptUntilExpiry    == [][last'.op # "init" => \A k \in DOMAIN st : st[k].exp > now' => k \in DOMAIN st']_tvars
TGCDropsExpired     == [][last'.op = "gc" => \A k \in DOMAIN st' : st'[k].exp > now]_tvars
=============================================================================
