------------------------------ MODULE MC_Gossip -----------------------------
(* Bounded configurations of Gossip.tla: exhaustive checking (MC_Gossip*.cfg), *)
(* liveness under fairness without state constraint (MC_Gossip_live.cfg), and  *)
(* generation of schedules (Gen_Gossip).                                       *)
EXTENDS Gossip, Json

CONSTANTS MaxRound, MaxNet, MaxLose, MaxDup, MaxCrash, MaxInject, MaxBurst, MaxSweep, PPOn,
          BurstSizes, FullLen, PartKinds

\* the update universe: marshalled lengths straddle MaxGossipPacketSize/2 = 700
\* (the Part wrapper adds 8 bytes: 692 -> 700 gossiped, 693 -> 701 oversized,
\* 700 -> 708 oversized and re-sent by the receivers, 701 -> 709 oversized, not re-sent).
\* No sum of "sil" lengths that stays <= 700 equals a sum of "nfl" lengths
\* (the order of the parts of a full state is not fixed by the code).
AllLen == [s1 |-> 150, s2 |-> 160, s3 |-> 692, s4 |-> 693, s5 |-> 700, s6 |-> 701, s7 |-> 690,
           n1 |-> 101, n2 |-> 695, f1 |-> 170, f2 |-> 111]
AllKey == [s1 |-> "sil", s2 |-> "sil", s3 |-> "sil", s4 |-> "sil", s5 |-> "sil", s6 |-> "sil", s7 |-> "sil",
           n1 |-> "nfl", n2 |-> "nfl", f1 |-> "sil", f2 |-> "nfl"]

NoUs == {}
Bad(kind, key) == [kind |-> kind, key |-> key, us |-> NoUs]
GoodPart(u) == [kind |-> "good", key |-> UKey[u], us |-> {u}]

\* bytes for NotifyMsg
BadMsgs == {Bad("unk", "zzz"), Bad("trunc", "sil")}
           \cup {Bad(kd, k) : kd \in {"garbage", "nilent", "empty"}, k \in Keys}
           \cup {GoodPart(f) : f \in Foreign}
\* ... and a replay of a message seen before (duplicate delivery long after)
Replays == {GoodPart(u) : u \in Held(st)}

\* parts of an injected full state
PartU == {Bad("unk", "zzz")} \cup {Bad(kd, k) : kd \in PartKinds, k \in Keys}
         \cup {GoodPart(f) : f \in Foreign}
SeqsUpTo(S, n) == UNION {[1 .. k -> S] : k \in 1 .. n}
BadFulls == {[kind |-> "full", parts |-> s] : s \in SeqsUpTo(PartU, FullLen)}
            \cup {[kind |-> "trunc", parts |-> << >>]}

Next ==
  \/ \E n \in Nodes, u \in Updates : Broadcast(n, u)
  \/ (used.burst < MaxBurst /\ \E n \in Nodes, u \in Updates, k \in BurstSizes : Burst(n, u, k))
  \/ (Cardinality(net) < MaxNet /\ \E n \in Nodes, p \in Nodes : Gossip(n, p))
  \/ \E pk \in net : Deliver(pk, FALSE)
  \/ (used.dup < MaxDup /\ \E pk \in net : Deliver(pk, TRUE))
  \/ \E pk \in net : (IF pk.to \in up THEN used.lose < MaxLose ELSE TRUE) /\ Lose(pk)
  \/ \E n \in Nodes, k \in Keys, p \in Nodes : SendReliable(n, k, p)
  \/ (PPOn /\ \E a \in Nodes, b \in Nodes : PushPull(a, b))
  \/ (PPOn /\ sweep < MaxSweep /\ EndSweep)
  \/ (used.crash < MaxCrash /\ \E n \in Nodes : Crash(n))
  \/ (up # Nodes /\ \E m \in Nodes, n \in Nodes : Detect(m, n))
  \/ (up # Nodes /\ \E n \in Nodes, s \in Nodes, keep \in BOOLEAN : Join(n, s, keep))
  \/ (used.inject < MaxInject /\ \E n \in Nodes, p \in BadMsgs \cup Replays : InjectMsg(n, p))
  \/ (used.inject < MaxInject /\ \E n \in Nodes, fs \in BadFulls : InjectFull(n, fs))
  \/ (round < MaxRound /\ EndRound)

Spec == Init /\ [][Next]_vars

\* DeliveredEventually: fairness, no state constraint.  Every pair of running
\* nodes eventually completes a push/pull (memberlist picks the partner at random
\* every interval); the sweep counter is not advanced (finite state space).
Resweep == /\ SweepDone /\ ppdone # {}
           /\ ppdone' = {}
           /\ last' = [op |-> "resweep"]
           /\ UNCHANGED <<up, view, st, tr, net, round, served, sweep, born, since, hurt, deferred, orphaned, used>>
LiveSpec == /\ Init /\ [][Next \/ Resweep]_vars
            /\ WF_vars(Resweep)
            /\ \A a \in Nodes : \A b \in Nodes \ {a} : WF_vars(PushPull(a, b))

View == <<up, view, st, tr, net, round, served, sweep, ppdone, born, since, hurt, deferred, orphaned, used>>
=============================================================================
