SPECIFICATION Spec
CONSTANTS
  Inst = {1}
  InitUp = {1}
  Alerts = {"a"}
  GW = 1
  GI = 3
  RI = 20
  PT = 3
  ST = 0
  MinT = 10
  Maint = 4
  MaxDelay = 1
  Quantum = 4
  MaxTime = 20
  Rule = "sum"
  Cfgs = {"A"}
  InitCfg = "A"
  RL = "safe"
  Off = {}
  Lim <- QKill
VIEW View
INVARIANTS AtLeastOnce NoDuplicateWhenHealthy SilenceSurvivesRestart NoRepeatAfterRestart ReadyEventually RoutedByConfigInForce StatusShowsConfigInForce ReceiversAgree Sane
CHECK_DEADLOCK FALSE
