SPECIFICATION Spec
CONSTANTS
  LNames = {"a", "b"}
  LVals = {"x"}
  ANames = {"s"}
  AVals = {"", "x"}
  KNames = {"a", "b"}
  KVals = {"", "x", "y"}
  MaxKV = 4
  MaxBatch = 3
  MaxStr = 6
  MaxRep = 16
  Ends = {"tpast", "none", "future"}
  Pick <- PickAll
INVARIANTS KVLaws BatchLaws StrLaws
CHECK_DEADLOCK FALSE
