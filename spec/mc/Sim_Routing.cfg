SPECIFICATION GenSpec
CONSTANTS
  Pick <- PickOne
  MNames = {"R1", "R2", "R3", "R4", "R5", "R6", "R7", "R8", "R9", "R10", "R11", "R12"}
  Conts = {FALSE, TRUE}
  Decos <- DecosAll
  RootDecos <- RootDecosAll
  Fan = 3
  RootFan = 3
  Depth = 3
INVARIANTS Emit
CHECK_DEADLOCK FALSE
