--------------------------- MODULE Trace_AlertsConc --------------------------
(* Linearizability of histories recorded from ONE real provider + API under  *)
(* real concurrency (harness/c13 TestConc) against AlertsConc.tla.           *)
(* Events (ndjson, ordered by a global atomic counter taken just before a    *)
(* call and just after a return / a channel receive):                       *)
(*   call  o k b ls sub      operation o of kind put|post|get|geta|sub|      *)
(*                           slurp|gc is invoked (b = submitted versions     *)
(*                           [ls,s,e,tag,u], u = rank of the UpdatedAt)      *)
(*   ret   o r d             it returned: r = versions (get: stored alert,   *)
(*                           geta: GET /api/v2/alerts payload, slurp: the    *)
(*                           returned snapshot), d = label sets GC deleted   *)
(*   recv  sub m             subscriber sub took version m from its channel *)
(*   end                     quiescence (every channel drained): reset       *)
(* A history is accepted iff SOME placing of the internal steps Lin(o)       *)
(* between each call and return explains every logged value: TLC searches    *)
(* them all.  Lin steps are only tried where one is needed (before the       *)
(* return of an operation that has not taken effect, before a receive from   *)
(* an empty queue of that label set): any linearization can be turned into   *)
(* such a just-in-time one with the same order of Lin steps, hence the same  *)
(* values.  Trace_AlertsConc.cfg: a Put is one Lin step (the code);          *)
(* Trace_AlertsConc_alert.cfg: one Lin step per alert (the verdict for a     *)
(* history the first configuration rejects).  TLC cannot write states deeper *)
(* than 65535 to its disk queue: keep a trace file below ~45000 events.      *)
EXTENDS AlertsConc, Json, SequencesExt

CONSTANT TraceFile
Trace == ndJsonDeserialize(TraceFile)

VARIABLE l
tvars == <<cvars, l>>

CIds3 == {"a", "b", "c"}
CLabelsOf3 == [x \in CIds3 |-> [alertname |-> x]]

ev == Trace[l]
Ver(j) == [ls |-> j.ls, s |-> j.s, e |-> j.e, tag |-> j.tag, u |-> j.u]
SeqVer(q) == [i \in 1..Len(q) |-> Ver(q[i])]
SetVer(q) == {Ver(q[i]) : i \in 1..Len(q)}
NoU(m) == [m EXCEPT !.u = 0]      \* (the GET payload prints updatedAt rounded)

TraceInit == CInit /\ CHInit /\ l = 1

NeedLin ==
  \/ ev.e = "ret" /\ ev.o \in DOMAIN ops /\ ops[ev.o].st = "called"
  \/ ev.e = "recv" /\ ev.sub \in Regs /\ RecvMsg(ev.sub, ev.m.ls) = {}

Silent == /\ l <= Len(Trace) /\ NeedLin
          /\ \E o \in DOMAIN ops : Lin(o)
          /\ l' = l

ResOK(o) ==
  LET k == ops[o].k
      r == ops[o].res
  IN IF k = "get" THEN r = SeqVer(ev.r)
     ELSE IF k = "geta" THEN /\ {NoU(m) : m \in r} = {NoU(m) : m \in SetVer(ev.r)}
                             /\ Len(ev.r) = Cardinality(r)
     ELSE IF k = "slurp" THEN r = SetVer(ev.r) /\ Len(ev.r) = Cardinality(r)
     ELSE IF k = "gc" THEN r = ToSet(ev.d)
     ELSE TRUE

Reset == /\ store' = << >> /\ ops' = << >> /\ queue' = << >> /\ snap' = << >> /\ pend' = << >>

Step == /\ l <= Len(Trace) /\ l' = l + 1
        /\ \/ ev.e = "call" /\ Call(ev.o, ev.k, SeqVer(ev.b), ev.ls, ev.sub)
           \/ ev.e = "ret"  /\ ev.o \in DOMAIN ops /\ ops[ev.o].st = "lin" /\ ResOK(ev.o) /\ Ret(ev.o)
           \/ ev.e = "recv" /\ Recv(ev.sub, Ver(ev.m))
           \* quiescence: every message written has been received
           \/ ev.e = "end"  /\ (\A s \in Regs : Drained(s)) /\ Reset

TraceNext == (Silent \/ Step) /\ UNCHANGED <<hvars, rest>>
TraceSpec == TraceInit /\ [][TraceNext]_tvars

\* acceptance: every line consumed (high-water mark of l; the silent Lin steps make
\* the diameter useless).  The first event no linearization explains is printed.
HighWater == TLCSet(1, IF l > TLCGet(1) THEN l ELSE TLCGet(1))
TraceAccepted ==
  IF TLCGet(1) = Len(Trace) + 1 THEN TRUE
  ELSE Print(<<"@@REJECT", TLCGet(1)>>, FALSE)
ASSUME TLCSet(1, 0)
=============================================================================
