----------------------------- MODULE Gen_Delivery ----------------------------
EXTENDS MC_Delivery
(* Gen: cases with the payload the statement expects, one JSON line (marker *)
(* @@H) holding a list of cases.                                            *)
(*   k = "batch": alerts, group labels, send_resolved, max_alerts;          *)
(*       td = template data of the whole batch (notify.GetTemplateData),    *)
(*       wh = what the webhook integration posts behind the retry stage     *)
(*   k = "str": a string as the widths of its code points; for every limit  *)
(*       n in 0 .. bytes+2 the results of TruncateInRunes / TruncateInBytes *)
(* Exhaustive (GenSpec): roots = first element, cases = successors.         *)
(* Simulation (SimSpec, Pick <- PickOne): every step of a behaviour of       *)
(* HistLen steps holds one random case over the larger universes.           *)
CONSTANTS GEnds,      \* exhaustive: the alert ends used
          MaxSize,    \* (max_alerts, batch size) pairs up to this size
          HistLen, MaxSimStr

GAlertU == [l : LabelU, a : AnnU, end : GEnds]
GlOf(b) == IF Len(b) % 2 = 1 THEN [a |-> "x"] ELSE NoKV
GBatch(bs) == {[k |-> "batch", b |-> b, gl |-> GlOf(b), sr |-> sr, max |-> max] :
                 b \in bs, sr \in BOOLEAN, max \in 0 .. MaxBatch}

\* batches of m distinguishable alerts of which only the last one fires
SizeBatch(m) == [i \in 1 .. m |-> [l |-> [a |-> "x", n |-> ToString(i)],
                                   a |-> [s |-> "x"],
                                   end |-> IF i = m THEN "none" ELSE "past"]]

\* the same with ends derived from resolve_timeout: the resolved ones timed out, the
\* firing one has its timeout still ahead
SizeBatchT(m) == [i \in 1 .. m |-> [l |-> [a |-> "x", n |-> ToString(i)],
                                    a |-> [s |-> "x"],
                                    end |-> IF i = m /\ m % 2 = 0 THEN "tfuture" ELSE "tpast"]]

\* the smallest input (37 bytes, limit 36) on which TruncateInBytes panics with the
\* Go runtime of this tree (a rune slice of up to 32 runes has capacity 32), and
\* the reproducer of DESIGN.md F6
Canon == {Rep(4, 9) \o <<1>>, Rep(4, 40)}

GenRoots ==
  {[k |-> "root", kind |-> "empty"]}
  \cup {[k |-> "root", kind |-> "batch", al |-> h] : h \in GAlertU}
  \cup {[k |-> "root", kind |-> "str", w1 |-> h[1], w2 |-> h[2]] : h \in Widths \X Widths}
  \cup {[k |-> "root", kind |-> "rep", w |-> h] : h \in Widths}
GenCasesOf(r) ==
  CASE r.kind = "empty" -> GBatch({<< >>})
                           \cup {[k |-> "batch", b |-> SizeBatch(m), gl |-> [a |-> "x"], sr |-> sr, max |-> max] :
                                   m \in 1 .. MaxSize, max \in 0 .. (MaxSize + 1), sr \in BOOLEAN}
                           \cup {[k |-> "batch", b |-> SizeBatchT(m), gl |-> [a |-> "x"], sr |-> sr, max |-> max] :
                                   m \in 1 .. MaxSize, max \in 0 .. (MaxSize + 1), sr \in BOOLEAN}
                           \cup {[k |-> "str", s |-> s] : s \in {<< >>} \cup {<<w>> : w \in Widths} \cup Canon}
    [] r.kind = "batch" -> GBatch(From(GAlertU, r.al, MaxBatch))
    [] r.kind = "str"   -> {[k |-> "str", s |-> <<r.w1, r.w2>> \o t] : t \in SeqsUpTo(Widths, MaxStr - 2)}
    [] r.kind = "rep"   -> {[k |-> "str", s |-> Rep(r.w, j)] : j \in (MaxStr + 1) .. MaxRep}

ObsOf(x) == IF x.k = "batch" THEN BatchObs(x.b, x.gl, x.sr, x.max) ELSE StrObs(x.s)

GenInit == c \in GenRoots
GenNext == c.k = "root" /\ c' \in GenCasesOf(c)
GenSpec == GenInit /\ [][GenNext]_c
Emit    == c.k \in {"batch", "str"} => PrintT("@@H " \o ToJson(<<ObsOf(c)>>))

-----------------------------------------------------------------------------
(* Simulation over AlertU (three ends) with up to four alerts.              *)
Differ(x, y, N) == Cardinality({n \in N : (n \in DOMAIN x) # (n \in DOMAIN y) \/ (n \in DOMAIN x /\ x[n] # y[n])})
NearL(base) == {kv \in LabelU : Differ(kv, base, LNames) <= 1}
NearA(base) == {kv \in AnnU : Differ(kv, base, ANames) <= 1}
SizeW == <<1, 2, 2, 3, 3, 3, 4, 4, 4, 4>>      \* batch sizes, weighted
Put(x) == c' = [k |-> "sim", i |-> c.i + 1, x |-> x]
Slot(LS, AS, on) == IF on THEN [l : Pick(LS), a : Pick(AS), end : Pick(Ends)]
                    ELSE {[l |-> [a |-> "x"], a |-> NoKV, end |-> "none"]}
SimBatch(LS, AS) ==
  \E i \in Pick(1 .. Len(SizeW)) :
    LET m == SizeW[i] IN
    \E a1 \in Slot(LS, AS, TRUE), a2 \in Slot(LS, AS, m >= 2), a3 \in Slot(LS, AS, m >= 3), a4 \in Slot(LS, AS, m >= 4),
       gl \in Pick(GroupU), sr \in Pick(BOOLEAN), max \in Pick(0 .. 5) :
      Put(BatchObs(SubSeq(<<a1, a2, a3, a4>>, 1, m), gl, sr, max))
\* long strings: the limits around the interesting places (tiny, the number of
\* code points and just above: where F6 starts, the number of bytes, the
\* capacity of a small rune slice) and three random ones
SimLimits(s) ==
  LET L == Len(s)
      B == Bytes(s)
  IN ((0 .. 5) \cup ((L - 2) .. (L + 14)) \cup ((B - 6) .. (B + 2)) \cup (34 .. 38) \cup {(L + B) \div 2}
      \cup Pick(0 .. (B + 2)) \cup Pick(0 .. (B + 2)) \cup Pick(0 .. (B + 2))) \cap (0 .. (B + 2))
SimStr(W, lo) ==
  \E m \in Pick(lo .. MaxSimStr) : \E s \in Pick([1 .. m -> W]) : Put(StrObsAt(s, SimLimits(s)))
\* few narrow code points after many wide ones: the smallest members of the F6 class that panic
SimStrMixed ==
  \E m \in Pick(8 .. 14), j \in Pick(0 .. 3) : \E s \in Pick([1 .. m -> {3, 4}]), t \in Pick([1 .. j -> {1, 2}]) :
    Put(StrObsAt(s \o t, Limits(s \o t)))

\* TLC's simulator evaluates the invariants on every successor before it picks
\* one: every step prints one fresh case per disjunct below.
SimInit == c = [k |-> "sim", i |-> 0, x |-> 0]
SimNext == /\ c.i < HistLen
           /\ \/ SimBatch(LabelU, AnnU)
              \/ \E bl \in Pick(LabelU), ba \in Pick(AnnU) : SimBatch(NearL(bl), NearA(ba))
              \/ \E bl \in Pick(LabelU) : SimBatch(NearL(bl), AnnU)
              \/ SimStr(Widths, MaxStr + 1)
              \/ SimStr({2, 3, 4}, 8)
              \/ SimStrMixed
SimSpec == SimInit /\ [][SimNext]_c
EmitSim == (c.k = "sim" /\ c.i > 0) => PrintT("@@H " \o ToJson(<<c.x>>))
=============================================================================
