SPECIFICATION Spec
CONSTANTS
  Keys <- MCKeys2
  Kind = "log"
  Retention = 1
  MaxTime = 4
  MaxC = 2
  Skip = "never"
  HistLen = 0
  Pick <- PickAll
INVARIANTS TypeOK Lossless RestartLossless LosslessIds
CHECK_DEADLOCK FALSE
