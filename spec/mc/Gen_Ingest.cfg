SPECIFICATION GSpec
CONSTANTS
  NVersions = 4
  Resolved = {2, 4}
  MaxHeld = 3
  MonotonicSet = FALSE
  MaxFlush = 2
INVARIANTS Emit
CONSTRAINT Stop
CHECK_DEADLOCK FALSE
