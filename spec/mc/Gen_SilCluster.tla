---------------------------- MODULE Gen_SilCluster --------------------------
EXTENDS MC_SilCluster
CONSTANT HistLen
VARIABLE hist
GenInit == Init /\ hist = << >>
F7GapP(n, id) ==   \* F7Gap over the primed state
  LET S == {v \in recv'[n] : v.id = id}
      v == CHOOSE x \in S : \A w \in S : w.upd <= x.upd
  IN /\ S # {} /\ v.exp <= now'
     /\ id \in DOMAIN st'[n] /\ st'[n][id] # v /\ st'[n][id].upd < v.upd
Obs == [e |-> last', t |-> now', st |-> st', nnet |-> Cardinality(net'),
         gaps |-> UNION {{[n |-> n, id |-> id, active |-> StateOf(st'[n][id], now') = "active"] :
                            id \in {x \in Ids : F7GapP(n, x)}} : n \in Nodes}]
P(S) == IF S = {} THEN {} ELSE {RandomElement(S)}
Jump == \E d \in P({1, 2, 3}) : /\ now + d <= MaxTime /\ now' = now + d
                                /\ last' = [op |-> "tick", d |-> d] /\ UNCHANGED <<st, net, recv>>
\* one candidate per kind of step, so that kinds are equally likely in simulation
GenStep == \/ \E n \in P(Nodes), id \in P(Ids) : Create(n, id) \/ Extend(n, id) \/ Expire(n, id)
           \/ \E m \in P(net) : Deliver(m, FALSE) \/ Deliver(m, TRUE) \/ Lose(m)
           \/ \E a \in P(Nodes) : \E b \in P(Nodes \ {a}) : \E big \in P(BOOLEAN) : PushPull(a, b, big)
           \/ \E n \in P(Nodes) : GC(n)
           \/ Jump
GenNext == /\ Len(hist) < HistLen
           /\ Cardinality(net) <= MaxNet
           /\ GenStep
           /\ hist' = Append(hist, Obs)
GenSpec == GenInit /\ [][GenNext]_<<vars, hist>>
Emit == Len(hist) = HistLen => PrintT("@@H " \o ToJson(hist))
=============================================================================
