------------------------------- MODULE AppSys -------------------------------
(***************************************************************************)
(* The ASSEMBLED program (app.New / app.Run: app/app.go `setup`) at the     *)
(* level of its externally visible behaviour - what an operator sees from   *)
(* outside 1-3 clustered processes: HTTP API answers, webhook deliveries,   *)
(* the data directory across restarts.  Properties C08 (at least one        *)
(* notification, no duplicates when healthy, readiness), C11 (silences and  *)
(* sent notifications survive a restart) and C01 (single instance).         *)
(*                                                                         *)
(* What app.setup wires and this module states (everything else is the     *)
(* business of the component models Cluster / GossipPeers / Nflog / ...):   *)
(*  - flush deadline: dispatcher timeout = timeoutFunc(group_interval)      *)
(*        Rule = "sum":       max(gi, MinTimeout) + position x peer_timeout *)
(*        Rule = "defective": the wait is added only when gi < MinTimeout   *)
(*                            (seeded change; AtLeastOnce must FAIL)       *)
(*    taken when the flush starts; the pipeline then passes                 *)
(*    GossipSettle (blocks until the instance is ready), the mute stages,   *)
(*    ClusterWait = clusterWait(peer, peer_timeout)() = position x          *)
(*    peer_timeout taken when the stage is entered, Dedup against the       *)
(*    notification log, the webhook, and the log write which is gossiped;   *)
(*  - position = rank of the instance among the members it sees;            *)
(*  - Settle: the instance becomes ready ST after its start (ST = 0: no     *)
(*    cluster configured);                                                  *)
(*  - notification log and silences: gossip (delay <= MaxDelay) and         *)
(*    push-pull (at a join, and at any time between two running instances); *)
(*  - data directory: snapshot of both stores every Maint and at a clean    *)
(*    stop; a start loads it; a kill keeps the last periodic snapshot;      *)
(*    alerts live in memory only (lost by stop / kill, re-posted by the     *)
(*    environment);                                                         *)
(*  - start order: any; positions change when peers come and go.            *)
(*  - configuration reloads of a running instance (POST /-/reload, SIGHUP):  *)
(*    the file is rewritten with configuration c of one of the kinds          *)
(*      "good"      accepted: dispatcher, pipeline and API switch to c,      *)
(*      "badload"   refused by config.Load (syntax / semantic error),        *)
(*      "badapply"  loads, but is refused while being applied in             *)
(*                  app/reloader.go (receiver integrations or tracing that    *)
(*                  cannot be built: a tls ca_file that does not exist);      *)
(*    a refused reload leaves everything as it was (all fallible steps come   *)
(*    before the old dispatcher is stopped and before the API is updated).    *)
(*    Configurations differ observably: c routes every alert to receiver      *)
(*    hook-c (webhook path /hook/c; the notification log is keyed by the      *)
(*    receiver), which the status text and the API's receivers name.          *)
(*      RL = "safe":      the program                                         *)
(*      RL = "stopfirst": the last fallible step comes after the old          *)
(*                        dispatcher was stopped (seeded C17-5): a reload     *)
(*                        refused there leaves NO dispatcher                  *)
(*      RL = "apifirst":  the API is updated before the fallible steps        *)
(*                        (seeded C07-4): after a reload refused at apply     *)
(*                        time the API answers from the refused configuration *)
(* One alert per group; a delivery to the webhook always succeeds.          *)
(* Off names wiring that a defective assembly leaves out (each must make    *)
(* one property fail, MC_AppSys_*.cfg): "stopsnap" the snapshot at a clean  *)
(* stop, "nflgossip" the broadcast of notification log entries, "settle"    *)
(* the Settle goroutine.                                                     *)
(*                                                                         *)
(* Time advances by jumps to the next instant at which something is due     *)
(* (at most Quantum), so the constants can be real seconds.                 *)
(*                                                                         *)
(* The properties are written over OBSERVABLE state (now, life, rdy, pos,   *)
(* has, sv, sent and the bookkeeping since / owe / told / healthy) with a   *)
(* parameter record p (timers, tolerances), so that the same definitions    *)
(* judge the model (p = P, exact) and recorded runs of the real program     *)
(* (spec/mc/Trace_AppSys.tla: the observable variables are rebuilt from the *)
(* trace, p carries real-time tolerances).                                  *)
(***************************************************************************)
EXTENDS Integers, FiniteSets, Sequences, TLC

CONSTANTS Inst,       \* instances, a set of naturals (peer names sort like the numbers)
          InitUp,     \* instances started at time 0
          Alerts,     \* alert names = groups
          GW, GI, RI, \* group_wait, group_interval, repeat_interval
          PT,         \* peer timeout
          ST,         \* time from start to ready (0: clustering disabled)
          MinT,       \* notify.MinTimeout
          Maint,      \* data maintenance interval
          MaxDelay,   \* gossip delay bound
          Quantum, MaxTime,
          Rule,       \* "sum" | "defective"
          Off,        \* wiring left out, a subset of {"stopsnap", "nflgossip", "settle"}; {} = the program
          Cfgs,       \* configurations, e.g. {"A", "B"}; every instance starts with InitCfg
          InitCfg,
          RL,         \* "safe" | "stopfirst" | "apifirst"
          Lim         \* [start, stop, kill, post, sil, exp, rl |-> bound on the number of such operations]

VARIABLES now,
          life,    \* i -> "new" | "up" | "down"
          upAt,    \* i -> instant of the last start
          rdy,     \* i -> cluster status ready
          has,     \* i -> alerts in memory
          sv,      \* i -> alert -> 0 no silence, 1 active silence, 2 expired silence (3 in traces: not yet observed)
          due,     \* i -> alert -> next flush tick of the group, NONE: no group
          pend,    \* i -> alert -> flush in progress
          nfl,     \* i -> alert -> receiver (= configuration) -> timestamp of the notification log entry, NONE
          cfg,     \* i -> configuration of the running dispatcher / pipeline, "none": no dispatcher
          api,     \* i -> configuration the API answers from (status text)
          file,    \* i -> [c, kind]: content of the configuration file
          snapN, snapS,  \* data directory: last snapshot of nfl / sv
          mt,      \* i -> next maintenance
          net,     \* gossip in flight
          cnt, last,
          \* ---- observation and bookkeeping (shared with the trace specification)
          pos,     \* i -> position among the members it sees
          rcv, grp, \* i -> configuration named by the receivers of GET /api/v2/alerts / of the dispatcher's groups ("-": nothing to show)
          sent,    \* deliveries: [i, a, c, t, g, owe, rep, ok]
          gen,     \* i -> number of starts
          since,   \* i -> alert -> start of the current interval in which i is up, ready, has a unsilenced, at one position; NONE
          owe,     \* i -> alert -> [lvl, t]: silence acknowledged by i (1: in this generation, 2: before a restart that had to keep it)
          told,    \* i -> alert -> [t, g, c]: i's last delivery that its data directory has to remember
          inforce, \* i -> configuration that has to be in force: the start's or the last ACCEPTED reload's
          prevc, chg, \* i -> the configuration in force before, and when it was replaced
          lastrl,  \* i -> "none" | "good" | "rejected": outcome of the last reload request
          healthy, \* no stop / kill / late start so far, every post found all instances up and ready
          posted, expired

rlv  == <<cfg, api, file>>
bkr  == <<inforce, prevc, chg, lastrl>>
core == <<now, life, upAt, rdy, has, sv, due, pend, nfl, snapN, snapS, mt, net, cnt, last, rlv>>
bk   == <<sent, gen, owe, told, healthy, posted, expired, bkr>>
vars == <<core, bk, pos, since, rcv, grp>>

NONE == 0 - 1
Max(x, y) == IF x > y THEN x ELSE y
SetMin(S) == CHOOSE x \in S : \A y \in S : x <= y
Up == {i \in Inst : life[i] = "up"}
Idle == [st |-> "idle", dl |-> 0, at |-> 0, tick |-> 0]
NoOwe == [lvl |-> 0, t |-> 0]
NoTold == [t |-> NONE, g |-> 0, c |-> "-"]
NoLog == [a \in Alerts |-> [c \in Cfgs |-> NONE]]

\* parameters of the model itself: exact, no tolerance
P == [gw |-> GW, gi |-> GI, ri |-> RI, pt |-> PT, st |-> ST, mint |-> MinT,
      slack |-> 0, rslack |-> 0, dupmin |-> [a \in Alerts |-> MaxDelay], dupmax |-> RI, repmax |-> RI, late |-> 0, rltol |-> 0, inflight |-> 0]

-----------------------------------------------------------------------------
(* the wiring of app.setup *)
Timeout(d, w) == IF Rule = "sum" THEN Max(d, MinT) + w
                 ELSE IF d < MinT THEN MinT + w ELSE d
PosOf(l, i) == Cardinality({j \in Inst : l[j] = "up" /\ j < i})

-----------------------------------------------------------------------------
(* bookkeeping steps; t = instant, p = parameters *)
BkSame == UNCHANGED bk

\* a delivery by i of alert a to receiver hook-c.  ok: c is the configuration that has to be in force
\* (or was until rltol ago: a flush in flight when the accepted reload came)
BkSend(i, a, c, t, p) ==
  /\ sent' = Append(sent, [i |-> i, a |-> a, c |-> c, t |-> t, g |-> gen[i], owe |-> owe[i][a].lvl,
                           rep |-> /\ told[i][a].t # NONE /\ told[i][a].g < gen[i] /\ told[i][a].c = c
                                   /\ t - told[i][a].t <= p.repmax,
                           ok |-> c = inforce[i] \/ (c = prevc[i] /\ t - chg[i] <= p.rltol)])
  /\ told' = [told EXCEPT ![i][a] = [t |-> t, g |-> gen[i], c |-> c]]
  /\ UNCHANGED <<gen, owe, healthy, posted, expired, bkr>>

\* keepN / keepS: the alerts whose log entry / silence the data directory surely holds
BkDown(i, keepN, keepS) ==
  /\ told' = [told EXCEPT ![i] = [a \in Alerts |-> IF a \in keepN THEN told[i][a] ELSE NoTold]]
  /\ owe' = [owe EXCEPT ![i] = [a \in Alerts |-> IF a \in keepS THEN owe[i][a] ELSE NoOwe]]
  /\ healthy' = FALSE
  /\ UNCHANGED <<sent, gen, posted, expired, bkr>>

BkStart(i, c) ==
  /\ inforce' = [inforce EXCEPT ![i] = c]
  /\ prevc' = [prevc EXCEPT ![i] = c]
  /\ lastrl' = [lastrl EXCEPT ![i] = "none"]
  /\ UNCHANGED chg
  /\ gen' = [gen EXCEPT ![i] = @ + 1]
  /\ owe' = [owe EXCEPT ![i] = [a \in Alerts |-> IF owe[i][a].lvl = 1 THEN [owe[i][a] EXCEPT !.lvl = 2] ELSE owe[i][a]]]
  /\ healthy' = (healthy /\ ~posted)
  /\ UNCHANGED <<sent, told, posted, expired>>

BkPost(allready) ==
  /\ posted' = TRUE
  /\ healthy' = (healthy /\ allready)
  /\ UNCHANGED <<sent, gen, owe, told, expired, bkr>>

BkAck(i, a, t) ==
  /\ owe' = [owe EXCEPT ![i][a] = [lvl |-> 1, t |-> t]]
  /\ UNCHANGED <<sent, gen, told, healthy, posted, expired, bkr>>

BkExpire(a) ==
  /\ expired' = expired \cup {a}
  /\ owe' = [i \in Inst |-> [owe[i] EXCEPT ![a] = NoOwe]]
  /\ UNCHANGED <<sent, gen, told, healthy, posted, bkr>>

\* a reload request for configuration c has been answered (accepted or refused)
BkReload(i, c, accepted, t) ==
  /\ lastrl' = [lastrl EXCEPT ![i] = IF accepted THEN "good" ELSE "rejected"]
  /\ IF accepted /\ c # inforce[i]
       THEN /\ inforce' = [inforce EXCEPT ![i] = c]
            /\ prevc' = [prevc EXCEPT ![i] = inforce[i]]
            /\ chg' = [chg EXCEPT ![i] = t]
       ELSE UNCHANGED <<inforce, prevc, chg>>
  /\ healthy' = FALSE
  /\ UNCHANGED <<sent, gen, owe, told, posted, expired>>

\* the eligibility clock, from the state after the step (pos' is given); it starts again when
\* another configuration comes into force
Elig(l, r, h, s, i, a) == l[i] = "up" /\ r[i] /\ a \in h[i] /\ s[i][a] # 1
Clock(t) ==
  since' = [i \in Inst |-> [a \in Alerts |->
              IF Elig(life', rdy', has', sv', i, a)
                THEN IF since[i][a] # NONE /\ pos'[i] = pos[i] /\ inforce'[i] = inforce[i] THEN since[i][a] ELSE t
                ELSE NONE]]

-----------------------------------------------------------------------------
Init ==
  /\ now = 0
  /\ life = [i \in Inst |-> IF i \in InitUp THEN "up" ELSE "new"]
  /\ upAt = [i \in Inst |-> 0]
  /\ rdy = [i \in Inst |-> i \in InitUp /\ ST = 0]
  /\ has = [i \in Inst |-> {}]
  /\ sv = [i \in Inst |-> [a \in Alerts |-> 0]]
  /\ due = [i \in Inst |-> [a \in Alerts |-> NONE]]
  /\ pend = [i \in Inst |-> [a \in Alerts |-> Idle]]
  /\ nfl = [i \in Inst |-> NoLog]
  /\ snapN = nfl /\ snapS = sv
  /\ cfg = [i \in Inst |-> InitCfg] /\ api = cfg
  /\ file = [i \in Inst |-> [c |-> InitCfg, kind |-> "good"]]
  /\ rcv = [i \in Inst |-> "-"] /\ grp = rcv
  /\ inforce = cfg /\ prevc = cfg /\ chg = [i \in Inst |-> 0] /\ lastrl = [i \in Inst |-> "none"]
  /\ mt = [i \in Inst |-> Maint]
  /\ net = {}
  /\ cnt = [start |-> 0, stop |-> 0, kill |-> 0, post |-> 0, sil |-> 0, exp |-> 0, rl |-> 0]
  /\ last = [op |-> "init"]
  /\ pos = [i \in Inst |-> Cardinality({j \in InitUp : j < i})]
  /\ sent = << >>
  /\ gen = [i \in Inst |-> IF i \in InitUp THEN 1 ELSE 0]
  /\ since = [i \in Inst |-> [a \in Alerts |-> NONE]]
  /\ owe = [i \in Inst |-> [a \in Alerts |-> NoOwe]]
  /\ told = [i \in Inst |-> [a \in Alerts |-> NoTold]]
  /\ healthy = TRUE /\ posted = FALSE /\ expired = {}

MaxF(S, f(_)) == IF S = {} THEN NONE ELSE LET m == CHOOSE x \in S : \A y \in S : f(x) >= f(y) IN f(m)

\* ---- environment ---------------------------------------------------------
\* a start loads the data directory and joins: full-state exchange with every running instance
Start(i) ==
  /\ life[i] # "up" /\ cnt.start < Lim.start /\ file[i].kind = "good"
  /\ cfg' = [cfg EXCEPT ![i] = file[i].c] /\ api' = [api EXCEPT ![i] = file[i].c] /\ UNCHANGED file
  /\ LET peers == Up
         mN == [a \in Alerts |-> [c \in Cfgs |-> Max(snapN[i][a][c], MaxF(peers, LAMBDA j : nfl[j][a][c]))]]
         mS == [a \in Alerts |-> Max(snapS[i][a], MaxF(peers, LAMBDA j : sv[j][a]))]
     IN /\ nfl' = [j \in Inst |-> IF j = i \/ j \in peers THEN mN ELSE nfl[j]]
        /\ sv' = [j \in Inst |-> IF j = i \/ j \in peers THEN mS ELSE sv[j]]
  /\ life' = [life EXCEPT ![i] = "up"]
  /\ upAt' = [upAt EXCEPT ![i] = now]
  /\ rdy' = [rdy EXCEPT ![i] = (ST = 0)]
  /\ has' = [has EXCEPT ![i] = {}]
  /\ due' = [due EXCEPT ![i] = [a \in Alerts |-> NONE]]
  /\ pend' = [pend EXCEPT ![i] = [a \in Alerts |-> Idle]]
  /\ mt' = [mt EXCEPT ![i] = now + Maint]
  /\ cnt' = [cnt EXCEPT !.start = @ + 1]
  /\ last' = [op |-> "start", i |-> i]
  /\ BkStart(i, file[i].c)
  /\ UNCHANGED <<now, snapN, snapS, net>>

Down(i) ==
  /\ life' = [life EXCEPT ![i] = "down"]
  /\ rdy' = [rdy EXCEPT ![i] = FALSE]
  /\ has' = [has EXCEPT ![i] = {}]
  /\ due' = [due EXCEPT ![i] = [a \in Alerts |-> NONE]]
  /\ pend' = [pend EXCEPT ![i] = [a \in Alerts |-> Idle]]
  /\ net' = {m \in net : m.to # i}
  /\ UNCHANGED <<now, upAt, nfl, sv, mt, rlv>>

\* clean stop: the maintenance goroutines write a last snapshot
Stop(i) ==
  /\ life[i] = "up" /\ cnt.stop < Lim.stop
  /\ Down(i)
  /\ IF "stopsnap" \in Off THEN UNCHANGED <<snapN, snapS>>
     ELSE /\ snapN' = [snapN EXCEPT ![i] = nfl[i]]
          /\ snapS' = [snapS EXCEPT ![i] = sv[i]]
  /\ cnt' = [cnt EXCEPT !.stop = @ + 1]
  /\ last' = [op |-> "stop", i |-> i]
  /\ BkDown(i, {a \in Alerts : told[i][a].t # NONE}, {a \in Alerts : owe[i][a].lvl # 0})

\* kill: the data directory keeps the last periodic snapshot
Kill(i) ==
  /\ life[i] = "up" /\ cnt.kill < Lim.kill
  /\ Down(i)
  /\ cnt' = [cnt EXCEPT !.kill = @ + 1]
  /\ last' = [op |-> "kill", i |-> i]
  /\ BkDown(i, {a \in Alerts : told[i][a].t # NONE /\ snapN[i][a][told[i][a].c] >= told[i][a].t},
               {a \in Alerts : owe[i][a].lvl # 0 /\ snapS[i][a] = 1})
  /\ UNCHANGED <<snapN, snapS>>

\* POST /api/v2/alerts to the instances of T (one instance, or all that run)
Post(T, a) ==
  /\ T # {} /\ T \subseteq Up /\ cnt.post < Lim.post
  /\ \E i \in T : a \notin has[i]
  /\ has' = [i \in Inst |-> IF i \in T THEN has[i] \cup {a} ELSE has[i]]
  /\ due' = [i \in Inst |-> IF i \in T /\ a \notin has[i] /\ cfg[i] # "none" THEN [due[i] EXCEPT ![a] = now + GW] ELSE due[i]]
  /\ cnt' = [cnt EXCEPT !.post = @ + 1]
  /\ last' = [op |-> "post", to |-> T, a |-> a]
  /\ BkPost(\A i \in Inst : life[i] = "up" /\ rdy[i])
  /\ UNCHANGED <<now, life, upAt, rdy, sv, pend, nfl, snapN, snapS, mt, net, rlv>>

Gossip(i, k, a, c, v) == \E d \in 0 .. MaxDelay :
  net' = net \cup {[to |-> j, k |-> k, a |-> a, c |-> c, v |-> v, by |-> now + d] : j \in Up \ {i}}

\* POST /api/v2/silences on i with a matcher for alert a
Silence(i, a) ==
  /\ life[i] = "up" /\ sv[i][a] = 0 /\ cnt.sil < Lim.sil
  /\ sv' = [sv EXCEPT ![i][a] = 1]
  /\ Gossip(i, "s", a, "-", 1)
  /\ cnt' = [cnt EXCEPT !.sil = @ + 1]
  /\ last' = [op |-> "silence", i |-> i, a |-> a]
  /\ BkAck(i, a, now)
  /\ UNCHANGED <<now, life, upAt, rdy, has, due, pend, nfl, snapN, snapS, mt, rlv>>

\* DELETE /api/v2/silence/{id}
Expire(i, a) ==
  /\ life[i] = "up" /\ sv[i][a] = 1 /\ cnt.exp < Lim.exp
  /\ sv' = [sv EXCEPT ![i][a] = 2]
  /\ Gossip(i, "s", a, "-", 2)
  /\ cnt' = [cnt EXCEPT !.exp = @ + 1]
  /\ last' = [op |-> "expire", i |-> i, a |-> a]
  /\ BkExpire(a)
  /\ UNCHANGED <<now, life, upAt, rdy, has, due, pend, nfl, snapN, snapS, mt, rlv>>

\* the configuration file is rewritten with configuration c of the given kind and a reload is requested
Restarted(i) ==   \* a new dispatcher: flushes in flight are cancelled, the groups are built again from the alerts
  /\ pend' = [pend EXCEPT ![i] = [a \in Alerts |-> Idle]]
  /\ due' = [due EXCEPT ![i] = [a \in Alerts |-> IF a \in has[i] THEN now ELSE NONE]]
\* ov: GET /api/v2/status requests overlap the reload request (they read, the state is the same)
Reload(i, c, kind, ov) ==
  /\ life[i] = "up" /\ cnt.rl < Lim.rl
  /\ file' = [file EXCEPT ![i] = [c |-> c, kind |-> kind]]
  /\ cnt' = [cnt EXCEPT !.rl = @ + 1]
  /\ last' = [op |-> "reload", i |-> i, c |-> c, kind |-> kind, ov |-> ov]
  /\ CASE kind = "good" ->
            /\ cfg' = [cfg EXCEPT ![i] = c] /\ api' = [api EXCEPT ![i] = c]
            /\ Restarted(i)
       [] kind = "badapply" /\ RL = "stopfirst" ->
            /\ cfg' = [cfg EXCEPT ![i] = "none"] /\ UNCHANGED api
            /\ pend' = [pend EXCEPT ![i] = [a \in Alerts |-> Idle]]
            /\ due' = [due EXCEPT ![i] = [a \in Alerts |-> NONE]]
       [] kind = "badapply" /\ RL = "apifirst" ->
            /\ api' = [api EXCEPT ![i] = c] /\ UNCHANGED <<cfg, pend, due>>
       [] OTHER -> UNCHANGED <<cfg, api, pend, due>>
  /\ BkReload(i, c, kind = "good", now)
  /\ UNCHANGED <<now, life, upAt, rdy, has, sv, nfl, snapN, snapS, mt, net>>

\* ---- the program ---------------------------------------------------------
Ready(i) ==
  /\ life[i] = "up" /\ ~rdy[i] /\ upAt[i] + ST <= now /\ "settle" \notin Off
  /\ rdy' = [rdy EXCEPT ![i] = TRUE]
  /\ last' = [op |-> "ready", i |-> i]
  /\ BkSame
  /\ UNCHANGED <<now, life, upAt, has, sv, due, pend, nfl, snapN, snapS, mt, net, cnt, rlv>>

\* the wait stage is entered (the silence stage has passed): position x peer timeout from now
Enter(i, a) == IF sv[i][a] = 1 THEN Idle ELSE [pend[i][a] EXCEPT !.st = "wait", !.at = now + PosOf(life, i) * PT]

\* the group's timer fires: dispatcher deadline from the position now, timer re-armed
FlushStart(i, a) ==
  /\ life[i] = "up" /\ cfg[i] # "none" /\ a \in has[i] /\ due[i][a] # NONE /\ due[i][a] <= now /\ pend[i][a].st = "idle"
  /\ LET f == [st |-> "settle", dl |-> now + Timeout(GI, PosOf(life, i) * PT), at |-> NONE, tick |-> due[i][a]]
     IN pend' = [pend EXCEPT ![i][a] =
                   IF ~rdy[i] THEN f
                   ELSE IF sv[i][a] = 1 THEN Idle
                   ELSE [f EXCEPT !.st = "wait", !.at = now + PosOf(life, i) * PT]]
  /\ due' = [due EXCEPT ![i][a] = now + GI]
  /\ last' = [op |-> "flush", i |-> i, a |-> a]
  /\ BkSame
  /\ UNCHANGED <<now, life, upAt, rdy, has, sv, nfl, snapN, snapS, mt, net, cnt, rlv>>

SettleDone(i, a) ==
  /\ life[i] = "up" /\ pend[i][a].st = "settle" /\ rdy[i]
  /\ pend' = [pend EXCEPT ![i][a] = Enter(i, a)]
  /\ last' = [op |-> "settled", i |-> i, a |-> a]
  /\ BkSame
  /\ UNCHANGED <<now, life, upAt, rdy, has, sv, due, nfl, snapN, snapS, mt, net, cnt, rlv>>

\* the wait is over within the deadline: Dedup; notify iff the log has no entry younger than repeat_interval
Dedup(i, a) ==
  /\ life[i] = "up" /\ cfg[i] # "none" /\ pend[i][a].st = "wait" /\ pend[i][a].at <= now /\ pend[i][a].at <= pend[i][a].dl
  /\ pend' = [pend EXCEPT ![i][a] = Idle]
  /\ IF nfl[i][a][cfg[i]] = NONE \/ nfl[i][a][cfg[i]] < pend[i][a].tick - RI
       THEN /\ nfl' = [nfl EXCEPT ![i][a][cfg[i]] = now]
            /\ IF "nflgossip" \in Off THEN UNCHANGED net ELSE Gossip(i, "n", a, cfg[i], now)
            /\ BkSend(i, a, cfg[i], now, P)
            /\ last' = [op |-> "dedup", i |-> i, a |-> a, sends |-> TRUE]
       ELSE /\ UNCHANGED <<nfl, net>> /\ BkSame
            /\ last' = [op |-> "dedup", i |-> i, a |-> a, sends |-> FALSE]
  /\ UNCHANGED <<now, life, upAt, rdy, has, sv, due, snapN, snapS, mt, cnt, rlv>>

\* the dispatcher deadline passes while the flush waits (settle stage or cluster wait)
FlushTimeout(i, a) ==
  /\ life[i] = "up" /\ pend[i][a].st \in {"settle", "wait"} /\ pend[i][a].dl <= now
  /\ (pend[i][a].st = "settle" \/ pend[i][a].at >= pend[i][a].dl)
  /\ pend' = [pend EXCEPT ![i][a] = Idle]
  /\ last' = [op |-> "timeout", i |-> i, a |-> a]
  /\ BkSame
  /\ UNCHANGED <<now, life, upAt, rdy, has, sv, due, nfl, snapN, snapS, mt, net, cnt, rlv>>

Maintain(i) ==
  /\ life[i] = "up" /\ mt[i] <= now
  /\ snapN' = [snapN EXCEPT ![i] = nfl[i]]
  /\ snapS' = [snapS EXCEPT ![i] = sv[i]]
  /\ mt' = [mt EXCEPT ![i] = now + Maint]
  /\ last' = [op |-> "maintain", i |-> i]
  /\ BkSame
  /\ UNCHANGED <<now, life, upAt, rdy, has, sv, due, pend, nfl, net, cnt, rlv>>

Deliver(m) ==
  /\ m \in net
  /\ net' = net \ {m}
  /\ IF life[m.to] = "up" /\ m.k = "n" /\ nfl[m.to][m.a][m.c] < m.v
       THEN nfl' = [nfl EXCEPT ![m.to][m.a][m.c] = m.v] ELSE UNCHANGED nfl
  /\ IF life[m.to] = "up" /\ m.k = "s" /\ sv[m.to][m.a] < m.v
       THEN sv' = [sv EXCEPT ![m.to][m.a] = m.v] ELSE UNCHANGED sv
  /\ last' = [op |-> "deliver", to |-> m.to, k |-> m.k, a |-> m.a]
  /\ BkSame
  /\ UNCHANGED <<now, life, upAt, rdy, has, due, pend, snapN, snapS, mt, cnt, rlv>>

PushPull(x, y) ==
  /\ x < y /\ life[x] = "up" /\ life[y] = "up" /\ (nfl[x] # nfl[y] \/ sv[x] # sv[y])
  /\ LET mN == [a \in Alerts |-> [c \in Cfgs |-> Max(nfl[x][a][c], nfl[y][a][c])]]
         mS == [a \in Alerts |-> Max(sv[x][a], sv[y][a])]
     IN /\ nfl' = [nfl EXCEPT ![x] = mN, ![y] = mN]
        /\ sv' = [sv EXCEPT ![x] = mS, ![y] = mS]
  /\ last' = [op |-> "pushpull", x |-> x, y |-> y]
  /\ BkSame
  /\ UNCHANGED <<now, life, upAt, rdy, has, due, pend, snapN, snapS, mt, net, cnt, rlv>>

\* ---- time ----------------------------------------------------------------
Instants ==
  UNION {{due[i][a] : a \in {b \in has[i] : due[i][b] # NONE /\ pend[i][b].st = "idle"}} : i \in Up}
  \cup UNION {{pend[i][a].dl : a \in {b \in Alerts : pend[i][b].st # "idle"}} : i \in Up}
  \cup UNION {{pend[i][a].at : a \in {b \in Alerts : pend[i][b].st = "wait"}} : i \in Up}
  \cup {upAt[i] + ST : i \in {j \in Up : ~rdy[j] /\ "settle" \notin Off}}
  \cup {mt[i] : i \in Up}
  \cup {m.by : m \in net}
Urgent == \/ \E x \in Instants : x <= now
          \/ \E i \in Up, a \in Alerts : pend[i][a].st = "settle" /\ rdy[i]
Tick ==
  /\ ~Urgent /\ now < MaxTime
  /\ now' = SetMin({x \in Instants : x > now} \cup {now + Quantum, MaxTime})
  /\ last' = [op |-> "tick"]
  /\ BkSame
  /\ UNCHANGED <<life, upAt, rdy, has, sv, due, pend, nfl, snapN, snapS, mt, net, cnt, rlv>>

\* the environment acts between the program's instants (what is due at an instant happens first)
Env ==
  \/ \E i \in Inst : Start(i) \/ Stop(i) \/ Kill(i)
  \/ \E a \in Alerts : Post(Up, a) \/ \E i \in Up : Post({i}, a)
  \/ \E i \in Inst, a \in Alerts : Silence(i, a) \/ Expire(i, a)
  \/ \E i \in Inst, c \in Cfgs, kind \in {"good", "badload", "badapply"} : Reload(i, c, kind, FALSE)
Step ==
  \/ (~Urgent /\ Env)
  \/ \E i \in Inst : Ready(i) \/ Maintain(i)
  \/ \E i \in Inst, a \in Alerts : FlushStart(i, a) \/ SettleDone(i, a) \/ Dedup(i, a) \/ FlushTimeout(i, a)
  \/ \E m \in net : Deliver(m)
  \/ \E x, y \in Inst : PushPull(x, y)
  \/ Tick

\* every step re-derives the observed position and the eligibility clock
Shown(i, c) == IF life'[i] = "up" /\ has'[i] # {} /\ c # "none" THEN c ELSE "-"
Observe == /\ pos' = [i \in Inst |-> PosOf(life', i)]
           /\ rcv' = [i \in Inst |-> Shown(i, api'[i])]
           /\ grp' = [i \in Inst |-> Shown(i, cfg'[i])]
           /\ Clock(now')
Next == Step /\ Observe
Spec == Init /\ [][Next]_vars

-----------------------------------------------------------------------------
(* Properties over the observable state, for a parameter record p          *)

\* generous: settle, group_wait, three full flush cycles at the instance's position, its wait once more
Bound(p, k) == p.st + p.gw + 3 * (Max(p.gi, p.mint) + k * p.pt) + k * p.pt + p.slack

\* C08 / C01: an instance that has the alert, unsilenced, up and ready at one position for
\* longer than the bound => the alert has been notified (by whichever instance)
AtLeastOnceP(p) ==
  \A i \in Inst, a \in Alerts :
    (since[i][a] # NONE /\ now - since[i][a] > Bound(p, pos[i]))
      => \E k \in 1 .. Len(sent) : sent[k].a = a /\ sent[k].c = inforce[i]

\* C08: healthy cluster => the same group state is not delivered twice within repeat_interval.
\* Deliveries closer than dupmin[a] are the race the peer timeout exists for (the first delivery
\* may still be in flight, its log entry on the way); no verdict when that is not below the peer timeout
\* Two deliveries of one group state by different instances.  The later instance can only know of
\* the earlier delivery once that delivery has COMPLETED (the log is written after success) and the
\* entry has been gossiped: a pair closer than p.dupmin is the race the peer timeout cannot close.  The
\* group timers of the instances are not aligned: in a REPEAT round (the pair's first delivery is not
\* the first one of that state) the later-positioned instance may have started its wait before the
\* earlier-positioned one was due at all, so its head start is shorter than the peer timeout; there the
\* delivery time in flight (p.inflight) is added to the threshold.
FirstOfState(k) == ~\E j \in 1 .. k - 1 : sent[j].a = sent[k].a /\ sent[j].c = sent[k].c
DupMinAt(p, pr) == p.dupmin[sent[pr[2]].a] + (IF FirstOfState(pr[1]) THEN 0 ELSE p.inflight)
DupPairs(p) == {pr \in (1 .. Len(sent)) \X (1 .. Len(sent)) :
                  /\ pr[1] < pr[2] /\ sent[pr[1]].a = sent[pr[2]].a /\ sent[pr[1]].c = sent[pr[2]].c
                  /\ p.dupmin[sent[pr[2]].a] < p.pt
                  /\ sent[pr[2]].t - sent[pr[1]].t > DupMinAt(p, pr) /\ sent[pr[2]].t - sent[pr[1]].t <= p.dupmax}
NoDuplicateP(p) == (healthy /\ Cardinality(Inst) > 1) => DupPairs(p) = {}

\* C11: a silence acknowledged before a restart whose snapshot had to hold it keeps muting
SilenceSurvivesP ==
  /\ \A i \in Inst, a \in Alerts : (life[i] = "up" /\ owe[i][a].lvl = 2) => sv[i][a] \in {1, 3}
  /\ \A k \in 1 .. Len(sent) : sent[k].owe # 2

\* C11: a notification the data directory had to remember is not sent again after the restart
NoRepeatP == \A k \in 1 .. Len(sent) : ~sent[k].rep

\* C08: an instance is ready (its flushes pass the settle stage) once the settle time is over
ReadyP(p) == \A i \in Inst : (life[i] = "up" /\ now - upAt[i] > p.st + p.rslack) => rdy[i]

\* C17: every notification goes to the receiver of the configuration that has to be in force - the
\* start's or the last ACCEPTED reload's: a refused reload changes nothing, an accepted one takes effect
\* (together with AtLeastOnceP, whose obligation is a delivery to that receiver)
RoutedByConfigInForceP == \A k \in 1 .. Len(sent) : sent[k].ok

\* C17: the status API shows the configuration in force ("-": not observed yet)
StatusShowsConfigInForceP == \A i \in Inst : life[i] = "up" => api[i] \in {inforce[i], "-"}

\* C07: the receivers the API shows for the alerts and the dispatcher's groups agree
ReceiversAgreeP == \A i \in Inst : (life[i] = "up" /\ rcv[i] # "-" /\ grp[i] \notin {"-", "!"}) => rcv[i] = grp[i]   \* "!": not answered

AtLeastOnce == AtLeastOnceP(P)
RoutedByConfigInForce == RoutedByConfigInForceP
StatusShowsConfigInForce == StatusShowsConfigInForceP
ReceiversAgree == ReceiversAgreeP
NoDuplicateWhenHealthy == NoDuplicateP(P)
SilenceSurvivesRestart == SilenceSurvivesP
NoRepeatAfterRestart == NoRepeatP
ReadyEventually == ReadyP(P)

Sane == /\ \A i \in Inst : life[i] # "up" => (has[i] = {} /\ ~rdy[i])
        /\ \A i \in Inst, a \in Alerts : pend[i][a].st # "idle" => a \in has[i]
=============================================================================
