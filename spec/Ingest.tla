------------------------------- MODULE Ingest --------------------------------
(***************************************************************************)
(* Coarse view of Dispatch.tla used to drive the real dispatcher (C14):    *)
(* each update of one alert is taken from the subscription channel by some *)
(* ingestion worker (Recv), handed to the group later (Proc = routeAlert   *)
(* as a whole: Load .. Store of Dispatch.tla), and groups flush (Flush).   *)
(* The only scheduling freedom kept is the one the property is about: the  *)
(* order in which workers that hold different versions get to run.         *)
(***************************************************************************)
EXTENDS Integers, FiniteSets, Sequences, TLC

CONSTANTS NVersions, Resolved, MaxHeld,   \* MaxHeld: number of ingestion workers
          MonotonicSet

VARIABLES next,    \* next version to be submitted / received
          held,    \* versions received by a worker and not yet handed to the group
          gver,    \* version held by the live group of the alert (0: no live group holds it)
          old,     \* [epoch, prov, se]: number of flush periods so far; the provider's merged copy
                   \* [firing, se]; start epoch of each held version (provider.Put keeps the earliest
                   \* start of overlapping submissions, and a group created for an alert that started
                   \* more than group_wait ago flushes at once)
          hist

vars == <<next, held, gver, old, hist>>

Init == next = 1 /\ held = {} /\ gver = 0 /\ hist = << >>
        /\ old = [epoch |-> 0, prov |-> [firing |-> FALSE, se |-> 0], se |-> << >>]

Recv == /\ next <= NVersions /\ Cardinality(held) < MaxHeld
        /\ held' = held \cup {next} /\ next' = next + 1
        /\ hist' = Append(hist, [a |-> "recv", v |-> next, gver |-> gver])
        /\ LET se == IF old.prov.firing THEN old.prov.se ELSE old.epoch     \* overlap with a firing copy: earliest start kept
           IN old' = [epoch |-> old.epoch, prov |-> [firing |-> next \notin Resolved, se |-> se],
                      se |-> [x \in DOMAIN old.se \cup {next} |-> IF x = next THEN se ELSE old.se[x]]]
        /\ UNCHANGED gver

Proc(v) == /\ v \in held
           /\ held' = held \ {v}
           /\ old' = old
           \* a group created for an alert older than group_wait flushes at once
           /\ gver' = IF gver = 0 /\ old.se[v] < old.epoch /\ v \in Resolved THEN 0
                      ELSE IF MonotonicSet /\ gver > v THEN gver ELSE v
           /\ hist' = Append(hist, [a |-> "proc", v |-> v, gver |-> gver'])
           /\ UNCHANGED next

\* every live group flushes: a resolved, unmodified alert is removed and its group destroyed
Flush == /\ gver' = IF gver \in Resolved THEN 0 ELSE gver
         /\ old' = [old EXCEPT !.epoch = @ + 1]
         /\ hist' = Append(hist, [a |-> "flush", v |-> 0, gver |-> gver'])
         /\ UNCHANGED <<next, held>>

Next == Recv \/ (\E v \in held : Proc(v)) \/ Flush
Spec == Init /\ [][Next]_vars

Quiescent == next > NVersions /\ held = {}
\* C14: the group holds the most recently submitted version (or, if that one is
\* resolved, it may have been notified and removed)
LatestWins == Quiescent => (gver = NVersions \/ (NVersions \in Resolved /\ gver = 0))
\* a schedule that hands the versions to the group in submission order
InOrder == \A i, j \in 1..Len(hist) : (i < j /\ hist[i].a = "proc" /\ hist[j].a = "proc") => hist[i].v < hist[j].v
=============================================================================
