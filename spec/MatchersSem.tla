---------------------------- MODULE MatchersSem ----------------------------
(***************************************************************************)
(* Match semantics of C16 with an executable regular-expression fragment.  *)
(*                                                                         *)
(* Statement: "a matcher list matches a label set exactly when every       *)
(* matcher holds for the label's value with a missing label read as the    *)
(* empty string, '=' / '!=' comparing whole strings and '=~' / '!~'        *)
(* testing a fully anchored regular expression".                           *)
(*                                                                         *)
(* Labels.tla states the languages of seven patterns by hand over four     *)
(* single-line values.  Here a pattern is its source text (a sequence of   *)
(* characters), parsed by a recursive-descent parser into a syntax tree    *)
(* whose meaning is defined over character sequences, so that values with  *)
(* a line feed are decided by the specification and not by a table:        *)
(*                                                                         *)
(*   .        one character that is NOT the line feed (Go regexp / RE2     *)
(*            without the s flag; labels.NewMatcher never sets it)         *)
(*   (?s)     as a prefix of the whole pattern: '.' is any character       *)
(*   ^  $     begin / end of the TEXT only (no m flag: '$' does not match  *)
(*            before a final line feed)                                    *)
(*   \n       the line feed; \. \\ \$ ... the escaped character; a raw     *)
(*            line feed in the source is a literal like any other          *)
(*   x* x+ x? (x) (?:x) x|y  concatenation, literals                       *)
(*                                                                         *)
(* "fully anchored" = ^(?:src)$ = the tree matches the WHOLE value.        *)
(*                                                                         *)
(* Outside the fragment (Parse fails, checked by ASSUME for the universe): *)
(* character classes, counted repetition, non-greedy and nested            *)
(* repetition, flags other than a leading (?s), escapes of letters other   *)
(* than \n.  The harness cross-checks every (pattern, value) pair of the   *)
(* universe against Go's regexp.MustCompile("^(?:" + src + ")$").          *)
(***************************************************************************)
EXTENDS Integers, Sequences, FiniteSets, TLC

LF == "\n"

-----------------------------------------------------------------------------
(* Syntax trees                                                            *)
Eps     == [k |-> "eps"]
Lit(c)  == [k |-> "lit", c |-> c]
Dot     == [k |-> "dot"]          \* any character but the line feed
AnyCh     == [k |-> "any"]          \* any character ('.' under (?s))
Bol     == [k |-> "bol"]          \* ^ : begin of text
Eol     == [k |-> "eol"]          \* $ : end of text
Cat(a, b) == [k |-> "cat", a |-> a, b |-> b]
Alt(a, b) == [k |-> "alt", a |-> a, b |-> b]
Star(a) == [k |-> "star", a |-> a]
Plus(a) == [k |-> "plus", a |-> a]
Opt(a)  == [k |-> "opt", a |-> a]

ChAt(q, i) == IF i >= 1 /\ i <= Len(q) THEN q[i] ELSE "EOF"

-----------------------------------------------------------------------------
(* Parser: source text (sequence of characters) -> tree.  A result is      *)
(* [ok, r, e]: success, tree, index after the parsed part.                 *)
PFail     == [ok |-> FALSE, r |-> Eps, e |-> 0]
POk(r, e) == [ok |-> TRUE, r |-> r, e |-> e]

RepOps  == {"*", "+", "?"}
EscSelf == {".", "\\", "$", "^", "*", "+", "?", "(", ")", "|"}

\* one postfix operator after the atom a (a successful result)
PPost(q, a) ==
  LET c == ChAt(q, a.e)
  IN IF c \notin RepOps THEN a
     ELSE IF ChAt(q, a.e + 1) \in RepOps \/ a.r.k \in {"bol", "eol"} THEN PFail
     ELSE POk(CASE c = "*" -> Star(a.r) [] c = "+" -> Plus(a.r) [] c = "?" -> Opt(a.r), a.e + 1)

RECURSIVE PAlt(_, _, _), PCat(_, _, _), PAtom(_, _, _)

\* ds: the s flag (dot matches the line feed)
PAtom(q, i, ds) ==
  LET c == ChAt(q, i)
  IN CASE c = "."  -> POk(IF ds THEN AnyCh ELSE Dot, i + 1)
       [] c = "^"  -> POk(Bol, i + 1)
       [] c = "$"  -> POk(Eol, i + 1)
       [] c = "("  -> LET j == IF ChAt(q, i + 1) # "?" THEN i + 1
                               ELSE IF ChAt(q, i + 2) = ":" THEN i + 3 ELSE 0
                      IN IF j = 0 THEN PFail
                         ELSE LET g == PAlt(q, j, ds)
                              IN IF g.ok /\ ChAt(q, g.e) = ")" THEN POk(g.r, g.e + 1) ELSE PFail
       [] c = "\\" -> LET x == ChAt(q, i + 1)
                      IN IF x = "n" THEN POk(Lit(LF), i + 2)
                         ELSE IF x \in EscSelf THEN POk(Lit(x), i + 2)
                         ELSE PFail
       [] c \in {"EOF", ")", "|", "*", "+", "?", "{", "}", "[", "]"} -> PFail
       [] OTHER    -> POk(Lit(c), i + 1)

PCat(q, i, ds) ==
  IF ChAt(q, i) \in {"EOF", "|", ")"} THEN POk(Eps, i)
  ELSE LET a0 == PAtom(q, i, ds)
       IN IF ~a0.ok THEN PFail
          ELSE LET a == PPost(q, a0)
               IN IF ~a.ok THEN PFail
                  ELSE LET b == PCat(q, a.e, ds)
                       IN IF ~b.ok THEN PFail
                          ELSE POk(IF b.r = Eps THEN a.r ELSE Cat(a.r, b.r), b.e)

PAlt(q, i, ds) ==
  LET a == PCat(q, i, ds)
  IN IF ~a.ok THEN PFail
     ELSE IF ChAt(q, a.e) # "|" THEN a
     ELSE LET b == PAlt(q, a.e + 1, ds)
          IN IF b.ok THEN POk(Alt(a.r, b.r), b.e) ELSE PFail

DotAllPrefix(q) == Len(q) >= 4 /\ SubSeq(q, 1, 4) = <<"(", "?", "s", ")">>

Parse(q) == LET ds == DotAllPrefix(q)
                r  == PAlt(q, IF ds THEN 5 ELSE 1, ds)
            IN IF r.ok /\ r.e = Len(q) + 1 THEN r ELSE PFail

-----------------------------------------------------------------------------
(* Meaning: Ends(r, v, i) = the positions j such that r matches v[i .. j). *)
RECURSIVE Ends(_, _, _), Closure(_, _, _, _)

Ends(r, v, i) ==
  CASE r.k = "eps"  -> {i}
    [] r.k = "lit"  -> IF i <= Len(v) /\ v[i] = r.c THEN {i + 1} ELSE {}
    [] r.k = "dot"  -> IF i <= Len(v) /\ v[i] # LF THEN {i + 1} ELSE {}
    [] r.k = "any"  -> IF i <= Len(v) THEN {i + 1} ELSE {}
    [] r.k = "bol"  -> IF i = 1 THEN {i} ELSE {}
    [] r.k = "eol"  -> IF i = Len(v) + 1 THEN {i} ELSE {}
    [] r.k = "cat"  -> UNION {Ends(r.b, v, j) : j \in Ends(r.a, v, i)}
    [] r.k = "alt"  -> Ends(r.a, v, i) \cup Ends(r.b, v, i)
    [] r.k = "opt"  -> {i} \cup Ends(r.a, v, i)
    [] r.k = "star" -> Closure(r.a, v, {i}, Len(v) + 1)
    [] r.k = "plus" -> Closure(r.a, v, Ends(r.a, v, i), Len(v) + 1)

\* the positions reachable from S by repeating a
Closure(a, v, S, fuel) ==
  LET T == S \cup UNION {Ends(a, v, j) : j \in S}
  IN IF T = S \/ fuel = 0 THEN T ELSE Closure(a, v, T, fuel - 1)

\* the fully anchored test ^(?:src)$ on the value v (both character sequences)
Full(src, v) == LET r == Parse(src) IN r.ok /\ (Len(v) + 1) \in Ends(r.r, v, 1)

-----------------------------------------------------------------------------
(* The universe: values and patterns as character sequences; matchers and  *)
(* label sets carry them as strings (what the real code is given).         *)
RECURSIVE Str(_)
Str(q) == IF q = << >> THEN "" ELSE Head(q) \o Str(Tail(q))

ValSeqs == { << >>, <<"x">>, <<"y">>, <<"x", "y">>,                       \* single-line (Labels!Values)
             <<LF>>, <<"x", LF, "y">>, <<"x", LF>>, <<LF, "y">> }         \* with a line feed: alone, embedded, trailing, leading

OldPatSeqs == { <<"x", "|", "y">>, <<".", "*">>, <<".", "+">>, <<"x", ".", "*">>, <<"x">>, <<"y", "?">>, << >> }   \* Labels!Lang
PatSeqs == OldPatSeqs \cup
           { <<".">>, <<"x", ".", "y">>, <<".", "*", "y">>,                \* the dot next to a line feed
             <<"(", "?", "s", ")", ".", "+">>, <<"(", "?", "s", ")", ".", "*">>,   \* dot-all spelled out
             <<"^", "x", "$">>, <<"x", "$">>,                              \* text anchors and a trailing line feed
             <<"x", LF, "y">>, <<"x", "\\", "n", "y">>,                    \* the line feed as a literal: raw, escaped
             <<"(", ".", "|", "\\", "n", ")", "*">>,                       \* the idiom for "anything, line feeds included"
             <<".", "+", "|", "x", LF>> }                                  \* alternation inside the anchoring group

Values  == {Str(q) : q \in ValSeqs}
Pats    == {Str(q) : q \in PatSeqs}
OldPats == {Str(q) : q \in OldPatSeqs}

ASSUME Cardinality(Values) = Cardinality(ValSeqs) /\ Cardinality(Pats) = Cardinality(PatSeqs)
ASSUME \A q \in PatSeqs : Parse(q).ok

ValSeq(s) == CHOOSE q \in ValSeqs : Str(q) = s
PatSeq(s) == CHOOSE q \in PatSeqs : Str(q) = s

\* the language of every pattern of the universe, restricted to Values (evaluated once)
LangTab == [p \in Pats |-> {s \in Values : Full(PatSeq(p), ValSeq(s))}]
Lang(p) == LangTab[p]
\* what the same pattern would accept if '.' also matched the line feed (to measure what the cases decide)
DotAllSeq(q) == IF DotAllPrefix(q) THEN q ELSE <<"(", "?", "s", ")">> \o q
DotAllTab == [p \in Pats |-> {s \in Values : Full(DotAllSeq(PatSeq(p)), ValSeq(s))}]

-----------------------------------------------------------------------------
(* Matchers, label sets (as in Labels.tla)                                 *)
Eq(n, v)  == [n |-> n, op |-> "=",  v |-> v]
Ne(n, v)  == [n |-> n, op |-> "!=", v |-> v]
Re(n, v)  == [n |-> n, op |-> "=~", v |-> v]
Nre(n, v) == [n |-> n, op |-> "!~", v |-> v]

ValueOf(ls, n) == IF n \in DOMAIN ls THEN ls[n] ELSE ""      \* a missing label reads as ""

Matches(m, ls) ==
  LET val == ValueOf(ls, m.n)
  IN CASE m.op = "="  -> val = m.v
       [] m.op = "!=" -> val # m.v
       [] m.op = "=~" -> val \in Lang(m.v)
       [] m.op = "!~" -> val \notin Lang(m.v)

MatchesAll(ml, ls) == \A i \in 1 .. Len(ml) : Matches(ml[i], ls)              \* a list: AND
MatchesAny(ms, ls) == \E i \in 1 .. Len(ms) : MatchesAll(ms[i], ls)           \* a set of lists: OR
=============================================================================
