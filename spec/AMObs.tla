-------------------------------- MODULE AMObs --------------------------------
(***************************************************************************)
(* Observer layer for one Alertmanager instance (DESIGN.md 3.3): the       *)
(* properties C01, C02, C03, C04, C05, C06, C14, C20 as monitors over the  *)
(* environment inputs (alert versions handed to the dispatcher, silence    *)
(* API calls, the receiver script, the clock) and the outputs (flushes,    *)
(* delivery attempts with payload and outcome, notification-log writes).   *)
(* Suppression and eligibility are recomputed from the inputs with the     *)
(* reference definitions; nothing is read from the code's markers/caches.  *)
(*                                                                         *)
(* Every action takes the observed event as parameter, updates the monitor *)
(* state and sets chk to the names of the clauses the event violates; the  *)
(* trace specification (spec/mc/Trace_AM.tla) feeds recorded events, the   *)
(* design model (spec/AMDesign.tla) feeds the events it generates itself.  *)
(* Time is in milliseconds.                                                *)
(***************************************************************************)
EXTENDS Integers, FiniteSets, Sequences, TLC

CONSTANTS MinTimeout,    \* notify.MinTimeout: a flush gets at least this long (10 s)
          RetrySlack,    \* one maximal retry back-off (1.5 x 60 s)
          SchedSlack,    \* scheduling slack of the C01 bound
          GapBound(_),   \* upper bound of the retry gap after the k-th failed attempt
          RepeatLag      \* a delivery is recorded by the observer when it completes; the log entry is written this much later at most

\* the alert universe of the scenarios (mirrored in harness/e2e)
Alerts == {"A1", "A2", "A3", "A4"}
Lbl == [ A1 |-> [alertname |-> "X", g |-> "1", sev |-> "warn", a |-> "x"],
         A2 |-> [alertname |-> "X", g |-> "1", sev |-> "warn", a |-> "y"],
         A3 |-> [alertname |-> "Y", g |-> "2", sev |-> "warn", a |-> "x"],
         A4 |-> [alertname |-> "S", g |-> "1", sev |-> "crit", a |-> ""] ]
\* silence matcher library: does matcher set ms match alert a (missing label = "")
SilMatches(ms, a) ==
  CASE ms = "S1" -> Lbl[a].a = "x"
    [] ms = "S2" -> Lbl[a].alertname \in {"X", "Y"}
    [] ms = "S3" -> Lbl[a].g = "2"
    [] ms = "S4" -> Lbl[a].sev # "crit" /\ Lbl[a].a = "y"
\* route matcher library (the child routes of the scenarios select with one of these)
Sel(s, a) ==
  CASE s = "ALL"  -> TRUE                  \* alertname=~".+"
    [] s = "G1"   -> Lbl[a].g = "1"
    [] s = "G2"   -> Lbl[a].g = "2"
    [] s = "CRIT" -> Lbl[a].sev = "crit"
    [] s = "AX"   -> Lbl[a].a = "x"
    [] s = "NOA"  -> Lbl[a].a = ""         \* a="" also holds for a missing label

VARIABLES now,
          cfg,     \* [gw, gi, ri, sr (sequence of BOOLEAN), inhibit, windows (sequence)]
          ver,     \* alert -> latest version handed to the dispatcher [start, end, upd]
          sil,     \* sequence of silences [ms, start, end] in creation order
          last,    \* <<gk, integ>> -> last successful notification [t, firing, resolved]
          brk,     \* <<gk, integ>> -> the group had a moment without firing unsuppressed alert since `last`
          fl,      \* aggregation group id -> its flush in progress [gk, t, alerts, muted, inhibited, att, ...]
          cancd,   \* [seen, dead, deadgk]: group ids seen; ids of groups of a stopped dispatcher; their group keys
          elig,    \* <<alert, integ>> -> instant since which it is continuously eligible, or -1
          chk      \* names of the property clauses violated by the last event

ovars == <<now, cfg, ver, sil, last, brk, fl, cancd, elig, chk>>

Put(f, k, v) == [x \in DOMAIN f \cup {k} |-> IF x = k THEN v ELSE f[x]]
Drop(f, K)   == [x \in DOMAIN f \ K |-> f[x]]
Max2(a, b) == IF a > b THEN a ELSE b
Min2(a, b) == IF a < b THEN a ELSE b
SeqToSet(s) == {s[i] : i \in 1..Len(s)}

(* Routing (C07 in small): the root route cfg.root and the other routes cfg.routes, listed  *)
(* in configuration order (pre-order), each [parent (0 = root), rk (route key), sel, cont,  *)
(* recv, gby, gw, gi, ri, mute, active].  A route whose matchers hold hands the alert to    *)
(* its children in order, stopping after the first child that matches unless that child has *)
(* continue set, and is itself chosen only if no child matched.  Receiver, group_by and the *)
(* timers are inherited from the parent unless set (recv / gby "" and timers -1 = not set); *)
(* mute and active intervals are the route's own.  One aggregation group per chosen route   *)
(* and value of its group labels.                                                          *)
\* (everything below is derived once per configuration, Derive(c), and looked up from cfg.drv)
RECURSIVE RtC(_, _)
RtC(c, j) == IF j = 0 THEN c.root
            ELSE LET r == c.routes[j]
                     p == RtC(c, r.parent)
                 IN [r EXCEPT !.recv = IF r.recv = "" THEN p.recv ELSE r.recv,
                              !.gby = IF r.gby = "" THEN p.gby ELSE r.gby,
                              !.gw = IF r.gw < 0 THEN p.gw ELSE r.gw,
                              !.gi = IF r.gi < 0 THEN p.gi ELSE r.gi,
                              !.ri = IF r.ri < 0 THEN p.ri ELSE r.ri]
RECURSIVE MatchRC(_, _, _)
MatchRC(c, j, a) ==
  LET m == {k \in {x \in 1..Len(c.routes) : c.routes[x].parent = j} : Sel(c.routes[k].sel, a)}
      reached == {k \in m : ~\E k2 \in m : k2 < k /\ ~c.routes[k2].cont}
  IN IF reached = {} THEN {j} ELSE UNION {MatchRC(c, k, a) : k \in reached}
NRoutes == Len(cfg.routes)
Rt(j) == cfg.drv.rts[j]
Chosen(a) == cfg.drv.chosen[a]
\* group labels of an alert under a route's group_by: [g], [] (one group) or ['...'] (all labels),
\* printed as model.LabelSet prints them (the group key is "<route key>:<group labels>")
AllLbl == [ A1 |-> "{a=\"x\", alertname=\"X\", g=\"1\", sev=\"warn\"}",
            A2 |-> "{a=\"y\", alertname=\"X\", g=\"1\", sev=\"warn\"}",
            A3 |-> "{a=\"x\", alertname=\"Y\", g=\"2\", sev=\"warn\"}",
            A4 |-> "{alertname=\"S\", g=\"1\", sev=\"crit\"}" ]
GL(gby, a) == CASE gby = "g"    -> "{g=\"" \o Lbl[a].g \o "\"}"
                [] gby = "none" -> "{}"
                [] gby = "all"  -> AllLbl[a]
GKR(r, a) == r.rk \o ":" \o GL(r.gby, a)
GK(j, a) == GKR(Rt(j), a)
Derive(c) ==
  LET n == Len(c.routes)
      rts == [j \in 0..n |-> RtC(c, j)]
      pairs == {<<GKR(rts[j], a), j>> : j \in 0..n, a \in Alerts}
  IN [root |-> c.root, routes |-> c.routes, integs |-> c.integs, inhibit |-> c.inhibit, windows |-> c.windows,
      wait |-> c.wait, maxwait |-> c.maxwait, agc |-> c.agc, maint |-> c.maint,
      drv |-> [rts |-> rts,
               chosen |-> [a \in Alerts |-> MatchRC(c, 0, a)],
               gkj |-> [gk \in {p[1] : p \in pairs} |-> (CHOOSE p \in pairs : p[1] = gk)[2]],
               gkeys |-> [a \in Alerts |-> {GKR(rts[j], a) : j \in MatchRC(c, 0, a)}]]]
GKeys(a) == cfg.drv.gkeys[a]
AllGK == DOMAIN cfg.drv.gkj
RouteOfGk(gk) == cfg.drv.gkj[gk]
Opt(gk) == Rt(RouteOfGk(gk))
LblOfGk(gk) == CHOOSE l \in {GL(Opt(gk).gby, a) : a \in Alerts} : gk = Opt(gk).rk \o ":" \o l
Members(gk) == {a \in Alerts : gk \in GKeys(a)}
\* the group key of an alert in a configuration without child routes
GroupKeyOf(a) == GK(0, a)

\* integrations [recv, name, sr] are identified, within their receiver, by name ("webhook/0",
\* "email/0": kind and index within the kind), which is stable across reloads that add or
\* remove other integrations
IntegsOfRecv(r) == {cfg.integs[j].name : j \in {x \in 1..Len(cfg.integs) : cfg.integs[x].recv = r}}
IntegsOf(gk) == IntegsOfRecv(Opt(gk).recv)
SrOfRecv(r, n) == (CHOOSE x \in SeqToSet(cfg.integs) : x.recv = r /\ x.name = n).sr
SrOf(gk, n) == SrOfRecv(Opt(gk).recv, n)

-----------------------------------------------------------------------------
(* Reference definitions                                                   *)

\* alert.Resolved: an alert fires until its end time has passed (the start time plays no role)
FiringAt(a, t) == a \in DOMAIN ver /\ t < ver[a].end
\* silence.getState: active iff ~(t < start) /\ ~(t > end)
SilActive(s, t) == s.start <= t /\ t <= s.end
MutedAt(a, t) == \E i \in 1..Len(sil) : SilActive(sil[i], t) /\ SilMatches(sil[i].ms, a)
\* inhibit rule of the scenarios: source sev="crit", target sev="warn", equal [g]
InhibitedAt(a, t) ==
  /\ cfg.inhibit /\ Lbl[a].sev = "warn"
  /\ \E s \in Alerts : Lbl[s].sev = "crit" /\ Lbl[s].g = Lbl[a].g /\ FiringAt(s, t)
SuppressedAt(a, t) == MutedAt(a, t) \/ InhibitedAt(a, t)

\* receiver script: windows of kind rec / unrec / hang fail; kind slow only delays
Failing(r, i, t) == \E w \in SeqToSet(cfg.windows) : w.recv = r /\ w.integ = i /\ w.kind # "slow" /\ w.from <= t /\ t < w.to
FailingDuring(r, i, t0, t1) == \E w \in SeqToSet(cfg.windows) : w.recv = r /\ w.integ = i /\ w.kind # "slow" /\ w.from <= t1 /\ t0 < w.to

\* C15 gating: a flush is muted iff a mute interval contains its instant or, when active
\* intervals are configured, none of them does.  The instant the stages use is the timer tick,
\* which lags the actual flush by at most Timeout - group_interval when the previous flush
\* overran: verdicts are demanded only where tick and flush fall on the same side of every edge.
InAny(seq, t) == \E j \in 1..Len(seq) : seq[j].from <= t /\ t < seq[j].to
TimeMutedR(o, t) == InAny(o.mute, t) \/ (Len(o.active) > 0 /\ ~InAny(o.active, t))
TimeMuted(gk, t) == TimeMutedR(Opt(gk), t)
EdgesR(o) == UNION {{o.mute[j].from, o.mute[j].to} : j \in 1..Len(o.mute)} \cup
             UNION {{o.active[j].from, o.active[j].to} : j \in 1..Len(o.active)}
LagR(o) == Max2(o.gi, MinTimeout) + cfg.wait - o.gi + 1000
EdgeNear(gk, t) == \E b \in EdgesR(Opt(gk)) : t - LagR(Opt(gk)) <= b /\ b <= t
AllEdgeStops == UNION {EdgesR(Rt(j)) \cup {b + LagR(Rt(j)) + 1 : b \in EdgesR(Rt(j))} : j \in 0..NRoutes}
\* the names the API reports for a group flushed at t: all active intervals when none of them
\* holds, otherwise the mute intervals that hold
MutedByAt(gk, t) ==
  LET o == Opt(gk)
  IN IF Len(o.active) > 0 /\ ~InAny(o.active, t)
       THEN {o.active[j].name : j \in 1..Len(o.active)}
       ELSE {o.mute[j].name : j \in {x \in 1..Len(o.mute) : o.mute[x].from <= t /\ t < o.mute[x].to}}
MayMuted(gk, t)  == TimeMuted(gk, t) \/ EdgeNear(gk, t)

\* the delivery slack of C01: a hung flush may hold the run loop until its
\* deadline, one maximal retry back-off, scheduling slack
\* cfg.wait: the cluster wait of this instance (position x peer_timeout) at this moment;
\* cfg.maxwait: the largest wait it can have (0 for a single instance)
Timeout(gk) == Max2(Opt(gk).gi, MinTimeout) + cfg.wait
Bound(gk) == LET o == Opt(gk) IN Max2(o.gw, o.gi) + (Max2(o.gi, MinTimeout) + cfg.maxwait - o.gi) + RetrySlack + SchedSlack + cfg.maxwait

\* upper bounds of the retry gap after the k-th failed attempt:
\* 1.5 x min(500 x 1.5^(k-1), 60 s), rounded up
Backoff == <<750, 1125, 1688, 2532, 3797, 5696, 8543, 12815, 19222, 28833, 43249, 64873, 90000>>
GapBoundMs(k) == (IF k <= Len(Backoff) THEN Backoff[k] ELSE 90000) + 5

FiringOf(as)   == {as[i].l : i \in {j \in 1..Len(as) : as[j].status = "firing"}}
ResolvedOf(as) == {as[i].l : i \in {j \in 1..Len(as) : as[j].status = "resolved"}}
NamesOf(as)    == {as[i].l : i \in 1..Len(as)}
Entry(as, a)   == as[CHOOSE i \in 1..Len(as) : as[i].l = a]

-----------------------------------------------------------------------------
RootOnly(gw, gi, ri) == [rk |-> "{}", sel |-> "ALL", cont |-> FALSE, recv |-> "r1", gby |-> "g", gw |-> gw, gi |-> gi, ri |-> ri, mute |-> << >>, active |-> << >>]
\* the delivery targets of the alerts: <<alert, group key, integration of the group's receiver>>
EligDom == UNION {UNION {{<<a, gk, i>> : i \in IntegsOf(gk)} : gk \in GKeys(a)} : a \in Alerts}
ObsInit == /\ now = 0 /\ cfg = Derive([root |-> RootOnly(0, 1, 1), routes |-> << >>, integs |-> <<[recv |-> "r1", name |-> "webhook/0", sr |-> TRUE]>>, inhibit |-> FALSE, windows |-> << >>, wait |-> 0, maxwait |-> 0, agc |-> 0, maint |-> 0])
           /\ ver = << >> /\ sil = << >> /\ last = << >> /\ brk = << >> /\ fl = << >> /\ cancd = [seen |-> {}, dead |-> << >>, deadgk |-> {}, refl |-> {}, ing |-> << >>, mby |-> << >>, lastReload |-> 0 - 1, gone |-> << >>, born |-> << >>]
           /\ elig = << >> /\ chk = {}

\* eligibility clocks (C01), recomputed at every step for the new instant
\* no silence, inhibition or time interval withholds a at t
Unsuppressed(a, gk, t, v, s) ==
  /\ ~\E j \in 1..Len(s) : SilActive(s[j], t) /\ SilMatches(s[j].ms, a)
  /\ ~(cfg.inhibit /\ Lbl[a].sev = "warn" /\
       \E x \in Alerts : Lbl[x].sev = "crit" /\ Lbl[x].g = Lbl[a].g /\ x \in DOMAIN v /\ t < v[x].end)
  /\ ~MayMuted(gk, t)
\* nothing keeps a notification about a from being delivered to integration i of group gk at t
Open(a, gk, i, t, v, s) == Unsuppressed(a, gk, t, v, s) /\ ~Failing(Opt(gk).recv, i, t)
Eligible(a, gk, i, t, v, s) == a \in DOMAIN v /\ t < v[a].end /\ Open(a, gk, i, t, v, s)
\* C05: the alert has resolved and its resolution could be delivered
\* (a failing integration does not excuse: a failed flush keeps the alert and tries again)
Reportable(a, gk, i, t, v, s) == a \in DOMAIN v /\ t >= v[a].end /\ Unsuppressed(a, gk, t, v, s)
\* clocks: <<a, gk, i>> since when continuously eligible; <<a, gk, i, "r">> since when continuously
\* resolved and reportable (-1: not)
EligNext(t, v, s) ==
  [p \in EligDom \cup {<<q[1], q[2], q[3], "r">> : q \in EligDom} |->
     IF (IF Len(p) = 3 THEN Eligible(p[1], p[2], p[3], t, v, s) ELSE Reportable(p[1], p[2], p[3], t, v, s))
       THEN (IF p \in DOMAIN elig /\ elig[p] >= 0 THEN elig[p] ELSE t) ELSE -1]

\* C01: an alert continuously eligible for longer than the bound is listed as
\* firing by the latest successful notification of its group to that integration
C01_Deadline ==
  \A p \in {q \in DOMAIN elig : Len(q) = 3} :
     LET k == <<p[2], p[3]>>
         \* the omission lasts since the alert became eligible or since the latest notification
         \* (which omits it) was delivered, whichever is later
         since == IF k \in DOMAIN last /\ last[k].t > elig[p] THEN last[k].t ELSE elig[p]
     IN (elig[p] >= 0 /\ now - since > Bound(p[2])) => (k \in DOMAIN last /\ p[1] \in last[k].firing)

\* C05: resolution is reported promptly - an alert the receiver was told is firing, that has
\* been resolved and reportable from the moment it resolved for longer than the bound, is no
\* longer listed as firing by the latest notification.  Not demanded where a listed finding or
\* the alert store's garbage collection applies: the log entry expires 2 x repeat_interval after
\* the last notification (F8); a dispatcher started by a reload does not see an alert the
\* provider collected between its resolution and the reload.
GcTickIn(x, y) == cfg.agc > 0 /\ ((y + 1000) \div cfg.agc) # ((x - 1000) \div cfg.agc)
C05_Deadline ==
  \A p \in {q \in DOMAIN elig : Len(q) = 4} :
     LET k == <<p[2], p[3]>>
         a == p[1]
         since == IF last[k].t > elig[p] THEN last[k].t ELSE elig[p]
     IN ~( /\ elig[p] >= 0 /\ a \in DOMAIN ver /\ elig[p] = ver[a].end
           /\ k \in DOMAIN last /\ SrOf(p[2], p[3]) /\ a \in last[k].firing
           /\ now - since > Bound(p[2])
           /\ ~FailingDuring(Opt(p[2]).recv, p[3], now - Bound(p[2]), now)
           /\ now < last[k].t + 2 * Opt(p[2]).ri
           /\ ~(cancd.lastReload >= ver[a].end /\ GcTickIn(ver[a].end, cancd.lastReload)) )

\* C04: repeats arrive on time - an unchanged firing group is re-notified no later than
\* repeat_interval plus one group_interval (plus what a flush may overrun, scheduling slack,
\* the cluster wait, and the pause of a reload) after the previous notification, as long as
\* every alert it listed has stayed deliverable to that integration all the time
ReloadPause == 6 * SchedSlack
C04_Deadline ==
  \A k \in DOMAIN last :
     LET gk == k[1]
         i == k[2]
         since == last[k].t
     IN ~( /\ gk \in AllGK /\ i \in IntegsOf(gk) /\ last[k].firing # {}
           /\ \A a \in last[k].firing : <<a, gk, i>> \in DOMAIN elig /\ elig[<<a, gk, i>>] >= 0 /\ elig[<<a, gk, i>>] <= since
           /\ now - since > Opt(gk).ri + Opt(gk).gi + (Timeout(gk) - Opt(gk).gi) + SchedSlack + cfg.maxwait
                             + (IF cancd.lastReload >= since THEN ReloadPause ELSE 0) )

(* --- environment events ------------------------------------------------ *)
Cfg(c) ==
  /\ cfg' = Derive(c) /\ now' = 0 /\ ver' = << >> /\ sil' = << >> /\ last' = << >> /\ brk' = << >> /\ fl' = << >> /\ cancd' = [seen |-> {}, dead |-> << >>, deadgk |-> {}, refl |-> {}, ing |-> << >>, mby |-> << >>, lastReload |-> 0 - 1, gone |-> << >>, born |-> << >>]
  /\ elig' = << >> /\ chk' = {}

Ingest(a, v) ==
  /\ ver' = Put(ver, a, v)
  /\ elig' = EligNext(now, ver', sil)
  \* refl: alerts updated while a flush of their group is being delivered (C05: they stay in the group)
  \* ing: per group key, the first hand-over since the last completed flush of that key (a group
  \* created by it waits group_wait)
  /\ cancd' = [cancd EXCEPT
                 \* ing: per group key, the earliest instant at which a group created by the first hand-over
                 \* since the key's last flush may flush (at once if that alert started more than group_wait ago)
                 !.ing = [gk \in DOMAIN @ \cup GKeys(a) |-> IF gk \in DOMAIN @ THEN @[gk]
                                                            ELSE IF v.start + Opt(gk).gw < now THEN now ELSE now + Opt(gk).gw],
                 \* the first hand-over after a group was destroyed creates its successor
                 !.born = [gk \in DOMAIN @ \cup (GKeys(a) \cap DOMAIN cancd.gone) |-> IF gk \in DOMAIN @ THEN @[gk] ELSE now],
                 !.refl = @ \cup {<<a, gk>> : gk \in {g \in GKeys(a) : \E x \in DOMAIN fl : fl[x].gk = g /\ a \in NamesOf(fl[x].alerts)}}]
  /\ chk' = {}
  /\ UNCHANGED <<now, cfg, sil, last, brk, fl>>

SilSet(ms, start, end) ==
  /\ sil' = Append(sil, [ms |-> ms, start |-> start, end |-> end])
  /\ elig' = EligNext(now, ver, sil')
  /\ chk' = {}
  /\ UNCHANGED <<now, cfg, ver, last, brk, fl, cancd>>

\* POST /api/v2/silences with the id of an existing silence: its times are replaced (what is
\* stored afterwards is read back from the API; the update rules themselves are C12's)
SilUpdate(idx, start, end) ==
  /\ idx + 1 \in 1..Len(sil)
  /\ sil' = [sil EXCEPT ![idx + 1] = [@ EXCEPT !.start = start, !.end = end]]
  /\ elig' = EligNext(now, ver, sil')
  /\ chk' = {}
  /\ UNCHANGED <<now, cfg, ver, last, brk, fl, cancd>>

SilExpire(idx) ==
  /\ idx + 1 \in 1..Len(sil)
  /\ LET s == sil[idx + 1]
         e == IF now < s.start THEN [s EXCEPT !.start = now, !.end = now]
              ELSE IF now > s.end THEN s
              ELSE [s EXCEPT !.end = now]
     IN sil' = [sil EXCEPT ![idx + 1] = e]
  /\ elig' = EligNext(now, ver, sil')
  /\ chk' = {}
  /\ UNCHANGED <<now, cfg, ver, last, brk, fl, cancd>>

\* time passes to instant t (the trace specification visits every instant at
\* which eligibility can change: alert ends, silence and window boundaries)
Advance(t) ==
  /\ t > now
  /\ now' = t
  /\ elig' = EligNext(t, ver, sil)
  \* a moment without firing unsuppressed alert starts a new notification cycle
  /\ brk' = [k \in DOMAIN brk |->
               brk[k] \/ ~\E a \in Alerts : k[1] \in GKeys(a) /\ FiringAt(a, t) /\ ~SuppressedAt(a, t)]
  /\ cancd' = [cancd EXCEPT !.deadgk = {}]
  /\ chk' = {}
  /\ UNCHANGED <<cfg, ver, sil, last, fl>>

(* --- flush ------------------------------------------------------------- *)
NoAtt == [n |-> 0, lastT |-> 0, lastOutcome |-> "none", done |-> FALSE, logged |-> FALSE, sent |-> << >>]
Dead(ag) == ag \in DOMAIN cancd.dead
LiveOf(gk) == {x \in DOMAIN fl : fl[x].gk = gk}

\* tick: the timer instant the pipeline uses as the flush time (aggrGroup.run: "the only reliable
\* point of time reference"); it precedes now when the dispatcher was still starting up
FlushBegin(ag, gk, as, tick) ==
  LET names == NamesOf(as)
      bad ==
        \* C06: one group per notification, all of its known firing alerts, latest version (C14)
        (IF \E a \in names : a \notin Alerts \/ gk \notin GKeys(a) THEN {"C06_foreign_alert"} ELSE {})
        \cup (IF \E a \in Alerts : gk \in GKeys(a) /\ FiringAt(a, now) /\ a \notin names THEN {"C06_alert_missing_from_group"} ELSE {})
        \cup (IF \E p \in cancd.refl : p[2] = gk /\ FiringAt(p[1], now) /\ p[1] \notin names THEN {"C05_alert_refired_during_delivery_lost"} ELSE {})
        \cup (IF \E a \in names \cap DOMAIN ver : Entry(as, a).upd # ver[a].upd THEN {"C14_stale_version_in_group"} ELSE {})
        \* C05: status is true at this instant
        \cup (IF \E a \in names \cap DOMAIN ver : Entry(as, a).upd = ver[a].upd /\ Entry(as, a).status = "resolved" /\ ver[a].end > now
                THEN {"C05_resolved_before_end"} ELSE {})
        \cup (IF \E a \in names \cap DOMAIN ver : Entry(as, a).upd = ver[a].upd /\ Entry(as, a).status = "firing" /\ ver[a].end < now
                THEN {"C05_firing_after_end"} ELSE {})
        \cup (IF ag \in DOMAIN fl THEN {"C06_overlapping_flushes_of_one_group"} ELSE {})
        \* the time stages come after the inhibition stage: a flush whose alerts are all inhibited
        \* leaves the group's reported muted state as it was
        \cup (IF names # {} /\ (\A a \in names \cap Alerts : InhibitedAt(a, now)) /\ gk \in DOMAIN cancd.mby
                   /\ cancd.mby[gk].known /\ cancd.mby[gk].cur # MutedByAt(gk, now)
                THEN {"DRIFT_muted_state_not_refreshed_when_all_alerts_inhibited"} ELSE {})
        \cup (IF TimeMuted(gk, tick) # TimeMuted(gk, now) THEN {"DRIFT_flush_gated_at_timer_instant_not_at_flush_instant"} ELSE {})
        \* C06: a (re-)created group waits group_wait before its first flush, unless it holds an
        \* alert that started longer ago than that
        \cup (IF ag \notin cancd.seen /\ names # {} /\ gk \in DOMAIN cancd.ing /\ now < cancd.ing[gk]
                THEN {"C06_first_flush_before_group_wait"} ELSE {})
  IN IF Dead(ag) THEN /\ chk' = {} /\ cancd' = [cancd EXCEPT !.mby = Drop(@, {gk})]
                       /\ UNCHANGED <<now, cfg, ver, sil, last, brk, fl, elig>>
     ELSE IF gk \notin AllGK
       THEN /\ chk' = {"C06_group_of_unknown_route"}
            /\ UNCHANGED <<now, cfg, ver, sil, last, brk, fl, cancd, elig>>
     ELSE
     /\ fl' = Put(fl, ag, [gk |-> gk, t |-> now, tick |-> tick, okd |-> FALSE, to |-> Timeout(gk), alerts |-> as, att |-> [i \in IntegsOf(gk) |-> NoAtt],
                            tmust |-> TimeMuted(gk, tick) /\ TimeMuted(gk, now), tmay |-> TimeMuted(gk, tick) \/ TimeMuted(gk, now),
                            muted |-> {a \in names \cap Alerts : MutedAt(a, now)},
                            inhibited |-> {a \in names \cap Alerts : InhibitedAt(a, now)},
                            prevF |-> [i \in IntegsOf(gk) |-> IF <<gk, i>> \in DOMAIN last THEN last[<<gk, i>>].firing ELSE {}]])
     /\ cancd' = [cancd EXCEPT !.seen = @ \cup {ag}, !.refl = {p \in @ : p[2] # gk},
                                \* ing: the first hand-over for the group key since its last flush began
                                !.ing = Drop(@, {gk}), !.gone = Drop(@, {gk}), !.born = Drop(@, {gk}),
                                !.mby = LET allInh == names # {} /\ \A a \in names \cap Alerts : InhibitedAt(a, now)
                                            \* a group seen for the first time (created, or re-created after its predecessor was
                                            \* destroyed and its marker deleted by the maintenance sweep - or not yet): unknown
                                            prev == IF gk \in DOMAIN @ /\ ag \in cancd.seen THEN @[gk]
                                                    ELSE [cur |-> IF gk \in DOMAIN @ THEN @[gk].cur ELSE {}, prev |-> {{}}, t |-> now, known |-> FALSE, stale |-> FALSE]
                                        IN \* the time stages run after the inhibition stage: they are skipped
                                           \* when that one leaves nothing (the marker keeps its old value)
                                           IF allInh THEN Put(@, gk, [prev EXCEPT !.stale = prev.known /\ prev.cur # MutedByAt(gk, tick)])
                                           ELSE Put(@, gk, [cur |-> MutedByAt(gk, tick), prev |-> {prev.cur, {}}, t |-> now,
                                                            known |-> MutedByAt(gk, tick) = MutedByAt(gk, now), stale |-> FALSE])]
     /\ brk' = [k \in DOMAIN brk |->
                  brk[k] \/ (k[1] = gk /\ ~\E a \in FiringOf(as) : ~SuppressedAt(a, now))]
     /\ chk' = bad
     /\ UNCHANGED <<now, cfg, ver, sil, last, elig>>

\* what an integration must be handed in this flush: the whole group minus
\* suppressed alerts (minus resolved ones without send_resolved)
Expected(f, i) ==
  {a \in NamesOf(f.alerts) : a \notin f.muted \cup f.inhibited /\ (SrOf(f.gk, i) \/ Entry(f.alerts, a).status = "firing")}

Justified(k, i, F, R, t) ==
  IF k \notin DOMAIN last THEN F # {}
  ELSE LET p == last[k]
       IN /\ (F = {} => p.firing # {})
          /\ \/ ~(F \subseteq p.firing)
             \/ (SrOf(k[1], i) /\ ~(R \subseteq p.resolved))
             \/ t - p.t > Opt(k[1]).ri
             \/ brk[k]

\* start = instant at which the delivery attempt began (it ends, and is recorded, at `now`)
\* recv: the receiver the notified integration belongs to
Attempt(ag, gk, recv, name, as, outcome, deadline, start) ==
  LET i == name
      k == <<gk, i>>
      inFlush == ag \in DOMAIN fl
      f == fl[ag]
      at == f.att[i]
      F == FiringOf(as)
      R == ResolvedOf(as)
      bad ==
        IF ~inFlush THEN {"C06_notification_outside_flush"}
        ELSE
        \* payload: C02, C03, C05, C06
        (IF NamesOf(as) \cap f.muted # {} THEN {"C02_silenced_alert_notified"} ELSE {})
        \cup (IF NamesOf(as) \cap f.inhibited # {} THEN {"C03_inhibited_alert_notified"} ELSE {})
        \cup (IF ~SrOf(gk, i) /\ R # {} THEN {"C05_resolved_sent_without_send_resolved"} ELSE {})
        \cup (IF recv # Opt(gk).recv THEN {"C07_notification_to_wrong_receiver"} ELSE {})
        \cup (IF f.tmust THEN {"C15_notification_during_mute_or_outside_active_interval"} ELSE {})
        \cup (IF gk # f.gk \/ \E a \in NamesOf(as) : a \notin NamesOf(f.alerts) \/ Entry(as, a).status # Entry(f.alerts, a).status
                THEN {"C06_payload_not_from_flush"} ELSE {})
        \cup (IF \E a \in Expected(f, i) : a \notin NamesOf(as) THEN {"C06_payload_is_a_delta"} ELSE {})
        \cup (IF \E a \in R \cap NamesOf(f.alerts) : Entry(f.alerts, a).end > now THEN {"C05_resolved_before_end"} ELSE {})
        \* C20: retry policy
        \cup (IF at.lastOutcome = "unrec" THEN {"C20_retry_after_unrecoverable"} ELSE {})
        \cup (IF at.done THEN {"C20_attempt_after_success"} ELSE {})
        \cup (IF at.lastOutcome = "rec" /\ start - at.lastT > GapBound(at.n) THEN {"C20_retry_too_late"} ELSE {})
        \cup (IF start > deadline THEN {"C20_attempt_after_deadline"} ELSE {})
        \cup (IF deadline # f.t + f.to THEN {"DRIFT_flush_deadline_differs_from_max_gi_10s"} ELSE {})
        \* C04: a delivered notification is justified
        \cup (IF outcome = "ok" /\ ~Justified(k, i, F, R, now) THEN {"C04_unjustified_notification"} ELSE {})
  IN IF Dead(ag)
       THEN \* a stopped dispatcher's groups must not deliver anything after the stop
            /\ chk' = IF outcome = "ok" /\ now > cancd.dead[ag] THEN {"C04_notification_from_stopped_dispatcher"} ELSE {}
            /\ UNCHANGED <<now, cfg, ver, sil, last, brk, fl, cancd, elig>>
     ELSE IF gk \notin AllGK \/ i \notin IntegsOf(gk)
       THEN /\ chk' = {"C06_notification_to_unconfigured_integration"}
            /\ UNCHANGED <<now, cfg, ver, sil, last, brk, fl, cancd, elig>>
     ELSE
     /\ IF inFlush
          THEN fl' = [fl EXCEPT ![ag].att[i] = [n |-> at.n + 1, lastT |-> now, lastOutcome |-> outcome,
                                                done |-> outcome = "ok", logged |-> at.logged, sent |-> as]]
          ELSE fl' = fl
     /\ IF outcome = "ok"
          THEN /\ last' = Put(last, k, [t |-> now, firing |-> F, resolved |-> R])
               /\ brk' = Put(brk, k, FALSE)
          ELSE UNCHANGED <<last, brk>>
     /\ chk' = bad
     /\ UNCHANGED <<now, cfg, ver, sil, cancd, elig>>

\* notification-log write: only after the integration reported success (or,
\* without send_resolved, when nothing firing was left to send)
NflogLog(gk, name, firing, resolved) ==
  LET i == name
      live == LiveOf(gk)
      \* two flushes of one group key can be in progress (a destroyed group still finishing while
      \* its successor, created meanwhile, already flushes): the write belongs to one that awaits it
      waiting == {x \in live : name \in DOMAIN fl[x].att /\ ~fl[x].att[name].logged /\
                                (fl[x].att[name].done \/ (~SrOf(gk, name) /\ firing = {}))}
      ag == IF waiting # {} THEN CHOOSE x \in waiting : TRUE ELSE CHOOSE x \in live : TRUE
      f == fl[ag]
      at == f.att[i]
      skip == ~SrOf(gk, i) /\ firing = {}
      bad == IF gk \notin AllGK \/ i \notin IntegsOf(gk)
               THEN \* a flush the reload found in flight finishes its bookkeeping for the old integrations
                    (IF gk \in cancd.deadgk THEN {} ELSE {"C06_notification_to_unconfigured_integration"})
             ELSE IF live = {} THEN (IF gk \in cancd.deadgk THEN {} ELSE {"C20_log_outside_flush"})
             ELSE (IF ~at.done /\ ~skip THEN {"C20_recorded_without_success"} ELSE {})
                  \cup (IF at.logged THEN {"C20_recorded_twice"} ELSE {})
                  \cup (IF \E a \in firing \cup resolved : a \notin NamesOf(f.alerts) \/ a \in f.muted \cup f.inhibited THEN {"C20_log_lists_unsent_alert"} ELSE {})
  IN /\ IF live # {} /\ gk \in AllGK /\ i \in IntegsOf(gk) /\ i \in DOMAIN f.att THEN fl' = [fl EXCEPT ![ag].att[i].logged = TRUE] ELSE fl' = fl
     /\ chk' = bad
     /\ UNCHANGED <<now, cfg, ver, sil, last, brk, cancd, elig>>

Failed(at) == at.n > 0 /\ ~at.done

FlushOk(ag) ==
  /\ chk' = IF Dead(ag) THEN {}
            ELSE IF ag \notin DOMAIN fl THEN {"C20_ok_outside_flush"}
            ELSE IF \E i \in DOMAIN fl[ag].att : Failed(fl[ag].att[i]) THEN {"C20_failure_not_reported"} ELSE {}
  /\ fl' = IF ~Dead(ag) /\ ag \in DOMAIN fl THEN [fl EXCEPT ![ag].okd = TRUE] ELSE fl
  /\ UNCHANGED <<now, cfg, ver, sil, last, brk, cancd, elig>>

\* end of a flush: what was owed has been delivered, retries went on until the deadline
FlushDone(ag) ==
  LET f == fl[ag]
      accepting(i) == ~FailingDuring(Opt(f.gk).recv, i, f.t, now) /\ ~f.tmay
      exp(i) == Expected(f, i)
      newFiring(i) == {a \in exp(i) : Entry(f.alerts, a).status = "firing"} \ f.prevF[i]
      entryExpired(i) == <<f.gk, i>> \in DOMAIN last /\ f.t - last[<<f.gk, i>>].t >= 2 * Opt(f.gk).ri
      \* what this instance knows, at the end of the flush, to have been delivered last (its own
      \* delivery of this flush, or a peer's log entry merged meanwhile)
      \* (or, when a successor group of the same key has notified since, this flush's own delivery)
      knownFiring(i) == (IF <<f.gk, i>> \in DOMAIN last THEN last[<<f.gk, i>>].firing ELSE {})
                        \cup (IF f.att[i].done THEN FiringOf(f.att[i].sent) ELSE {})
      knownResolved(i) == (IF <<f.gk, i>> \in DOMAIN last THEN last[<<f.gk, i>>].resolved ELSE {})
                          \cup (IF f.att[i].done THEN ResolvedOf(f.att[i].sent) ELSE {})
      newResolved(i) == IF SrOf(f.gk, i) THEN {a \in exp(i) : Entry(f.alerts, a).status = "resolved"} \cap f.prevF[i] ELSE {}
      bad ==
        IF ag \notin DOMAIN fl THEN {"C06_done_outside_flush"}
        ELSE
        (IF \E i \in DOMAIN f.att : f.att[i].lastOutcome = "rec" /\ ~f.att[i].done /\ now < f.t + f.to
           THEN {"C20_gave_up_before_deadline"} ELSE {})
        \* one integration's failure never prevents the others from sending and recording
        \cup (IF \E i \in DOMAIN f.att : f.att[i].done /\ ~f.att[i].logged THEN {"C20_success_not_recorded"} ELSE {})
        \* C04: repeats arrive on time - a group with something firing to report whose last
        \* notification this instance knows of is older than repeat_interval (by more than the
        \* time a delivery and its log write take) is notified again by this flush
        \cup (IF \E i \in DOMAIN f.att :
                   /\ accepting(i) /\ f.att[i].n = 0
                   /\ {a \in exp(i) : Entry(f.alerts, a).status = "firing"} # {}
                   /\ <<f.gk, i>> \in DOMAIN last
                   /\ f.tick - last[<<f.gk, i>>].t > Opt(f.gk).ri + RepeatLag
                THEN {"C04_repeat_not_sent_after_repeat_interval"} ELSE {})
        \* C01: a firing alert the receiver has not been told about is delivered by this flush
        \* (in a cluster a peer may have delivered it meanwhile: then this instance's log says so)
        \cup (IF \E i \in DOMAIN f.att : accepting(i) /\ newFiring(i) # {} /\ ~(newFiring(i) \subseteq knownFiring(i))
                THEN {"C01_firing_alert_not_notified_by_flush"} ELSE {})
        \* C05: a resolved alert the receiver was told is firing is reported resolved by this flush
        \* (F8: the notification-log entry expires 2 x repeat_interval after the last
        \* notification; a resolution first seen later than that is forgotten - listed finding)
        \cup (IF \E i \in DOMAIN f.att : accepting(i) /\ newResolved(i) # {} /\ ~entryExpired(i) /\ ~(newResolved(i) \subseteq knownResolved(i))
                THEN {"C05_resolution_not_notified_by_flush"} ELSE {})
        \cup (IF \E i \in DOMAIN f.att : accepting(i) /\ newResolved(i) # {} /\ entryExpired(i) /\ ~(newResolved(i) \subseteq knownResolved(i))
                THEN {"C05_F8_resolution_forgotten_after_log_entry_expired"} ELSE {})
      \* the flush succeeded, every alert it held was resolved and has not been updated since, and nothing
      \* was handed to the group meanwhile: DeleteIfNotModified leaves it empty, the group is destroyed and
      \* the next maintenance sweep deletes it together with its muted marker
      destroyed == /\ ag \in DOMAIN fl /\ f.okd /\ NamesOf(f.alerts) # {}
                   /\ \A a \in NamesOf(f.alerts) : a \in DOMAIN ver /\ Entry(f.alerts, a).status = "resolved" /\ ver[a].upd = Entry(f.alerts, a).upd
                   /\ ~\E a \in Members(f.gk) \cap DOMAIN ver : ver[a].upd > f.t \/ (a \notin NamesOf(f.alerts) /\ FiringAt(a, now))
                   /\ f.gk \notin DOMAIN cancd.ing
  IN IF Dead(ag) THEN /\ chk' = {} /\ UNCHANGED <<now, cfg, ver, sil, last, brk, fl, cancd, elig>>
     ELSE /\ fl' = IF ag \in DOMAIN fl THEN Drop(fl, {ag}) ELSE fl
          /\ chk' = bad
          /\ cancd' = IF destroyed THEN [cancd EXCEPT !.gone = Put(@, f.gk, now)] ELSE cancd
          /\ UNCHANGED <<now, cfg, ver, sil, last, brk, elig>>

\* the dispatcher is being stopped (config reload, shutdown): its groups die; a flush in
\* progress is cancelled and a dying group may still run one more flush with a dead
\* context; none of that creates obligations
Cancelling ==
  /\ cancd' = [seen |-> cancd.seen,
               dead |-> [x \in DOMAIN cancd.dead \cup cancd.seen \cup DOMAIN fl |->
                           IF x \in DOMAIN cancd.dead THEN cancd.dead[x] ELSE now],
               deadgk |-> cancd.deadgk \cup {fl[x].gk : x \in DOMAIN fl}, refl |-> cancd.refl, ing |-> cancd.ing, mby |-> cancd.mby, lastReload |-> cancd.lastReload, gone |-> cancd.gone, born |-> cancd.born]
  /\ fl' = << >>
  /\ chk' = {}
  /\ UNCHANGED <<now, cfg, ver, sil, last, brk, elig>>

\* config reload: the old dispatcher is stopped (see Cancelling) and the new one is built from
\* the new configuration, which may change the receivers' integrations and the routes' options
\* (the tree itself - route keys, matchers, order - stays as it is in the scenarios)
Reloading(integs, routes) ==
  /\ cancd' = [seen |-> cancd.seen,
               dead |-> [x \in DOMAIN cancd.dead \cup cancd.seen \cup DOMAIN fl |->
                           IF x \in DOMAIN cancd.dead THEN cancd.dead[x] ELSE now],
               deadgk |-> cancd.deadgk \cup {fl[x].gk : x \in DOMAIN fl}, refl |-> cancd.refl,
               \* the new dispatcher creates its groups from the provider's alerts right now
               \* (some time from now on - loading takes a while; a group created at c by an alert that
               \* started at s flushes at c when s + group_wait < c and at c + group_wait otherwise: never
               \* before min(max(now, s + group_wait), now + group_wait) for the earliest such alert)
               ing |-> [g \in UNION {GKeys(a) : a \in DOMAIN ver} |->
                          LET ts == {Min2(Max2(now, ver[a].start + Opt(g).gw), now + Opt(g).gw) : a \in {x \in DOMAIN ver : g \in GKeys(x)}}
                          IN CHOOSE m \in ts : \A x \in ts : m <= x],
               \* the marker of a stopped dispatcher's group may be gone or still there
               mby |-> [g \in DOMAIN cancd.mby |-> [cancd.mby[g] EXCEPT !.known = FALSE]], lastReload |-> now,
               \* the stopped dispatcher's sweep no longer collects anything
               gone |-> << >>, born |-> << >>]
  /\ fl' = << >>
  /\ cfg' = Derive([cfg EXCEPT !.integs = integs, !.routes = routes])
  /\ elig' = [p \in {q \in DOMAIN elig : \E x \in SeqToSet(integs) : x.recv = Opt(q[2]).recv /\ x.name = q[3]} |-> elig[p]]
  /\ chk' = {}
  /\ UNCHANGED <<now, ver, sil, last, brk>>

\* cluster: the position of this instance among its peers changed
SetWait(wt) ==
  /\ cfg' = [cfg EXCEPT !.wait = wt]
  /\ chk' = {}
  /\ UNCHANGED <<now, ver, sil, last, brk, fl, cancd, elig>>

\* cluster: a notification-log entry of a peer was merged into this instance's log (or
\* loaded from its snapshot at start): it is from now on what this instance knows as the
\* last notification of that (group, integration)
NflogMerge(gk, name, ts, firing, resolved) ==
  LET k == <<gk, name>>
      newer == k \notin DOMAIN last \/ last[k].t < ts
  IN /\ IF newer THEN /\ last' = Put(last, k, [t |-> ts, firing |-> firing, resolved |-> resolved])
                       /\ brk' = Put(brk, k, FALSE)
                  ELSE UNCHANGED <<last, brk>>
     /\ chk' = {}
     /\ UNCHANGED <<now, cfg, ver, sil, fl, cancd, elig>>

\* GET /api/v2/alerts at a quiescent instant: the suppression status the API reports equals the
\* direct evaluation of the stored silences / the inhibition rule (C02, C03), and exactly the
\* alerts whose end has not passed are listed
ApiAlerts(list) ==
  LET names == {list[j].l : j \in 1..Len(list)}
      E(a) == list[CHOOSE j \in 1..Len(list) : list[j].l = a]
      \* a silence matching a starts or ends at this very instant (e.g. it was just expired: end = now,
      \* or a pending one: start = end = now): both answers are accepted at equality instants
      SilEdge(a) == \E i \in 1..Len(sil) : SilMatches(sil[i].ms, a) /\ (sil[i].start = now \/ sil[i].end = now)
      bad ==
        (IF \E a \in names \cap Alerts : FiringAt(a, now) /\ ~SilEdge(a) /\ ((E(a).nsil > 0) # MutedAt(a, now))
           THEN {"C02_api_status_differs_from_stored_silences"} ELSE {})
        \cup (IF \E a \in names \cap Alerts : FiringAt(a, now) /\ ((E(a).ninh > 0) # InhibitedAt(a, now))
           THEN {"C03_api_inhibition_status_differs_from_rule"} ELSE {})
        \cup (IF \E a \in names \cap Alerts : FiringAt(a, now) /\ ~SilEdge(a) /\ ((E(a).state = "suppressed") # SuppressedAt(a, now))
           THEN {"C02_api_state_differs"} ELSE {})
        \cup (IF \E a \in DOMAIN ver : FiringAt(a, now) /\ a \notin names THEN {"C13_firing_alert_not_listed"} ELSE {})
        \cup (IF \E a \in names \cap DOMAIN ver : ver[a].end < now THEN {"C13_resolved_alert_listed"} ELSE {})
        \* C07: the receivers the API reports for an alert are those of the routes chosen for it
        \cup (IF \E a \in names \cap Alerts : SeqToSet(E(a).recvs) # {Opt(gk).recv : gk \in GKeys(a)}
           THEN {"C07_api_receivers_differ_from_routing"} ELSE {})
  IN /\ chk' = bad
     /\ UNCHANGED <<now, cfg, ver, sil, last, brk, fl, cancd, elig>>

\* GET /api/v2/alerts/groups at a quiescent instant: exactly the partition of the current
\* alerts by group_by value (C06)
ApiGroups(list) ==
  LET SilEdgeG(a) == \E i \in 1..Len(sil) : SilMatches(sil[i].ms, a) /\ (sil[i].start = now \/ sil[i].end = now)
      \* the group keys an API entry [recv, lbl] can stand for (the API does not tell the route)
      Cand(e) == {gk \in AllGK : Opt(gk).recv = e.recv /\ gk = Opt(gk).rk \o ":" \o e.lbl}
      HasFiring(gk) == \E a \in DOMAIN ver : FiringAt(a, now) /\ gk \in GKeys(a)
      bad ==
        (IF \E j \in 1..Len(list) : \E a \in SeqToSet(list[j].alerts) :
              a \in Alerts /\ GKeys(a) \cap Cand(list[j]) = {}
           THEN {"C06_api_group_holds_foreign_alert"} ELSE {})
        \cup (IF \E j \in 1..Len(list) :
                   Cardinality({i \in 1..Len(list) : list[i].lbl = list[j].lbl /\ list[i].recv = list[j].recv}) > Cardinality(Cand(list[j]))
                THEN {"C06_api_shows_two_groups_for_one_key"} ELSE {})
        \cup (IF \E a \in DOMAIN ver : FiringAt(a, now) /\ \E gk \in GKeys(a) :
                   ~\E j \in 1..Len(list) : gk \in Cand(list[j]) /\ a \in SeqToSet(list[j].alerts)
           THEN {"C06_api_groups_miss_firing_alert"} ELSE {})
        \* one entry per route that holds a firing alert with this receiver and these group labels
        \cup (IF \E gk \in AllGK : HasFiring(gk) /\
                   LET e == [recv |-> Opt(gk).recv, lbl |-> LblOfGk(gk)]
                   IN Cardinality({i \in 1..Len(list) : list[i].lbl = e.lbl /\ list[i].recv = e.recv})
                        < Cardinality({x \in Cand(e) : HasFiring(x)})
                THEN {"C06_api_groups_miss_group"} ELSE {})
        \* C02 / C03: the status of every alert listed in a group is its status now (the direct
        \* evaluation of the stored silences / the inhibition rule), as in GET /api/v2/alerts
        \cup (IF \E j \in 1..Len(list) : \E x \in SeqToSet(list[j].st) :
                   x.l \in Alerts /\ FiringAt(x.l, now) /\ ~SilEdgeG(x.l) /\ ((x.nsil > 0) # MutedAt(x.l, now))
                THEN {"C02_api_groups_status_differs_from_stored_silences"} ELSE {})
        \cup (IF \E j \in 1..Len(list) : \E x \in SeqToSet(list[j].st) :
                   x.l \in Alerts /\ FiringAt(x.l, now) /\ ((x.ninh > 0) # InhibitedAt(x.l, now))
                THEN {"C03_api_groups_inhibition_status_differs_from_rule"} ELSE {})
        \* C15: a group re-created after its predecessor was destroyed and collected (a maintenance
        \* sweep ago or longer, no reload in between) starts without a muted marker
        \cup (IF \E j \in 1..Len(list) : Cardinality(Cand(list[j])) = 1 /\
                   LET gk == CHOOSE x \in Cand(list[j]) : TRUE IN
                   /\ cfg.maint > 0 /\ gk \in DOMAIN cancd.born /\ gk \in DOMAIN cancd.gone /\ gk \in DOMAIN cancd.ing
                   /\ cancd.born[gk] - cancd.gone[gk] > cfg.maint + 5 * SchedSlack
                   /\ list[j].mutedby # << >>
                THEN {"C15_api_stale_muted_state_of_collected_group"} ELSE {})
        \* C15: the group is reported as muted, with the interval names, as of its last flush
        \cup (IF \E j \in 1..Len(list) : Cardinality(Cand(list[j])) = 1 /\
                   LET gk == CHOOSE x \in Cand(list[j]) : TRUE IN
                   /\ gk \in DOMAIN cancd.mby /\ cancd.mby[gk].known /\ ~cancd.mby[gk].stale
                   /\ gk \notin DOMAIN cancd.ing
                   /\ SeqToSet(list[j].mutedby) # cancd.mby[gk].cur
                   /\ ~(cancd.mby[gk].t = now /\ SeqToSet(list[j].mutedby) \in cancd.mby[gk].prev)
                THEN {"C15_api_muted_state_differs"} ELSE {})
  IN /\ chk' = bad
     /\ UNCHANGED <<now, cfg, ver, sil, last, brk, fl, cancd, elig>>

Other == /\ chk' = {} /\ UNCHANGED <<now, cfg, ver, sil, last, brk, fl, cancd, elig>>

-----------------------------------------------------------------------------
NoClauseViolated == chk = {}
=============================================================================
