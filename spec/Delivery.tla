------------------------------ MODULE Delivery ------------------------------
(***************************************************************************)
(* The payload half of the delivery contract (property C20): what is       *)
(* handed to templates and webhooks for one batch of alerts.               *)
(*                                                                         *)
(*   template/template.go   Template.Data, Alerts.Firing/Resolved          *)
(*   notify/util.go         GetTemplateData, TruncateInRunes/InBytes       *)
(*   notify/webhook         truncateAlerts, Message.TruncatedAlerts        *)
(*   notify/retry_stage.go  resolved alerts dropped without send_resolved  *)
(*                                                                         *)
(* (The retry contract of one real notifier behind the retry stage - per   *)
(* attempt outcome, own timeout, flush deadline - is DeliveryRetry.tla.)   *)
(*                                                                         *)
(* Everything here is a function of its arguments (no state); for each     *)
(* summary there is the REFERENCE definition (the statement of C20) and    *)
(* the IMPLEMENTATION-shaped definition (the algorithm of the code, kept   *)
(* with its defects while they are open findings), and the predicate that  *)
(* characterises exactly the inputs on which the two differ.               *)
(***************************************************************************)
EXTENDS Integers, Sequences, FiniteSets

-----------------------------------------------------------------------------
(* Key/value sets (labels, annotations): a function from the finite set of *)
(* names present to their values.  The empty one is << >>.                 *)
NoKV == << >>
Has(kv, k, v)   == k \in DOMAIN kv /\ kv[k] = v
Lookup(kv, k)   == IF k \in DOMAIN kv THEN kv[k] ELSE ""   \* a Go map read: absent key = ""
Restrict(kv, K) == [k \in K |-> kv[k]]
PairsOf(kv)     == {<<k, kv[k]>> : k \in DOMAIN kv}

\* Reference: the pairs present, with the same value, in every one of the
\* key/value sets (the intersection of the sets of pairs); nothing is common
\* to no alert at all.
CommonRef(kvs) ==
  IF Len(kvs) = 0 THEN NoKV
  ELSE Restrict(kvs[1], {k \in DOMAIN kvs[1] : \A i \in 1 .. Len(kvs) : Has(kvs[i], k, kvs[1][k])})

\* Implementation (Template.Data): clone the first alert's set, then for every
\* further alert delete the names whose value differs, where the other
\* alert's value is read with a plain map index: `a.Labels[ln] != lv`.
\* (The early `break` when both clones are empty does not change the result.)
RECURSIVE CommonFold(_, _, _)
CommonFold(acc, kvs, i) ==
  IF i > Len(kvs) THEN acc
  ELSE CommonFold(Restrict(acc, {k \in DOMAIN acc : Lookup(kvs[i], k) = acc[k]}), kvs, i + 1)
CommonImpl(kvs) == IF Len(kvs) = 0 THEN NoKV ELSE CommonFold(kvs[1], kvs, 2)

\* The two differ exactly when the first set has a name with the EMPTY value
\* that every other set either lacks or also has empty, and at least one lacks
\* it: the implementation then reports the pair (k, "") as common although it
\* is not a pair of every alert (and the answer depends on which alert is
\* first).  The API strips empty label values but keeps empty annotation
\* values, so this is reachable for annotations only.
EmptyValueGap(kvs) ==
  /\ Len(kvs) >= 2
  /\ \E k \in DOMAIN kvs[1] :
       /\ kvs[1][k] = ""
       /\ \A i \in 1 .. Len(kvs) : Lookup(kvs[i], k) = ""
       /\ \E i \in 1 .. Len(kvs) : k \notin DOMAIN kvs[i]

-----------------------------------------------------------------------------
(* Alerts and batches.  An alert is [l |-> labels, a |-> annotations,      *)
(* end |-> "past" | "none" | "future" | "tpast" | "tfuture"]: resolved iff *)
(* its end is not after now (model.Alert.ResolvedAt: a zero end never      *)
(* resolves).  "tpast" / "tfuture" are ends that the API derived from      *)
(* resolve_timeout because the client sent none (alert.Alert.Timeout =     *)
(* TRUE): where the end came from makes no difference to the payload - a   *)
(* timed-out alert whose end has passed is listed as resolved with that    *)
(* end, one whose end is ahead as firing.  A batch is a sequence of        *)
(* alerts; the alerts LISTED in a payload are given by the sequence of     *)
(* their positions in the batch.                                           *)
AllEnds         == {"past", "none", "future", "tpast", "tfuture"}
Firing(al)      == al.end \notin {"past", "tpast"}
TimedOut(al)    == al.end \in {"tpast", "tfuture"}
AlertStatus(al) == IF Firing(al) THEN "firing" ELSE "resolved"
\* alert.Alerts (the conversion behind every payload) exposes the end of a
\* resolved alert only; the statement does not fix what a firing alert shows
ExposedEnd(al)  == IF Firing(al) THEN "zero" ELSE "end"
Indices(n)      == [i \in 1 .. n |-> i]
FiringIdx(b, idx)   == SelectSeq(idx, LAMBDA i : Firing(b[i]))
ResolvedIdx(b, idx) == SelectSeq(idx, LAMBDA i : ~Firing(b[i]))
LabelsOf(b, idx) == [j \in 1 .. Len(idx) |-> b[idx[j]].l]
AnnsOf(b, idx)   == [j \in 1 .. Len(idx) |-> b[idx[j]].a]

StatusOf(b, idx) == IF \E j \in 1 .. Len(idx) : Firing(b[idx[j]]) THEN "firing" ELSE "resolved"

\* template.Data for the listed alerts: Common is CommonRef (statement) or
\* CommonImpl (code).
DataWith(Common(_), b, idx, gl) ==
  [ status   |-> StatusOf(b, idx),
    idx      |-> idx,                       \* Data.Alerts, in order
    firing   |-> FiringIdx(b, idx),         \* Data.Alerts.Firing()
    resolved |-> ResolvedIdx(b, idx),       \* Data.Alerts.Resolved()
    cl       |-> Common(LabelsOf(b, idx)),  \* Data.CommonLabels
    ca       |-> Common(AnnsOf(b, idx)),    \* Data.CommonAnnotations
    gl       |-> gl ]                       \* Data.GroupLabels: passed through
DataRef(b, idx, gl)  == DataWith(CommonRef, b, idx, gl)
DataImpl(b, idx, gl) == DataWith(CommonImpl, b, idx, gl)
Data(b, gl)          == DataRef(b, Indices(Len(b)), gl)      \* the whole batch

\* webhook.truncateAlerts: max = 0 means no limit; otherwise the first max
\* alerts are kept and the number dropped is reported.
TruncateAlerts(max, as) ==
  IF max # 0 /\ Len(as) > max THEN [kept |-> SubSeq(as, 1, max), dropped |-> Len(as) - max]
  ELSE [kept |-> as, dropped |-> 0]

\* RetryStage.exec: without send_resolved only the firing alerts are handed to
\* the integration, and nothing at all when none fires.
SendFilter(sr, b) ==
  LET all == Indices(Len(b)) IN
  IF sr THEN [notify |-> TRUE, idx |-> all]
  ELSE IF FiringIdx(b, all) = << >> THEN [notify |-> FALSE, idx |-> << >>]
  ELSE [notify |-> TRUE, idx |-> FiringIdx(b, all)]

\* What the webhook integration posts for a batch.
WebhookWith(Common(_), sr, max, b, gl) ==
  LET f == SendFilter(sr, b)
      t == TruncateAlerts(max, f.idx)
  IN [sent |-> f.notify, dropped |-> t.dropped, data |-> DataWith(Common, b, t.kept, gl)]
WebhookRef(sr, max, b, gl)  == WebhookWith(CommonRef, sr, max, b, gl)
WebhookImpl(sr, max, b, gl) == WebhookWith(CommonImpl, sr, max, b, gl)

-----------------------------------------------------------------------------
(* Laws of the statement, on any payload record d for batch b.             *)
StatusLaw(b, d)    == (d.status = "firing") <=> (\E j \in 1 .. Len(d.idx) : Firing(b[d.idx[j]]))
PartitionLaw(b, d) ==
  /\ \A j \in 1 .. Len(d.firing)   : Firing(b[d.firing[j]])
  /\ \A j \in 1 .. Len(d.resolved) : ~Firing(b[d.resolved[j]])
  /\ Len(d.firing) + Len(d.resolved) = Len(d.idx)
  /\ {d.firing[j] : j \in 1 .. Len(d.firing)} \cup {d.resolved[j] : j \in 1 .. Len(d.resolved)}
       = {d.idx[j] : j \in 1 .. Len(d.idx)}
CommonLaw(kvs, c) ==  \* c is exactly the intersection
  \A k \in UNION {DOMAIN kvs[i] : i \in 1 .. Len(kvs)} \cup DOMAIN c :
    \A v \in {Lookup(c, k)} \cup {Lookup(kvs[i], k) : i \in 1 .. Len(kvs)} :
      Has(c, k, v) <=> (Len(kvs) > 0 /\ \A i \in 1 .. Len(kvs) : Has(kvs[i], k, v))
TruncateLaw(max, as, t) ==
  /\ Len(t.kept) + t.dropped = Len(as)
  /\ t.kept = SubSeq(as, 1, Len(t.kept))
  /\ (max = 0 => t.dropped = 0)
  /\ (max # 0 => Len(t.kept) = (IF Len(as) < max THEN Len(as) ELSE max))

-----------------------------------------------------------------------------
(* Text truncation.  A string is a sequence of code points, each given by  *)
(* its width in bytes (1 .. 4 in UTF-8); its length in runes is Len, in    *)
(* bytes the sum.  The truncation marker is the ellipsis U+2026: one rune, *)
(* three bytes.  A result is [k, ell, dots, trunc]: the first k code       *)
(* points of the input, followed by the ellipsis (ell) or by `dots` full   *)
(* stops (TruncateInBytes for limits below 3), and the returned flag.      *)
PrefixBytes(s, k) == LET f[i \in 0 .. k] == IF i = 0 THEN 0 ELSE f[i - 1] + s[i] IN f[k]
Bytes(s)     == PrefixBytes(s, Len(s))
Prefix(s, k) == SubSeq(s, 1, k)
Res(k, ell, dots, trunc) == [k |-> k, ell |-> ell, dots |-> dots, trunc |-> trunc]
Whole(s)     == Res(Len(s), FALSE, 0, FALSE)
OutRunes(r)    == r.k + (IF r.ell THEN 1 ELSE 0) + r.dots
OutBytes(s, r) == PrefixBytes(s, r.k) + (IF r.ell THEN 3 ELSE 0) + r.dots

\* notify.TruncateInRunes
TruncateRunes(s, n) ==
  IF Len(s) <= n THEN Whole(s)
  ELSE IF n <= 3 THEN Res(n, FALSE, 0, TRUE)
  ELSE Res(n - 1, TRUE, 0, TRUE)

\* the longest prefix of whole code points that fits into m bytes: MaxFit is
\* the definition, Fit the same number computed in one pass (FitLaw)
MaxFit(s, m) == CHOOSE j \in 0 .. Len(s) :
                  /\ PrefixBytes(s, j) <= m
                  /\ (j < Len(s) => PrefixBytes(s, j + 1) > m)
RECURSIVE FitFrom(_, _, _, _)
FitFrom(s, j, acc, m) == IF j < Len(s) /\ acc + s[j + 1] <= m THEN FitFrom(s, j + 1, acc + s[j + 1], m) ELSE j
Fit(s, m) == FitFrom(s, 0, 0, m)
FitLaw(s, m) == Fit(s, m) = MaxFit(s, m)

\* notify.TruncateInBytes as documented (reference)
TruncateBytesRef(s, n) ==
  IF Bytes(s) <= n THEN Whole(s)
  ELSE IF n < 3 THEN Res(0, FALSE, n, TRUE)
  ELSE IF n = 3 THEN Res(0, TRUE, 0, TRUE)
  ELSE Res(Fit(s, n - 3), TRUE, 0, TRUE)

\* notify.TruncateInBytes as written: r := []rune(s); truncatedRunes := r[:n-3]
\* and then one rune less while the bytes of truncatedRunes exceed n-3.  The
\* reslice r[:n-3] is beyond the length of r when the string has fewer than
\* n-3 code points (result "oob": the Go runtime panics with `slice bounds out
\* of range` when n-3 also exceeds the capacity of r; otherwise the loop
\* shrinks below Len(s) again because Bytes(s) > n-3, and the result is the
\* reference one).
RECURSIVE Shrink(_, _, _)
Shrink(s, j, m) == IF PrefixBytes(s, j) > m THEN Shrink(s, j - 1, m) ELSE j
TruncateBytesImpl(s, n) ==
  IF Bytes(s) <= n THEN [oob |-> FALSE, r |-> Whole(s)]
  ELSE IF n < 3 THEN [oob |-> FALSE, r |-> Res(0, FALSE, n, TRUE)]
  ELSE IF n = 3 THEN [oob |-> FALSE, r |-> Res(0, TRUE, 0, TRUE)]
  ELSE IF n - 3 > Len(s) THEN [oob |-> TRUE, r |-> Res(0, FALSE, 0, TRUE)]
  ELSE [oob |-> FALSE, r |-> Res(Shrink(s, n - 3, n - 3), TRUE, 0, TRUE)]

\* F6: the input class on which TruncateInBytes reslices out of bounds.
F6Gap(s, n) == n > 3 /\ Bytes(s) > n /\ Len(s) < n - 3

\* The laws that must hold whatever the exact truncation rule is (statement:
\* never exceeds the limit, never splits a character; a result is by
\* construction whole code points of the input plus a marker, the conformance
\* harness checks that on the real bytes).
RunesLaw(s, n, r) ==
  /\ r.k \in 0 .. Len(s)
  /\ OutRunes(r) <= n
  /\ r.trunc <=> (Len(s) > n)
  /\ ~r.trunc => r = Whole(s)
BytesLaw(s, n, r) ==
  /\ r.k \in 0 .. Len(s)
  /\ OutBytes(s, r) <= n
  /\ r.trunc <=> (Bytes(s) > n)
  /\ ~r.trunc => r = Whole(s)
\* documented extras: the marker is there when there is room, and as much of
\* the input as fits is kept
RunesDoc(s, n, r) == r.trunc => /\ r.dots = 0
                                /\ r.ell <=> n > 3
                                /\ OutRunes(r) = n
BytesDoc(s, n, r) == r.trunc => /\ r.ell <=> n >= 3
                                /\ r.dots = (IF n < 3 THEN n ELSE 0)
                                /\ (r.ell => r.k = MaxFit(s, n - 3))
=============================================================================
