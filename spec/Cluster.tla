------------------------------- MODULE Cluster -------------------------------
(***************************************************************************)
(* High availability (C08, docs/high_availability.md): every instance runs *)
(* the same pipeline on the same alerts; before its Dedup stage the        *)
(* instance at position p waits p x peer_timeout (ClusterWaitStage); a     *)
(* delivered notification is written to the notification log and          *)
(* gossiped; an instance whose log holds an entry covering its pending     *)
(* notification stays silent (DedupStage).  One group with one alert that  *)
(* fires from the start, one integration: the notifications owed are the   *)
(* first one and a repeat every repeat_interval.                            *)
(* Faults: message delay up to MaxDelay, loss, crash and restart (with     *)
(* empty log).  Besides the gossiped updates, connected instances may      *)
(* exchange their full logs at any time (PushPull).  Clocks agree.         *)
(***************************************************************************)
EXTENDS Integers, FiniteSets, Sequences, TLC

CONSTANTS Inst,        \* instances, e.g. 1..3 (position = rank among the instances that are up, by number)
          GW, GI, RI, PT,
          MaxDelay, Lossy, Crashes, MaxTime

VARIABLES now, up, nfl, due, pend, net, sent, ncrash

vars == <<now, up, nfl, due, pend, net, sent, ncrash>>

\* position among the instances this one believes alive (here: the truth)
Pos(x) == Cardinality({y \in Inst : up[y] /\ y < x})

Init == /\ now = 0
        /\ up = [x \in Inst |-> TRUE]
        /\ nfl = [x \in Inst |-> -1]            \* timestamp of the log entry, -1: none
        /\ due = [x \in Inst |-> GW]            \* the alert fires at 0 on every instance
        /\ pend = [x \in Inst |-> [at |-> -1, tick |-> 0]]   \* flush waiting in ClusterWaitStage
        /\ net = {} /\ sent = << >> /\ ncrash = 0

\* the group's timer fires: the flush enters the cluster wait
FlushStart(x) ==
  /\ up[x] /\ due[x] <= now /\ pend[x].at = -1
  /\ pend' = [pend EXCEPT ![x] = [at |-> now + Pos(x) * PT, tick |-> due[x]]]
  /\ due' = [due EXCEPT ![x] = now + GI]
  /\ UNCHANGED <<now, up, nfl, net, sent, ncrash>>

\* DedupStage after the wait: notify iff no entry or the entry is older than repeat_interval
Dedup(x) ==
  /\ up[x] /\ pend[x].at # -1 /\ pend[x].at <= now
  /\ pend' = [pend EXCEPT ![x] = [at |-> -1, tick |-> 0]]
  /\ IF nfl[x] = -1 \/ nfl[x] < pend[x].tick - RI
       THEN /\ sent' = Append(sent, [x |-> x, t |-> now])
            /\ nfl' = [nfl EXCEPT ![x] = now]
            /\ \E d \in 0..MaxDelay :
                 net' = net \cup {[to |-> y, ts |-> now, by |-> now + d] : y \in Inst \ {x}}
       ELSE UNCHANGED <<sent, nfl, net>>
  /\ UNCHANGED <<now, up, due, ncrash>>

Deliver(m) ==
  /\ m \in net
  /\ net' = net \ {m}
  /\ nfl' = IF up[m.to] /\ nfl[m.to] < m.ts THEN [nfl EXCEPT ![m.to] = m.ts] ELSE nfl
  /\ UNCHANGED <<now, up, due, pend, sent, ncrash>>

Lose(m) == /\ Lossy /\ m \in net /\ net' = net \ {m}
           /\ UNCHANGED <<now, up, nfl, due, pend, sent, ncrash>>

Crash(x) ==
  /\ ncrash < Crashes /\ up[x] /\ Cardinality({y \in Inst : up[y]}) > 1   \* one instance stays up
  /\ up' = [up EXCEPT ![x] = FALSE]
  /\ pend' = [pend EXCEPT ![x] = [at |-> -1, tick |-> 0]]
  /\ ncrash' = ncrash + 1
  /\ UNCHANGED <<now, nfl, due, net, sent>>

\* restart without snapshot; the alert is re-sent by Prometheus at once
Restart(x) ==
  /\ ~up[x]
  /\ up' = [up EXCEPT ![x] = TRUE]
  /\ nfl' = [nfl EXCEPT ![x] = -1]
  /\ due' = [due EXCEPT ![x] = now + GW]
  /\ UNCHANGED <<now, pend, net, sent, ncrash>>

\* memberlist push-pull: two connected instances exchange their whole notification log over
\* the reliable channel (periodically, and when an instance joins); each keeps the newer entry
PushPull(x, y) ==
  /\ x # y /\ up[x] /\ up[y] /\ nfl[x] # nfl[y]
  /\ LET m == IF nfl[x] > nfl[y] THEN nfl[x] ELSE nfl[y]
     IN nfl' = [nfl EXCEPT ![x] = m, ![y] = m]
  /\ UNCHANGED <<now, up, due, pend, net, sent, ncrash>>

Urgent == \/ \E x \in Inst : up[x] /\ ((due[x] <= now /\ pend[x].at = -1) \/ (pend[x].at # -1 /\ pend[x].at <= now))
          \/ \E m \in net : m.by <= now
Tick == /\ ~Urgent /\ now < MaxTime /\ now' = now + 1
        /\ UNCHANGED <<up, nfl, due, pend, net, sent, ncrash>>

Next == \/ \E x \in Inst : FlushStart(x) \/ Dedup(x) \/ Crash(x) \/ Restart(x)
        \/ \E x, y \in Inst : PushPull(x, y)
        \/ \E m \in net : Deliver(m) \/ Lose(m)
        \/ Tick
Spec == Init /\ [][Next]_vars

-----------------------------------------------------------------------------
MaxWait == (Cardinality(Inst) - 1) * PT
\* at least one notification under every fault: once the alert has fired for longer than the
\* batching bound there is a delivered notification, and the latest one is never older than
\* repeat_interval + group_interval + the waits (restarts re-arm group_wait)
Last == IF sent = << >> THEN -1 ELSE sent[Len(sent)].t
AtLeastOnce ==
  /\ (now > GW + GI + MaxWait + 1) => sent # << >>
  /\ (sent # << >>) => now - Last <= RI + 2 * GI + GW + MaxWait + 1

\* no duplicates when healthy: without loss, crashes and with gossip faster than the peer
\* timeout, two deliveries are more than repeat_interval apart
Healthy == ~Lossy /\ Crashes = 0 /\ MaxDelay < PT
NoDupWhenHealthy ==
  Healthy => \A i \in 1..Len(sent) : \A j \in 1..Len(sent) : i < j => sent[j].t - sent[i].t > RI
\* operative form under any fault: an instance that delivers did not know of a notification
\* younger than repeat_interval
SilentIfCovered ==
  [][\A x \in Inst : (Len(sent') > Len(sent) /\ sent'[Len(sent')].x = x) =>
        (nfl[x] = -1 \/ nfl[x] < pend[x].tick - RI)]_vars
=============================================================================
