"""C20 - notify only on change or after repeat_interval; repeats arrive on time."""
import json
from lib import vlib
from checks import e2ecommon, c20p

PID = "C20"


def run(tier, v):
    e = e2ecommon.run_e2e(PID, tier, v)
    drift = e2ecommon.judge(PID, v, e, {"C20"}, also={"C06_payload_not_from_flush", "C06_payload_is_a_delta"})   # "lists exactly the alerts of the batch"
    ok_attempts = sum(1 for l in e["lines"] if '"ev":"attempt"' in l and '"outcome":"ok"' in l)
    if ok_attempts < 50:
        raise vlib.Inconclusive("too few delivered notifications (%d)" % ok_attempts)
    cov = e2ecommon.coverage(e, "one case = one scenario run; non-trivial = number of delivered notifications each judged by Justified(prev, cur) "
                                "(new firing alert / new resolved alert with send_resolved / repeat_interval elapsed / cycle break)", ok_attempts)
    cov["drift"] = drift
    # payload half: template data, webhook max_alerts, truncation (Delivery.tla)
    pay = c20p.run_payload(PID, tier, v)
    cov["payload"] = pay
    for k in ("states", "transitions", "evaluations"):
        if isinstance(pay.get(k), int):
            cov[k] = cov.get(k, 0) + pay[k]
    return "model_checking", cov, e2ecommon.ASSUMPTIONS + ["payload half: non-empty label values, valid UTF-8 inputs, limits >= 0; other integrations' templates are not replayed"]


def replay(path, v):
    raise vlib.Inconclusive("replay of a recorded scenario: run `bin/check C20` with the VERIF_SEED printed in the evidence")
