"""C19 - gossip transport delivers every state update to every live peer.

Spec: spec/Gossip.tla (per node: registered states as grow-only sets, memberlist's
TransmitLimitedQueue transcribed, one bounded oversize queue + worker + counters per
state key, reliable sends, NotifyMsg, LocalState/MergeRemoteState, Join, crash,
injected byte strings by structure).
MC: spec/mc/MC_Gossip*.cfg (exhaustive, several focused configurations; one liveness
configuration under fairness without state constraint; one strict configuration that
must exhibit F5 on the model).
Bind: network schedules simulated by TLC from Gen_Gossip (2, 3 and 4 nodes) are executed
on an in-memory mesh of REAL cluster.delegate + REAL cluster.Channel + REAL
silence.Silences / nflog.Log (harness/c19); the harness is the network.
Real peers: spec/GossipPeers.tla (membership as a real cluster.Peer sees it: join, leave,
crash, replaced peer, restart + reconnect; the list of a reliable send is the CURRENT
membership; Settle / readiness) is model-checked (MC_GossipPeers*.cfg; the cached send list
and the stuck settle timeout must fail) and its TLC-generated schedules are replayed on
2-6 REAL cluster.Peers (cluster.Create, memberlist on 127.0.0.1) by harness/peer through
checks/peercommon.py, with control evidence for every "not delivered" verdict.  Transport
dimension: the schedules run over the default transport (UDP packets) and over the TLS gossip
transport (cluster.tls-config: pooled connections; a failed write invalidates the connection and
the next packet redials - the "never redial" variant must fail in TLC), with the fault "reset of
the established connections towards a running member"."""
import json, os, re, hashlib, concurrent.futures
from lib import vlib
from lib.vlib import log
from checks import peercommon

PID = "C19"

QUICK_MC = [("MC_Gossip.cfg", 300), ("MC_Gossip_bad.cfg", 300), ("MC_Gossip_over.cfg", 400), ("MC_Gossip_live.cfg", 400)]
THOROUGH_MC = [("MC_Gossip_3.cfg", 2400), ("MC_Gossip_join.cfg", 2400)]

F5_TEXT = ("delegate.MergeRemoteState returns at the first part whose State.Merge fails: the understood parts after it "
           "in the same full-state exchange are not merged")


def check_constants():
    """The constants of the specification that restate the code."""
    repo = vlib.REPO
    src = open(os.path.join(repo, "cluster", "cluster.go")).read()
    m = re.search(r"MaxGossipPacketSize\s*=\s*(\d+)", src)
    ch = open(os.path.join(repo, "cluster", "channel.go")).read()
    c = re.search(r"msgc:\s*make\(chan \[\]byte, (\d+)\)", ch)
    gen = open(os.path.join(vlib.SPEC, "mc", "Gen_Gossip.cfg")).read()
    if not m or int(m.group(1)) != int(re.search(r"MaxPacket = (\d+)", gen).group(1)):
        raise vlib.Inconclusive("MaxPacket of Gen_Gossip.cfg differs from cluster.MaxGossipPacketSize")
    # the capacity is compared with cap(Channel.msgc) by the harness as well
    if c and int(c.group(1)) != int(re.search(r"OversizeCap = (\d+)", gen).group(1)):
        log("  note: cap(Channel.msgc) in the source differs from OversizeCap of Gen_Gossip.cfg (the harness will report it)")


def gen(name, cfg, out_path, num, seed, timeout):
    """TLC -simulate with the run's seed; de-duplicated @@H lines."""
    raw = out_path + ".raw"
    r = vlib.tlc(PID, name, "Gen_Gossip", cfg, workers=4, timeout=timeout, simulate="num=%d" % num, depth=70,
                 marker="@@H ", payload_to=raw, extra=["-seed", str(seed)])
    if r.violated:
        raise vlib.Inconclusive("Gen %s: %s violated on the specification during simulation (see %s)" % (cfg, r.violated, r.stdout_path))
    if (r.error and not r.timed_out) or (r.rc != 0 and not r.timed_out):
        raise vlib.Inconclusive("Gen %s: TLC failed: %s (see %s)" % (cfg, r.error, r.stdout_path))
    # Emit is evaluated on every candidate successor of the last step, so one simulated trace prints
    # several lines that differ in the last element only: keep one line per trace.
    seen, n = set(), 0
    with open(raw) as f, open(out_path, "w") as o:
        for line in f:
            cut = line.rfind('{"e":')
            h = hashlib.sha1(line[:cut].encode()).digest()
            if h in seen:
                continue
            seen.add(h)
            o.write(line)
            n += 1
    os.remove(raw)
    r.behaviours = n
    return r


def judge(v, r, wd, tag, known_open, txt=""):
    """Verdict policy for the disagreements of one replay.  Returns (drift, f5)."""
    drift = 0
    for m in r["mismatches"]:
        cls = m.get("class", "")
        rp = os.path.join(wd, "%s_case_%d.json" % (tag, m["case"]))
        if m.get("replay") is not None:
            json.dump(m["replay"], open(rp, "w"))
        if cls == "harness":
            raise vlib.Inconclusive("harness: %s want %s got %s" % (m["what"], m.get("want"), m.get("got")))
        if cls == "F5":
            text = "%s (real delegate, replay %s step %d: every understood part merged would give %s, the node holds %s)" % (
                F5_TEXT, rp, m["step"], json.dumps(m.get("want")), json.dumps(m.get("got")))
            if known_open:
                v.known_finding("F5", text)
            else:
                v.violation(text, [rp])
            continue
        if cls in ("queue", "packet"):
            drift += 1
            if drift <= 3:
                v.notes.append("DRIFT property=%s %s at step %d of %s: specification %s, real code %s" % (
                    PID, m["what"], m["step"], rp, json.dumps(m.get("want"))[:300], json.dumps(m.get("got"))[:300]))
            continue
        v.violation("%s (step %d of a network schedule): specification %s, real code %s" %
                    (m["what"], m["step"], json.dumps(m.get("want"))[:600], json.dumps(m.get("got"))[:600]), [rp])
    return drift


def run_replay(binp, inp, out):
    rc, txt = vlib.go_run_test(binp, "TestReplay$", ["-in", inp, "-out", out], timeout=3000)
    return rc, txt


def run(tier, v):
    check_constants()
    wd = os.path.join(vlib.OUT, PID)
    thorough = tier == "thorough"
    seed = vlib.seed()
    known_open = [f for f in vlib.known_findings(PID) if f["key"] == "F5"]

    # 1. the design: exhaustive model checking (several focused configurations, in parallel);
    #    at the same time TLC simulates the network schedules for step 2
    cfgs = (list(reversed(THOROUGH_MC)) if thorough else []) + QUICK_MC      # longest first
    if os.environ.get("C19_SKIP_MC") and vlib.REPO != "/repo":
        cfgs = cfgs[-4:-3]      # mutation self-tests of the Go code: the model is unchanged
    plan = [("g3", "Gen_Gossip.cfg", 3000 if thorough else 40), ("g2", "Gen_Gossip_2.cfg", 1000 if thorough else 18),
            ("g4", "Gen_Gossip_4.cfg", 1000 if thorough else 18)]
    def mc(c):
        cfg, to = c
        return cfg, vlib.tlc(PID, "mc_" + cfg[:-4], "MC_Gossip", cfg, workers=4, timeout=to)
    def dogen(p):
        name, cfg, num = p
        gp = os.path.join(wd, "gen_%s.jsonl" % name)
        return gen("gen_" + name, cfg, gp, num, seed, 2400 if thorough else 300), gp
    skip_mc = bool(os.environ.get("C19_SKIP_MC") and vlib.REPO != "/repo")
    with concurrent.futures.ThreadPoolExecutor(max_workers=3) as ex, concurrent.futures.ThreadPoolExecutor(max_workers=3) as gx, \
            concurrent.futures.ThreadPoolExecutor(max_workers=1) as px:
        gens_f = [gx.submit(dogen, p) for p in plan]
        strict_f = ex.submit(vlib.tlc, PID, "mc_strict", "MC_Gossip", "MC_Gossip_strict.cfg", 2, 300)
        peers_f = px.submit(peercommon.model_check, PID, tier, ["MC_GossipPeers_cached.cfg"] if skip_mc else None)
        mcs = list(ex.map(mc, cfgs))
        strict = strict_f.result()
        gens = [f.result() for f in gens_f]
        pstates, ptrans, pper = peers_f.result()
    states = transitions = 0
    for cfg, r in mcs:
        vlib.tlc_must_pass(r, cfg)
        log("  %s: %d states generated, %d distinct, depth %d, %.1fs" % (cfg, r.generated, r.distinct, r.depth, r.wall))
        states += r.distinct
        transitions += r.generated
    states += pstates
    transitions += ptrans
    f5_in_model = strict.violated == "BadInputHarmlessStrict"
    if not f5_in_model and known_open:
        raise vlib.Inconclusive("MC_Gossip_strict: the implementation layer of Gossip.tla no longer exhibits F5 (%s, %s)" % (strict.violated, strict.error))
    log("  MC_Gossip_strict (no F5 excuse): %s" % ("BadInputHarmlessStrict violated, as expected while F5 is open" if f5_in_model else "holds"))

    # 2. bind: the network schedules executed on the real mesh
    binp = vlib.go_build_test(PID, "c19")
    def do(x):
        (name, cfg, num), (g, gp) = x
        out = os.path.join(wd, "replay_%s.json" % name)
        rc, txt = run_replay(binp, gp, out)
        return name, cfg, g, gp, out, rc, txt
    with concurrent.futures.ThreadPoolExecutor(max_workers=3) as ex:
        runs = list(ex.map(do, zip(plan, gens)))
    results, drift, total = [], 0, 0
    for name, cfg, g, gp, out, rc, txt in runs:
        if rc != 0:
            if "panic:" in txt or "fatal error:" in txt:
                tp = os.path.join(wd, "panic_%s.txt" % name)
                open(tp, "w").write(txt)
                v.violation("the real transport code panicked while executing a network schedule of %s:\n%s" % (cfg, txt[-1500:]), [tp, gp])
                continue
            raise vlib.Inconclusive("replay harness failed on %s:\n%s" % (cfg, txt[-3000:]))
        r = vlib.load_result(out)
        log("  %s: %d schedules, %d steps, %d disagreements, F5 reproduced %d times" % (
            cfg, r["cases"], r["steps"], r["n_mismatches"], r["counters"].get("F5", 0)))
        if g.behaviours < (2000 if thorough else 40):
            raise vlib.Inconclusive("Gen %s produced only %d schedules" % (cfg, g.behaviours))
        drift += judge(v, r, wd, name, known_open)
        results.append(r)
        total += r["cases"]
    counters = {}
    for r in results:
        for k, n in r["counters"].items():
            counters[k] = counters.get(k, 0) + n
    if results and not v.violations:
        # vacuity: the critical regions were reached
        need = ["route_gossip", "route_oversize", "route_dropped", "reliable_delivered", "reliable_failed", "deliver_new",
                "op_join", "op_crash", "op_pushpull", "op_lose", "inject_garbage", "inject_unk", "inject_trunc", "inject_nilent",
                "inject_empty", "injectfull", "burst_dropped"]
        missing = [k for k in need if not counters.get(k)]
        if missing:
            raise vlib.Inconclusive("the generated schedules never reached: %s" % missing)
    if known_open and results and not counters.get("F5"):
        v.notes.append("KNOWN-FINDING-NOT-REPRODUCED property=%s F5 (%d injected full states merged every understood part; "
                       "%d schedules stopped there because the specification's implementation layer still has the defect)" %
                       (PID, counters.get("injectfull", 0), counters.get("F5_not_reproduced", 0)))
    nontrivial = sum(r["nontrivial"] for r in results)

    # 3. thorough only, advisory: real memberlist clusters on loopback (cluster.Create, Peer.AddState, Peer.Join)
    loopback = []
    if thorough:
        for n in (2, 3, 4):
            out = os.path.join(wd, "loopback_%d.json" % n)
            try:
                rc, txt = vlib.go_run_test(binp, "TestLoopback$", ["-n", str(n), "-depth", "30", "-out", out], timeout=200)
            except vlib.Inconclusive as e:
                loopback.append("%d peers: %s" % (n, e))
                continue
            if rc != 0 and ("panic:" in txt or "fatal error:" in txt):
                tp = os.path.join(wd, "loopback_panic_%d.txt" % n)
                open(tp, "w").write(txt)
                v.violation("panic in a real memberlist cluster of %d peers on loopback:\n%s" % (n, txt[-1500:]), [tp])
                continue
            if rc != 0 or not os.path.exists(out):
                loopback.append("%d peers: did not run (%s)" % (n, txt[-200:].strip()))
                continue
            lr = vlib.load_result(out)
            for m in lr["mismatches"]:
                v.violation("loopback cluster of %d peers: %s: %s" % (n, m["what"], m.get("got")), [out])
            loopback.append("%d peers: %s" % (n, "converged (small and oversized silences and log entries on every peer)"
                                              if lr["counters"].get("converged") else "; ".join(lr.get("notes") or ["no result"])))
        log("  loopback (advisory): " + " | ".join(loopback))
    # 4. real cluster.Peers on loopback (memberlist), schedules from Gen_GossipPeers, control evidence
    peer_cov = peercommon.run_real_peers(PID, tier, v)
    samples = []
    for r in results:
        if r["samples"]:
            samples.append(json.loads(json.dumps(r["samples"][0]))[:5])
            break
    cov = {
        "states": states, "transitions": transitions,
        "mc_configurations": dict({cfg: {"distinct": r.distinct, "generated": r.generated, "depth": r.depth} for cfg, r in mcs}, **pper),
        "liveness_checked": "DeliveredEventually under WF(push/pull) without state constraint (MC_Gossip_live.cfg)",
        "f5_counterexample_in_model": f5_in_model,
        "traces_validated_against_impl": total + peer_cov["schedules_replayed"],
        "replay_steps": sum(r["steps"] for r in results) + peer_cov["steps"],
        "evaluations": total + peer_cov["schedules_replayed"],
        "distinct_nontrivial": nontrivial + peer_cov["nontrivial"],
        "real_peers": peer_cov,
        "rule": "a case is one network schedule (60 steps) printed by TLC -simulate from Gen_Gossip for 2, 3 or 4 nodes; "
                "non-trivial = the schedule delivers an oversized update over the reliable channel AND a gossip packet that "
                "merges something new; real-peer stage: a case is one schedule of 25 steps printed by TLC -simulate from "
                "Gen_GossipPeers (2, 3 or 4 initial peers, up to 2 stops and 2 joins / restarts) replayed on real cluster.Peers; "
                "non-trivial = an oversized update is broadcast to a connected peer after a membership change",
        "counters": counters,
        "drift": drift,
        "loopback_advisory": loopback,
        "samples": samples,
        "bounds": "MC: 2 nodes x {small, oversized} updates with loss+duplication; 2 nodes with every injected byte-string class "
                  "(full states of up to 3 parts); 3 nodes with crash, stale membership, burst on a full oversize queue (cap 1); "
                  "liveness 2 nodes; thorough adds 3 nodes x two near-limit gossip messages and 3-node join orders. "
                  "Gen: %d distinct simulated schedules of 60 steps, 2/3/4 nodes, 11 updates with marshalled part sizes 700/701/708/709 around the limit, oversize queue "
                  "capacity 200 (bursts of 199..205), <=4 lost and <=3 duplicated packets, <=2 crashes, <=5 injections per schedule. "
                  "GossipPeers MC: 3 identities (2 initial + 1 spare) x 2 oversized / 1 small + 1 oversized updates, 1 stop, 1 join or restart; "
                  "readiness 3 identities, settle budgets 0 / 6 polls; TLS transport 2 identities x 2 small updates, 2 resets, 1 stop, 1 restart; "
                  "thorough 4 identities. Real peers: %d schedules, part sizes "
                  "150 / 420 / 700 (gossiped) and 701 / 709 / 1500 / 3100 (reliable)" % (total, peer_cov["schedules_replayed"]),
    }
    return "model_checking", cov, [
        "memberlist itself (failure detection, UDP/TCP, its use of Delegate: GetBroadcasts(3, 1398) per gossip target, NotifyMsg for "
        "packets and reliable messages, LocalState/MergeRemoteState on push/pull and join) is trusted; the in-memory stages restate its "
        "calls, the real-peer stage runs it",
        "the in-memory stages build their delegate and Channels through harness/overlay/cluster/verif_export.go without a memberlist; "
        "Create (retransmit, GossipNodes) and AddState's closures (send, peers = current Members() without self, sendOversize = "
        "SendReliable) are no longer trusted restatements: the real-peer stage runs the repository's own Create / AddState / Join / "
        "Leave / reconnect on real peers",
        "updates are distinct silences / log entries (grow-only); last-writer-wins of versions is C09/C10",
        "bounded response of the gossip path is claimed only for updates never left behind by a full packet "
        "(two near-limit messages queued together can miss a peer without any counter; push/pull repairs it)",
        "F5 is a listed known finding; any other deviation of state or of the dropped/failure counters is a violation",
    ] + peercommon.ASSUMPTIONS


def replay(path, v):
    binp = vlib.go_build_test(PID, "c19")
    wd = os.path.join(vlib.OUT, PID)
    data = json.load(open(path))
    if isinstance(data, dict) and "peer_schedule" in data:
        peercommon.replay(PID, path, v)
        return
    inp = os.path.join(wd, "replay_in.jsonl")
    open(inp, "w").write(json.dumps(data) + "\n")
    out = os.path.join(wd, "replay_out.json")
    rc, txt = run_replay(binp, inp, out)
    if rc != 0:
        v.violation("replay failed / panicked:\n" + txt[-1500:], [path])
        return
    r = vlib.load_result(out)
    known_open = [f for f in vlib.known_findings(PID) if f["key"] == "F5"]
    judge(v, r, wd, "replay", known_open)
