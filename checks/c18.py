"""C18 - configured limits hold and never hurt what was already admitted.

Per-alert-name limit: spec/Alerts.tla (limit.Bucket transcribed: heap slice, Upsert, IsStale as
implemented vs AllExpired; stale buckets dropped at alert GC).  MC: MC_Alerts_limit*.cfg.  Bind:
behaviours from Gen_Alerts_limit (N = 1, 2, 3 [4]) replayed through the real mem.NewAlerts(limit) +
POST/GET /api/v2/alerts + GC ticker + alertmanager_alerts_limited_total; the limit clauses are also
evaluated directly on what the real code shows.
Silence limits: Silences.tla (MaxSilences, TooBig), MC_Silences_life.cfg, Gen_Silences behaviours
replayed on the real silence.Silences (checks/silcommon).
Per-alert-name limit at the level of the statement: spec/mc/LimitsName.tla (the SET of unexpired
admitted alerts; alert GC is not an action, it has to be invisible), MC_LimitsName.cfg; Gen_LimitsName:
exhaustive fill / wait / probe families (every assignment of end times from 5 values to the admissions =
every admission order, every waiting time, GC between any two instants) for N = 4, 5, 6 and simulated
behaviours for N = 4, 5, 6, replayed through the real provider + API + GC ticker (TestNameLimit).
GET concurrency: spec/Limits.tla (semaphore + request timeout: a request ends for the client by timeout
while its handler keeps running; the property is stated over the handlers RUNNING), MC_Limits.cfg,
Gen_Limits behaviours (simulated and exhaustive short ones) replayed on the real api.New(...) handler
chain with Timeout and Concurrency configured, the GET handlers gated from outside (TestLimiter).

Known finding F4 (known_findings.d/C18.json): Bucket.IsStale looks at the last heap slice element."""
import json, os, re
from concurrent.futures import ThreadPoolExecutor
from lib import vlib
from lib.vlib import log
from checks import c13 as cx
from checks import silcommon

PID = "C18"
LIMIT_CLASSES = ("overlimit", "resend", "counter", "admission", "concurrency")
SHARDS = 6


def replay_sharded(binp, test, gen_path, lib_path, out_prefix, shards=SHARDS):
    """Replay the behaviours of gen_path in `shards` processes of the harness (line i goes to shard i % shards)."""
    n = vlib.count_lines(gen_path)
    shards = max(1, min(shards, n // 50))
    if shards == 1:
        return cx.run_replay(binp, test, gen_path, lib_path, out_prefix + ".json")
    parts = [open("%s.in%d" % (out_prefix, k), "w") for k in range(shards)]
    with open(gen_path) as f:
        for i, line in enumerate(f):
            parts[i % shards].write(line)
    for p in parts:
        p.close()
    with ThreadPoolExecutor(shards) as ex:
        rs = list(ex.map(lambda k: cx.run_replay(binp, test, "%s.in%d" % (out_prefix, k), lib_path, "%s.%d.json" % (out_prefix, k)), range(shards)))
    out = {"cases": 0, "steps": 0, "nontrivial": 0, "counters": cx.sum_counters(rs), "mismatches": [], "n_mismatches": 0, "samples": rs[0]["samples"]}
    for k, r in enumerate(rs):
        for key in ("cases", "steps", "nontrivial", "n_mismatches"):
            out[key] += r[key]
        for m in r["mismatches"]:
            m["case"] = m["case"] * shards + k
            out["mismatches"].append(m)
        os.remove("%s.in%d" % (out_prefix, k))
    out["mismatches"].sort(key=lambda m: (m["case"], m["step"]))
    return out


def namelimit_stage(binp, wd, thorough):
    """LimitsName: model check, generate (exhaustive families + simulation), replay.  Returns (mc, runs) with
    runs = [(label, lib_path, result)]."""
    mc = vlib.tlc(PID, "mc_name", "MC_LimitsName", "MC_LimitsName_thorough.cfg" if thorough else "MC_LimitsName.cfg", workers=4, timeout=300)
    vlib.tlc_must_pass(mc, "MC_LimitsName")
    log("  MC_LimitsName: %d states generated, %d distinct" % (mc.generated, mc.distinct))
    gcs = "{1, 2, 3}" if thorough else "{1}"
    # (N, Fill, FillEnds, Distinct, Waits, GCPers): every assignment of the end times to the admissions, every waiting time
    w7 = "{1, 2, 3, 4, 5, 6, 7}"
    fams = [(4, 4, "{1, 2, 3, 4, 6}", "FALSE", w7, gcs),
            (5, 5, "{1, 2, 3, 4, 6}", "TRUE", w7, gcs),
            (6, 5, "{1, 2, 3, 4, 6}", "TRUE", w7, gcs)]
    if thorough:
        fams += [(4, 5, "{1, 2, 3, 4, 6}", "TRUE", w7, gcs),
                 (5, 4, "{1, 2, 3, 4, 6}", "FALSE", w7, gcs),
                 (5, 5, "{1, 2, 3, 4, 6}", "FALSE", "{2, 3, 4, 5, 6}", "{1}"),
                 (6, 6, "{1, 2, 3, 4, 6, 7}", "TRUE", "{2, 3, 4, 5, 6, 7}", gcs)]
    jobs = []
    for n, fill, ends, distinct, waits, fgcs in fams:
        name = "name_exh_n%d_f%d%s" % (n, fill, "d" if distinct == "TRUE" else "")
        cfgp = cx.derive_cfg(PID, "Gen_LimitsName_exh.cfg", "Gen_%s.cfg" % name, N="= %d" % n, Fill="= %d" % fill, FillEnds="= " + ends,
                             Distinct="= " + distinct, Waits="= " + waits, Fresh="= %d" % n, GCPers="= " + fgcs)
        jobs.append((name, "N=%d, %d admissions, %s end times from %s, waits %s, GC periods %s" %
                     (n, fill, "pairwise distinct" if distinct == "TRUE" else "all", ends, waits, fgcs), cfgp, None))
    for n in ((2, 3, 4, 5, 6) if thorough else (4, 5, 6)):
        name = "name_sim_n%d" % n
        cfgp = cx.derive_cfg(PID, "Gen_LimitsName.cfg", "Gen_%s.cfg" % name, N="= %d" % n)
        jobs.append((name, "N=%d, simulated" % n, cfgp, "num=%d" % (150 if thorough else 15)))

    def one(job):
        name, label, cfgp, sim = job
        gp, lp = os.path.join(wd, "gen_%s.jsonl" % name), os.path.join(wd, "lib_%s.json" % name)
        g = cx.tlc_gen(PID, "gen_" + name, "Gen_LimitsName", os.path.basename(cfgp), gp, lp, simulate=sim, depth=45 if sim else None,
                       workers=4, timeout=900, files=[cfgp])
        if g.behaviours < 100:
            raise vlib.Inconclusive("Gen %s produced only %d behaviours" % (name, g.behaviours))
        r = replay_sharded(binp, "TestNameLimit$", gp, lp, os.path.join(wd, "replay_" + name))
        log("  replay per-name limit (%s): %d behaviours, %d steps, %d disagreements, counters %s" % (label, r["cases"], r["steps"], r["n_mismatches"], r["counters"]))
        return (label, lp, r)

    with ThreadPoolExecutor(2) as ex:
        runs = list(ex.map(one, jobs))
    return mc, runs


def limiter_stage(binp, wd, thorough):
    """Limits.tla: model check, generate (simulation + exhaustive short behaviours), replay.  Returns (mc, runs) with
    runs = [(k, t, result)]."""
    sem = vlib.tlc(PID, "mc_sem", "MC_Limits", "MC_Limits.cfg", workers=4, timeout=120, coverage=True)
    vlib.tlc_must_pass(sem, "MC_Limits.cfg")
    if [a for a, (d, g) in sem.coverage.items() if a.startswith("Next@") and g == 0]:
        raise vlib.Inconclusive("MC_Limits: an action was never taken")
    log("  MC_Limits.cfg: %d states generated, %d distinct" % (sem.generated, sem.distinct))
    # (K, T, exhaustive history length or None for simulation)
    jobs = [(1, 2, None), (2, 2, None), (3, 2, None), (2, 0, None), (1, 2, 5), (2, 1, 5)]
    if thorough:
        jobs = [(k, t, None) for k in (1, 2, 3, 4) for t in (0, 1, 2, 3)] + [(k, t, 6) for k in (1, 2, 3) for t in (1, 2, 3)]
    runs = []
    for k, t, exh in jobs:
        name = "sem_k%d_t%d%s" % (k, t, "_exh" if exh else "")
        if exh:
            cfgp = cx.derive_cfg(PID, "Gen_Limits_exh.cfg", "Gen_%s.cfg" % name, K="= %d" % k, T="= %d" % t, HistLen="= %d" % exh)
        else:
            cfgp = cx.derive_cfg(PID, "Gen_Limits.cfg", "Gen_%s.cfg" % name, K="= %d" % k, T="= %d" % t)
        gp, lp = os.path.join(wd, "gen_%s.jsonl" % name), os.path.join(wd, "lib_%s.json" % name)
        cx.tlc_gen(PID, "gen_" + name, "Gen_Limits", os.path.basename(cfgp), gp, lp, simulate=None if exh else "num=%d" % (200 if thorough else 15),
                   depth=None if exh else 24, workers=4, timeout=600, files=[cfgp])
        r = replay_sharded(binp, "TestLimiter$", gp, lp, os.path.join(wd, "replay_" + name), shards=3)
        log("  replay limiter K=%d timeout=%d%s: %d behaviours, %d steps, %d disagreements, counters %s" %
            (k, t, " (all histories of %d steps)" % exh if exh else "", r["cases"], r["steps"], r["n_mismatches"], r["counters"]))
        runs.append((k, t, r))
    return sem, runs


def run_f4(binp, wd):
    out = os.path.join(wd, "f4.json")
    rc, txt = vlib.go_run_test(binp, "TestF4$", ["-out", out])
    if rc != 0:
        raise vlib.Inconclusive("TestF4 failed:\n" + txt[-3000:])
    return vlib.load_result(out), out


def run(tier, v):
    wd = os.path.join(vlib.OUT, PID)
    thorough = tier == "thorough"
    binp = vlib.go_build_test(PID, "c18")
    known = {f["key"]: f for f in vlib.known_findings(PID)}
    # stages 4 (GET limiter) and 5 (per-name limit at the level of the statement) are independent of the rest: run beside it
    pool = ThreadPoolExecutor(3)
    fut_name = pool.submit(namelimit_stage, binp, wd, thorough)
    fut_lim = pool.submit(limiter_stage, binp, wd, thorough)
    fut_sil = pool.submit(silcommon.run_pipeline, PID, tier, v, ["MC_Silences_Limits.cfg", "MC_Silences_life.cfg"] if thorough else ["MC_Silences_Limits.cfg"],
                          sim_num=100 if thorough else 25)

    # 0. the representative history of finding F4 on the real code
    f4, f4path = run_f4(binp, wd)
    c = f4["counters"]
    reproduced = c.get("over_limit", 0) > 0 or c.get("resend_refused", 0) > 0
    f4text = ("per-alert-name limit 3: %d unexpired alerts of one name shown%s after alert GC dropped the name's bucket while an admitted alert "
              "had not expired (Bucket.IsStale looks at the last heap slice element); history: %s" %
              (c.get("unexpired_shown", 0), ", re-send of the admitted alert refused" if c.get("resend_refused") else "", " | ".join(f4.get("notes", []))))
    if c.get("silent_refusal"):
        v.violation("a refused alert was not counted by alertmanager_alerts_limited_total: " + " | ".join(f4.get("notes", [])), [f4path])
    excuse = False
    if reproduced and "F4" in known:
        v.known_finding("F4", f4text)
        excuse = True
    elif reproduced:
        v.violation(f4text, [f4path])
        excuse = True           # keep judging everything else against the faithful model
    elif "F4" in known:
        v.notes.append("KNOWN-FINDING-NOT-REPRODUCED: property=%s F4 (the representative history stays within the limit); "
                       "the specification is checked and replayed with the repaired stale rule, nothing is excused" % PID)
    stale = '"impl"' if excuse else '"ref"'
    gaps = '{"F4"}' if excuse else "{}"

    # 1. the design
    mcs = []
    if excuse:
        cfg = "MC_Alerts_limit_thorough.cfg" if thorough else "MC_Alerts_limit.cfg"
        mcs.append(cx.mc_run(PID, "mc_limit", "MC_Alerts", cfg, timeout=2400 if thorough else 300, cov_maxtime=1))
        # the model must show the finding when it is not excused
        ng = vlib.tlc(PID, "mc_limit_nogap", "MC_Alerts", "MC_Alerts_limit_nogap.cfg", workers=8, timeout=300)
        if ng.violated != "LimitHoldsOrKnown":
            raise vlib.Inconclusive("MC_Alerts_limit_nogap.cfg: expected TLC to find more than N unexpired alerts (finding F4), got %s %s (see %s)" %
                                    (ng.violated, ng.error, ng.stdout_path))
        log("  MC_Alerts_limit_nogap.cfg: TLC finds the over-limit state of F4 after %d states (expected while F4 is open)" % ng.generated)
    if thorough or not excuse:
        # the repaired stale rule (AllExpired) satisfies every clause with nothing excused
        ref = cx.mc_run(PID, "mc_limit_ref", "MC_Alerts", "MC_Alerts_limit_ref.cfg", timeout=300, cov_maxtime=1)
        if not excuse:
            mcs.append(ref)

    # 2. per-alert-name limit: behaviours replayed through the real provider + API
    limits = (1, 2, 3, 4) if thorough else (1, 2, 3)
    num = 100 if thorough else 12
    results, drift, f4_cases = [], 0, 0
    for n in limits:
        cfgp = cx.derive_cfg(PID, "Gen_Alerts_limit.cfg", "Gen_Alerts_limit_%d.cfg" % n, Limit="= %d" % n, StaleRule="= " + stale, KnownGaps="= " + gaps)
        gp, lp = os.path.join(wd, "gen_limit_%d.jsonl" % n), os.path.join(wd, "lib_limit_%d.json" % n)
        g = cx.tlc_gen(PID, "gen_limit_%d" % n, "Gen_Alerts", os.path.basename(cfgp), gp, lp, simulate="num=%d" % num, depth=45,
                       workers=8, timeout=1200, files=[cfgp])
        if g.behaviours < 40:
            raise vlib.Inconclusive("Gen limit %d produced only %d behaviours" % (n, g.behaviours))
        r = cx.run_replay(binp, "TestReplay$", gp, lp, os.path.join(wd, "replay_limit_%d.json" % n))
        log("  replay limit %d: %d behaviours, %d steps, %d disagreements, counters %s" % (n, r["cases"], r["steps"], r["n_mismatches"], r["counters"]))
        for m in r["mismatches"]:
            cls = m.get("class")
            if cls == "F4":
                f4_cases += 1
                if "F4" in known and reproduced:
                    v.known_finding("F4", f4text)
                else:
                    v.violation("limit %d: %s" % (n, m["what"]), [cx.save_case(wd, m, lp, "n%d_" % n)])
            elif cls in LIMIT_CLASSES:
                v.violation("limit %d: %s at step %d (%s): specification %s, real code %s" %
                            (n, m["what"], m["step"], cls, json.dumps(m.get("want"))[:500], json.dumps(m.get("got"))[:500]),
                            [cx.save_case(wd, m, lp, "n%d_" % n)])
            else:
                drift += 1     # merge / visibility / GC of alerts: judged by C13
        results.append(r)
    cnt = cx.sum_counters(results)
    if not v.violations:
        for k, need in {"refusals": 50, "resends_of_unexpired": 50, "gc_deleted": 20}.items():
            if cnt.get(k, 0) < need:
                raise vlib.Inconclusive("limit replay reached too few cases of %s (%d < %d)" % (k, cnt.get(k, 0), need))
    if cnt.get("gap_not_reproduced", 0):
        v.notes.append("NOTE property=%s %d over-limit state(s) predicted by the specification were not shown by the real code" % (PID, cnt["gap_not_reproduced"]))

    # 3. silence limits (count incl. expired, encoded size; rejected create/edit changes nothing)
    # (quick: the limit clauses on a small configuration of MC_Silences - MC_Silences_life.cfg alone needs minutes;
    #  thorough: both)
    smcs, sgens, sresults = fut_sil.result()
    sil_limit_steps = 0
    for name, cfg, gp, lib, g in sgens:
        with open(gp) as f:
            for line in f:
                sil_limit_steps += len(re.findall(r'"res":"(?:limit|toobig)"', line))
    for r in sresults:
        for m in r["mismatches"]:
            owner = silcommon.classify(m)
            if owner == "harness":
                raise vlib.Inconclusive("silence harness problem: %s %s" % (m["what"], m.get("got")))
            if owner != PID:
                drift += 1
                continue
            rp = os.path.join(wd, "replay_sil_%d_%d.json" % (m["case"], m["step"]))
            json.dump(m.get("replay"), open(rp, "w"))
            v.violation("silence limits: %s at step %d: specification %s, real code %s" %
                        (m["what"], m["step"], json.dumps(m.get("want"))[:500], json.dumps(m.get("got"))[:500]), [rp])
    if sil_limit_steps < 20 and not v.violations:
        raise vlib.Inconclusive("silence behaviours contain only %d refused Set calls (limit / size)" % sil_limit_steps)
    log("  silences: %d behaviours replayed, %d Set calls refused by a limit" % (sum(r["cases"] for r in sresults), sil_limit_steps))

    # 4. GET concurrency limiter + request timeout
    sem, lruns = fut_lim.result()
    mcs.append(sem)
    lres = []
    for k, t, r in lruns:
        # the request timeout itself (a waiting client answered 503 after T) is not part of the statement of C18
        drift += len([m for m in r["mismatches"] if m.get("class") == "timeout"])
        ms = sorted([m for m in r["mismatches"] if m.get("class") != "timeout"], key=lambda m: (m.get("class") != "concurrency", m["case"], m["step"]))
        for m in ms[:3]:
            rp = os.path.join(wd, "replay_sem_%d_%d_%d_%d.json" % (k, t, m["case"], m["step"]))
            json.dump({"k": k, "t": t, "behaviour": m.get("replay")}, open(rp, "w"))
            v.violation("GET concurrency limit %d, request timeout %d: %s at step %d: specification %s, real code %s" %
                        (k, t, m["what"], m["step"], json.dumps(m.get("want"))[:300], json.dumps(m.get("got"))[:300]), [rp])
        lres.append(r)
    lcnt = cx.sum_counters(lres)
    if not v.violations:
        for key, need in {"refused_503": 20, "post_while_full": 20, "timed_out": 20, "finish_after_timeout": 20, "refused_while_timed_out_handlers_run": 10}.items():
            if lcnt.get(key, 0) < need:
                raise vlib.Inconclusive("limiter replay reached too few cases of %s: %s" % (key, lcnt))

    # 5. per-alert-name limit at the level of the statement (all admission orders, N up to 6)
    nmc, nruns = fut_name.result()
    pool.shutdown()
    mcs.append(nmc)
    nres = []
    for label, lp, r in nruns:
        for m in r["mismatches"][:2]:
            if m.get("class") == "merge":
                drift += 1
                continue
            rp = os.path.join(wd, "replay_name_%s_%d_%d.json" % (re.sub(r"\W+", "_", label)[:30], m["case"], m["step"]))
            json.dump({"namelimit": json.load(open(lp)), "behaviour": m.get("replay"), "failing_step": m["step"]}, open(rp, "w"))
            v.violation("per-alert-name limit (%s): %s at step %d (%s): specification %s, real code %s" %
                        (label, m["what"], m["step"], m.get("class"), json.dumps(m.get("want"))[:300], json.dumps(m.get("got"))[:300]), [rp])
        nres.append(r)
    ncnt = cx.sum_counters(nres)
    if not v.violations:
        for key, need in {"refusals": 200, "resends_of_unexpired": 200, "admitted_into_room_made_by_expiry": 200, "gc_deleted": 200}.items():
            if ncnt.get(key, 0) < need:
                raise vlib.Inconclusive("per-name limit replay reached too few cases of %s: %s" % (key, ncnt))

    if drift:
        v.notes.append("DRIFT property=%s %d disagreement(s) between code and specification that belong to other properties (C13 / C12; reported by their checks)" % (PID, drift))
    allres = results + sresults + lres + nres
    coverage = {
        "states": sum(m.distinct for m in mcs + smcs), "transitions": sum(m.generated for m in mcs + smcs),
        "traces_validated_against_impl": sum(r["cases"] for r in allres),
        "replay_steps": sum(r["steps"] for r in allres),
        "evaluations": sum(r["cases"] for r in allres),
        "distinct_nontrivial": sum(r["nontrivial"] for r in results + lres + nres) + sil_limit_steps,
        "counters": {"alert_limit": cnt, "name_limit_set_level": ncnt, "limiter": lcnt, "silence_sets_refused_by_limit": sil_limit_steps},
        "name_limit_runs": [{"run": label, "behaviours": r["cases"], "steps": r["steps"]} for label, lp, r in nruns],
        "limiter_runs": [{"k": k, "timeout": t, "behaviours": r["cases"], "steps": r["steps"]} for k, t, r in lruns],
        "f4": {"representative_reproduced": reproduced, "listed": "F4" in known, "cases_in_generated_behaviours": f4_cases,
               "over_limit_steps": cnt.get("F4_over_limit", 0), "resends_refused": cnt.get("F4_resend_refused", 0),
               "gc_steps_dropping_a_bucket_with_unexpired_alert": cnt.get("gc_dropped_bucket_with_unexpired_alert", 0),
               "stale_rule_modelled": stale.strip('"')},
        "drift": drift,
        "rule": "one evaluation = one distinct behaviour printed by TLC replayed on fresh real objects, every step compared: alert-limit behaviours of 40 steps "
                "(non-trivial = contains a refusal or an over-limit state), silence behaviours of 40 ops (non-trivial = Set refused by count or size limit), "
                "set-level per-name-limit behaviours (fill / wait / probe families of 13-24 steps, simulated ones of 40 steps; non-trivial = contains a refusal or an "
                "admission into room made by expiry), limiter behaviours of <= 18 steps (non-trivial = contains a 503 of the limiter)",
        "samples": [cx.trim_sample(results[-1]["samples"][0], 4)] if results and results[-1]["samples"] else [],
        "exhaustive": True,
        "bounds": "MC alert limit: N = 3, 4 label sets of one name, endsAt in {now-1, now+1, now+4%s}, time 0..%d, GC between instants; with the finding excused (F4Gap) and, "
                  "separately, with the repaired stale rule and nothing excused; Gen: N in %s, 8 label sets under 3 names, batches of 1-3, time 0..16, GC period in {1,2,3,5}; "
                  "silences: MC_Silences_Limits.cfg (count limit 2, oversize comment, time 0..4; thorough also MC_Silences_life.cfg) + 40-op behaviours; "
                  "per-name limit at set level (LimitsName): MC N = %d, %d+1 identities under 2 names, end offsets {0,1,3}, time 0..4; exhaustive families %s "
                  "(GC period 1 = a GC between any two instants), probe = N new alerts then a re-send of every filled alert; simulated N in %s, 9+2 identities under 2 names, end offsets {0,1,2,3,5,8}, GC period in {1,2,3}; "
                  "limiter: MC K = 2, timeout 2 ticks, 5 parked requests; Gen (K, timeout ticks; 0 = none) in %s: simulated behaviours of 18 steps and, for some, all histories of %d steps" %
                  (", missing" if thorough else "", 3 if thorough else 2, list(limits),
                   3 if thorough else 2, 4 if thorough else 3, [label for label, lp, r in nruns if "simulated" not in label],
                   [label.split(",")[0] for label, lp, r in nruns if "simulated" in label], sorted(set((k, t) for k, t, r in lruns)), 6 if thorough else 5),
    }
    assumptions = [
        "finding F4 is excused only for the exact state class F4Gap of Alerts.tla, and only while the representative history reproduces on the real code",
        "silence limits are exercised on silence.Silences.Set (the call the API handler makes), not through HTTP",
        "the limiter and the request timeout are exercised in-process (handler chain of api.New + Register with Concurrency and Timeout, http.TimeoutHandler included) with GET handlers "
        "gated in an injected GroupFunc / a route of the main router; the gated handler ignores the cancelled request context (as a handler waiting for a lock does); real sockets are not part of it",
        "'concurrent GET requests' of the statement = GET handlers that are running: a request answered by the timeout still counts until its handler returns (as wired on the unchanged tree: limiter inside the timeout handler)",
        "set-level per-name-limit behaviours submit one alert per POST with explicit startsAt (the instant of submission) and endsAt a quarter unit after a model instant; alert GC runs half a unit before "
        "the instants; an accepted re-send of an unexpired alert keeps the later end time (merge rule of provider/mem, judged by C13)",
        "exhaustive admission orders: 4 admissions under N = 4 with every assignment of 5 end times, 5 admissions under N = 5 and 6 with every order of 5 distinct end times (thorough: more); larger buckets only by simulation",
        "no two submissions of one label set at the same instant in the replayed behaviours; outcomes depending only on a comparison at equality are accepted either way",
        "unexpired = endsAt strictly after now; virtual time (testing/synctest) stands for the wall clock",
    ]
    return "model_checking", coverage, assumptions


def replay(path, v):
    data = json.load(open(path))
    if isinstance(data, dict) and "k" in data:
        wd = os.path.join(vlib.OUT, PID)
        binp = vlib.go_build_test(PID, "c18")
        inp, libp = os.path.join(wd, "replay_in.jsonl"), os.path.join(wd, "replay_lib.json")
        open(inp, "w").write(json.dumps(data["behaviour"]) + "\n")
        json.dump({"k": data["k"], "t": data.get("t", 0)}, open(libp, "w"))
        r = cx.run_replay(binp, "TestLimiter$", inp, libp, os.path.join(wd, "replay_out.json"))
        for m in r["mismatches"]:
            v.violation("replay: %s at step %d want %s got %s" % (m["what"], m["step"], m.get("want"), m.get("got")), [path])
        return
    if isinstance(data, dict) and "namelimit" in data:
        wd = os.path.join(vlib.OUT, PID)
        binp = vlib.go_build_test(PID, "c18")
        inp, libp = os.path.join(wd, "replay_in.jsonl"), os.path.join(wd, "replay_lib.json")
        open(inp, "w").write(json.dumps(data["behaviour"]) + "\n")
        json.dump(data["namelimit"], open(libp, "w"))
        r = cx.run_replay(binp, "TestNameLimit$", inp, libp, os.path.join(wd, "replay_out.json"))
        for m in r["mismatches"]:
            v.violation("replay: %s at step %d want %s got %s" % (m["what"], m["step"], m.get("want"), m.get("got")), [path])
        return
    if isinstance(data, dict) and "behaviour" in data:
        return cx.replay(path, v, pid=PID, pkg="c18")
    if isinstance(data, dict) and "notes" in data and "counters" in data:
        # result file of the representative history of finding F4: run it again
        binp = vlib.go_build_test(PID, "c18")
        f4, f4path = run_f4(binp, os.path.join(vlib.OUT, PID))
        c = f4["counters"]
        for line in f4.get("notes", []):
            log("  " + line)
        if c.get("over_limit") or c.get("resend_refused"):
            if [f for f in vlib.known_findings(PID) if f["key"] == "F4"]:
                v.known_finding("F4", "representative history reproduces: %d unexpired alerts under limit 3" % c.get("unexpired_shown", 0))
            else:
                v.violation("representative history of F4: %d unexpired alerts under limit 3" % c.get("unexpired_shown", 0), [f4path])
        return
    silcommon.replay_one(PID, path, v)
