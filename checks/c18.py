"""C18 - configured limits hold and never hurt what was already admitted.

Per-alert-name limit: spec/Alerts.tla (limit.Bucket transcribed: heap slice, Upsert, IsStale as
implemented vs AllExpired; stale buckets dropped at alert GC).  MC: MC_Alerts_limit*.cfg.  Bind:
behaviours from Gen_Alerts_limit (N = 1, 2, 3 [4]) replayed through the real mem.NewAlerts(limit) +
POST/GET /api/v2/alerts + GC ticker + alertmanager_alerts_limited_total; the limit clauses are also
evaluated directly on what the real code shows.
Silence limits: Silences.tla (MaxSilences, TooBig), MC_Silences_life.cfg, Gen_Silences behaviours
replayed on the real silence.Silences (checks/silcommon).
GET concurrency: spec/Limits.tla (semaphore), MC_Limits.cfg, Gen_Limits behaviours replayed on the
real api.New(...) limiter with GETs parked inside an injected GroupFunc.

Known finding F4 (known_findings.d/C18.json): Bucket.IsStale looks at the last heap slice element."""
import json, os, re
from lib import vlib
from lib.vlib import log
from checks import c13 as cx
from checks import silcommon

PID = "C18"
LIMIT_CLASSES = ("overlimit", "resend", "counter", "admission", "concurrency")


def run_f4(binp, wd):
    out = os.path.join(wd, "f4.json")
    rc, txt = vlib.go_run_test(binp, "TestF4$", ["-out", out])
    if rc != 0:
        raise vlib.Inconclusive("TestF4 failed:\n" + txt[-3000:])
    return vlib.load_result(out), out


def run(tier, v):
    wd = os.path.join(vlib.OUT, PID)
    thorough = tier == "thorough"
    binp = vlib.go_build_test(PID, "c18")
    known = {f["key"]: f for f in vlib.known_findings(PID)}

    # 0. the representative history of finding F4 on the real code
    f4, f4path = run_f4(binp, wd)
    c = f4["counters"]
    reproduced = c.get("over_limit", 0) > 0 or c.get("resend_refused", 0) > 0
    f4text = ("per-alert-name limit 3: %d unexpired alerts of one name shown%s after alert GC dropped the name's bucket while an admitted alert "
              "had not expired (Bucket.IsStale looks at the last heap slice element); history: %s" %
              (c.get("unexpired_shown", 0), ", re-send of the admitted alert refused" if c.get("resend_refused") else "", " | ".join(f4.get("notes", []))))
    if c.get("silent_refusal"):
        v.violation("a refused alert was not counted by alertmanager_alerts_limited_total: " + " | ".join(f4.get("notes", [])), [f4path])
    excuse = False
    if reproduced and "F4" in known:
        v.known_finding("F4", f4text)
        excuse = True
    elif reproduced:
        v.violation(f4text, [f4path])
        excuse = True           # keep judging everything else against the faithful model
    elif "F4" in known:
        v.notes.append("KNOWN-FINDING-NOT-REPRODUCED: property=%s F4 (the representative history stays within the limit); "
                       "the specification is checked and replayed with the repaired stale rule, nothing is excused" % PID)
    stale = '"impl"' if excuse else '"ref"'
    gaps = '{"F4"}' if excuse else "{}"

    # 1. the design
    mcs = []
    if excuse:
        cfg = "MC_Alerts_limit_thorough.cfg" if thorough else "MC_Alerts_limit.cfg"
        mcs.append(cx.mc_run(PID, "mc_limit", "MC_Alerts", cfg, timeout=2400 if thorough else 300, cov_maxtime=1))
        # the model must show the finding when it is not excused
        ng = vlib.tlc(PID, "mc_limit_nogap", "MC_Alerts", "MC_Alerts_limit_nogap.cfg", workers=8, timeout=300)
        if ng.violated != "LimitHoldsOrKnown":
            raise vlib.Inconclusive("MC_Alerts_limit_nogap.cfg: expected TLC to find more than N unexpired alerts (finding F4), got %s %s (see %s)" %
                                    (ng.violated, ng.error, ng.stdout_path))
        log("  MC_Alerts_limit_nogap.cfg: TLC finds the over-limit state of F4 after %d states (expected while F4 is open)" % ng.generated)
    if thorough or not excuse:
        # the repaired stale rule (AllExpired) satisfies every clause with nothing excused
        ref = cx.mc_run(PID, "mc_limit_ref", "MC_Alerts", "MC_Alerts_limit_ref.cfg", timeout=300, cov_maxtime=1)
        if not excuse:
            mcs.append(ref)
    sem = vlib.tlc(PID, "mc_sem", "MC_Limits", "MC_Limits.cfg", workers=4, timeout=120, coverage=True)
    vlib.tlc_must_pass(sem, "MC_Limits.cfg")
    if [a for a, (d, g) in sem.coverage.items() if a.startswith("Next@") and g == 0]:
        raise vlib.Inconclusive("MC_Limits: an action was never taken")
    mcs.append(sem)
    log("  MC_Limits.cfg: %d states generated, %d distinct" % (sem.generated, sem.distinct))

    # 2. per-alert-name limit: behaviours replayed through the real provider + API
    limits = (1, 2, 3, 4) if thorough else (1, 2, 3)
    num = 100 if thorough else 12
    results, drift, f4_cases = [], 0, 0
    for n in limits:
        cfgp = cx.derive_cfg(PID, "Gen_Alerts_limit.cfg", "Gen_Alerts_limit_%d.cfg" % n, Limit="= %d" % n, StaleRule="= " + stale, KnownGaps="= " + gaps)
        gp, lp = os.path.join(wd, "gen_limit_%d.jsonl" % n), os.path.join(wd, "lib_limit_%d.json" % n)
        g = cx.tlc_gen(PID, "gen_limit_%d" % n, "Gen_Alerts", os.path.basename(cfgp), gp, lp, simulate="num=%d" % num, depth=45,
                       workers=8, timeout=1200, files=[cfgp])
        if g.behaviours < 40:
            raise vlib.Inconclusive("Gen limit %d produced only %d behaviours" % (n, g.behaviours))
        r = cx.run_replay(binp, "TestReplay$", gp, lp, os.path.join(wd, "replay_limit_%d.json" % n))
        log("  replay limit %d: %d behaviours, %d steps, %d disagreements, counters %s" % (n, r["cases"], r["steps"], r["n_mismatches"], r["counters"]))
        for m in r["mismatches"]:
            cls = m.get("class")
            if cls == "F4":
                f4_cases += 1
                if "F4" in known and reproduced:
                    v.known_finding("F4", f4text)
                else:
                    v.violation("limit %d: %s" % (n, m["what"]), [cx.save_case(wd, m, lp, "n%d_" % n)])
            elif cls in LIMIT_CLASSES:
                v.violation("limit %d: %s at step %d (%s): specification %s, real code %s" %
                            (n, m["what"], m["step"], cls, json.dumps(m.get("want"))[:500], json.dumps(m.get("got"))[:500]),
                            [cx.save_case(wd, m, lp, "n%d_" % n)])
            else:
                drift += 1     # merge / visibility / GC of alerts: judged by C13
        results.append(r)
    cnt = cx.sum_counters(results)
    if not v.violations:
        for k, need in {"refusals": 50, "resends_of_unexpired": 50, "gc_deleted": 20}.items():
            if cnt.get(k, 0) < need:
                raise vlib.Inconclusive("limit replay reached too few cases of %s (%d < %d)" % (k, cnt.get(k, 0), need))
    if cnt.get("gap_not_reproduced", 0):
        v.notes.append("NOTE property=%s %d over-limit state(s) predicted by the specification were not shown by the real code" % (PID, cnt["gap_not_reproduced"]))

    # 3. silence limits (count incl. expired, encoded size; rejected create/edit changes nothing)
    # (quick: the limit clauses on a small configuration of MC_Silences - MC_Silences_life.cfg alone needs minutes;
    #  thorough: both)
    smcs, sgens, sresults = silcommon.run_pipeline(
        PID, tier, v, ["MC_Silences_Limits.cfg", "MC_Silences_life.cfg"] if thorough else ["MC_Silences_Limits.cfg"],
        sim_num=100 if thorough else 25)
    sil_limit_steps = 0
    for name, cfg, gp, lib, g in sgens:
        with open(gp) as f:
            for line in f:
                sil_limit_steps += len(re.findall(r'"res":"(?:limit|toobig)"', line))
    for r in sresults:
        for m in r["mismatches"]:
            owner = silcommon.classify(m)
            if owner == "harness":
                raise vlib.Inconclusive("silence harness problem: %s %s" % (m["what"], m.get("got")))
            if owner != PID:
                drift += 1
                continue
            rp = os.path.join(wd, "replay_sil_%d_%d.json" % (m["case"], m["step"]))
            json.dump(m.get("replay"), open(rp, "w"))
            v.violation("silence limits: %s at step %d: specification %s, real code %s" %
                        (m["what"], m["step"], json.dumps(m.get("want"))[:500], json.dumps(m.get("got"))[:500]), [rp])
    if sil_limit_steps < 20 and not v.violations:
        raise vlib.Inconclusive("silence behaviours contain only %d refused Set calls (limit / size)" % sil_limit_steps)
    log("  silences: %d behaviours replayed, %d Set calls refused by a limit" % (sum(r["cases"] for r in sresults), sil_limit_steps))

    # 4. GET concurrency limiter
    lres = []
    for k in ((1, 2, 3, 4) if thorough else (1, 2, 3)):
        cfgp = cx.derive_cfg(PID, "Gen_Limits.cfg", "Gen_Limits_%d.cfg" % k, K="= %d" % k)
        gp, lp = os.path.join(wd, "gen_sem_%d.jsonl" % k), os.path.join(wd, "lib_sem_%d.json" % k)
        g = cx.tlc_gen(PID, "gen_sem_%d" % k, "Gen_Limits", os.path.basename(cfgp), gp, lp, simulate="num=%d" % (200 if thorough else 15),
                       depth=20, workers=4, timeout=600, files=[cfgp])
        r = cx.run_replay(binp, "TestLimiter$", gp, lp, os.path.join(wd, "replay_sem_%d.json" % k))
        log("  replay limiter K=%d: %d behaviours, %d steps, %d disagreements, counters %s" % (k, r["cases"], r["steps"], r["n_mismatches"], r["counters"]))
        for m in r["mismatches"][:5]:
            rp = os.path.join(wd, "replay_sem_%d_%d_%d.json" % (k, m["case"], m["step"]))
            json.dump({"k": k, "behaviour": m.get("replay")}, open(rp, "w"))
            v.violation("GET concurrency limit %d: %s at step %d: specification %s, real code %s" %
                        (k, m["what"], m["step"], json.dumps(m.get("want"))[:300], json.dumps(m.get("got"))[:300]), [rp])
        lres.append(r)
    lcnt = cx.sum_counters(lres)
    if not v.violations and (lcnt.get("refused_503", 0) < 20 or lcnt.get("post_while_full", 0) < 20):
        raise vlib.Inconclusive("limiter replay reached too few refusals / POSTs while full: %s" % lcnt)

    if drift:
        v.notes.append("DRIFT property=%s %d disagreement(s) between code and specification that belong to other properties (C13 / C12; reported by their checks)" % (PID, drift))
    allres = results + sresults + lres
    coverage = {
        "states": sum(m.distinct for m in mcs + smcs), "transitions": sum(m.generated for m in mcs + smcs),
        "traces_validated_against_impl": sum(r["cases"] for r in allres),
        "replay_steps": sum(r["steps"] for r in allres),
        "evaluations": sum(r["cases"] for r in allres),
        "distinct_nontrivial": sum(r["nontrivial"] for r in results + lres) + sil_limit_steps,
        "counters": {"alert_limit": cnt, "limiter": lcnt, "silence_sets_refused_by_limit": sil_limit_steps},
        "f4": {"representative_reproduced": reproduced, "listed": "F4" in known, "cases_in_generated_behaviours": f4_cases,
               "over_limit_steps": cnt.get("F4_over_limit", 0), "resends_refused": cnt.get("F4_resend_refused", 0),
               "gc_steps_dropping_a_bucket_with_unexpired_alert": cnt.get("gc_dropped_bucket_with_unexpired_alert", 0),
               "stale_rule_modelled": stale.strip('"')},
        "drift": drift,
        "rule": "one evaluation = one distinct behaviour printed by TLC replayed on fresh real objects, every step compared: alert-limit behaviours of 40 steps "
                "(non-trivial = contains a refusal or an over-limit state), silence behaviours of 40 ops (non-trivial = Set refused by count or size limit), "
                "limiter behaviours of <= 16 requests (non-trivial = contains a 503)",
        "samples": [cx.trim_sample(results[-1]["samples"][0], 4)] if results and results[-1]["samples"] else [],
        "exhaustive": True,
        "bounds": "MC alert limit: N = 3, 4 label sets of one name, endsAt in {now-1, now+1, now+4%s}, time 0..%d, GC between instants; with the finding excused (F4Gap) and, "
                  "separately, with the repaired stale rule and nothing excused; Gen: N in %s, 8 label sets under 3 names, batches of 1-3, time 0..16, GC period in {1,2,3,5}; "
                  "silences: MC_Silences_Limits.cfg (count limit 2, oversize comment, time 0..4; thorough also MC_Silences_life.cfg) + 40-op behaviours; limiter: MC K = 2, 4 parked requests; Gen K in {1,2,3%s}" %
                  (", missing" if thorough else "", 3 if thorough else 2, list(limits), ",4" if thorough else ""),
    }
    assumptions = [
        "finding F4 is excused only for the exact state class F4Gap of Alerts.tla, and only while the representative history reproduces on the real code",
        "silence limits are exercised on silence.Silences.Set (the call the API handler makes), not through HTTP",
        "the limiter is exercised in-process (handler chain of api.New + Register) with GETs parked in an injected GroupFunc; real sockets and the HTTP timeout handler are not part of it",
        "no two submissions of one label set at the same instant in the replayed behaviours; outcomes depending only on a comparison at equality are accepted either way",
        "unexpired = endsAt strictly after now; virtual time (testing/synctest) stands for the wall clock",
    ]
    return "model_checking", coverage, assumptions


def replay(path, v):
    data = json.load(open(path))
    if isinstance(data, dict) and "k" in data:
        wd = os.path.join(vlib.OUT, PID)
        binp = vlib.go_build_test(PID, "c18")
        inp, libp = os.path.join(wd, "replay_in.jsonl"), os.path.join(wd, "replay_lib.json")
        open(inp, "w").write(json.dumps(data["behaviour"]) + "\n")
        json.dump({"k": data["k"]}, open(libp, "w"))
        r = cx.run_replay(binp, "TestLimiter$", inp, libp, os.path.join(wd, "replay_out.json"))
        for m in r["mismatches"]:
            v.violation("replay: %s at step %d want %s got %s" % (m["what"], m["step"], m.get("want"), m.get("got")), [path])
        return
    if isinstance(data, dict) and "behaviour" in data:
        return cx.replay(path, v, pid=PID, pkg="c18")
    if isinstance(data, dict) and "notes" in data and "counters" in data:
        # result file of the representative history of finding F4: run it again
        binp = vlib.go_build_test(PID, "c18")
        f4, f4path = run_f4(binp, os.path.join(vlib.OUT, PID))
        c = f4["counters"]
        for line in f4.get("notes", []):
            log("  " + line)
        if c.get("over_limit") or c.get("resend_refused"):
            if [f for f in vlib.known_findings(PID) if f["key"] == "F4"]:
                v.known_finding("F4", "representative history reproduces: %d unexpired alerts under limit 3" % c.get("unexpired_shown", 0))
            else:
                v.violation("representative history of F4: %d unexpired alerts under limit 3" % c.get("unexpired_shown", 0), [f4path])
        return
    silcommon.replay_one(PID, path, v)
