"""C12 - silence lifecycle: stable ids, immutable history, retention honoured.

Spec: Silences.tla Set/Expire/GC/Query + lifecycle action properties.  MC: MC_Silences_life.cfg.
Bind: TLC-simulated behaviours replayed on the real Silences; reply of every Set/Expire/GC/Query and
the complete stored state after every step are compared."""
import os
from lib import vlib
from checks import silcommon

PID = "C12"


def run(tier, v):
    wd = os.path.join(vlib.OUT, PID)
    mcs, gens, results = silcommon.run_pipeline(PID, tier, v, ["MC_Silences_life.cfg" if tier == "thorough" else "MC_Silences_life_quick.cfg"])
    drift = silcommon.judge(PID, v, results, wd)
    cov = silcommon.base_coverage(mcs, gens, results)
    cov.update({
        "distinct_nontrivial": sum(r["nontrivial"] for r in results),
        "rule": "behaviours are distinct operation sequences from TLC -simulate on Gen_Silences; non-trivial = contains a rejected Set, "
                "an edit that had to create a new id, a GC that removed a silence or a Merge that ignored an entry",
        "drift": drift,
        "bounds": "MC: 2 local ids, 2 valid + 2 invalid matcher sets, start in {unset, now-1, now, now+1}, end in {now-1, now+1, now+3}, "
                  "count limit 2, oversize comment, time 0..5; Gen: 40 ops, 6 ids, time 0..12",
    })
    return "model_checking", cov, [
        "half of the generated Set operations go through the real POST /api/v2/silences handler (pre-checks end in the past / start >= end included); DELETE and GET handlers are not replayed",
        "no two writes to one silence id at the same instant",
    ]


def replay(path, v):
    silcommon.replay_one(PID, path, v)
