"""C15 - time intervals match the calendar exactly; mute/active gating follows them.

Spec: spec/TimeIntervals.tla (calendar from a day number, zone rules, Contains = the
statement of C15, ContainsImpl = the shape of the Go code, gating rule).
MC:   spec/mc/MC_TimeIntervals - the calendar walked by induction over 401 years with the
      closed forms, the zone rules, an oracle table, ContainsImpl = Contains and the
      two-stage gating as invariants.
Gen:  spec/mc/Gen_TimeIntervals - TLC prints (interval specification, location, instants,
      offset by rule, verdict) and (mute names, active names, instants, gating verdict);
      TestReplay parses each specification with the real unmarshalers / config.Load and
      compares the real ContainsTime, Intervener.Mutes, TimeActiveStage+TimeMuteStage and
      GroupMarker with it.
Trace: TestRecord evaluates the real code in every IANA zone at sampled instants and logs
      the offset Go reports; spec/mc/Trace_TimeIntervals validates each verdict."""
import json, os, re, subprocess, threading
from lib import vlib
from lib.vlib import log

PID = "C15"

GAP_EMPTY = "C15-EMPTYLIST"
GAP_SKIPPED = "C15-SKIPPEDDAY"
GAP_TEXT = {
    GAP_EMPTY: "a time-interval field given as an explicit empty list (e.g. `times: []`) is accepted by the parser and "
               "then matches NO instant, while the statement says an empty field matches everything",
    GAP_SKIPPED: "in a zone whose history skips the last calendar day of a month (Pacific/Enderbury, Kanton, Kiritimati: "
                 "1994-12-31) daysInMonth() returns 1 for that month and days_of_month ranges are clamped to it: "
                 "`days_of_month: ['1:31']` does not contain 1994-12-30T23:59 local",
}


def _zonezip():
    try:
        p = subprocess.run(["go1.26", "env", "GOROOT"], env=vlib.go_env(), stdout=subprocess.PIPE, text=True, timeout=30)
        z = os.path.join(p.stdout.strip(), "lib", "time", "zoneinfo.zip")
        return z if os.path.exists(z) else ""
    except Exception:
        return ""


def _gen_cfg(wd, thorough, seed):
    src = os.path.join(vlib.SPEC, "mc", "Gen_TimeIntervals_thorough.cfg" if thorough else "Gen_TimeIntervals.cfg")
    txt = open(src).read()
    txt, n = re.subn(r"\bSeed = \d+", "Seed = %d" % (seed % 100000), txt)
    if n != 1:
        raise vlib.Inconclusive("Gen_TimeIntervals cfg has no Seed constant")
    p = os.path.join(wd, "Gen_TimeIntervals_run.cfg")
    open(p, "w").write(txt)
    return p, txt


def _classify(results, v, wd, listed, pending, what):
    """violations / model errors / known gaps among the mismatches of harness results"""
    nviol = 0
    for r in results:
        for m in r["mismatches"]:
            cls = m.get("class") or ""
            if cls in ("model-zone-rule",):
                raise vlib.Inconclusive("zone rule of TimeIntervals.tla disagrees with the zone database: %s want %s got %s"
                                        % (m["what"], m.get("want"), m.get("got")))
            if cls == "parser-rejects":
                raise vlib.Inconclusive("generated specification rejected by the parser (outside the quantifier of C15; "
                                        "generator or parser changed): %s: %s" % (str(m.get("want"))[:300], m.get("got")))
            if cls == GAP_EMPTY:
                pending.setdefault(GAP_EMPTY, {"count": 0, "example": m["what"], "replay": m.get("replay")})
                continue
            nviol += 1
            if nviol <= 5:
                rp = os.path.join(wd, "replay_%s_case_%d_%d.json" % (what, m["case"], nviol))
                json.dump(m.get("replay"), open(rp, "w"))
                v.violation("real code contradicts C15: %s: statement demands %s, real code gives %s" %
                            (m["what"], json.dumps(m.get("want")), json.dumps(m.get("got"))), [rp])
        if GAP_EMPTY in pending:
            pending[GAP_EMPTY]["count"] += r["counters"].get(GAP_EMPTY, 0)
    return nviol


def _report_gaps(v, listed, pending, reproduced_expected):
    for key, info in pending.items():
        if key in listed:
            v.known_finding(key, "%s (%d generated cases; e.g. %s)" % (GAP_TEXT[key], info["count"], info["example"][:300]))
        else:
            # not listed as an open finding (never listed, or repaired): it is a violation again
            rp = os.path.join(vlib.OUT, PID, "gap_%s.json" % key)
            json.dump(info.get("replay"), open(rp, "w"))
            v.violation("%s (%d generated cases; e.g. %s)" % (GAP_TEXT[key], info["count"], str(info["example"])[:300]), [rp])
    for key in listed:
        if key in reproduced_expected and key not in pending:
            v.notes.append("KNOWN-FINDING-NOT-REPRODUCED: property=%s %s" % (PID, key))


def run(tier, v):
    wd = os.path.join(vlib.OUT, PID)
    thorough = tier == "thorough"
    seed = vlib.seed()
    listed = {f["key"] for f in vlib.known_findings(PID)}
    pending = {}

    # 1. the design: calendar, zone rules, oracle table, implementation shape = reference, gating
    mcbox = {}

    def mc_run():
        try:
            mcbox["r"] = vlib.tlc(PID, "mc", "MC_TimeIntervals",
                                  "MC_TimeIntervals_thorough.cfg" if thorough else "MC_TimeIntervals.cfg",
                                  workers=1, timeout=1200 if thorough else 300)
        except Exception as e:          # reported below
            mcbox["e"] = e
    th = threading.Thread(target=mc_run)
    th.start()

    try:
        binp = vlib.go_build_test(PID, "c15")

        # 2. direction A: cases generated by TLC replayed on the real code
        cfgp, cfgtxt = _gen_cfg(wd, thorough, seed)
        gen = os.path.join(wd, "gen.jsonl")
        g = vlib.tlc(PID, "gen", "Gen_TimeIntervals", os.path.basename(cfgp), workers=8,
                     timeout=1500 if thorough else 300, marker="@@H ", payload_to=gen, files=[cfgp])
        vlib.tlc_must_pass(g, "Gen_TimeIntervals")
        nlines = vlib.count_lines(gen)
        out = os.path.join(wd, "replay.json")
        rc, txt = vlib.go_run_test(binp, "TestReplay$", ["-in", gen, "-out", out], timeout=1500)
        if rc != 0:
            raise vlib.Inconclusive("replay harness failed:\n" + txt[-3000:])
        rep = vlib.load_result(out)
        c = rep["counters"]
        log("  Gen: %d lines (%d gating), %d (specification, instant) cases replayed: %d in / %d out; %d lines with both verdicts" %
            (nlines, c.get("gate_lines", 0), rep["steps"], c.get("verdict_true", 0), c.get("verdict_false", 0), rep["nontrivial"]))
        nyears = len(re.search(r"\bYears = \{([^}]*)\}", cfgtxt).group(1).split(","))
        if rep["cases"] != nlines or nlines < 40 * nyears or c.get("gate_lines", 0) < 200:
            raise vlib.Inconclusive("Gen produced too few cases (%d lines)" % nlines)
        if rep["nontrivial"] < 0.3 * nlines or c.get("verdict_true", 0) < 0.02 * rep["steps"]:
            raise vlib.Inconclusive("generated cases are vacuous (verdicts not balanced)")
        for z in ("", "UTC", "Europe/Berlin", "America/New_York", "Australia/Lord_Howe", "Asia/Kolkata", "Asia/Kathmandu"):
            if c.get("zone_" + z, 0) < nyears:
                raise vlib.Inconclusive("zone %r not exercised" % z)
        nviol = _classify([rep], v, wd, listed, pending, "A")

        # 3. direction B: the real code in every IANA zone, validated with the logged offset
        trace = os.path.join(wd, "rec.ndjson")
        out = os.path.join(wd, "record.json")
        per_zone = 800 if thorough else 100
        rc, txt = vlib.go_run_test(binp, "TestRecord$", ["-in", gen, "-trace", trace, "-out", out, "-n", str(per_zone),
                                                        "-depth", "0", "-seed", str(seed)],
                                   env_extra={"C15_ZONEZIP": _zonezip()}, timeout=1500)
        if rc != 0:
            raise vlib.Inconclusive("record harness failed:\n" + txt[-3000:])
        rec = vlib.load_result(out)
        _classify([rec], v, wd, listed, pending, "B")
        rcn = rec["counters"]
        if rcn.get("zones", 0) < 300 or rec["steps"] < 0.8 * rcn.get("zones", 0) * per_zone:
            raise vlib.Inconclusive("too few zones/instants recorded: %s" % rcn)
        # validate in chunks (TLC reads a chunk into memory)
        lines = open(trace).read().splitlines()
        main = [x for x in lines if '"run":-' not in x]
        gap = [x for x in lines if '"run":-' in x]
        chunk = 120000
        trace_states = 0
        accepted = 0
        rejects = []
        for k in range(0, len(main), chunk):
            part = os.path.join(wd, "rec_part%d.ndjson" % (k // chunk))
            open(part, "w").write("\n".join(main[k:k + chunk]) + "\n")
            tr, rj = vlib.validate_traces(PID, "trace%d" % (k // chunk), "Trace_TimeIntervals", "Trace_TimeIntervals.cfg", part,
                                          max_rejects=5)
            trace_states += tr.total_states
            rejects += rj
            accepted += len(main[k:k + chunk]) - len(rj)
            if len(rejects) >= 5:
                break
        for run_id, d, ev, _pre in rejects[:5]:
            rp = os.path.join(wd, "rejected_event_%s.json" % run_id)
            json.dump(ev, open(rp, "w"))
            v.violation("real ContainsTime contradicts C15 in zone %s: interval %s, instant %s min since 1970 (offset %s min): "
                        "real verdict %s, statement demands the opposite" %
                        (ev.get("zone"), json.dumps(ev.get("ti")), ev.get("t"), ev.get("off"), ev.get("v")), [rp])
        # representative of the skipped-last-day gap (negative run ids)
        if gap:
            part = os.path.join(wd, "rec_gap.ndjson")
            open(part, "w").write("\n".join(gap) + "\n")
            _tr, rj = vlib.validate_traces(PID, "trace_gap", "Trace_TimeIntervals", "Trace_TimeIntervals.cfg", part, max_rejects=3)
            for run_id, d, ev, _pre in rj:
                if ev.get("v") is False and ev.get("ti", {}).get("dom"):
                    pending.setdefault(GAP_SKIPPED, {"count": 0, "replay": ev,
                                                     "example": "zone %s, %s, instant %s min since 1970, offset %s min: real verdict false" %
                                                                (ev.get("zone"), json.dumps(ev.get("ti", {}).get("dom")), ev.get("t"), ev.get("off"))})
                    pending[GAP_SKIPPED]["count"] += 1
                else:
                    rp = os.path.join(wd, "rejected_event_%s.json" % run_id)
                    json.dump(ev, open(rp, "w"))
                    v.violation("real ContainsTime contradicts C15 in zone %s: %s" % (ev.get("zone"), json.dumps(ev)[:500]), [rp])
        log("  Trace: %d zones, %d events validated by TLC with the logged offset, %d rejected; %d instants skipped (offset with seconds)" %
            (rcn.get("zones", 0), accepted, len(rejects), rcn.get("skipped_offset_with_seconds", 0)))
    finally:
        th.join()
    if "e" in mcbox:
        raise mcbox["e"]
    mc = mcbox["r"]
    vlib.tlc_must_pass(mc, "MC_TimeIntervals")
    if mc.distinct < 146098:
        raise vlib.Inconclusive("MC_TimeIntervals walked only %d days" % mc.distinct)
    log("  MC_TimeIntervals: %d days walked by induction (%d states), all invariants hold, %.1fs" % (mc.distinct - 1, mc.distinct, mc.wall))

    _report_gaps(v, listed, pending, {GAP_EMPTY, GAP_SKIPPED})

    # 4. the whole instance: scenarios whose route carries mute / active intervals, every flush,
    #    delivery and GET /api/v2/alerts/groups answer validated against AMObs.tla (clauses C15_*)
    from checks import e2ecommon
    e = e2ecommon._run_scenarios(PID, tier, v, 250, 3000)
    e2e_drift = e2ecommon.judge(PID, v, e, {"C15"})
    gated_cfgs = sum(1 for l in e["lines"] if '"ev":"cfg"' in l and ('"mute":[{' in l or '"active":[{' in l))
    muted_reports = sum(1 for l in e["lines"] if '"ev":"api.groups"' in l and '"mutedby":["' in l)
    if gated_cfgs < 30 or muted_reports < 50:
        raise vlib.Inconclusive("end-to-end scenarios hardly exercised time intervals (%d configurations, %d muted reports)" % (gated_cfgs, muted_reports))
    log("  e2e: %d scenarios with mute/active intervals on the route, %d API answers reporting a muted group" % (gated_cfgs, muted_reports))

    samples = list(rep["samples"][:3]) + list(rec["samples"][:2])
    coverage = {
        "states": mc.distinct + g.distinct + trace_states,
        "transitions": mc.generated + g.generated + trace_states,
        "mc_days_walked": mc.distinct - 1,
        "generated_lines": nlines,
        "gating_lines": c.get("gate_lines", 0),
        "cases_replayed_on_impl": rep["steps"],
        "traces_validated_against_impl": accepted,
        "zones_recorded": rcn.get("zones", 0),
        "zone_transitions_seen": rcn.get("zone_transitions", 0),
        "e2e_scenarios": e["runs"], "e2e_events_validated": len(e["lines"]), "e2e_scenarios_with_intervals": gated_cfgs,
        "e2e_api_answers_reporting_muted_group": muted_reports, "e2e_drift": e2e_drift,
        "evaluations": rep["steps"] + accepted,
        "distinct_nontrivial": rep["nontrivial"],
        "verdicts": {"in": c.get("verdict_true", 0), "out": c.get("verdict_false", 0),
                     "trace_in": rcn.get("verdict_true", 0), "trace_out": rcn.get("verdict_false", 0)},
        "rule": "a case = (interval specification, location, instant) with the verdict of Contains in TimeIntervals.tla, or "
                "(mute names, active names, instant) with the verdict of Notify; non-trivial = a generated line (one specification "
                "in one zone and year, or one mute/active combination) whose instants include both verdicts",
        "bounds": "%s; MC: induction over days 1970-01-01..2371-01-01; Trace: %d zones x %d instants (transitions +-1 min, month edges, random) 1970..2105" %
                  (" ".join(cfgtxt.split()[2:])[:600], rcn.get("zones", 0), per_zone),
        "samples": samples,
        "exhaustive": False,
        "unlisted_findings": {k: {"count": i["count"], "example": i["example"], "text": GAP_TEXT[k]} for k, i in pending.items() if k not in listed},
        "render_styles": {k: c[k] for k in c if k.startswith("style_")},
    }
    assumptions = [
        "zone offsets: for the six rule zones the hand-written rule is compared with Go's zone database at every case (a difference is "
        "reported as inconclusive, not as a violation); for all other zones the offset Go reports is trusted and only the calendar logic is validated",
        "instants whose zone offset is not a whole number of minutes (e.g. Africa/Monrovia before 1972) are skipped",
        "'ranges clamped to the month' is read as: the days selected are those of the month between the two resolved ends (intersection)",
        "interval specifications are those of the grammar in Gen_TimeIntervals.tla (each field absent/single/range/boundary values, one field at a "
        "time exhaustively, hand-picked and seeded random combinations), not all accepted specifications",
        "the minute grid is covered by boundary classes (day ends, range ends +-1, transitions +-61 min, month/year ends), not minute by minute",
        "end-to-end: intervals are whole-minute windows of the virtual day 2000-01-01 UTC placed on a catch-all child route (the root route "
        "may not carry intervals); a flush whose alerts are all inhibited skips the time stages and leaves the reported muted state unchanged "
        "(noted as DRIFT_muted_state_not_refreshed_when_all_alerts_inhibited, not judged)",
        "the group's muted state is read from the real marker.GroupMarker (what GET /api/v2/alerts/groups reports); the HTTP layer is not exercised here",
    ]
    return "model_checking", coverage, assumptions


def replay(path, v):
    """path = a replay artefact: a generated line (kind ti / gate) or a rejected trace event."""
    binp = vlib.go_build_test(PID, "c15")
    wd = os.path.join(vlib.OUT, PID)
    data = json.load(open(path))
    if "kind" in data:
        inp = os.path.join(wd, "replay_in.jsonl")
        open(inp, "w").write(json.dumps(data) + "\n")
        out = os.path.join(wd, "replay_out.json")
        rc, txt = vlib.go_run_test(binp, "TestReplay$", ["-in", inp, "-out", out])
        r = vlib.load_result(out)
        for m in r["mismatches"]:
            if (m.get("class") or "") in ("model-zone-rule", "parser-rejects"):
                raise vlib.Inconclusive("%s: %s" % (m["class"], m["what"]))
            v.violation("replay: %s: statement demands %s, real code gives %s (%s)" %
                        (m["what"], m.get("want"), m.get("got"), m.get("class") or "unclassified"), [path])
        return
    # a trace event: re-evaluate the real code at that instant, then let TLC judge
    inp = os.path.join(wd, "reevent_in.jsonl")
    open(inp, "w").write(json.dumps(data) + "\n")
    tr = os.path.join(wd, "reevent.ndjson")
    out = os.path.join(wd, "reevent_out.json")
    rc, txt = vlib.go_run_test(binp, "TestReevent$", ["-in", inp, "-trace", tr, "-out", out],
                               env_extra={"C15_ZONEZIP": _zonezip()})
    if rc != 0:
        raise vlib.Inconclusive("re-evaluation failed:\n" + txt[-2000:])
    _r, rj = vlib.validate_traces(PID, "reevent", "Trace_TimeIntervals", "Trace_TimeIntervals.cfg", tr)
    for run_id, d, ev, _pre in rj:
        v.violation("replay: real ContainsTime contradicts C15: %s" % json.dumps(ev)[:600], [path])
