"""C20 (payload half) - faithful bounded payload: template data, webhook body, text truncation.

Spec: spec/Delivery.tla (reference and implementation-shaped definitions of template.Data,
webhook truncateAlerts, the send_resolved filter of the retry stage, TruncateInRunes/InBytes).
MC: spec/mc/MC_Delivery (laws of the statement as invariants over every case of the small
universes).  Gen: spec/mc/Gen_Delivery prints the cases with the payload the statement expects
(exhaustive: Gen_Delivery.cfg; random over the larger universes: Sim_Delivery.cfg, seeded by
VERIF_SEED); harness/c20p replays them on the real notify.GetTemplateData, the real webhook
notifier behind the real notify.RetryStage (posting to a loopback test server) and the real
notify.TruncateInRunes / TruncateInBytes.

The retry / record-after-success / sibling clauses of C20 are checks/c20.py; the coordinator
calls run_payload() from there.  `bin/check C20P` runs this half alone (out/C20P), reporting
for property C20."""
import json, os, hashlib
from lib import vlib
from lib.vlib import log

PROP = "C20"          # the property judged
PID = "C20P"          # scratch directory when run stand-alone

F6_TEXT = ("notify.TruncateInBytes panics (slice bounds out of range) for inputs with n > 3, "
           "len(s) > n and fewer than n-3 code points, when n-3 exceeds the capacity of []rune(s)")
EMPTYANN_TEXT = ("template.Data reports commonAnnotations pair (k, \"\") that is not an annotation of every listed "
                 "alert: the first listed alert has k with the empty value, another one has no k")

ASSUMPTIONS = [
    "payload: label values are never empty (the API strips empty labels before storing an alert); annotation values may be empty",
    "payload: input strings of the truncation functions are valid UTF-8; limits are >= 0",
    "payload: alert end times are decades before / after the wall clock (status is read through time.Now() by the code)",
    "payload: the webhook endpoint answers 200 at once (retry policy is the other half of C20)",
]


def _dedupe(raw, out_path):
    seen = set()
    n = 0
    with open(raw) as f, open(out_path, "w") as o:
        for line in f:
            h = hashlib.sha1(line.encode()).digest()
            if h in seen:
                continue
            seen.add(h)
            o.write(line)
            n += 1
    os.remove(raw)
    return n


def _replay(binp, inp, out):
    rc, txt = vlib.go_run_test(binp, "TestReplay$", ["-in", inp, "-out", out])
    if rc != 0:
        raise vlib.Inconclusive("payload replay harness failed:\n" + txt[-3000:])
    return vlib.load_result(out)


def _judge(v, wd, results, tag="payload", single=False):
    """Turns the mismatches of the replays into violations / known findings / drift notes."""
    open_kf = {f["key"]: f for f in vlib.known_findings(PROP)}
    counters = {}
    notes = []
    for r in results:
        for k, n in r["counters"].items():
            counters[k] = counters.get(k, 0) + n
        notes += r.get("notes") or []
    nviol = 0
    shown = {}
    for r in results:
        for m in r["mismatches"]:
            cls = m.get("class") or ""
            shown[cls] = shown.get(cls, 0) + 1
            rp = os.path.join(wd, "%s_replay_%s_%d.json" % (tag, cls or "violation", shown[cls]))
            json.dump(m.get("replay"), open(rp, "w"))
            desc = "%s: want %s got %s" % (m["what"], json.dumps(m.get("want"), ensure_ascii=False)[:500],
                                            json.dumps(m.get("got"), ensure_ascii=False)[:500])
            if cls == "":
                nviol += 1
                if nviol <= 5:
                    v.violation("payload: " + desc, [rp])
            elif cls == "drift":
                if shown[cls] <= 3:
                    v.notes.append("DRIFT property=%s payload: %s" % (PROP, desc))
            elif cls == "F6":
                if "F6" not in open_kf and shown[cls] <= 2:
                    v.violation("payload: " + desc, [rp])
            elif cls == "EMPTYANN":
                if "C20-EMPTYANN" not in open_kf and shown[cls] <= 2:
                    v.violation("payload: " + desc, [rp])
            else:
                raise vlib.Inconclusive("harness reported an unknown mismatch class %r" % cls)
    if counters.get("mismatch_violation", 0) > 0 and nviol == 0:
        raise vlib.Inconclusive("harness counted violations but listed none")
    # known findings: reproduced on the real code in this run, or no longer
    f6min = [n for n in notes if n.startswith("f6_smallest ")]
    if "F6" in open_kf:
        if counters.get("f6_panics", 0) > 0:
            small = json.loads(f6min[0][len("f6_smallest "):]) if f6min else {}
            v.known_finding("F6", "F6 %s; %d of %d inputs of the class panic in this run, smallest: widths %s (%d bytes, %d runes), n=%d: %s"
                            % (F6_TEXT, counters["f6_panics"], counters["f6_panics"] + counters.get("f6_class_no_panic", 0),
                               small.get("widths"), small.get("bytes", 0), small.get("runes", 0), small.get("n", 0), small.get("panic")))
        elif not single:
            v.notes.append("KNOWN-FINDING-NOT-REPRODUCED property=%s F6: TruncateInBytes did not panic on any of the %d inputs of "
                           "the class (judged like any other input)" % (PROP, counters.get("f6_class_no_panic", 0)))
    if "C20-EMPTYANN" in open_kf:
        if counters.get("mismatch_EMPTYANN", 0) > 0:
            v.known_finding("C20-EMPTYANN", "C20-EMPTYANN %s; %d payloads of %d in the class" %
                            (EMPTYANN_TEXT, counters["mismatch_EMPTYANN"],
                             counters["mismatch_EMPTYANN"] + counters.get("emptyann_class_conforming", 0)))
        elif not single:
            v.notes.append("KNOWN-FINDING-NOT-REPRODUCED property=%s C20-EMPTYANN: commonAnnotations was the intersection in all %d "
                           "payloads of the class" % (PROP, counters.get("emptyann_class_conforming", 0)))
    return counters, nviol


def run_payload(pid, tier, v):
    """Runs the payload half; records violations / known findings on v; returns coverage additions."""
    wd = os.path.join(vlib.OUT, pid)
    os.makedirs(wd, exist_ok=True)
    thorough = tier == "thorough"
    seed = vlib.seed()

    # 1. the definitions: laws of the statement over every case of the small universes
    mc = vlib.tlc(pid, "payload_mc", "MC_Delivery", "MC_Delivery_thorough.cfg" if thorough else "MC_Delivery.cfg",
                  workers=8, timeout=1200 if thorough else 240)
    vlib.tlc_must_pass(mc, "MC_Delivery")
    if mc.distinct < 10000:
        raise vlib.Inconclusive("MC_Delivery explored only %d cases" % mc.distinct)
    log("  MC_Delivery: %d cases (states), laws hold on reference and, outside the known gaps, on the implementation layer, %.1fs"
        % (mc.distinct, mc.wall))

    binp = vlib.go_build_test(pid, "c20p")

    # 2. cases with expected payloads: exhaustive small universes + seeded random larger ones
    gen1 = os.path.join(wd, "payload_gen_exh.jsonl")
    g1 = vlib.gen_behaviours(pid, "payload_gen", "Gen_Delivery",
                             "Gen_Delivery_thorough.cfg" if thorough else "Gen_Delivery.cfg", gen1,
                             workers=8, timeout=1500 if thorough else 300)
    gen2 = os.path.join(wd, "payload_gen_sim.jsonl")
    ntr = 400 if thorough else 40
    g2 = vlib.tlc(pid, "payload_sim", "Gen_Delivery", "Sim_Delivery.cfg", workers=1, timeout=1500 if thorough else 300,
                  simulate="num=%d" % ntr, depth=25, extra=["-seed", str(seed)], marker="@@H ", payload_to=gen2 + ".raw")
    if g2.timed_out or g2.violated or g2.error or g2.rc != 0:
        raise vlib.Inconclusive("Sim_Delivery: TLC failed: %s %s (see %s)" % (g2.violated, g2.error, g2.stdout_path))
    nsim = _dedupe(gen2 + ".raw", gen2)
    log("  Gen_Delivery: %d exhaustive cases (%.1fs), %d random cases (seed %d, %.1fs)" % (g1.behaviours, g1.wall, nsim, seed, g2.wall))
    if g1.behaviours < 5000 or nsim < 1000:
        raise vlib.Inconclusive("Gen_Delivery produced too few cases")

    # 3. replay on the real code
    results = []
    for name, path in (("exh", gen1), ("sim", gen2)):
        results.append(_replay(binp, path, os.path.join(wd, "payload_replay_%s.json" % name)))
    counters, nviol = _judge(v, wd, results)

    # vacuity: the critical regions were reached
    need = {"batches": 5000, "batches_nontrivial": 2000, "webhook_posts": 4000, "webhook_truncated": 500,
            "webhook_resolved_dropped": 500, "webhook_not_sent": 50, "string_evaluations": 40000,
            "strings_truncated": 1000}
    for k, n in need.items():
        if counters.get(k, 0) < n:
            raise vlib.Inconclusive("payload replay reached too few cases of kind %s: %d < %d" % (k, counters.get(k, 0), n))
    if counters.get("f6_panics", 0) + counters.get("f6_class_no_panic", 0) < 1000:
        raise vlib.Inconclusive("payload replay: the F6 input class was hardly reached")
    if counters.get("batches_in_emptyann_class", 0) < 100:
        raise vlib.Inconclusive("payload replay: the empty-annotation class was hardly reached")

    cases = sum(r["cases"] for r in results)
    nontrivial = sum(r["nontrivial"] for r in results)
    samples = []
    for r in results[:1]:
        for s in r["samples"]:
            s = json.loads(json.dumps(s))
            if isinstance(s, dict) and s.get("k") == "str":
                s["e"] = s["e"][:6]
            samples.append(s)
    log("  payload replay: %d cases (%d batches: %d template data + %d webhook posts; %d strings, %d truncation calls), "
        "%d violations" % (cases, counters["batches"], counters["template_data"], counters["webhook_posts"],
                           counters["strings"], counters["string_evaluations"], nviol))
    return {
        "states": mc.distinct, "transitions": mc.generated,
        "traces_validated_against_impl": cases,
        "evaluations": counters["template_data"] + counters["webhook_posts"] + counters["webhook_not_sent"] + counters["string_evaluations"],
        "distinct_nontrivial": nontrivial,
        "rule": "payload: one case = one batch (alerts, group labels, send_resolved, max_alerts) or one string with its limits, "
                "distinct as printed by TLC; non-trivial batch = at least two listed alerts that differ and either a non-empty "
                "common set or mixed statuses; non-trivial string = at least one limit that truncates",
        "bounds": ("payload MC (%s): %d cases: sequences of <= 4 key/value sets, batches of <= 3 alerts x send_resolved x max_alerts, "
                   "all width sequences of <= %s code points and uniform strings x every limit 0..bytes+2. "
                   "Gen exhaustive (%s): %d cases (batches <= %s over %s alerts x send_resolved x max_alerts 0..%s; sizes 1..%s x max_alerts; "
                   "all width sequences <= %s, uniform strings up to %s runes, every limit). "
                   "Random (Sim_Delivery.cfg, seed %d): %d cases (batches of 1-4 alerts over 3 label names x 2 values, 2 annotation names x {\"\",x,y}, "
                   "3 end kinds, max_alerts 0..5; strings of 6-48 code points, ~40 limits each)" %
                   ("MC_Delivery_thorough.cfg" if thorough else "MC_Delivery.cfg", mc.distinct, "7" if thorough else "6",
                    "Gen_Delivery_thorough.cfg" if thorough else "Gen_Delivery.cfg", g1.behaviours,
                    "3" if thorough else "2", "27" if thorough else "48",
                    "3" if thorough else "2", "8" if thorough else "6", "7" if thorough else "5", "64" if thorough else "44", seed, nsim)),
        "samples": samples,
        "payload_counters": counters,
        "payload_assumptions": ASSUMPTIONS,
        "exhaustive": True,
    }


def run(tier, v):
    v.pid = PROP                       # violations / known findings are reported for C20
    cov = run_payload(PID, tier, v)
    return "model_checking", cov, ASSUMPTIONS


def replay(path, v):
    """Replays one recorded case (the replay artefact of a violation) on the current tree."""
    v.pid = PROP
    wd = os.path.join(vlib.OUT, PID)
    os.makedirs(wd, exist_ok=True)
    binp = vlib.go_build_test(PID, "c20p")
    data = json.load(open(path))
    if isinstance(data, dict):
        data = [data]
    inp = os.path.join(wd, "payload_replay_in.jsonl")
    with open(inp, "w") as f:
        f.write(json.dumps(data) + "\n")
    r = _replay(binp, inp, os.path.join(wd, "payload_replay_out.json"))
    _judge(v, wd, [r], tag="payload_single", single=True)
