"""C20 (payload half) - faithful bounded payload: template data, webhook body, text truncation.

Spec: spec/Delivery.tla (reference and implementation-shaped definitions of template.Data,
webhook truncateAlerts, the send_resolved filter of the retry stage, TruncateInRunes/InBytes).
MC: spec/mc/MC_Delivery (laws of the statement as invariants over every case of the small
universes).  Gen: spec/mc/Gen_Delivery prints the cases with the payload the statement expects
(exhaustive: Gen_Delivery.cfg; random over the larger universes: Sim_Delivery.cfg, seeded by
VERIF_SEED); harness/c20p replays them on the real notify.GetTemplateData, the real webhook
notifier behind the real notify.RetryStage (posting to a loopback test server) and the real
notify.TruncateInRunes / TruncateInBytes.

Retry contract of ONE real notifier (spec/DeliveryRetry.tla): per-attempt endpoint outcome
(2xx, slow 2xx, 4xx, 429, 5xx, connection refused / reset, answer later than the notifier's own
`timeout:`, no answer before the flush is over) x timeout configured or not x position of the
flush deadline x cancellation by a reload.  MC: spec/mc/MC_DeliveryRetry (the RetryStage loop with
the notifier's classification satisfies the clauses of C20 on every run; MC_DeliveryRetry_seed.cfg,
a notifier that reports its own timeout as unrecoverable, must be rejected).  Gen:
spec/mc/Gen_DeliveryRetry prints every delivery with the expectation; harness/c20p
(TestRetryReplay) replays them in REAL time on the real webhook / pagerduty notifier behind the
real notify.RetryStage + notify.SetNotifiesStage + nflog.Log against a scripted loopback endpoint
and judges the clauses over the observed run (tolerance 500 ms, candidates re-run twice).

Concurrent deliveries through ONE notifier instance (spec/DeliveryConc.tla: independent deliveries,
the payload a function of the call's own batch; the shared-buffer variant MC_DeliveryConc_shared.cfg
must be refuted): Gen_DeliveryConc prints sets of 2-4 batches, harness/c20p (TestConcReplay)
releases them together on one real webhook / pagerduty notifier behind one RetryStage +
SetNotifiesStage and compares every body the endpoint received with the payload of the call
that sent it.

The sibling clauses of C20 and the end-to-end retry clauses are checks/c20.py; the coordinator
calls run_payload() from there.  `bin/check C20P` runs this half alone (out/C20P), reporting
for property C20."""
import json, os, hashlib, random
from concurrent.futures import ThreadPoolExecutor
from lib import vlib
from lib.vlib import log

PROP = "C20"          # the property judged
PID = "C20P"          # scratch directory when run stand-alone

F6_TEXT = ("notify.TruncateInBytes panics (slice bounds out of range) for inputs with n > 3, "
           "len(s) > n and fewer than n-3 code points, when n-3 exceeds the capacity of []rune(s)")
EMPTYANN_TEXT = ("template.Data reports commonAnnotations pair (k, \"\") that is not an annotation of every listed "
                 "alert: the first listed alert has k with the empty value, another one has no k")

ASSUMPTIONS = [
    "payload: label values are never empty (the API strips empty labels before storing an alert); annotation values may be empty",
    "payload: input strings of the truncation functions are valid UTF-8; limits are >= 0",
    "payload: alert end times are decades before / after the wall clock (status is read through time.Now() by the code)",
    "payload: the webhook endpoint answers 200 at once",
    "retry: one integration, one flush; real time on loopback with short timers (notifier timeout 300 ms, flush deadline 0.45-2.9 s, "
    "cancellation at 0.13 / 0.95 s): every bound is judged with a tolerance of 500 ms and a candidate violation is reported only "
    "when two re-runs show it again",
    "retry: the back-off ticker is the library's (500 ms x 1.5^k, randomised 0.5-1.5); only the first 3-5 gaps fit into the short "
    "flushes, the 60 s cap is not reached",
    "retry: what happened in an attempt is derived from the observations (dial error, status written by the endpoint, duration "
    "against the configured timeout, state of the flush context), not from the script; the notifier is built with a recording "
    "dialer and keep-alives off (HTTP client options of its constructor), otherwise as configured",
    "retry: the statement does not say whether 429 is recoverable: the notifier's own rule (Retrier.RetryCodes) is the model, "
    "a deviation is DRIFT; a 2xx reported as failure, a return before the deadline without a due retry, one of the first three gaps "
    "below the back-off's lower bound and error texts are DRIFT as well",
    "retry: 'with backoff' is judged from the 4th gap on (>= 0.5 x 500 ms x 1.5^(k-1) - 100 ms, counted between the starts of the "
    "attempts): flushes of 7 s (thorough 5 s, 8 s) with 5-7 consecutive recoverable failures",
    "payload: alerts whose end was derived from resolve_timeout (Timeout flag) are part of the random universe and of the size "
    "batches; the end time shown for a firing alert is not fixed by the statement (DRIFT)",
    "concurrent: 2-4 calls released together on one notifier, 4 rounds per set, endpoint latency 4 ms; which interleavings occur is "
    "up to the scheduler (a defect that needs overlapping calls is found with high probability, not with certainty)",
]


def _dedupe(raw, out_path):
    seen = set()
    n = 0
    with open(raw) as f, open(out_path, "w") as o:
        for line in f:
            h = hashlib.sha1(line.encode()).digest()
            if h in seen:
                continue
            seen.add(h)
            o.write(line)
            n += 1
    os.remove(raw)
    return n


def _replay(binp, inp, out):
    rc, txt = vlib.go_run_test(binp, "TestReplay$", ["-in", inp, "-out", out])
    if rc != 0:
        raise vlib.Inconclusive("payload replay harness failed:\n" + txt[-3000:])
    return vlib.load_result(out)


def _judge(v, wd, results, tag="payload", single=False):
    """Turns the mismatches of the replays into violations / known findings / drift notes."""
    open_kf = {f["key"]: f for f in vlib.known_findings(PROP)}
    counters = {}
    notes = []
    for r in results:
        for k, n in r["counters"].items():
            counters[k] = counters.get(k, 0) + n
        notes += r.get("notes") or []
    nviol = 0
    shown = {}
    for r in results:
        for m in r["mismatches"]:
            cls = m.get("class") or ""
            shown[cls] = shown.get(cls, 0) + 1
            rp = os.path.join(wd, "%s_replay_%s_%d.json" % (tag, cls or "violation", shown[cls]))
            json.dump(m.get("replay"), open(rp, "w"))
            desc = "%s: want %s got %s" % (m["what"], json.dumps(m.get("want"), ensure_ascii=False)[:500],
                                            json.dumps(m.get("got"), ensure_ascii=False)[:500])
            if cls == "":
                nviol += 1
                if nviol <= 5:
                    v.violation("payload: " + desc, [rp])
            elif cls == "drift":
                if shown[cls] <= 3:
                    v.notes.append("DRIFT property=%s payload: %s" % (PROP, desc))
            elif cls == "F6":
                if "F6" not in open_kf and shown[cls] <= 2:
                    v.violation("payload: " + desc, [rp])
            elif cls == "EMPTYANN":
                if "C20-EMPTYANN" not in open_kf and shown[cls] <= 2:
                    v.violation("payload: " + desc, [rp])
            else:
                raise vlib.Inconclusive("harness reported an unknown mismatch class %r" % cls)
    if counters.get("mismatch_violation", 0) > 0 and nviol == 0:
        raise vlib.Inconclusive("harness counted violations but listed none")
    # known findings: reproduced on the real code in this run, or no longer
    f6min = [n for n in notes if n.startswith("f6_smallest ")]
    if "F6" in open_kf:
        if counters.get("f6_panics", 0) > 0:
            small = json.loads(f6min[0][len("f6_smallest "):]) if f6min else {}
            v.known_finding("F6", "F6 %s; %d of %d inputs of the class panic in this run, smallest: widths %s (%d bytes, %d runes), n=%d: %s"
                            % (F6_TEXT, counters["f6_panics"], counters["f6_panics"] + counters.get("f6_class_no_panic", 0),
                               small.get("widths"), small.get("bytes", 0), small.get("runes", 0), small.get("n", 0), small.get("panic")))
        elif not single:
            v.notes.append("KNOWN-FINDING-NOT-REPRODUCED property=%s F6: TruncateInBytes did not panic on any of the %d inputs of "
                           "the class (judged like any other input)" % (PROP, counters.get("f6_class_no_panic", 0)))
    if "C20-EMPTYANN" in open_kf:
        if counters.get("mismatch_EMPTYANN", 0) > 0:
            v.known_finding("C20-EMPTYANN", "C20-EMPTYANN %s; %d payloads of %d in the class" %
                            (EMPTYANN_TEXT, counters["mismatch_EMPTYANN"],
                             counters["mismatch_EMPTYANN"] + counters.get("emptyann_class_conforming", 0)))
        elif not single:
            v.notes.append("KNOWN-FINDING-NOT-REPRODUCED property=%s C20-EMPTYANN: commonAnnotations was the intersection in all %d "
                           "payloads of the class" % (PROP, counters.get("emptyann_class_conforming", 0)))
    return counters, nviol



# --------------------------------------------------------------------------- retry half of one real notifier
def _retry_tlc(pid, thorough):
    """The TLC jobs of the retry contract (run from a thread pool)."""
    mc = vlib.tlc(pid, "retry_mc", "MC_DeliveryRetry", "MC_DeliveryRetry_thorough.cfg" if thorough else "MC_DeliveryRetry.cfg",
                  workers=8 if thorough else 4, timeout=900 if thorough else 240)
    return mc


def _retry_seed_tlc(pid):
    return vlib.tlc(pid, "retry_mc_seed", "MC_DeliveryRetry", "MC_DeliveryRetry_seed.cfg", workers=2, timeout=240)


def _retry_gen(pid, wd, thorough):
    out = os.path.join(wd, "retry_gen_all.jsonl")
    g = vlib.gen_behaviours(pid, "retry_gen", "Gen_DeliveryRetry",
                            "Gen_DeliveryRetry_thorough.cfg" if thorough else "Gen_DeliveryRetry.cfg", out,
                            workers=2, timeout=900 if thorough else 240)
    return g, out


def _retry_select(all_path, out_path, thorough, seed):
    """Deliveries whose whole script can be reached; quick: every script of <= 3 outcomes and a seeded sample of the longer ones."""
    cases = [json.loads(l) for l in open(all_path) if l.strip()]
    use = [c for c in cases if c["exp"]["max"] >= len(c["script"])]
    short = [c for c in use if len(c["script"]) <= 3]
    longer = [c for c in use if len(c["script"]) > 3]
    if not thorough:
        rnd = random.Random(seed)
        longer = rnd.sample(longer, min(250, len(longer)))
    sel = short + longer
    with open(out_path, "w") as f:
        for c in sel:
            f.write(json.dumps(c) + "\n")
    return len(cases), len(use), len(short), len(longer)


def _retry_replay(binp, inp, out, seed):
    rc, txt = vlib.go_run_test(binp, "TestRetryReplay$", ["-in", inp, "-out", out, "-seed", str(seed)], timeout=600)
    if rc != 0:
        raise vlib.Inconclusive("retry replay harness failed:\n" + txt[-3000:])
    return vlib.load_result(out)


def _obs_text(got):
    """Short text of an observed run."""
    try:
        atts = ["#%d %s +%d..+%dms %s retry=%s err=%s" % (a["k"], a["scripted"], a["start_ms"], a["end_ms"], a["why"], a["retry"],
                                                         (a["err"] or "nil")[:90]) for a in got["attempts"]]
        return "observed: %s; flush over +%dms; stages returned +%dms err=%s; nflog writes %s" % (
            " | ".join(atts), got["flush_over_ms"], got["stage_returned_ms"], (got["stage_err"] or "nil")[:160], got.get("nflog_writes_ms") or [])
    except Exception:
        return json.dumps(got)[:800]


def _judge_retry(v, wd, r, n_in, tag="retry", single=False):
    counters = r["counters"]
    nviol = 0
    shown = {}
    for m in r["mismatches"]:
        cls = m.get("class") or ""
        shown[cls] = shown.get(cls, 0) + 1
        desc = "%s; %s" % (m["what"], _obs_text(m.get("got")))
        if cls == "":
            nviol += 1
            if nviol <= 5:
                rp = os.path.join(wd, "%s_replay_violation_%d.json" % (tag, nviol))
                json.dump(m.get("replay"), open(rp, "w"))
                v.violation(desc, [rp])
        elif cls == "drift":
            if shown[cls] <= 4:
                v.notes.append("DRIFT property=%s %s" % (PROP, desc[:900]))
        else:
            raise vlib.Inconclusive("retry harness reported an unknown mismatch class %r" % cls)
    if counters.get("mismatch_violation", 0) > 0 and nviol == 0:
        raise vlib.Inconclusive("retry harness counted violations but listed none")
    if nviol == 0 and not single:
        # not a verdict: too much of the run could not be judged
        judged = counters.get("retry_judged", 0)
        if counters.get("retry_harness_errors", 0) > 0.01 * n_in or judged < 0.95 * n_in:
            raise vlib.Inconclusive("retry replay: only %d of %d deliveries could be judged (%d harness errors, %d unexplained attempts): %s"
                                    % (judged, n_in, counters.get("retry_harness_errors", 0), counters.get("retry_unexplained", 0),
                                       [n for n in (r.get("notes") or []) if n.startswith("retry_")][:4]))
        if counters.get("retry_offnominal_cases", 0) > 0.25 * n_in:
            raise vlib.Inconclusive("retry replay: the machine is too loaded, %d of %d deliveries did not run as scripted"
                                    % (counters["retry_offnominal_cases"], n_in))
        if counters.get("retry_flaky", 0) > max(5, 0.02 * n_in) or counters.get("retry_candidates_not_rerun", 0) > 0:
            raise vlib.Inconclusive("retry replay: %d candidate violations did not show again when re-run (%d not re-run): timing too noisy for a verdict"
                                    % (counters.get("retry_flaky", 0), counters.get("retry_candidates_not_rerun", 0)))
    if counters.get("retry_flaky", 0) > 0:
        v.notes.append("NOTE property=%s retry: %d candidate violation(s) of the first pass did not show again in two re-runs (load): %s"
                       % (PROP, counters["retry_flaky"], {k: n for k, n in counters.items() if k.startswith("retry_flaky_")}))
    return counters, nviol


def _retry_finish(pid, wd, thorough, v, binp, mc, mcs, gen, mcf):
    seed = vlib.seed()
    vlib.tlc_must_pass(mc, "MC_DeliveryRetry")
    if mc.distinct < 50000:
        raise vlib.Inconclusive("MC_DeliveryRetry explored only %d states" % mc.distinct)
    if mcs.timed_out or mcs.error or mcs.violated != "InvClauses":
        raise vlib.Inconclusive("MC_DeliveryRetry_seed.cfg: the clauses did not reject a notifier that reports its own timeout as "
                                "unrecoverable (violated=%s error=%s, see %s)" % (mcs.violated, mcs.error, mcs.stdout_path))
    if mcf.timed_out or mcf.error or mcf.violated != "InvClauses":
        raise vlib.Inconclusive("MC_DeliveryRetry_flat.cfg: the clauses did not reject a back-off that never grows (violated=%s error=%s, see %s)"
                                % (mcf.violated, mcf.error, mcf.stdout_path))
    g, gen_all = gen
    inp = os.path.join(wd, "retry_gen.jsonl")
    n_all, n_use, n_short, n_long = _retry_select(gen_all, inp, thorough, seed)
    log("  MC_DeliveryRetry: %d states, clauses hold on every run of the RetryStage loop (%.1fs); seeded variant rejected (%s); "
        "Gen_DeliveryRetry: %d deliveries, %d with a fully reachable script, replaying %d + %d (%.1fs)"
        % (mc.distinct, mc.wall, mcs.violated, n_all, n_use, n_short, n_long, g.wall))
    n_in = n_short + n_long
    if n_in < 1200:
        raise vlib.Inconclusive("Gen_DeliveryRetry produced too few deliveries (%d)" % n_in)
    r = _retry_replay(binp, inp, os.path.join(wd, "retry_replay.json"), seed)
    counters, nviol = _judge_retry(v, wd, r, n_in)
    if nviol == 0:
        need = {"retry_cases_webhook": 900, "retry_cases_pagerduty": 300, "retry_cases_timeout_configured": 600,
                "retry_cases_cancelled": 250, "retry_cases_with_retries": 800, "retry_obligations": 800, "retry_logged": 150,
                "retry_why_2xx": 150, "retry_why_4xx": 60, "retry_why_429": 100, "retry_why_5xx": 400, "retry_why_conn": 800,
                "retry_why_timeout": 250, "retry_why_cut": 60, "retry_ended_unrecoverable": 100,
                "retry_cases_long_flush": 10, "retry_lowbound_judged": 12}
        for k, n in need.items():
            if counters.get(k, 0) < n:
                raise vlib.Inconclusive("retry replay reached too few cases of kind %s: %d < %d" % (k, counters.get(k, 0), n))
    wave = [n for n in (r.get("notes") or []) if n.startswith("retry_wave")]
    log("  retry replay: %d deliveries on the real notifiers (%d webhook, %d pagerduty; %d with timeout configured, %d cancelled), "
        "%d attempts, %d retry obligations and %d back-off lower bounds judged, %d recorded in the nflog, %d off-nominal, %d outside the model's counts, %d violations (%s)"
        % (counters.get("retry_cases", 0), counters.get("retry_cases_webhook", 0), counters.get("retry_cases_pagerduty", 0),
           counters.get("retry_cases_timeout_configured", 0), counters.get("retry_cases_cancelled", 0), counters.get("retry_attempts", 0),
           counters.get("retry_obligations", 0), counters.get("retry_lowbound_judged", 0), counters.get("retry_logged", 0),
           counters.get("retry_offnominal_cases", 0),
           counters.get("retry_outside_model", 0), nviol, "; ".join(wave)))
    return {
        "states": mc.distinct, "transitions": mc.generated,
        "cases": r["cases"], "attempts": counters.get("retry_attempts", 0), "nontrivial": r["nontrivial"],
        "counters": counters, "samples": r["samples"][:2],
        "bounds": ("retry MC (%s): %d states: notifier type {webhook, pagerduty} x canonical outcome scripts over {ok, slow, c4xx, c429, c5xx, "
                   "refused, reset, hangT, hangD} of length <= %s (webhook) / <= %s (pagerduty), the last outcome repeating x own timeout "
                   "configured or not (300 ms) x end of the flush {deadline 450, 1600, 2900 ms; deadline 2900 ms cancelled at 130, 950 ms}, plus "
                   "scripts of recoverable failures only in long flushes (quick 7 s, thorough 5 / 8 s) x "
                   "the extreme gaps of the back-off ticker. Gen (%s; webhook scripts <= 4, pagerduty <= %s): %d deliveries, %d with every scripted outcome reachable; replayed: "
                   "all %d with <= 3 outcomes, %d %s with 4 (seed %d)" %
                   ("MC_DeliveryRetry_thorough.cfg" if thorough else "MC_DeliveryRetry.cfg", mc.distinct,
                    "5" if thorough else "4", "4" if thorough else "3",
                    "Gen_DeliveryRetry_thorough.cfg" if thorough else "Gen_DeliveryRetry.cfg", "3" if thorough else "2",
                    n_all, n_use, n_short, n_long,
                    "(all)" if thorough else "sampled", seed)),
        "rule": "retry: one case = one delivery (notifier type, outcome script, timeout configured, deadline, cancellation) replayed in "
                "real time; non-trivial = at least two attempts observed",
    }


# --------------------------------------------------------------------------- concurrent deliveries through one notifier
def _conc_gen(pid, wd, thorough, seed):
    out = os.path.join(wd, "conc_gen.jsonl")
    g = vlib.tlc(pid, "conc_sim", "Gen_DeliveryConc", "Sim_DeliveryConc.cfg", workers=1, timeout=600 if thorough else 240,
                 simulate="num=%d" % (60 if thorough else 12), depth=26, extra=["-seed", str(seed)], marker="@@H ", payload_to=out + ".raw")
    return g, out


def _conc_finish(pid, wd, thorough, v, binp, mc, mcs, gen):
    vlib.tlc_must_pass(mc, "MC_DeliveryConc")
    if mcs.timed_out or mcs.error or mcs.violated not in ("Faithful", "NothingElse", "RecordedIntact"):
        raise vlib.Inconclusive("MC_DeliveryConc_shared.cfg: the invariants did not refute a notifier that keeps the encoded payload in a "
                                "shared field (violated=%s error=%s, see %s)" % (mcs.violated, mcs.error, mcs.stdout_path))
    g, out = gen
    if g.timed_out or g.violated or g.error or g.rc != 0:
        raise vlib.Inconclusive("Sim_DeliveryConc: TLC failed: %s %s (see %s)" % (g.violated, g.error, g.stdout_path))
    nsets = _dedupe(out + ".raw", out)
    if nsets < 200:
        raise vlib.Inconclusive("Gen_DeliveryConc produced too few sets (%d)" % nsets)
    res = os.path.join(wd, "conc_replay.json")
    rc, txt = vlib.go_run_test(binp, "TestConcReplay$", ["-in", out, "-out", res], timeout=600)
    if rc != 0:
        raise vlib.Inconclusive("concurrent replay harness failed:\n" + txt[-3000:])
    r = vlib.load_result(res)
    counters = r["counters"]
    nviol = 0
    for m in r["mismatches"]:
        cls = m.get("class") or ""
        desc = "%s: want %s got %s" % (m["what"], json.dumps(m.get("want"), ensure_ascii=False)[:300], json.dumps(m.get("got"), ensure_ascii=False)[:900])
        if cls == "drift":
            v.notes.append("DRIFT property=%s concurrent: %s" % (PROP, desc[:700]))
            continue
        nviol += 1
        if nviol <= 5:
            rp = os.path.join(wd, "conc_replay_violation_%d.json" % nviol)
            json.dump(m.get("replay"), open(rp, "w"))
            v.violation(desc, [rp])
    if counters.get("mismatch_violation", 0) > 0 and nviol == 0:
        raise vlib.Inconclusive("concurrent replay counted violations but listed none")
    if nviol == 0:
        if counters.get("conc_harness_errors", 0) > 0 or counters.get("conc_calls_failed", 0) > 0.01 * counters.get("conc_calls", 1):
            raise vlib.Inconclusive("concurrent replay: %d harness errors, %d of %d calls failed against an endpoint that answers 200"
                                    % (counters.get("conc_harness_errors", 0), counters.get("conc_calls_failed", 0), counters.get("conc_calls", 0)))
        need = {"conc_sets": 200, "conc_sets_webhook": 60, "conc_sets_pagerduty": 60, "conc_rounds": 800, "conc_calls": 2000,
                "conc_bodies_intact": 1500}
        for k, n in need.items():
            if counters.get(k, 0) < n:
                raise vlib.Inconclusive("concurrent replay reached too few cases of kind %s: %d < %d" % (k, counters.get(k, 0), n))
    log("  MC_DeliveryConc: %d states, independent deliveries are faithful; shared-buffer variant refuted (%s); concurrent replay: %d sets "
        "(%d webhook, %d pagerduty), %d rounds, %d calls released together, %d bodies received and compared, %d violations"
        % (mc.distinct, mcs.violated, counters.get("conc_sets", 0), counters.get("conc_sets_webhook", 0), counters.get("conc_sets_pagerduty", 0),
           counters.get("conc_rounds", 0), counters.get("conc_calls", 0), counters.get("conc_bodies", 0), nviol))
    return {"states": mc.distinct, "transitions": mc.generated, "cases": r["cases"], "calls": counters.get("conc_calls", 0),
            "nontrivial": counters.get("conc_rounds", 0), "counters": counters, "samples": r["samples"][:1],
            "bounds": "concurrent MC (MC_DeliveryConc.cfg): %d states, 3 calls x 2 chunks, every interleaving of encode / read / send / ack / record. "
                      "Gen (Sim_DeliveryConc.cfg, seed %d): %d sets of 2-4 batches (1-3 alerts each over 3 label names x 2 values, 2 annotation "
                      "names, 5 end kinds) x notifier {webhook max_alerts 0..2, pagerduty} x send_resolved, 4 rounds each"
                      % (mc.distinct, vlib.seed(), nsets)}


def run_payload(pid, tier, v):
    """Runs the payload half; records violations / known findings on v; returns coverage additions."""
    wd = os.path.join(vlib.OUT, pid)
    os.makedirs(wd, exist_ok=True)
    thorough = tier == "thorough"
    seed = vlib.seed()

    # TLC jobs of both halves and the harness build run side by side (they are independent)
    pool = ThreadPoolExecutor(max_workers=11)
    f_mc = pool.submit(vlib.tlc, pid, "payload_mc", "MC_Delivery", "MC_Delivery_thorough.cfg" if thorough else "MC_Delivery.cfg",
                       workers=8, timeout=1200 if thorough else 240)
    f_bin = pool.submit(vlib.go_build_test, pid, "c20p")
    gen1 = os.path.join(wd, "payload_gen_exh.jsonl")
    f_g1 = pool.submit(vlib.gen_behaviours, pid, "payload_gen", "Gen_Delivery",
                       "Gen_Delivery_thorough.cfg" if thorough else "Gen_Delivery.cfg", gen1,
                       workers=8 if thorough else 4, timeout=1500 if thorough else 300)
    gen2 = os.path.join(wd, "payload_gen_sim.jsonl")
    ntr = 400 if thorough else 40
    f_g2 = pool.submit(vlib.tlc, pid, "payload_sim", "Gen_Delivery", "Sim_Delivery.cfg", workers=1, timeout=1500 if thorough else 300,
                       simulate="num=%d" % ntr, depth=25, extra=["-seed", str(seed)], marker="@@H ", payload_to=gen2 + ".raw")
    f_rmc = pool.submit(_retry_tlc, pid, thorough)
    f_rmcs = pool.submit(_retry_seed_tlc, pid)
    f_rgen = pool.submit(_retry_gen, pid, wd, thorough)
    f_rflat = pool.submit(vlib.tlc, pid, "retry_mc_flat", "MC_DeliveryRetry", "MC_DeliveryRetry_flat.cfg", workers=2, timeout=240)
    f_cmc = pool.submit(vlib.tlc, pid, "conc_mc", "MC_DeliveryConc", "MC_DeliveryConc.cfg", workers=2, timeout=240)
    f_cmcs = pool.submit(vlib.tlc, pid, "conc_mc_shared", "MC_DeliveryConc", "MC_DeliveryConc_shared.cfg", workers=2, timeout=240)
    f_cgen = pool.submit(_conc_gen, pid, wd, thorough, seed)
    pool.shutdown(wait=True)

    # 1. the definitions: laws of the statement over every case of the small universes
    mc = f_mc.result()
    vlib.tlc_must_pass(mc, "MC_Delivery")
    if mc.distinct < 10000:
        raise vlib.Inconclusive("MC_Delivery explored only %d cases" % mc.distinct)
    log("  MC_Delivery: %d cases (states), laws hold on reference and, outside the known gaps, on the implementation layer, %.1fs"
        % (mc.distinct, mc.wall))

    binp = f_bin.result()

    # 2. cases with expected payloads: exhaustive small universes + seeded random larger ones
    g1 = f_g1.result()
    g2 = f_g2.result()
    if g2.timed_out or g2.violated or g2.error or g2.rc != 0:
        raise vlib.Inconclusive("Sim_Delivery: TLC failed: %s %s (see %s)" % (g2.violated, g2.error, g2.stdout_path))
    nsim = _dedupe(gen2 + ".raw", gen2)
    log("  Gen_Delivery: %d exhaustive cases (%.1fs), %d random cases (seed %d, %.1fs)" % (g1.behaviours, g1.wall, nsim, seed, g2.wall))
    if g1.behaviours < 5000 or nsim < 1000:
        raise vlib.Inconclusive("Gen_Delivery produced too few cases")

    # 2b. the retry contract of one real notifier, in real time (before the CPU-heavy payload replay)
    retry = _retry_finish(pid, wd, thorough, v, binp, f_rmc.result(), f_rmcs.result(), f_rgen.result(), f_rflat.result())

    # 2c. concurrent deliveries through one notifier instance
    conc = _conc_finish(pid, wd, thorough, v, binp, f_cmc.result(), f_cmcs.result(), f_cgen.result())

    # 3. replay on the real code
    results = []
    for name, path in (("exh", gen1), ("sim", gen2)):
        results.append(_replay(binp, path, os.path.join(wd, "payload_replay_%s.json" % name)))
    counters, nviol = _judge(v, wd, results)

    # vacuity: the critical regions were reached
    need = {"batches": 5000, "batches_nontrivial": 2000, "webhook_posts": 4000, "webhook_truncated": 500,
            "webhook_resolved_dropped": 500, "webhook_not_sent": 50, "string_evaluations": 40000,
            "strings_truncated": 1000, "batches_with_timed_out_alert": 1000}
    for k, n in need.items():
        if counters.get(k, 0) < n:
            raise vlib.Inconclusive("payload replay reached too few cases of kind %s: %d < %d" % (k, counters.get(k, 0), n))
    if counters.get("f6_panics", 0) + counters.get("f6_class_no_panic", 0) < 1000:
        raise vlib.Inconclusive("payload replay: the F6 input class was hardly reached")
    if counters.get("batches_in_emptyann_class", 0) < 100:
        raise vlib.Inconclusive("payload replay: the empty-annotation class was hardly reached")

    cases = sum(r["cases"] for r in results)
    nontrivial = sum(r["nontrivial"] for r in results)
    samples = []
    for r in results[:1]:
        for s in r["samples"]:
            s = json.loads(json.dumps(s))
            if isinstance(s, dict) and s.get("k") == "str":
                s["e"] = s["e"][:6]
            samples.append(s)
    log("  payload replay: %d cases (%d batches: %d template data + %d webhook posts; %d strings, %d truncation calls), "
        "%d violations" % (cases, counters["batches"], counters["template_data"], counters["webhook_posts"],
                           counters["strings"], counters["string_evaluations"], nviol))
    return {
        "states": mc.distinct + retry["states"] + conc["states"], "transitions": mc.generated + retry["transitions"] + conc["transitions"],
        "traces_validated_against_impl": cases + retry["cases"] + conc["cases"],
        "conc_counters": conc["counters"], "conc_bounds": conc["bounds"], "conc_samples": conc["samples"],
        "evaluations": (counters["template_data"] + counters["webhook_posts"] + counters["webhook_not_sent"] + counters["string_evaluations"]
                        + retry["attempts"] + conc["calls"]),
        "distinct_nontrivial": nontrivial + retry["nontrivial"] + conc["nontrivial"],
        "retry_counters": retry["counters"], "retry_bounds": retry["bounds"], "retry_rule": retry["rule"], "retry_samples": retry["samples"],
        "rule": "payload: one case = one batch (alerts, group labels, send_resolved, max_alerts) or one string with its limits, "
                "distinct as printed by TLC; non-trivial batch = at least two listed alerts that differ and either a non-empty "
                "common set or mixed statuses; non-trivial string = at least one limit that truncates",
        "bounds": ("payload MC (%s): %d cases: sequences of <= 4 key/value sets, batches of <= 3 alerts x send_resolved x max_alerts, "
                   "all width sequences of <= %s code points and uniform strings x every limit 0..bytes+2. "
                   "Gen exhaustive (%s): %d cases (batches <= %s over %s alerts x send_resolved x max_alerts 0..%s; sizes 1..%s x max_alerts; "
                   "all width sequences <= %s, uniform strings up to %s runes, every limit). "
                   "Random (Sim_Delivery.cfg, seed %d): %d cases (batches of 1-4 alerts over 3 label names x 2 values, 2 annotation names x {\"\",x,y}, "
                   "3 end kinds, max_alerts 0..5; strings of 6-48 code points, ~40 limits each)" %
                   ("MC_Delivery_thorough.cfg" if thorough else "MC_Delivery.cfg", mc.distinct, "7" if thorough else "6",
                    "Gen_Delivery_thorough.cfg" if thorough else "Gen_Delivery.cfg", g1.behaviours,
                    "3" if thorough else "2", "27" if thorough else "48",
                    "3" if thorough else "2", "8" if thorough else "6", "7" if thorough else "5", "64" if thorough else "44", seed, nsim)
                   + " | " + retry["bounds"] + " | " + conc["bounds"]),
        "samples": samples,
        "payload_counters": counters,
        "payload_assumptions": ASSUMPTIONS,
        "exhaustive": True,
    }


def run(tier, v):
    v.pid = PROP                       # violations / known findings are reported for C20
    cov = run_payload(PID, tier, v)
    return "model_checking", cov, ASSUMPTIONS


def replay(path, v):
    """Replays one recorded case (the replay artefact of a violation) on the current tree."""
    v.pid = PROP
    wd = os.path.join(vlib.OUT, PID)
    os.makedirs(wd, exist_ok=True)
    binp = vlib.go_build_test(PID, "c20p")
    data = json.load(open(path))
    if isinstance(data, dict) and data.get("k") == "retry":
        # one delivery of the retry contract, in real time (a violation shows in the first pass and in both re-runs)
        inp = os.path.join(wd, "retry_replay_in.jsonl")
        with open(inp, "w") as f:
            f.write(json.dumps(data) + "\n")
        r = _retry_replay(binp, inp, os.path.join(wd, "retry_replay_out.json"), vlib.seed())
        _judge_retry(v, wd, r, 1, tag="retry_single", single=True)
        return
    if isinstance(data, dict) and data.get("k") == "conc":
        inp = os.path.join(wd, "conc_replay_in.jsonl")
        with open(inp, "w") as f:
            f.write(json.dumps([data] * 25) + "\n")      # the set is released 100 times
        out = os.path.join(wd, "conc_replay_out.json")
        rc, txt = vlib.go_run_test(binp, "TestConcReplay$", ["-in", inp, "-out", out], timeout=600)
        if rc != 0:
            raise vlib.Inconclusive("concurrent replay harness failed:\n" + txt[-3000:])
        for i, m in enumerate(vlib.load_result(out)["mismatches"][:3]):
            if (m.get("class") or "") != "drift":
                rp = os.path.join(wd, "conc_single_violation_%d.json" % i)
                json.dump(m.get("replay"), open(rp, "w"))
                v.violation("%s: got %s" % (m["what"], json.dumps(m.get("got"))[:900]), [rp])
        return
    if isinstance(data, dict):
        data = [data]
    inp = os.path.join(wd, "payload_replay_in.jsonl")
    with open(inp, "w") as f:
        f.write(json.dumps(data) + "\n")
    r = _replay(binp, inp, os.path.join(wd, "payload_replay_out.json"))
    _judge(v, wd, [r], tag="payload_single", single=True)
