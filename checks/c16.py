"""C16 - matchers: parse/print round trip, parser agreement, exact match semantics.

Spec: spec/Matchers.tla (UTF-8 lexer + parser automaton of matcher/parse, classic parser of
pkg/labels, Matcher.String, the three modes of matcher/compat, over an abstract alphabet) and
spec/MatchersSem.tla (match semantics: '=' / '!=' on whole strings, '=~' / '!~' as the fully anchored
regular expression, with an executable regexp fragment over character sequences in which '.' is not
the line feed, '^' / '$' are the ends of the text and a leading (?s) is the only flag; Labels.tla is
shown to be its restriction to single-line values).  MC: spec/mc/MC_Matchers*.cfg (termination, round trip,
fallback law, semantic laws over all strings up to length L).  Gen: Gen_Matchers prints every
input string with the result the specification expects from every entry point, every matcher of
the product with its printed form, and the semantic cases; harness/c16 TestReplay gives them to
the REAL parsers / printer / match functions (and to routes, inhibition rules, silences and the
API filter) and evaluates the laws of the statement on the real results."""
import json, os
from lib import vlib
from lib.vlib import log

PID = "C16"

# classes of mismatch reported by the harness -> what they mean
CLASS_TEXT = {
    "parse": "real parser result differs from Matchers.tla",
    "print": "Matcher.String differs from Matchers.tla",
    "roundtrip": "Parse(Print(m)) != m on the real code",
    "fallback": "fallback law broken on the real code",
    "mode": "compat mode selection (InitFromFlags) inconsistent",
    "panic": "parser panics or does not return",
    "sem": "Matcher(s).Matches differs from MatchersSem.tla (fully anchored regexp, missing label = \"\")",
    "sem-route": "route matching differs from MatchersSem.tla",
    "sem-inhibit": "inhibition rule matching differs from MatchersSem.tla",
    "sem-silence": "silence matching differs from MatchersSem.tla",
    "sem-api": "API filter differs from MatchersSem.tla",
}


# known-finding classes recognised by the harness (harness/c16 isGapD1, gapD2) -> key, counter, wording
GAPS = {
    "gap-D1": ("C16-D1-FALLBACK-BRACE", "gap_brace_single",
               "compat.Matcher in fallback mode rejects ('unexpected open or close brace') an input ending in '}' or starting with '{' that the classic parser accepts"),
    "gap-D2": ("C16-D2-EMPTY-NAME", "gap_empty_name",
               "a matcher with the empty name prints without a name (=\"v\") and no parser accepts the text"),
}


def _judge_gaps(gaps, cnt, v, wd, probed):
    """gaps: class -> example mismatches collected from all harness results.  A reproduced class is a
    KNOWN-FINDING while its key is listed open, a VIOLATION otherwise; an open key whose class is
    not reproduced although it was probed gets a note (nothing is excused then)."""
    open_keys = {f.get("key") for f in vlib.known_findings(PID)}
    for cl, (key, counter, wording) in GAPS.items():
        ex = gaps.get(cl, [])
        if ex:
            m = ex[0]
            text = "%s: %s; %d occurrence(s) in this run, e.g. %s: classic/printed %s -> %s" % (
                key, wording, cnt.get(counter, len(ex)), m["what"],
                json.dumps(m.get("want"), ensure_ascii=False)[:300], json.dumps(m.get("got"), ensure_ascii=False)[:300])
            if key in open_keys:
                v.known_finding(key, text)
            else:
                rp = os.path.join(wd, "replay_%s.json" % key)
                with open(rp, "w") as f:
                    f.write(json.dumps(m.get("replay")) + "\n")
                v.violation("%s (not listed as an open finding)" % text, [rp])
        elif probed and key in open_keys:
            v.notes.append("KNOWN-FINDING-NOT-REPRODUCED: property=%s %s" % (PID, key))


def _gen_sim(name, cfg, out_path, num, depth, seed, timeout=900):
    """TLC -simulate with a fixed seed; payload lines de-duplicated into out_path."""
    raw = out_path + ".raw"
    # one worker: with a fixed -seed every TLC worker draws the same random sequence
    r = vlib.tlc(PID, name, "Gen_Matchers", cfg, workers=1, timeout=timeout, simulate="num=%d" % num,
                 depth=depth, extra=["-seed", str(seed)], marker="@@H ", payload_to=raw)
    if r.violated or (r.error and not r.timed_out) or (r.rc != 0 and not r.timed_out):
        raise vlib.Inconclusive("Gen %s: TLC failed: %s %s (see %s)" % (name, r.violated, r.error, r.stdout_path))
    seen = set()
    n = 0
    with open(raw) as f, open(out_path, "w") as o:
        for line in f:
            if line in seen:
                continue
            seen.add(line)
            o.write(line)
            n += 1
    os.remove(raw)
    return n


def _judge(r, tag, v, wd, gaps):
    """Every mismatch of a harness result is a violation, except the two known-finding classes,
    which are collected in gaps and judged once by _judge_gaps."""
    lang = [m for m in r["mismatches"] if m.get("class") == "lang"]
    if lang:
        raise vlib.Inconclusive("MatchersSem!Lang disagrees with Go regexp (the specification must be corrected): %s" % lang[0]["what"])
    shown = {}
    for m in r["mismatches"]:
        cl = m.get("class", "?")
        if cl in GAPS:
            gaps.setdefault(cl, []).append(m)
            continue
        shown[cl] = shown.get(cl, 0) + 1
        if shown[cl] > 3:
            continue
        rp = os.path.join(wd, "replay_case_%s_%d_%d.json" % (tag, m["case"], shown[cl]))
        with open(rp, "w") as f:
            f.write(json.dumps(m.get("replay")) + "\n")
        v.violation("%s: %s: want %s got %s" % (CLASS_TEXT.get(cl, cl), m["what"],
                                                json.dumps(m.get("want"), ensure_ascii=False)[:500],
                                                json.dumps(m.get("got"), ensure_ascii=False)[:500]), [rp])
    return r


def _replay(binp, path, out, v, wd, results, gaps):
    rc, txt = vlib.go_run_test(binp, "TestReplay$", ["-in", path, "-out", out, "-workers", "8"], timeout=1500)
    if rc != 0:
        raise vlib.Inconclusive("replay harness failed on %s:\n%s" % (path, txt[-3000:]))
    r = vlib.load_result(out)
    results.append(r)
    return _judge(r, os.path.basename(path).split(".")[0], v, wd, gaps)


def run(tier, v):
    wd = os.path.join(vlib.OUT, PID)
    thorough = tier == "thorough"
    seed = vlib.seed()

    # 1. the design: exhaustive model checking over all strings up to length L
    mcs = []
    # (-coverage is affordable only without the product/semantic invariants: a small configuration
    # measures that every parseFunc action is taken; the large ones run without it)
    cfgs = ["MC_Matchers_cov.cfg"] + (["MC_Matchers_thorough.cfg", "MC_Matchers_core.cfg", "MC_Matchers_values4.cfg"] if thorough
                                      else ["MC_Matchers.cfg", "MC_Matchers_full3.cfg"])
    for cfg in cfgs:
        cov = cfg == "MC_Matchers_cov.cfg"
        mc = vlib.tlc(PID, "mc_" + cfg[:-4], "MC_Matchers", cfg, workers=8, timeout=1200 if thorough else 300, coverage=cov)
        vlib.tlc_must_pass(mc, cfg)
        if cov:
            dead = [a for a, (d, g) in mc.coverage.items() if g == 0]
            if dead or len(mc.coverage) < 8:
                raise vlib.Inconclusive("%s: actions never taken: %s (seen %s)" % (cfg, dead, sorted(mc.coverage)))
        log("  %s: %d states generated, %d distinct, depth %d, %.1fs" % (cfg, mc.generated, mc.distinct, mc.depth, mc.wall))
        mcs.append(mc)

    binp = vlib.go_build_test(PID, "c16")

    # 2. cases printed by TLC, replayed on the real code
    gens = [("exh", "Gen_Matchers_thorough.cfg" if thorough else "Gen_Matchers.cfg")]
    if thorough:
        gens += [("core5", "Gen_Matchers_core.cfg"), ("values4", "Gen_Matchers_values4.cfg")]
    else:
        gens += [("full3", "Gen_Matchers_full3.cfg")]
    results, files, total_lines, gaps = [], [], 0, {}
    for name, cfg in gens:
        path = os.path.join(wd, "gen_%s.jsonl" % name)
        g = vlib.gen_behaviours(PID, "gen_" + name, "Gen_Matchers", cfg, path, workers=8, timeout=1500)
        log("  Gen %s: %d cases (%d states)" % (cfg, g.behaviours, g.distinct))
        if g.behaviours < 1000:
            raise vlib.Inconclusive("Gen %s produced too few cases" % cfg)
        files.append((name, path))
        total_lines += g.behaviours
    sim = os.path.join(wd, "gen_sim.jsonl")
    nsim = _gen_sim("gen_sim", "Sim_Matchers.cfg", sim, 100000 if thorough else 6000, 5, seed)
    log("  Gen Sim_Matchers.cfg (seed %d): %d distinct edited inputs" % (seed, nsim))
    if nsim < 1000:
        raise vlib.Inconclusive("simulation produced too few cases")
    files.append(("sim", sim))
    total_lines += nsim

    for name, path in files:
        r = _replay(binp, path, os.path.join(wd, "replay_%s.json" % name), v, wd, results, gaps)
        ngap = len([m for m in r["mismatches"] if m.get("class") in GAPS])
        log("  replay %s: %d cases, %d real parser calls, %d mismatches (+%d examples of recorded finding classes)" %
            (name, r["cases"], r["counters"].get("parser_calls", 0), r["n_mismatches"] - ngap, ngap))

    # the round-trip clause evaluated directly on runes outside the abstract alphabet
    out = os.path.join(wd, "runes.json")
    rc, txt = vlib.go_run_test(binp, "TestRunes$", ["-out", out, "-workers", "8"], timeout=900)
    if rc != 0:
        raise vlib.Inconclusive("TestRunes failed:\n" + txt[-3000:])
    rr = vlib.load_result(out)
    _judge(rr, "runes", v, wd, gaps)
    log("  runes: %d matchers over %d-rune names/values printed and parsed back, %d mismatches" % (rr["cases"], 2, rr["n_mismatches"]))
    results.append(rr)

    # the canonical inputs of the recorded findings, reproduced on every run
    out = os.path.join(wd, "probes.json")
    rc, txt = vlib.go_run_test(binp, "TestProbes$", ["-out", out], timeout=300)
    if rc != 0:
        raise vlib.Inconclusive("TestProbes failed:\n" + txt[-3000:])
    pr = vlib.load_result(out)
    _judge(pr, "probes", v, wd, gaps)
    if pr["counters"].get("probe_d1", 0) < 2 or pr["counters"].get("probe_d2", 0) + pr["counters"].get("probe_d2_input_rejected", 0) < 1:
        raise vlib.Inconclusive("the probes of the recorded findings did not run")
    results.append(pr)

    cnt = {}
    for r in results:
        for k, n in r["counters"].items():
            cnt[k] = cnt.get(k, 0) + n
    # vacuity: every part of the statement was exercised
    need = {"kind_p": 10000, "inputs_accepted_by_some_parser": 500, "nontrivial": 100, "inputs_parsers_disagree": 2,
            "inputs_classic_only": 50, "roundtrips": 10000, "roundtrips_classic": 1000, "matchers_printed": 10000,
            "sem_cases": 5000, "sem_true": 1000, "lang_pairs": 100, "route_cases": 5000, "route_true": 1000,
            "inhibit_cases": 5000, "inhibit_true": 1000, "silence_cases": 3000, "silence_true": 500,
            "api_filter_cases": 1500, "api_filter_true": 300, "global_mode_inputs": 10000, "runes_matchers": 50000,
            # multi-line values and '.' patterns: (pattern, value) pairs with a line feed, pairs whose verdict
            # depends on '.' not matching it, matcher lists evaluated on label sets with a multi-line value
            "lang_lf_pairs": 50, "lang_dot_excludes_lf": 15, "sem_lf_lists": 2000, "sem_lf_dot_lists": 1000,
            # the same lists printed into a configuration file and loaded by config.Load
            "config_files_loaded": 200, "config_cases": 5000, "config_true": 1000, "runes_extra_values": 20}
    short = {k: (cnt.get(k, 0), n) for k, n in need.items() if cnt.get(k, 0) < n}
    if short and not v.violations:
        raise vlib.Inconclusive("too few cases reached (got, needed): %s" % short)
    _judge_gaps(gaps, cnt, v, wd, probed=True)

    samples = []
    for r in results:
        for s in r["samples"][:2]:
            samples.append(s)
    coverage = {
        "states": sum(m.distinct for m in mcs), "transitions": sum(m.generated for m in mcs),
        "traces_validated_against_impl": sum(r["cases"] for r in results),
        "cases_replayed_on_impl": sum(r["cases"] for r in results),
        "rune_matchers_round_tripped": rr["cases"],
        "evaluations": cnt.get("parser_calls", 0) + cnt.get("steps", 0),
        "distinct_nontrivial": cnt.get("nontrivial", 0),
        "rule": "one case = one distinct input string (all strings over the alphabet up to length L, plus printed matchers with up to 3 random edits), "
                "one matcher of the name x operator x value product, or one (matcher set, label set) pair, each printed by TLC with the expected "
                "results; non-trivial = an input on which the UTF-8 and the classic parser differ (one rejects, or both accept with different results)",
        "counters": cnt,
        "mc_action_coverage": {a: g for a, (d, g) in mcs[0].coverage.items()},
        "samples": samples[:4],
        "exhaustive": True,
        "bounds": ("thorough: all strings up to length 4 over 21 symbol classes, up to length 5 over 10 core classes, all values up to length 4 (17 classes) x 3 names x 4 operators; "
                   if thorough else
                   "quick: all strings up to length 4 over 17 symbol classes and up to length 3 over all 21, values up to length 3 x 3-13 names, names up to length 2 x 13 values; ")
                  + "%d simulated inputs (printed matcher or list + up to 3 random edits, length up to ~40); each class instantiated by 2 exact and 2 law-only representatives; "
                    "semantics: %d (matcher set, label set) pairs over the MatchersSem.tla universe: 8 values (\"\", x, y, xy and the multi-line "
                    "values LF, x LF y, x LF, LF y) x 18 patterns (x|y .* .+ x.* x y? \"\" . x.y .*y (?s).+ (?s).* ^x$ x$ x<LF>y x\\ny (.|\\n)* .+|x<LF>) "
                    "x 3 names x 4 operators on 13 label sets (5 with multi-line values), pairs of 10 + 12 core matchers as AND-list and as OR of lists; "
                    "%d (pattern, value) pairs cross-checked against Go regexp ^(?:...)$, of which %d have a line feed in the value and %d are decided by "
                    "'.' not matching the line feed; every list also printed into a configuration file (%d files loaded by config.Load) and asked "
                    "through the loaded route and inhibition rule" % (
                        nsim, cnt.get("sem_cases", 0), cnt.get("lang_pairs", 0), cnt.get("lang_lf_pairs", 0),
                        cnt.get("lang_dot_excludes_lf", 0), cnt.get("config_files_loaded", 0)),
    }
    assumptions = [
        "input strings longer than the bounds are not enumerated (sampled only near printed matchers)",
        "regular expression syntax in parser inputs: only literals, escapes and {n,m} (Matchers!RegexOK); in the semantics: the fragment of MatchersSem.tla "
        "(literals incl. a raw line feed, '.', '^', '$', \\n and escaped punctuation, * + ?, groups, alternation, a leading (?s)) with '.' excluding the line feed "
        "and '$' matching only at the end of the text, as Go regexp without the s and m flags; every (pattern, value) pair of the universe is cross-checked against "
        "Go regexp ^(?:...)$ and (?s)^(?:...)$; character classes, counted / non-greedy repetition, other flags ((?m), (?i), (?U)) and values with CR or other "
        "control characters are outside the semantic universe (the round trip of such values and patterns is covered by TestRunes)",
        "label values in the semantic universe are built from x, y and the line feed (alone, embedded, trailing, leading); longer multi-line values are not enumerated",
        "API filter cases leave out label sets that are empty or have an empty value (an alert cannot carry them); multi-line values take part",
        "strconv.Unquote escapes other than \\n \\\\ \\\" (octal, \\x, \\u, \\a..\\v) are reached only through the law-only representatives, not compared with the specification",
        "two recorded findings (known_findings.d/C16.json) are excused only for their exact class and only while listed open: C16-D1-FALLBACK-BRACE (compat.Matcher rejects a leading '{' / trailing '}' input that the classic parser accepts) and C16-D2-EMPTY-NAME (a matcher with the empty name does not survive print + parse)",
        "the compat mode is package state: modes are exercised one after the other, concurrency of InitFromFlags is not explored",
    ]
    return "model_checking", coverage, assumptions


def replay(path, v):
    binp = vlib.go_build_test(PID, "c16")
    wd = os.path.join(vlib.OUT, PID)
    inp = os.path.join(wd, "replay_in.jsonl")
    with open(path) as f, open(inp, "w") as o:
        for line in f:
            line = line.strip()
            if not line:
                continue
            d = json.loads(line)
            if isinstance(d, str):      # an artefact holds the case as a JSON string
                d = json.loads(d)
            o.write(json.dumps(d) + "\n")
    gaps, results = {}, []
    r = _replay(binp, inp, os.path.join(wd, "replay_out.json"), v, wd, results, gaps)
    _judge_gaps(gaps, r["counters"], v, wd, probed=False)
