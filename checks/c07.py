"""C07 - routing: depth-first, first match unless continue, with option inheritance.

Spec: spec/Routing.tla (Match/Scan, Inherit, Key/ID; reference definitions Selected, OptsRef).
MC: spec/mc/MC_Routing*.cfg check the structural theorems over every tree of a bounded space.
Gen: spec/mc/Gen_Routing (all trees of a small space + seeded random trees of depth 3,
fan-out 3 with every option) printed with the expected ordered route list per label set and
the expected inherited options per route; harness/c07 renders each tree as YAML, loads it with
config.Load, builds dispatch.NewRoute and compares Route.Match, RouteOpts, the receivers of
GET /api/v2/alerts, of `amtool config routes test` and of a real Dispatcher's groups."""
import hashlib, json, os, re
from lib import vlib
from lib.vlib import log

PID = "C07"

# classes of disagreement that contradict the statement of C07
VERDICT = ("match", "opts", "api", "amtool", "dispatcher", "id")


def gen(name, cfg, out_path, simulate=None, seed=None, timeout=900):
    """Let TLC print cases (one JSON line per tree); returns (TLCResult, number of distinct cases, library)."""
    raw = out_path + ".raw"
    extra = ["-seed", str(seed)] if simulate else None
    r = vlib.tlc(PID, name, "Gen_Routing", cfg, workers=8, timeout=timeout, simulate=simulate,
                 depth=4 if simulate else None, extra=extra, marker="@@H ", payload_to=raw)
    if r.timed_out:
        raise vlib.Inconclusive("Gen %s timed out" % name)
    if r.violated or r.error or r.rc != 0:
        raise vlib.Inconclusive("Gen %s: TLC failed: %s %s (see %s)" % (name, r.violated, r.error, r.stdout_path))
    seen, n = set(), 0
    with open(raw) as f, open(out_path, "w") as o:
        for line in f:
            h = hashlib.sha1(line.encode()).digest()
            if h in seen:
                continue
            seen.add(h)
            o.write(line)
            n += 1
    os.remove(raw)
    txt = open(r.stdout_path, errors="replace").read()
    m = re.search(r'^"@@L (.*)"$', txt, re.M)
    if not m:
        raise vlib.Inconclusive("Gen %s printed no label-set library" % name)
    lib = json.loads('"' + m.group(1) + '"')
    return r, n, lib


def run_replay(binp, name, cases, lib_path, wd, disp_every):
    out = os.path.join(wd, "replay_%s.json" % name)
    rc, txt = vlib.go_run_test(binp, "TestReplay$", ["-in", cases, "-out", out, "-lib", lib_path,
                                                    "-dispatch-every", str(disp_every)])
    if rc != 0:
        raise vlib.Inconclusive("replay harness failed:\n" + txt[-3000:])
    r = vlib.load_result(out)
    log("  replay %s: %d trees, %d comparisons, %d disagreements, counters %s" %
        (name, r["cases"], r["steps"], r["n_mismatches"], r["counters"]))
    return r


def judge(v, results, lib, wd):
    """VIOLATION for every disagreement on what the statement fixes; anything else is a
    problem of the harness."""
    shown = 0
    for r in results:
        for m in r["mismatches"]:
            cls = m.get("class", "")
            if cls not in VERDICT:
                raise vlib.Inconclusive("harness problem (%s): %s %s" % (cls, m["what"], str(m.get("got"))[:1500]))
        for m in r["mismatches"]:
            if shown >= 5:
                break
            shown += 1
            rp = os.path.join(wd, "replay_case_%d_%d.json" % (m["case"], shown))
            json.dump({"case": m.get("replay"), "lib": json.loads(lib)}, open(rp, "w"))
            v.violation("real routing deviates from the statement (%s, rendering %d of the tree): %s: want %s got %s" %
                        (m.get("class"), m["step"], m["what"], json.dumps(m.get("want"))[:500], json.dumps(m.get("got"))[:500]), [rp])


def run(tier, v):
    wd = os.path.join(vlib.OUT, PID)
    thorough = tier == "thorough"
    seed = vlib.seed()

    # 1. the design: structural theorems over every tree of the bounded spaces
    mcs = []
    for name, cfg in (("mc", "MC_Routing_thorough.cfg" if thorough else "MC_Routing.cfg"),
                      ("mc_opts", "MC_Routing_opts_thorough.cfg" if thorough else "MC_Routing_opts.cfg")):
        mc = vlib.tlc(PID, name, "MC_Routing", cfg, workers=8, timeout=1500 if thorough else 240, heap="6g")
        vlib.tlc_must_pass(mc, cfg)
        log("  %s: %d states generated, %d distinct, depth %d, %.1fs" % (cfg, mc.generated, mc.distinct, mc.depth, mc.wall))
        if mc.distinct < 1000:
            raise vlib.Inconclusive("%s explored only %d trees" % (cfg, mc.distinct))
        mcs.append(mc)

    binp = vlib.go_build_test(PID, "c07")

    # 2. direction A: trees printed by TLC replayed on the real code
    gens = []
    exh = os.path.join(wd, "gen_exh.jsonl")
    g1, n1, lib = gen("gen_exh", "Gen_Routing_thorough.cfg" if thorough else "Gen_Routing.cfg", exh)
    sim = os.path.join(wd, "gen_sim.jsonl")
    num = 3500 if thorough else 200                   # traces per TLC worker; 3-4 trees per trace
    g2, n2, lib2 = gen("gen_sim", "Sim_Routing.cfg", sim, simulate="num=%d" % num, seed=seed)
    if lib != lib2:
        raise vlib.Inconclusive("Gen configurations disagree on the label sets")
    lib_path = os.path.join(wd, "lib.json")
    open(lib_path, "w").write(lib)
    log("  Gen: %d trees enumerated (depth 2, fan-out 2), %d random trees (depth <= 3, fan-out <= 3, seed %d)" % (n1, n2, seed))
    if n1 < 1000 or n2 < 1000:
        raise vlib.Inconclusive("Gen produced too few trees (%d, %d)" % (n1, n2))
    results = [run_replay(binp, "exh", exh, lib_path, wd, 20 if thorough else 10),
               run_replay(binp, "sim", sim, lib_path, wd, 20 if thorough else 10)]
    judge(v, results, lib, wd)

    # vacuity: the interesting regions were reached
    cnt = {}
    for r in results:
        for k, n in r["counters"].items():
            cnt[k] = cnt.get(k, 0) + n
    multi = sum(n for k, n in cnt.items() if k.startswith("result_len_") and k != "result_len_1")
    nontrivial = sum(r["nontrivial"] for r in results)
    if multi < 100 or nontrivial < 100 or cnt.get("dispatcher_runs", 0) < 50:
        raise vlib.Inconclusive("too few non-trivial cases: %s" % cnt)

    # 3. the assembled instance: scenarios with child routes (first match / continue, two receivers,
    #    per-route timers and intervals); the groups, deliveries and API answers of the real instance
    #    are validated against the routing definition of AMObs.tla (Chosen / GKeys), clauses C07_*
    from checks import e2ecommon
    e = e2ecommon._run_scenarios(PID, tier, v, 250, 3000)
    e2e_drift = e2ecommon.judge(PID, v, e, {"C07"})
    multi_cfgs = sum(1 for l in e["lines"] if '"ev":"cfg"' in l and l.count('"sel"') >= 3)
    r2_attempts = sum(1 for l in e["lines"] if '"ev":"attempt"' in l and '"recv":"r2"' in l)
    log("  e2e: %d scenarios with two or more child routes" % multi_cfgs)
    if multi_cfgs < 30:
        raise vlib.Inconclusive("end-to-end scenarios hardly exercised child routes (%d configurations)" % multi_cfgs)

    nls = len(json.loads(lib)["ls"])
    trees = sum(r["cases"] for r in results)
    sample = None
    with open(sim) as f:                       # an actual case: the first random tree with a multi-route result
        for line in f:
            s = json.loads(line)
            if any(len(r) > 1 for r in s["exp"].values()) and len(line) < 6000:
                sample = {"tree": s["tree"], "expected_routes": s["exp"],
                          "expected_receivers": {l: [n["o"]["rcv"] for p in r for n in s["nodes"] if n["p"] == p]
                                                 for l, r in s["exp"].items()}}
                break
    coverage = {
        "states": sum(m.distinct for m in mcs), "transitions": sum(m.generated for m in mcs),
        "traces_validated_against_impl": trees,
        "trees_replayed_on_impl": trees,
        "label_sets": nls,
        "evaluations": trees * nls * 2,
        "comparisons": sum(r["steps"] for r in results),
        "distinct_nontrivial": nontrivial,
        "e2e_scenarios": e["runs"], "e2e_events_validated": len(e["lines"]), "e2e_scenarios_with_child_routes": multi_cfgs, "e2e_drift": e2e_drift,
        "rule": "cases are distinct trees printed by TLC; an evaluation is one (tree, rendering, label set) on which Route.Match, the API, "
                "amtool and (sampled) the dispatcher are compared with the specification; non-trivial = some label set is routed to more "
                "than one route or to a route at depth >= 2",
        "counters": cnt,
        "drift": {k: n for k, n in cnt.items() if k.startswith("drift_")},
        "drift_notes": (results[0].get("notes") or []) + (results[1].get("notes") or []),
        "samples": [sample] if sample else [],
        "exhaustive": True,
        "bounds": "MC: every tree of depth <= 2 below the root, fan-out <= 2, %s matcher lists x continue (%d trees), options: %d trees; "
                  "replay: every tree of depth 2 / fan-out 2 over %s x continue (%d) + %d random trees of depth <= 3, fan-out <= 3, "
                  "12 matcher lists, every option; 5 label sets; 2 YAML renderings (matchers / legacy match+match_re, shared / one receiver per route)"
                  % ("4" if thorough else "3", mcs[0].distinct, mcs[1].distinct, "3 matcher lists" if thorough else "2 matcher lists", n1, n2),
    }
    if thorough and not v.violations:          # several hundred MB of replay input
        for p in (exh, sim):
            os.remove(p)
    assumptions = [
        "regular expressions are those of Labels.tla with their languages stated over the value universe {'', x, y, xy} (cross-checked against Go regexp by C16)",
        "label sets are Labels!LSets (5 sets over a, b, c; absent labels read as empty)",
        "route labels are plain strings (no templates); mute/active time intervals are not part of C07",
        "group_by under `...` is compared as 'all labels' (the inherited list is not used by the dispatcher while group_by_all holds)",
        "Route.Key / Route.ID strings are compared as drift only (not in the statement); the dispatcher's groups are matched by the id the code gives to the expected route",
    ]
    # the whole program: reloads of a running app.App (good / refused by config.Load / refused at apply time),
    # status text, API receivers and deliveries judged against spec/AppSys.tla
    from checks import appcommon
    coverage["whole_program"] = appcommon.run_app_system(PID, tier, v)
    assumptions = list(assumptions) + appcommon.ASSUMPTIONS
    return "model_checking", coverage, assumptions


def replay(path, v):
    if "appsys" in os.path.basename(path):
        from checks import appcommon
        return appcommon.replay(PID, path, v)
    binp = vlib.go_build_test(PID, "c07")
    wd = os.path.join(vlib.OUT, PID)
    data = json.load(open(path))
    inp = os.path.join(wd, "replay_in.jsonl")
    open(inp, "w").write(json.dumps(data["case"]) + "\n")
    lib_path = os.path.join(wd, "replay_lib.json")
    open(lib_path, "w").write(json.dumps(data["lib"]))
    out = os.path.join(wd, "replay_out.json")
    rc, txt = vlib.go_run_test(binp, "TestReplay$", ["-in", inp, "-out", out, "-lib", lib_path, "-dispatch-every", "1"])
    if rc != 0:
        raise vlib.Inconclusive("replay harness failed:\n" + txt[-3000:])
    r = vlib.load_result(out)
    for m in r["mismatches"]:
        if m.get("class") in VERDICT:
            v.violation("replay: %s (rendering %d): want %s got %s" % (m["what"], m["step"], m.get("want"), m.get("got")), [path])
        else:
            raise vlib.Inconclusive("harness problem: %s %s" % (m["what"], m.get("got")))
