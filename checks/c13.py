"""C13 - alert ingestion: defaults, merge and visibility follow the API contract.

Spec: spec/Alerts.tla (ApiPost: defaulting, empty-label removal, validation, best-effort insert;
Put: strict overlap test + alert.Merge; GC/TickGC; ApiGet; SilOn/SilOff).  MC: MC_Alerts.cfg
(contract clauses as invariants / action properties).  Bind: behaviours printed by TLC from
Gen_Alerts (all short ones + simulated long ones) replayed through the REAL in-process handlers
(POST/GET /api/v2/alerts, POST/DELETE silence) on a real mem.Alerts whose GC ticker runs under
virtual time; status codes, GET payload, stored alerts (provider.Get) and GC deletions compared.

Equal receive stamps are part of the model: request bodies that hold one label set more than once
(PostDup) and two requests for a label set at one instant (PostSame).  Meaning: the alerts of a
body are submissions in body order, each as a single-alert POST at that instant; the later
submission is the younger alert.  MC_Alerts_dup.cfg: clauses over all such bodies (DupRules,
SubmissionOrder); MC_Alerts_swap.cfg: with the other reading of the stamp comparison TLC must find
a history that contradicts SubmissionOrder.  Gen_AlertsDup: every pair of submissions at one
instant, as one body and as two requests; Gen_Alerts simulations mix both into long histories."""
import json, os, re, hashlib
from concurrent.futures import ThreadPoolExecutor
from lib import vlib
from lib.vlib import log

PID = "C13"


# ------------------------------------------------------------------ helpers (also used by checks/c18.py)
def derive_cfg(pid, src, dst, **subst):
    """Copy spec/mc/<src> to out/<pid>/<dst> with constants replaced (NAME="= value" / "<- Def")."""
    c = open(os.path.join(vlib.SPEC, "mc", src)).read()
    for k, val in subst.items():
        c, n = re.subn(r"(?m)^  %s (=|<-) .*$" % k, "  %s %s" % (k, val), c)
        if n != 1:
            raise vlib.Inconclusive("cannot set %s in %s" % (k, src))
    p = os.path.join(vlib.OUT, pid, dst)
    open(p, "w").write(c)
    return p


def cfg_ops(path):
    c = open(path).read()
    m = re.search(r"(?m)^  Ops = \{(.*)\}", c)
    return [x.strip().strip('"') for x in m.group(1).split(",") if x.strip()]


def tlc_gen(pid, name, module, cfg, out_path, lib_path, simulate=None, depth=None, workers=8, timeout=600, files=None):
    """Let TLC print behaviours (@@H lines, de-duplicated into out_path) and the library (@@L line)."""
    raw = out_path + ".raw"
    extra = ["-seed", str(vlib.seed())] if simulate else None
    r = vlib.tlc(pid, name, module, cfg, workers=workers, timeout=timeout, simulate=simulate, depth=depth,
                 marker="@@H ", payload_to=raw, extra=extra, files=files)
    if r.timed_out and not simulate:
        raise vlib.Inconclusive("Gen %s timed out" % name)
    if r.violated or (r.error and not r.timed_out) or (r.rc != 0 and not r.timed_out):
        raise vlib.Inconclusive("Gen %s: TLC failed: %s %s (see %s)" % (name, r.violated, r.error, r.stdout_path))
    seen, n = set(), 0
    with open(raw) as f, open(out_path, "w") as o:
        for line in f:
            h = hashlib.sha1(line.encode()).digest()
            if h in seen:
                continue
            seen.add(h)
            o.write(line)
            n += 1
    os.remove(raw)
    r.behaviours = n
    txt = open(r.stdout_path, errors="replace").read()
    m = re.search(r'^"@@L (.*)"$', txt, re.M)
    if not m:
        raise vlib.Inconclusive("Gen %s printed no library line" % name)
    open(lib_path, "w").write(json.loads('"' + m.group(1) + '"'))
    return r


def mc_run(pid, name, module, cfg, timeout, files=None, cfg_path=None, cov_maxtime=2, workers=8):
    """Exhaustive TLC run that must pass.  Vacuity: a second, small run of the same configuration
    (time bound cov_maxtime) with TLC's coverage shows that every enabled disjunct of Next fires
    (coverage on the full run would more than double its time)."""
    src = cfg_path or os.path.join(vlib.SPEC, "mc", cfg)
    mc = vlib.tlc(pid, name, module, cfg, workers=workers, timeout=timeout, files=files)
    vlib.tlc_must_pass(mc, cfg)
    log("  %s: %d states generated, %d distinct, depth %d, %.1fs" % (cfg, mc.generated, mc.distinct, mc.depth, mc.wall))
    c = re.sub(r"(?m)^  MaxTime = .*$", "  MaxTime = %d" % cov_maxtime, open(src).read())
    covp = os.path.join(vlib.OUT, pid, "cov_" + os.path.basename(src))
    open(covp, "w").write(c)
    cv = vlib.tlc(pid, name + "_cov", module, os.path.basename(covp), workers=4, timeout=timeout, coverage=True, files=(files or []) + [covp])
    vlib.tlc_must_pass(cv, "coverage run of " + cfg)
    ops = cfg_ops(src)
    expected = sum(2 if o == "sil" else 1 for o in ops)
    live = len([a for a, (d, g) in cv.coverage.items() if a.startswith("Next@") and g > 0])
    if live < expected:
        raise vlib.Inconclusive("%s: only %d of %d enabled actions were ever taken (see %s)" % (cfg, live, expected, cv.stdout_path))
    mc.coverage = cv.coverage
    return mc


def run_replay(binp, test, gen_path, lib_path, out):
    rc, txt = vlib.go_run_test(binp, test, ["-in", gen_path, "-lib", lib_path, "-out", out])
    if rc != 0:
        raise vlib.Inconclusive("replay harness failed:\n" + txt[-3000:])
    r = vlib.load_result(out)
    for m in r["mismatches"]:
        if m.get("class") == "harness":
            raise vlib.Inconclusive("harness problem: %s want %s got %s" % (m["what"], m.get("want"), m.get("got")))
    return r


def save_case(wd, m, lib_path, tag=""):
    rp = os.path.join(wd, "replay_case_%s%d_%d.json" % (tag, m["case"], m["step"]))
    json.dump({"lib": json.load(open(lib_path)), "behaviour": m.get("replay"), "failing_step": m["step"]}, open(rp, "w"))
    return rp


def trim_sample(raw, n=5):
    out = []
    for s in json.loads(json.dumps(raw))[:n]:
        out.append({"op": s["e"], "t": s["t"], "stored": s["st"], "visible": s["vis"]})
    return out


def sum_counters(results):
    keys = set().union(*[r["counters"].keys() for r in results]) if results else set()
    return {k: sum(r["counters"].get(k, 0) for r in results) for k in sorted(keys)}


# ------------------------------------------------------------------ the check
def run(tier, v):
    wd = os.path.join(vlib.OUT, PID)
    thorough = tier == "thorough"

    # TLC jobs run side by side (3 at a time)
    pool = ThreadPoolExecutor(max_workers=3)
    # 1. the design: contract clauses over all submission histories in the bounds
    mc_cfg = "MC_Alerts_thorough.cfg" if thorough else "MC_Alerts.cfg"
    f_mc = pool.submit(mc_run, PID, "mc", "MC_Alerts", mc_cfg, 1500 if thorough else 300)
    # 2. behaviours printed by TLC
    exh_cfg = "Gen_Alerts_exh.cfg"
    files = None
    if thorough:
        files = [derive_cfg(PID, "Gen_Alerts_exh.cfg", "Gen_Alerts_exh4.cfg", HistLen="= 4")]
        exh_cfg = "Gen_Alerts_exh4.cfg"
    jp = lambda n: os.path.join(wd, n)
    f_sim = pool.submit(tlc_gen, PID, "gen_sim", "Gen_Alerts", "Gen_Alerts.cfg", jp("gen_sim.jsonl"), jp("lib_sim.json"),
                        simulate="num=%d" % (400 if thorough else 40), depth=45, workers=8, timeout=1200)
    f_exh = pool.submit(tlc_gen, PID, "gen_exh", "Gen_Alerts", exh_cfg, jp("gen_exh.jsonl"), jp("lib_exh.json"),
                        timeout=900, files=files, workers=4)
    dup_cfg, dfiles = "Gen_AlertsDup.cfg", None
    if thorough:     # ... also with the empty-valued variant of the label set on either side
        dfiles = [derive_cfg(PID, "Gen_AlertsDup.cfg", "Gen_AlertsDup_x.cfg", Variants='= {"L1", "L1e"}')]
        dup_cfg = "Gen_AlertsDup_x.cfg"
    f_dup = pool.submit(tlc_gen, PID, "gen_dup", "Gen_AlertsDup", dup_cfg, jp("gen_dup.jsonl"), jp("lib_dup.json"),
                        timeout=300, workers=4, files=dfiles)
    #    equal stamps in the design: all bodies with one label set twice (and same-instant requests)
    f_mcd = pool.submit(mc_run, PID, "mc_dup", "MC_Alerts", "MC_Alerts_dup.cfg", 300, None, None, 1, 4)
    #    ... and the clauses decide the family: the other reading of the stamp comparison is refuted
    f_sw = pool.submit(vlib.tlc, PID, "mc_swap", "MC_Alerts", "MC_Alerts_swap.cfg", workers=2, timeout=300)
    binp = vlib.go_build_test(PID, "c13")

    # 3. ... replayed through the real handlers, as soon as each set is printed
    rpool = ThreadPoolExecutor(max_workers=3)
    def gen_and_replay(name, fut):
        g = fut.result()
        r = run_replay(binp, "TestReplay$", jp("gen_%s.jsonl" % name), jp("lib_%s.json" % name), jp("replay_%s.json" % name))
        return g, r
    futs = [(n, rpool.submit(gen_and_replay, n, f)) for n, f in (("exh", f_exh), ("dup", f_dup), ("sim", f_sim))]
    try:
        gens, results = [], []
        for name, f in futs:
            g, r = f.result()
            gens.append((name, g))
            results.append(r)
        mc, mcd, sw = f_mc.result(), f_mcd.result(), f_sw.result()
    finally:
        pool.shutdown(wait=True)
        rpool.shutdown(wait=True)
    if sw.violated != "SubmissionOrder":
        raise vlib.Inconclusive("MC_Alerts_swap.cfg: expected TLC to refute SubmissionOrder when the earlier of two same-stamp submissions "
                                "is taken as the younger one, got %s %s (see %s)" % (sw.violated, sw.error, sw.stdout_path))
    log("  MC_Alerts_swap.cfg: the other reading of the stamp comparison contradicts SubmissionOrder after %d states (expected)" % sw.generated)
    nb = dict((n, g.behaviours) for n, g in gens)
    log("  Gen: %d exhaustive short behaviours, %d same-instant pairs (one body / two requests), %d simulated behaviours of 40 steps" %
        (nb["exh"], nb["dup"], nb["sim"]))
    if nb["exh"] < 500 or nb["sim"] < 100 or nb["dup"] < 1000:
        raise vlib.Inconclusive("Gen produced too few behaviours")
    for (name, g), r in zip(gens, results):
        lib = jp("lib_%s.json" % name)
        log("  replay %s: %d behaviours, %d steps, %d disagreements, counters %s" % (name, r["cases"], r["steps"], r["n_mismatches"], r["counters"]))
        for m in r["mismatches"][:5]:
            v.violation("real API deviates from the alert ingestion contract (Alerts.tla): %s at step %d (%s): specification %s, real code %s" %
                        (m["what"], m["step"], m.get("class"), json.dumps(m.get("want"))[:500], json.dumps(m.get("got"))[:500]),
                        [save_case(wd, m, lib, name)])

    cnt = sum_counters(results)
    need = {"mixed_batches": 10, "merged_posts": 10, "gc_deleted": 10, "empty_valued_label_alerts": 10,
            "invalid_alerts": 10, "suppressed_shown": 10, "gets": 1000,
            # equal stamps: bodies holding one label set more than once, merges taken on the overlap path with
            # equal stamps (in a body / across two requests), the disjoint path, outcomes the statement decides
            "bodies_with_duplicates": 500, "same_stamp_merges": 300, "same_instant_request_merges": 100,
            "same_stamp_replaces": 300, "same_stamp_order_decided_by_statement": 200}
    if not v.violations:
        for k, n in need.items():
            if cnt.get(k, 0) < n:
                raise vlib.Inconclusive("replay reached too few cases of %s (%d < %d)" % (k, cnt.get(k, 0), n))
    if cnt.get("stamp_drift", 0):
        v.notes.append("DRIFT property=%s %d behaviour(s) where, of two overlapping submissions of one label set with the same receive stamp, the real code "
                       "let the earlier one rule in a point the statement leaves open (explicit end before now+resolve_timeout after a missing endsAt; "
                       "the timeout flag under an explicit later end): not judged" % (PID, cnt["stamp_drift"]))
    if cnt.get("tie_drift", 0):
        v.notes.append("DRIFT property=%s %d behaviour(s) where the real code differs from Alerts.tla only in the reading of a comparison at equality (not judged; the specification is no longer exact there)" % (PID, cnt["tie_drift"]))
    coverage = {
        "states": mc.distinct + mcd.distinct, "transitions": mc.generated + mcd.generated,
        "mc_runs": {mc_cfg: [mc.distinct, mc.generated], "MC_Alerts_dup.cfg": [mcd.distinct, mcd.generated],
                    "MC_Alerts_swap.cfg": "SubmissionOrder refuted after %d states (expected)" % sw.generated},
        "traces_validated_against_impl": sum(r["cases"] for r in results),
        "replay_steps": sum(r["steps"] for r in results),
        "evaluations": sum(r["cases"] for r in results),
        "distinct_nontrivial": sum(r["nontrivial"] for r in results),
        "counters": cnt,
        "drift": cnt.get("tie_drift", 0) + cnt.get("stamp_drift", 0),
        "rule": "one evaluation = one distinct behaviour printed by TLC (all behaviours of %d steps in the small universe + every pair of submissions of one "
                "label set at one instant, as one body and as two requests + simulated behaviours of 40 steps) "
                "replayed on a fresh real instance, every step compared; non-trivial = contains a batch with valid and invalid alerts (400 and the valid ones stored), "
                "a submission whose stored start/end differ from its own (a merge kept an earlier start or another end), or a same-stamp pair whose outcome "
                "the statement decides by submission order" % (4 if thorough else 3),
        "mc_action_coverage": {a: g for a, (d, g) in mc.coverage.items() if a.startswith("Next@")},
        "samples": [trim_sample(r["samples"][0]) for r in results[1:] if r["samples"]],
        "exhaustive": True,
        "bounds": "MC (%s): label sets L1 (+ empty-valued variant, invalid variants) and L2, startsAt in {missing, now-1, now, now+1}, endsAt in {missing, now-1, now, now+1, now+3}, "
                  "resolve_timeout 2, time 0..%d, batches of 1-2, GC at every instant and between instants; Gen: 3 label sets + 4 posted variants, batches of 1-3, "
                  "time 0..16, GC period in {1,2,3,5,none}, one silence switched on/off; equal stamps: MC_Alerts_dup.cfg all bodies [A, B] of one label set (same start/end ranges) "
                  "in every reachable state, Gen_AlertsDup all pairs with startsAt in {missing, now-2..now+2}, endsAt in {missing, now-2..now+2, now+4} on an empty store "
                  "(one body / two requests at one instant), simulations: bodies of 2-3 with a duplicated label set (a third alert anywhere) and repeated requests at one instant" % (mc_cfg, 5 if thorough else 4),
    }
    assumptions = [
        "equal receive stamps (one label set twice in a body; two requests at one virtual instant) are replayed; meaning taken from the statement's 'sequence of "
        "submissions': body order = submission order, each alert as a single-alert POST at that instant. Judged at equal stamps: after the LAST submission of a label set "
        "the alert is stored with this stamp, a missing endsAt gives end >= now+resolve_timeout, an explicit past end resolves it, an end that has not passed is not cut short, "
        "earliest start of overlapping submissions. Left open by the statement (drift, not judged): explicit end < now+resolve_timeout after a same-stamp submission without "
        "endsAt (that end or now+resolve_timeout), and the timeout flag when a submission without endsAt follows a same-stamp explicit end beyond now+resolve_timeout",
        "no two writes to the silence at the same instant",
        "request bodies satisfy the OpenAPI schema (an alert without a 'labels' member makes the generated server code reject the whole request with 422 before the handler runs; not covered)",
        "suppression status is bound through one silence only; inhibition (C03) is not part of the instance",
        "receivers: one fixed route tree (default receiver, one continue child, one plain child); routing in general is C07",
        "outcomes that depend only on the reading of a comparison at equality (t = endsAt, touching ranges) are accepted either way",
        "virtual time (testing/synctest) stands for the wall clock; the provider's GC runs on its real ticker",
    ]
    return "model_checking", coverage, assumptions


def replay(path, v, pid=PID, pkg="c13", mode_test="TestReplay$"):
    data = json.load(open(path))
    wd = os.path.join(vlib.OUT, pid)
    binp = vlib.go_build_test(pid, pkg)
    if isinstance(data, dict) and "behaviour" in data:
        lib, beh = data["lib"], data["behaviour"]
    else:
        raise vlib.Inconclusive("replay file must be {lib, behaviour} as written by this check")
    inp, libp, out = os.path.join(wd, "replay_in.jsonl"), os.path.join(wd, "replay_lib.json"), os.path.join(wd, "replay_out.json")
    open(inp, "w").write(json.dumps(beh) + "\n")
    json.dump(lib, open(libp, "w"))
    r = run_replay(binp, mode_test, inp, libp, out)
    for m in r["mismatches"]:
        if m.get("class") == "F4" and [f for f in vlib.known_findings(pid) if f["key"] == "F4"]:
            v.known_finding("F4", "replay reproduces the finding: %s" % m["what"])
            continue
        v.violation("replay: %s at step %d want %s got %s" % (m["what"], m["step"], m.get("want"), m.get("got")), [path])
    log("  replayed %d steps, %d disagreements" % (r["steps"], r["n_mismatches"]))
