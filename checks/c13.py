"""C13 - alert ingestion: defaults, merge and visibility follow the API contract.

Spec: spec/Alerts.tla (ApiPost: defaulting, empty-label removal, validation, best-effort insert;
Put: strict overlap test + alert.Merge; GC/TickGC; ApiGet; SilOn/SilOff).  MC: MC_Alerts.cfg
(contract clauses as invariants / action properties).  Bind: behaviours printed by TLC from
Gen_Alerts (all short ones + simulated long ones) replayed through the REAL in-process handlers
(POST/GET /api/v2/alerts, POST/DELETE silence) on a real mem.Alerts whose GC ticker runs under
virtual time; status codes, GET payload, stored alerts (provider.Get) and GC deletions compared.

Equal receive stamps are part of the model: request bodies that hold one label set more than once
(PostDup) and two requests for a label set at one instant (PostSame).  Meaning: the alerts of a
body are submissions in body order, each as a single-alert POST at that instant; the later
submission is the younger alert.  MC_Alerts_dup.cfg: clauses over all such bodies (DupRules,
SubmissionOrder); MC_Alerts_swap.cfg: with the other reading of the stamp comparison TLC must find
a history that contradicts SubmissionOrder.  Gen_AlertsDup: every pair of submissions at one
instant, as one body and as two requests; Gen_Alerts simulations mix both into long histories.

Concurrent stage (all stages above are sequential; the statement - and C03 / C14, whose verdicts depend on
the LATEST version of an alert - quantify over every interleaving): spec/AlertsConc.tla = the provider as a
concurrent object (Call / internal Lin / Ret per operation with Alerts.tla's Put semantics at the Lin step,
delivery queues per subscriber and label set, GC ticker); MC_AlertsConc*.cfg: InOrder / Quiescent hold for
the code's design and are refuted for the two rejected designs (fan-out after the mutex is released;
snapshot copied before the mutex).  harness/c13 TestConc records thousands of small histories of ONE real
provider + API under real concurrency (Put and POST from 3-4 goroutines, Get, GET, Subscribe /
SlurpAndSubscribe, a fast and a deliberately slow subscriber whose full channel blocks a Put in the
middle of its fan-out, GC ticker) and spec/mc/Trace_AlertsConc.tla lets TLC decide whether each history
is linearizable; a quiescence oracle compares the last version every subscriber learned with the stored one."""
import json, os, re, hashlib, time
from concurrent.futures import ThreadPoolExecutor
from lib import vlib
from lib.vlib import log

PID = "C13"


# ------------------------------------------------------------------ helpers (also used by checks/c18.py)
def derive_cfg(pid, src, dst, **subst):
    """Copy spec/mc/<src> to out/<pid>/<dst> with constants replaced (NAME="= value" / "<- Def")."""
    c = open(os.path.join(vlib.SPEC, "mc", src)).read()
    for k, val in subst.items():
        c, n = re.subn(r"(?m)^  %s (=|<-) .*$" % k, "  %s %s" % (k, val), c)
        if n != 1:
            raise vlib.Inconclusive("cannot set %s in %s" % (k, src))
    p = os.path.join(vlib.OUT, pid, dst)
    open(p, "w").write(c)
    return p


def cfg_ops(path):
    c = open(path).read()
    m = re.search(r"(?m)^  Ops = \{(.*)\}", c)
    return [x.strip().strip('"') for x in m.group(1).split(",") if x.strip()]


def tlc_gen(pid, name, module, cfg, out_path, lib_path, simulate=None, depth=None, workers=8, timeout=600, files=None):
    """Let TLC print behaviours (@@H lines, de-duplicated into out_path) and the library (@@L line)."""
    raw = out_path + ".raw"
    extra = ["-seed", str(vlib.seed())] if simulate else None
    r = vlib.tlc(pid, name, module, cfg, workers=workers, timeout=timeout, simulate=simulate, depth=depth,
                 marker="@@H ", payload_to=raw, extra=extra, files=files)
    if r.timed_out and not simulate:
        raise vlib.Inconclusive("Gen %s timed out" % name)
    if r.violated or (r.error and not r.timed_out) or (r.rc != 0 and not r.timed_out):
        raise vlib.Inconclusive("Gen %s: TLC failed: %s %s (see %s)" % (name, r.violated, r.error, r.stdout_path))
    seen, n = set(), 0
    with open(raw) as f, open(out_path, "w") as o:
        for line in f:
            h = hashlib.sha1(line.encode()).digest()
            if h in seen:
                continue
            seen.add(h)
            o.write(line)
            n += 1
    os.remove(raw)
    r.behaviours = n
    txt = open(r.stdout_path, errors="replace").read()
    m = re.search(r'^"@@L (.*)"$', txt, re.M)
    if not m:
        raise vlib.Inconclusive("Gen %s printed no library line" % name)
    open(lib_path, "w").write(json.loads('"' + m.group(1) + '"'))
    return r


def mc_run(pid, name, module, cfg, timeout, files=None, cfg_path=None, cov_maxtime=2, workers=8):
    """Exhaustive TLC run that must pass.  Vacuity: a second, small run of the same configuration
    (time bound cov_maxtime) with TLC's coverage shows that every enabled disjunct of Next fires
    (coverage on the full run would more than double its time)."""
    src = cfg_path or os.path.join(vlib.SPEC, "mc", cfg)
    mc = vlib.tlc(pid, name, module, cfg, workers=workers, timeout=timeout, files=files)
    vlib.tlc_must_pass(mc, cfg)
    log("  %s: %d states generated, %d distinct, depth %d, %.1fs" % (cfg, mc.generated, mc.distinct, mc.depth, mc.wall))
    c = re.sub(r"(?m)^  MaxTime = .*$", "  MaxTime = %d" % cov_maxtime, open(src).read())
    covp = os.path.join(vlib.OUT, pid, "cov_" + os.path.basename(src))
    open(covp, "w").write(c)
    cv = vlib.tlc(pid, name + "_cov", module, os.path.basename(covp), workers=4, timeout=timeout, coverage=True, files=(files or []) + [covp])
    vlib.tlc_must_pass(cv, "coverage run of " + cfg)
    ops = cfg_ops(src)
    expected = sum(2 if o == "sil" else 1 for o in ops)
    live = len([a for a, (d, g) in cv.coverage.items() if a.startswith("Next@") and g > 0])
    if live < expected:
        raise vlib.Inconclusive("%s: only %d of %d enabled actions were ever taken (see %s)" % (cfg, live, expected, cv.stdout_path))
    mc.coverage = cv.coverage
    return mc


def run_replay(binp, test, gen_path, lib_path, out):
    rc, txt = vlib.go_run_test(binp, test, ["-in", gen_path, "-lib", lib_path, "-out", out])
    if rc != 0:
        raise vlib.Inconclusive("replay harness failed:\n" + txt[-3000:])
    r = vlib.load_result(out)
    for m in r["mismatches"]:
        if m.get("class") == "harness":
            raise vlib.Inconclusive("harness problem: %s want %s got %s" % (m["what"], m.get("want"), m.get("got")))
    return r


def save_case(wd, m, lib_path, tag=""):
    rp = os.path.join(wd, "replay_case_%s%d_%d.json" % (tag, m["case"], m["step"]))
    json.dump({"lib": json.load(open(lib_path)), "behaviour": m.get("replay"), "failing_step": m["step"]}, open(rp, "w"))
    return rp


def trim_sample(raw, n=5):
    out = []
    for s in json.loads(json.dumps(raw))[:n]:
        out.append({"op": s["e"], "t": s["t"], "stored": s["st"], "visible": s["vis"]})
    return out


def sum_counters(results):
    keys = set().union(*[r["counters"].keys() for r in results]) if results else set()
    return {k: sum(r["counters"].get(k, 0) for r in results) for k in sorted(keys)}



# ------------------------------------------------------------------ concurrent histories (AlertsConc.tla)
CONC_MC = (("MC_AlertsConc.cfg", None), ("MC_AlertsConc_sub.cfg", None),
           ("MC_AlertsConc_unlocked.cfg", "InOrder"), ("MC_AlertsConc_early.cfg", "InOrder"))


def conc_model_check(pid):
    """The design level: the properties hold for the code's design (mutex held over store and fan-out; snapshot
    and registration in one critical section) and TLC refutes them for the two rejected designs."""
    out = {}
    for cfg, must_fail in CONC_MC:
        r = vlib.tlc(pid, "conc_" + cfg[3:-4].lower(), "MC_AlertsConc", cfg, workers=2, timeout=300)
        if must_fail:
            if r.violated != must_fail:
                raise vlib.Inconclusive("%s: expected TLC to refute %s for the rejected design, got %s %s (see %s)" %
                                        (cfg, must_fail, r.violated, r.error, r.stdout_path))
            out[cfg] = "%s refuted after %d states (expected: rejected design)" % (must_fail, r.generated)
        else:
            vlib.tlc_must_pass(r, cfg)
            out[cfg] = [r.distinct, r.generated]
    return out


def conc_validate(pid, name, lines, max_rejects=3, timeout=240, cfg="Trace_AlertsConc.cfg"):
    """TLC decides which of the concatenated histories are linearizable.  Returns (rejects, states, wall):
    rejects = [(run, index of the unexplainable event within the history, event, history lines)]."""
    rejects, states, t0 = [], 0, time.time()
    while lines and len(rejects) < max_rejects:
        d = os.path.join(vlib.OUT, pid, "conc_" + name)
        os.makedirs(d, exist_ok=True)
        tp = os.path.join(d, "trace.ndjson")
        open(tp, "w").write("\n".join(lines) + "\n")
        r = vlib.tlc(pid, "trace_conc_" + name, "Trace_AlertsConc", cfg, workers=1, timeout=timeout, files=[tp])
        states += r.distinct or 0
        if r.timed_out:
            raise vlib.Inconclusive("Trace_AlertsConc (%s) timed out" % name)
        txt = open(r.stdout_path, errors="replace").read()
        m = re.search(r'"@@REJECT",\s*(\d+)', txt)
        if not m:
            if r.violated or r.error or r.rc != 0:
                raise vlib.Inconclusive("Trace_AlertsConc (%s): TLC trouble: %s %s (see %s)" % (name, r.violated, r.error, r.stdout_path))
            break
        k = int(m.group(1))
        if not 1 <= k <= len(lines):
            raise vlib.Inconclusive("Trace_AlertsConc (%s): reject index %d outside the trace (see %s)" % (name, k, r.stdout_path))
        ev = json.loads(lines[k - 1])
        run = ev["run"]
        idx = [i for i, x in enumerate(lines) if json.loads(x)["run"] == run]
        rejects.append((run, k - 1 - idx[0], ev, [lines[i] for i in idx]))
        lines = lines[idx[-1] + 1:]          # everything before was accepted
    return rejects, states, time.time() - t0


def conc_oracle(hist):
    """Independent recomputation of the quiescence oracle from a recorded history: for every subscriber the
    last version it learned of a label set (returned snapshot, then receives) against the final provider.Get."""
    ops, known, final, bad = {}, {}, {}, []
    key = lambda m: (m["s"], m["e"], m["tag"], m["u"])
    for e in hist:
        if e["e"] == "call":
            ops[e["o"]] = e
        elif e["e"] == "ret":
            c = ops.get(e["o"], {})
            if c.get("k") == "slurp":
                for m in e["r"]:
                    known.setdefault(c["sub"], {})[m["ls"]] = m
            elif c.get("k") == "sub":
                known.setdefault(c["sub"], {})
            elif c.get("k") == "get" and e["o"] >= 9100:
                final[c["ls"]] = e["r"]
        elif e["e"] == "recv":
            known.setdefault(e["sub"], {})[e["m"]["ls"]] = e["m"]
    for sub, kn in sorted(known.items()):
        for ls, f in sorted(final.items()):
            k = kn.get(ls)
            if f and (k is None or key(k) != key(f[0])):
                bad.append("subscriber %s last learned %s for label set %s, the provider holds %s" % (sub, k, ls, f[0]))
            elif not f and k is not None and k["e"] > 10:
                bad.append("subscriber %s last learned the firing version %s for label set %s, the provider holds no alert" % (sub, k, ls))
    return bad


def conc_describe(ev):
    if ev.get("e") == "recv":
        m = ev["m"]
        return "subscriber %s receives label set %s [start %+dh, end %+dh, tag %d, stamp #%d]" % (ev["sub"], m["ls"], m["s"] - 10, m["e"] - 10, m["tag"], m["u"])
    if ev.get("e") == "ret":
        return "operation %d returns %s%s" % (ev["o"], json.dumps(ev.get("r")), (" deleted " + json.dumps(ev["d"])) if ev.get("d") else "")
    return json.dumps(ev)


def conc_stage(pid, tier, v, binp):
    """Concurrent histories of the real provider + API, judged by TLC (linearizability) and by the oracle."""
    wd = os.path.join(vlib.OUT, pid)
    thorough = tier == "thorough"
    # (TLC cannot write states deeper than 65535 to its disk queue: a chunk stays below ~45000 events + Lin steps)
    n_hist, n_tlc, per_chunk, side = (24000, 8000, 400, 8) if thorough else (3200, 800, 200, 4)
    tp, rp = os.path.join(wd, "conc_trace.ndjson"), os.path.join(wd, "conc_result.json")
    t0 = time.time()
    rc, txt = vlib.go_run_test(binp, "TestConc$", ["-trace", tp, "-out", rp, "-n", str(n_hist), "-seed", str(vlib.seed()),
                                                   "-par", "4", "-budget", "60s" if thorough else "12s"], timeout=600)
    if rc != 0:
        raise vlib.Inconclusive("concurrent-history harness failed:\n" + txt[-3000:])
    res = vlib.load_result(rp)
    for m in res["mismatches"]:
        if m.get("class") == "harness":
            raise vlib.Inconclusive("concurrent-history harness trouble in history %s: %s" % (m.get("case"), m["what"]))
    go_wall = time.time() - t0
    cnt = res["counters"]
    log("  conc: %d histories (%d events, %d operations) recorded in %.1fs; two Puts of one label set overlapped in %d, a Put blocked on the full "
        "channel of the slow subscriber in %d (both: %d), Put against Subscribe in %d, %d GC deletions, %d oracle failures" %
        (res["cases"], res["steps"], cnt.get("ops", 0), go_wall, cnt.get("overlapping_puts_of_one_label_set", 0),
         cnt.get("put_blocked_on_full_channel", 0), cnt.get("overlap_and_blocked", 0), cnt.get("put_overlapping_subscribe", 0),
         cnt.get("gc_deleted", 0), cnt.get("oracle_failures", 0)))

    # histories for TLC: the first n_tlc, in `chunks` TLC runs side by side
    by_run, order = {}, []
    for line in open(tp):
        line = line.strip()
        if not line:
            continue
        m = re.match(r'\{"run":(\d+),', line)
        run = int(m.group(1))
        if run not in by_run:
            by_run[run] = []
            order.append(run)
        by_run[run].append(line)
    order.sort()
    pick = order[:n_tlc]
    parts = [pick[i:i + per_chunk] for i in range(0, len(pick), per_chunk)]
    t1 = time.time()
    pool = ThreadPoolExecutor(max_workers=side)
    futs = [pool.submit(conc_validate, pid, "c%d" % i, [l for r in part for l in by_run[r]]) for i, part in enumerate(parts) if part]
    try:
        outs = [f.result() for f in futs]
    finally:
        pool.shutdown(wait=True)
    states = sum(o[1] for o in outs)
    tlc_wall = time.time() - t1
    rejects = [r for o in outs for r in o[0]]
    log("  conc: TLC searched the linearizations of %d histories (%d states, %d runs, %d side by side, %.1fs): %d not linearizable" %
        (len(pick), states, len(futs), side, tlc_wall, len(rejects)))

    def artefact(run, hist_lines, note, idx=None):
        p = os.path.join(wd, "conc_history_%d.json" % run)
        json.dump({"conc_history": [json.loads(x) for x in hist_lines], "rejected_event": idx, "note": note, "seed": vlib.seed()}, open(p, "w"), indent=0)
        return p

    def revalidate(run, hist_lines, cfg="Trace_AlertsConc.cfg"):
        rj, _, _ = conc_validate(pid, "re%d" % run, list(hist_lines), max_rejects=1, cfg=cfg)
        return rj[0] if rj else None

    reported, drift = set(), []
    # a history no linearization explains: one re-validation (alone, fresh TLC run) excludes tool trouble
    for run, idx, ev, hist_lines in rejects[:4]:
        again = revalidate(run, hist_lines)
        if again is None or again[1] != idx:
            raise vlib.Inconclusive("history %d was rejected at event %d in the concatenated trace but %s when validated alone: tool trouble" %
                                    (run, idx, "accepted" if again is None else "rejected at event %d" % again[1]))
        orc = conc_oracle([json.loads(x) for x in hist_lines])
        # the statements do not make a batch atomic: the verdict is taken with one Lin step per alert
        weak = revalidate(run, hist_lines, "Trace_AlertsConc_alert.cfg")
        if weak is None and not orc:
            drift.append(run)
            continue
        if weak is not None:
            idx, ev = weak[1], weak[2]
        note = ("concurrent history %d of the real provider + API is not linearizable (AlertsConc.tla: every alert of a Put is stored and written to the channel of every "
                "subscriber in one step between call and return, in body order; a subscriber receives the versions of one label set in the order the store applied them): "
                "no order of the overlapping operations explains event %d: %s%s" % (run, idx + 1, conc_describe(ev), ("; at quiescence " + orc[0]) if orc else ""))
        v.violation(note, [artefact(run, hist_lines, note, idx)])
        reported.add(run)
    if drift:
        # the code no longer applies a batch in one critical section; judge a sample with the weaker specification only
        v.notes.append("DRIFT property=%s %d concurrent histories (e.g. %s) are linearizable only if a Put takes effect alert by alert (somebody saw part of a batch): the "
                       "provider no longer applies a batch in one critical section; batch atomicity is not part of the statement: not judged" % (pid, len(drift), drift[:3]))
        sample = pick[:200]
        pool2 = ThreadPoolExecutor(max_workers=4)
        wf = [pool2.submit(conc_validate, pid, "w%d" % i, [l for r in sample[i:i + 50] for l in by_run[r]], 2, 400, "Trace_AlertsConc_alert.cfg")
              for i in range(0, len(sample), 50)]
        weak_rejects = [x for f in wf for x in f.result()[0]]
        pool2.shutdown(wait=True)
        for run, idx, ev, hist_lines in weak_rejects:
            if True:
                if run in reported or len(reported) >= 6:
                    continue
                note = ("concurrent history %d of the real provider + API is not linearizable even if a Put takes effect alert by alert (AlertsConc.tla): no order of the "
                        "overlapping operations explains event %d: %s" % (run, idx + 1, conc_describe(ev)))
                v.violation(note, [artefact(run, hist_lines, note, idx)])
                reported.add(run)
    # the oracle: last version a subscriber learned differs from the stored one at quiescence
    n_or = 0
    for m in res["mismatches"]:
        if m.get("class") != "oracle" or m["case"] in reported or n_or >= 3:
            continue
        hist_lines = [json.dumps(x, separators=(",", ":")) for x in m["replay"]]
        orc = conc_oracle(m["replay"])
        again = revalidate(m["case"], hist_lines, "Trace_AlertsConc_alert.cfg")
        if not orc or again is None:
            raise vlib.Inconclusive("history %d: the harness reports '%s' but the re-validation does not confirm it (recomputed oracle: %s, TLC: %s): tool trouble" %
                                    (m["case"], m["what"], orc[:1], "accepted" if again is None else "rejected"))
        note = ("concurrent history %d of the real provider + API: at quiescence (every operation returned, every channel drained) %s - the subscriber "
                "(inhibitor, dispatcher) keeps acting on a version the provider and GET /api/v2/alerts no longer hold; TLC finds no linearization either "
                "(first unexplainable event %d: %s)" % (m["case"], orc[0], again[1] + 1, conc_describe(again[2])))
        v.violation(note, [artefact(m["case"], hist_lines, note, again[1])])
        reported.add(m["case"])
        n_or += 1

    need = {"overlapping_puts_of_one_label_set": 200, "put_blocked_on_full_channel": 200, "overlap_and_blocked": 150,
            "put_overlapping_subscribe": 100, "gc_deleted": 30, "merged_versions_received": 500}
    if not v.violations:
        for k, n in need.items():
            if cnt.get(k, 0) < n:
                raise vlib.Inconclusive("concurrent histories reached too few cases of %s (%d < %d)" % (k, cnt.get(k, 0), n))
        if len(pick) < 400:
            raise vlib.Inconclusive("too few concurrent histories recorded (%d)" % len(pick))
    return {"histories_recorded": res["cases"], "events": res["steps"], "operations": cnt.get("ops", 0),
            "histories_checked_by_oracle": res["cases"], "histories_linearized_by_tlc": len(pick), "tlc_states": states,
            "tlc_runs": len(futs), "tlc_wall_s": round(tlc_wall, 1), "record_wall_s": round(go_wall, 1),
            "not_linearizable": len(rejects) - len(drift), "linearizable_only_alert_by_alert": len(drift), "oracle_failures": cnt.get("oracle_failures", 0),
            "counters": {k: cnt.get(k, 0) for k in sorted(need)},
            "sample_history_first_events": ((res["samples"] or [[]])[0])[:16]}


# ------------------------------------------------------------------ the check
def run(tier, v):
    wd = os.path.join(vlib.OUT, PID)
    thorough = tier == "thorough"

    # TLC jobs run side by side (3 at a time)
    pool = ThreadPoolExecutor(max_workers=3)
    # 1. the design: contract clauses over all submission histories in the bounds
    mc_cfg = "MC_Alerts_thorough.cfg" if thorough else "MC_Alerts.cfg"
    f_mc = pool.submit(mc_run, PID, "mc", "MC_Alerts", mc_cfg, 1500 if thorough else 300)
    # 2. behaviours printed by TLC
    exh_cfg = "Gen_Alerts_exh.cfg"
    files = None
    if thorough:
        files = [derive_cfg(PID, "Gen_Alerts_exh.cfg", "Gen_Alerts_exh4.cfg", HistLen="= 4")]
        exh_cfg = "Gen_Alerts_exh4.cfg"
    jp = lambda n: os.path.join(wd, n)
    f_sim = pool.submit(tlc_gen, PID, "gen_sim", "Gen_Alerts", "Gen_Alerts.cfg", jp("gen_sim.jsonl"), jp("lib_sim.json"),
                        simulate="num=%d" % (400 if thorough else 40), depth=45, workers=8, timeout=1200)
    f_exh = pool.submit(tlc_gen, PID, "gen_exh", "Gen_Alerts", exh_cfg, jp("gen_exh.jsonl"), jp("lib_exh.json"),
                        timeout=900, files=files, workers=4)
    dup_cfg, dfiles = "Gen_AlertsDup.cfg", None
    if thorough:     # ... also with the empty-valued variant of the label set on either side
        dfiles = [derive_cfg(PID, "Gen_AlertsDup.cfg", "Gen_AlertsDup_x.cfg", Variants='= {"L1", "L1e"}')]
        dup_cfg = "Gen_AlertsDup_x.cfg"
    f_dup = pool.submit(tlc_gen, PID, "gen_dup", "Gen_AlertsDup", dup_cfg, jp("gen_dup.jsonl"), jp("lib_dup.json"),
                        timeout=300, workers=4, files=dfiles)
    #    equal stamps in the design: all bodies with one label set twice (and same-instant requests)
    f_mcd = pool.submit(mc_run, PID, "mc_dup", "MC_Alerts", "MC_Alerts_dup.cfg", 300, None, None, 1, 4)
    #    ... and the clauses decide the family: the other reading of the stamp comparison is refuted
    f_sw = pool.submit(vlib.tlc, PID, "mc_swap", "MC_Alerts", "MC_Alerts_swap.cfg", workers=2, timeout=300)
    binp = vlib.go_build_test(PID, "c13")
    # 2b. the provider as a concurrent object: design-level model checking and recorded concurrent histories
    cpool = ThreadPoolExecutor(max_workers=2)
    f_cmc = cpool.submit(conc_model_check, PID)
    f_conc = cpool.submit(conc_stage, PID, tier, v, binp)

    # 3. ... replayed through the real handlers, as soon as each set is printed
    rpool = ThreadPoolExecutor(max_workers=3)
    def gen_and_replay(name, fut):
        g = fut.result()
        r = run_replay(binp, "TestReplay$", jp("gen_%s.jsonl" % name), jp("lib_%s.json" % name), jp("replay_%s.json" % name))
        return g, r
    futs = [(n, rpool.submit(gen_and_replay, n, f)) for n, f in (("exh", f_exh), ("dup", f_dup), ("sim", f_sim))]
    try:
        gens, results = [], []
        for name, f in futs:
            g, r = f.result()
            gens.append((name, g))
            results.append(r)
        mc, mcd, sw = f_mc.result(), f_mcd.result(), f_sw.result()
        conc, cmc = f_conc.result(), f_cmc.result()
    finally:
        pool.shutdown(wait=True)
        rpool.shutdown(wait=True)
        cpool.shutdown(wait=True)
    if sw.violated != "SubmissionOrder":
        raise vlib.Inconclusive("MC_Alerts_swap.cfg: expected TLC to refute SubmissionOrder when the earlier of two same-stamp submissions "
                                "is taken as the younger one, got %s %s (see %s)" % (sw.violated, sw.error, sw.stdout_path))
    log("  MC_Alerts_swap.cfg: the other reading of the stamp comparison contradicts SubmissionOrder after %d states (expected)" % sw.generated)
    nb = dict((n, g.behaviours) for n, g in gens)
    log("  Gen: %d exhaustive short behaviours, %d same-instant pairs (one body / two requests), %d simulated behaviours of 40 steps" %
        (nb["exh"], nb["dup"], nb["sim"]))
    if nb["exh"] < 500 or nb["sim"] < 100 or nb["dup"] < 1000:
        raise vlib.Inconclusive("Gen produced too few behaviours")
    for (name, g), r in zip(gens, results):
        lib = jp("lib_%s.json" % name)
        log("  replay %s: %d behaviours, %d steps, %d disagreements, counters %s" % (name, r["cases"], r["steps"], r["n_mismatches"], r["counters"]))
        for m in r["mismatches"][:5]:
            v.violation("real API deviates from the alert ingestion contract (Alerts.tla): %s at step %d (%s): specification %s, real code %s" %
                        (m["what"], m["step"], m.get("class"), json.dumps(m.get("want"))[:500], json.dumps(m.get("got"))[:500]),
                        [save_case(wd, m, lib, name)])

    cnt = sum_counters(results)
    need = {"mixed_batches": 10, "merged_posts": 10, "gc_deleted": 10, "empty_valued_label_alerts": 10,
            "invalid_alerts": 10, "suppressed_shown": 10, "gets": 1000,
            # equal stamps: bodies holding one label set more than once, merges taken on the overlap path with
            # equal stamps (in a body / across two requests), the disjoint path, outcomes the statement decides
            "bodies_with_duplicates": 500, "same_stamp_merges": 300, "same_instant_request_merges": 100,
            "same_stamp_replaces": 300, "same_stamp_order_decided_by_statement": 200}
    if not v.violations:
        for k, n in need.items():
            if cnt.get(k, 0) < n:
                raise vlib.Inconclusive("replay reached too few cases of %s (%d < %d)" % (k, cnt.get(k, 0), n))
    if cnt.get("stamp_drift", 0):
        v.notes.append("DRIFT property=%s %d behaviour(s) where, of two overlapping submissions of one label set with the same receive stamp, the real code "
                       "let the earlier one rule in a point the statement leaves open (explicit end before now+resolve_timeout after a missing endsAt; "
                       "the timeout flag under an explicit later end): not judged" % (PID, cnt["stamp_drift"]))
    if cnt.get("tie_drift", 0):
        v.notes.append("DRIFT property=%s %d behaviour(s) where the real code differs from Alerts.tla only in the reading of a comparison at equality (not judged; the specification is no longer exact there)" % (PID, cnt["tie_drift"]))
    log("  conc: design level %s" % json.dumps(cmc))
    mc_runs = {mc_cfg: [mc.distinct, mc.generated], "MC_Alerts_dup.cfg": [mcd.distinct, mcd.generated],
               "MC_Alerts_swap.cfg": "SubmissionOrder refuted after %d states (expected)" % sw.generated}
    mc_runs.update(cmc)
    coverage = {
        "states": mc.distinct + mcd.distinct + sum(x[0] for x in cmc.values() if isinstance(x, list)),
        "transitions": mc.generated + mcd.generated + sum(x[1] for x in cmc.values() if isinstance(x, list)),
        "mc_runs": mc_runs,
        "concurrent_histories": conc,
        "traces_validated_against_impl": sum(r["cases"] for r in results) + conc["histories_linearized_by_tlc"],
        "replay_steps": sum(r["steps"] for r in results),
        "evaluations": sum(r["cases"] for r in results),
        "distinct_nontrivial": sum(r["nontrivial"] for r in results),
        "counters": cnt,
        "drift": cnt.get("tie_drift", 0) + cnt.get("stamp_drift", 0),
        "rule": "one evaluation = one distinct behaviour printed by TLC (all behaviours of %d steps in the small universe + every pair of submissions of one "
                "label set at one instant, as one body and as two requests + simulated behaviours of 40 steps) "
                "replayed on a fresh real instance, every step compared; non-trivial = contains a batch with valid and invalid alerts (400 and the valid ones stored), "
                "a submission whose stored start/end differ from its own (a merge kept an earlier start or another end), or a same-stamp pair whose outcome "
                "the statement decides by submission order; in addition %d concurrent histories of one real provider + API (3-4 goroutines x 2-5 operations, 2-3 label sets, "
                "versions fire / refresh with a later end / resolve, two to four subscribers one of them slow) checked by the quiescence oracle, %d of them searched for a "
                "linearization by TLC (Trace_AlertsConc.tla)" % (4 if thorough else 3, conc["histories_recorded"], conc["histories_linearized_by_tlc"]),
        "mc_action_coverage": {a: g for a, (d, g) in mc.coverage.items() if a.startswith("Next@")},
        "samples": [trim_sample(r["samples"][0]) for r in results[1:] if r["samples"]],
        "exhaustive": True,
        "bounds": "MC (%s): label sets L1 (+ empty-valued variant, invalid variants) and L2, startsAt in {missing, now-1, now, now+1}, endsAt in {missing, now-1, now, now+1, now+3}, "
                  "resolve_timeout 2, time 0..%d, batches of 1-2, GC at every instant and between instants; Gen: 3 label sets + 4 posted variants, batches of 1-3, "
                  "time 0..16, GC period in {1,2,3,5,none}, one silence switched on/off; equal stamps: MC_Alerts_dup.cfg all bodies [A, B] of one label set (same start/end ranges) "
                  "in every reachable state, Gen_AlertsDup all pairs with startsAt in {missing, now-2..now+2}, endsAt in {missing, now-2..now+2, now+4} on an empty store "
                  "(one body / two requests at one instant), simulations: bodies of 2-3 with a duplicated label set (a third alert anywhere) and repeated requests at one instant; "
                  "concurrent stage: MC_AlertsConc 3 worker goroutines + GC ticker with fixed programs (a resolve racing a batch that ends with the same alert's refresh; "
                  "Put against Subscribe and SlurpAndSubscribe), all interleavings; recorded histories: 3-4 goroutines x 2-5 operations (Put / POST batches of 1-3, Get, GET, "
                  "Subscribe, SlurpAndSubscribe), 2-3 label sets, explicit start in {-4h,-3h} and end in {-2h,-1h,+2h,+4h,+6h}, slow subscriber's channel filled to 197-200 of 200 "
                  "and drained in 0-2 steps of 1-4 before it runs free, GC period 20-420 us in a quarter of the histories" % (mc_cfg, 5 if thorough else 4),
    }
    assumptions = [
        "equal receive stamps (one label set twice in a body; two requests at one virtual instant) are replayed; meaning taken from the statement's 'sequence of "
        "submissions': body order = submission order, each alert as a single-alert POST at that instant. Judged at equal stamps: after the LAST submission of a label set "
        "the alert is stored with this stamp, a missing endsAt gives end >= now+resolve_timeout, an explicit past end resolves it, an end that has not passed is not cut short, "
        "earliest start of overlapping submissions. Left open by the statement (drift, not judged): explicit end < now+resolve_timeout after a same-stamp submission without "
        "endsAt (that end or now+resolve_timeout), and the timeout flag when a submission without endsAt follows a same-stamp explicit end beyond now+resolve_timeout",
        "no two writes to the silence at the same instant",
        "request bodies satisfy the OpenAPI schema (an alert without a 'labels' member makes the generated server code reject the whole request with 422 before the handler runs; not covered)",
        "suppression status is bound through one silence only; inhibition (C03) is not part of the instance",
        "receivers: one fixed route tree (default receiver, one continue child, one plain child); routing in general is C07",
        "outcomes that depend only on the reading of a comparison at equality (t = endsAt, touching ranges) are accepted either way",
        "virtual time (testing/synctest) stands for the wall clock; the provider's GC runs on its real ticker",
        "concurrent stage: real time and real goroutines, no gate inside provider.Put - which interleavings occur is up to the Go scheduler (measured per run: histories with two "
        "overlapping Puts of one label set, with a Put blocked on the slow subscriber's full channel, with a Put overlapping a subscription; too few => Inconclusive); a race "
        "window that never opens in the recorded histories is not covered",
        "concurrent stage: linearizability is judged against AlertsConc.tla, where every alert of a Put takes effect (store and channel writes) in ONE step between the call "
        "and the return, in body order (searched first with the whole batch as one step, as the code does; a history rejected that way gets its verdict from the search with one "
        "step per alert - batch atomicity is not part of any statement), and "
        "the delivery order is fixed per subscriber and LABEL SET (the order of different alerts in a channel is not part of any statement); events are ordered by one atomic "
        "counter read just before a call and just after a return / receive, so a recorded interval contains the real one (never wall-clock merging)",
        "concurrent stage: every submission carries explicit startsAt/endsAt whole hours away from the history's start, so merge outcomes do not depend on the clock; UpdatedAt "
        "stamps are read before the provider mutex (as postAlertsHandler does) and enter the specification as data (rank), including the case stamp order != lock order; GET "
        "/api/v2/alerts is compared without updatedAt (printed rounded)",
        "concurrent stage: TLC searches linearizations for the first %d recorded histories; the remaining %d are judged by the quiescence oracle only (plus TLC for those the oracle flags)" %
        (conc["histories_linearized_by_tlc"], conc["histories_recorded"] - conc["histories_linearized_by_tlc"]),
    ]
    return "model_checking", coverage, assumptions


def replay(path, v, pid=PID, pkg="c13", mode_test="TestReplay$"):
    data = json.load(open(path))
    wd = os.path.join(vlib.OUT, pid)
    binp = vlib.go_build_test(pid, pkg)
    if isinstance(data, dict) and "conc_history" in data:
        # a recorded concurrent history cannot be re-run (the schedule was the Go scheduler's): it is judged again
        os.makedirs(wd, exist_ok=True)
        hist = data["conc_history"]
        rj, states, _ = conc_validate(pid, "replay", [json.dumps(x, separators=(",", ":")) for x in hist], max_rejects=1, cfg="Trace_AlertsConc_alert.cfg")
        orc = conc_oracle(hist)
        log("  recorded concurrent history (%d events): TLC %s (%d states); quiescence oracle: %s" %
            (len(hist), ("finds no linearization, first unexplainable event %d: %s" % (rj[0][1] + 1, conc_describe(rj[0][2]))) if rj else "accepts", states, orc or "ok"))
        if rj or orc:
            v.violation("replay: recorded concurrent history is not linearizable with respect to AlertsConc.tla%s%s" %
                        ((" (event %d: %s)" % (rj[0][1] + 1, conc_describe(rj[0][2]))) if rj else "", ("; " + orc[0]) if orc else ""), [path])
        return
    if isinstance(data, dict) and "behaviour" in data:
        lib, beh = data["lib"], data["behaviour"]
    else:
        raise vlib.Inconclusive("replay file must be {lib, behaviour} as written by this check")
    inp, libp, out = os.path.join(wd, "replay_in.jsonl"), os.path.join(wd, "replay_lib.json"), os.path.join(wd, "replay_out.json")
    open(inp, "w").write(json.dumps(beh) + "\n")
    json.dump(lib, open(libp, "w"))
    r = run_replay(binp, mode_test, inp, libp, out)
    for m in r["mismatches"]:
        if m.get("class") == "F4" and [f for f in vlib.known_findings(pid) if f["key"] == "F4"]:
            v.known_finding("F4", "replay reproduces the finding: %s" % m["what"])
            continue
        v.violation("replay: %s at step %d want %s got %s" % (m["what"], m["step"], m.get("want"), m.get("got")), [path])
    log("  replayed %d steps, %d disagreements" % (r["steps"], r["n_mismatches"]))
