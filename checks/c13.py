"""C13 - alert ingestion: defaults, merge and visibility follow the API contract.

Spec: spec/Alerts.tla (ApiPost: defaulting, empty-label removal, validation, best-effort insert;
Put: strict overlap test + alert.Merge; GC/TickGC; ApiGet; SilOn/SilOff).  MC: MC_Alerts.cfg
(contract clauses as invariants / action properties).  Bind: behaviours printed by TLC from
Gen_Alerts (all short ones + simulated long ones) replayed through the REAL in-process handlers
(POST/GET /api/v2/alerts, POST/DELETE silence) on a real mem.Alerts whose GC ticker runs under
virtual time; status codes, GET payload, stored alerts (provider.Get) and GC deletions compared."""
import json, os, re, hashlib
from lib import vlib
from lib.vlib import log

PID = "C13"


# ------------------------------------------------------------------ helpers (also used by checks/c18.py)
def derive_cfg(pid, src, dst, **subst):
    """Copy spec/mc/<src> to out/<pid>/<dst> with constants replaced (NAME="= value" / "<- Def")."""
    c = open(os.path.join(vlib.SPEC, "mc", src)).read()
    for k, val in subst.items():
        c, n = re.subn(r"(?m)^  %s (=|<-) .*$" % k, "  %s %s" % (k, val), c)
        if n != 1:
            raise vlib.Inconclusive("cannot set %s in %s" % (k, src))
    p = os.path.join(vlib.OUT, pid, dst)
    open(p, "w").write(c)
    return p


def cfg_ops(path):
    c = open(path).read()
    m = re.search(r"(?m)^  Ops = \{(.*)\}", c)
    return [x.strip().strip('"') for x in m.group(1).split(",") if x.strip()]


def tlc_gen(pid, name, module, cfg, out_path, lib_path, simulate=None, depth=None, workers=8, timeout=600, files=None):
    """Let TLC print behaviours (@@H lines, de-duplicated into out_path) and the library (@@L line)."""
    raw = out_path + ".raw"
    extra = ["-seed", str(vlib.seed())] if simulate else None
    r = vlib.tlc(pid, name, module, cfg, workers=workers, timeout=timeout, simulate=simulate, depth=depth,
                 marker="@@H ", payload_to=raw, extra=extra, files=files)
    if r.timed_out and not simulate:
        raise vlib.Inconclusive("Gen %s timed out" % name)
    if r.violated or (r.error and not r.timed_out) or (r.rc != 0 and not r.timed_out):
        raise vlib.Inconclusive("Gen %s: TLC failed: %s %s (see %s)" % (name, r.violated, r.error, r.stdout_path))
    seen, n = set(), 0
    with open(raw) as f, open(out_path, "w") as o:
        for line in f:
            h = hashlib.sha1(line.encode()).digest()
            if h in seen:
                continue
            seen.add(h)
            o.write(line)
            n += 1
    os.remove(raw)
    r.behaviours = n
    txt = open(r.stdout_path, errors="replace").read()
    m = re.search(r'^"@@L (.*)"$', txt, re.M)
    if not m:
        raise vlib.Inconclusive("Gen %s printed no library line" % name)
    open(lib_path, "w").write(json.loads('"' + m.group(1) + '"'))
    return r


def mc_run(pid, name, module, cfg, timeout, files=None, cfg_path=None, cov_maxtime=2):
    """Exhaustive TLC run that must pass.  Vacuity: a second, small run of the same configuration
    (time bound cov_maxtime) with TLC's coverage shows that every enabled disjunct of Next fires
    (coverage on the full run would more than double its time)."""
    src = cfg_path or os.path.join(vlib.SPEC, "mc", cfg)
    mc = vlib.tlc(pid, name, module, cfg, workers=8, timeout=timeout, files=files)
    vlib.tlc_must_pass(mc, cfg)
    log("  %s: %d states generated, %d distinct, depth %d, %.1fs" % (cfg, mc.generated, mc.distinct, mc.depth, mc.wall))
    c = re.sub(r"(?m)^  MaxTime = .*$", "  MaxTime = %d" % cov_maxtime, open(src).read())
    covp = os.path.join(vlib.OUT, pid, "cov_" + os.path.basename(src))
    open(covp, "w").write(c)
    cv = vlib.tlc(pid, name + "_cov", module, os.path.basename(covp), workers=4, timeout=timeout, coverage=True, files=(files or []) + [covp])
    vlib.tlc_must_pass(cv, "coverage run of " + cfg)
    ops = cfg_ops(src)
    expected = sum(2 if o == "sil" else 1 for o in ops)
    live = len([a for a, (d, g) in cv.coverage.items() if a.startswith("Next@") and g > 0])
    if live < expected:
        raise vlib.Inconclusive("%s: only %d of %d enabled actions were ever taken (see %s)" % (cfg, live, expected, cv.stdout_path))
    mc.coverage = cv.coverage
    return mc


def run_replay(binp, test, gen_path, lib_path, out):
    rc, txt = vlib.go_run_test(binp, test, ["-in", gen_path, "-lib", lib_path, "-out", out])
    if rc != 0:
        raise vlib.Inconclusive("replay harness failed:\n" + txt[-3000:])
    r = vlib.load_result(out)
    for m in r["mismatches"]:
        if m.get("class") == "harness":
            raise vlib.Inconclusive("harness problem: %s want %s got %s" % (m["what"], m.get("want"), m.get("got")))
    return r


def save_case(wd, m, lib_path, tag=""):
    rp = os.path.join(wd, "replay_case_%s%d_%d.json" % (tag, m["case"], m["step"]))
    json.dump({"lib": json.load(open(lib_path)), "behaviour": m.get("replay"), "failing_step": m["step"]}, open(rp, "w"))
    return rp


def trim_sample(raw, n=5):
    out = []
    for s in json.loads(json.dumps(raw))[:n]:
        out.append({"op": s["e"], "t": s["t"], "stored": s["st"], "visible": s["vis"]})
    return out


def sum_counters(results):
    keys = set().union(*[r["counters"].keys() for r in results]) if results else set()
    return {k: sum(r["counters"].get(k, 0) for r in results) for k in sorted(keys)}


# ------------------------------------------------------------------ the check
def run(tier, v):
    wd = os.path.join(vlib.OUT, PID)
    thorough = tier == "thorough"

    # 1. the design: contract clauses over all submission histories in the bounds
    mc_cfg = "MC_Alerts_thorough.cfg" if thorough else "MC_Alerts.cfg"
    mc = mc_run(PID, "mc", "MC_Alerts", mc_cfg, timeout=1500 if thorough else 300)

    binp = vlib.go_build_test(PID, "c13")

    # 2. behaviours printed by TLC replayed through the real handlers
    gens = []
    exh_cfg = "Gen_Alerts_exh.cfg"
    files = None
    if thorough:
        files = [derive_cfg(PID, "Gen_Alerts_exh.cfg", "Gen_Alerts_exh4.cfg", HistLen="= 4")]
        exh_cfg = "Gen_Alerts_exh4.cfg"
    g = tlc_gen(PID, "gen_exh", "Gen_Alerts", exh_cfg, os.path.join(wd, "gen_exh.jsonl"), os.path.join(wd, "lib_exh.json"),
                timeout=900, files=files)
    gens.append(("exh", g))
    g = tlc_gen(PID, "gen_sim", "Gen_Alerts", "Gen_Alerts.cfg", os.path.join(wd, "gen_sim.jsonl"), os.path.join(wd, "lib_sim.json"),
                simulate="num=%d" % (400 if thorough else 40), depth=45, workers=8, timeout=1200)
    gens.append(("sim", g))
    log("  Gen: %d exhaustive short behaviours, %d simulated behaviours of 40 steps" % (gens[0][1].behaviours, gens[1][1].behaviours))
    if gens[0][1].behaviours < 500 or gens[1][1].behaviours < 100:
        raise vlib.Inconclusive("Gen produced too few behaviours")
    results = []
    for name, g in gens:
        lib = os.path.join(wd, "lib_%s.json" % name)
        r = run_replay(binp, "TestReplay$", os.path.join(wd, "gen_%s.jsonl" % name), lib, os.path.join(wd, "replay_%s.json" % name))
        log("  replay %s: %d behaviours, %d steps, %d disagreements, counters %s" % (name, r["cases"], r["steps"], r["n_mismatches"], r["counters"]))
        for m in r["mismatches"][:5]:
            v.violation("real API deviates from the alert ingestion contract (Alerts.tla): %s at step %d (%s): specification %s, real code %s" %
                        (m["what"], m["step"], m.get("class"), json.dumps(m.get("want"))[:500], json.dumps(m.get("got"))[:500]),
                        [save_case(wd, m, lib, name)])
        results.append(r)

    cnt = sum_counters(results)
    need = {"mixed_batches": 10, "merged_posts": 10, "gc_deleted": 10, "empty_valued_label_alerts": 10,
            "invalid_alerts": 10, "suppressed_shown": 10, "gets": 1000}
    if not v.violations:
        for k, n in need.items():
            if cnt.get(k, 0) < n:
                raise vlib.Inconclusive("replay reached too few cases of %s (%d < %d)" % (k, cnt.get(k, 0), n))
    if cnt.get("tie_drift", 0):
        v.notes.append("DRIFT property=%s %d behaviour(s) where the real code differs from Alerts.tla only in the reading of a comparison at equality (not judged; the specification is no longer exact there)" % (PID, cnt["tie_drift"]))
    coverage = {
        "states": mc.distinct, "transitions": mc.generated,
        "traces_validated_against_impl": sum(r["cases"] for r in results),
        "replay_steps": sum(r["steps"] for r in results),
        "evaluations": sum(r["cases"] for r in results),
        "distinct_nontrivial": sum(r["nontrivial"] for r in results),
        "counters": cnt,
        "drift": cnt.get("tie_drift", 0),
        "rule": "one evaluation = one distinct behaviour printed by TLC (all behaviours of %d steps in the small universe + simulated behaviours of 40 steps) "
                "replayed on a fresh real instance, every step compared; non-trivial = contains a batch with valid and invalid alerts (400 and the valid ones stored) "
                "or a submission whose stored start/end differ from its own (a merge kept an earlier start or another end)" % (4 if thorough else 3),
        "mc_action_coverage": {a: g for a, (d, g) in mc.coverage.items() if a.startswith("Next@")},
        "samples": [trim_sample(results[1]["samples"][0])] if results[1]["samples"] else [],
        "exhaustive": True,
        "bounds": "MC (%s): label sets L1 (+ empty-valued variant, invalid variants) and L2, startsAt in {missing, now-1, now, now+1}, endsAt in {missing, now-1, now, now+1, now+3}, "
                  "resolve_timeout 2, time 0..%d, batches of 1-2, GC at every instant and between instants; Gen: 3 label sets + 4 posted variants, batches of 1-3, "
                  "time 0..16, GC period in {1,2,3,5,none}, one silence switched on/off" % (mc_cfg, 5 if thorough else 4),
    }
    assumptions = [
        "no two submissions of one label set and no two writes to the silence at the same instant in the replayed behaviours (exhaustive model checking includes them)",
        "request bodies satisfy the OpenAPI schema (an alert without a 'labels' member makes the generated server code reject the whole request with 422 before the handler runs; not covered)",
        "suppression status is bound through one silence only; inhibition (C03) is not part of the instance",
        "receivers: one fixed route tree (default receiver, one continue child, one plain child); routing in general is C07",
        "outcomes that depend only on the reading of a comparison at equality (t = endsAt, touching ranges) are accepted either way",
        "virtual time (testing/synctest) stands for the wall clock; the provider's GC runs on its real ticker",
    ]
    return "model_checking", coverage, assumptions


def replay(path, v, pid=PID, pkg="c13", mode_test="TestReplay$"):
    data = json.load(open(path))
    wd = os.path.join(vlib.OUT, pid)
    binp = vlib.go_build_test(pid, pkg)
    if isinstance(data, dict) and "behaviour" in data:
        lib, beh = data["lib"], data["behaviour"]
    else:
        raise vlib.Inconclusive("replay file must be {lib, behaviour} as written by this check")
    inp, libp, out = os.path.join(wd, "replay_in.jsonl"), os.path.join(wd, "replay_lib.json"), os.path.join(wd, "replay_out.json")
    open(inp, "w").write(json.dumps(beh) + "\n")
    json.dump(lib, open(libp, "w"))
    r = run_replay(binp, mode_test, inp, libp, out)
    for m in r["mismatches"]:
        if m.get("class") == "F4" and [f for f in vlib.known_findings(pid) if f["key"] == "F4"]:
            v.known_finding("F4", "replay reproduces the finding: %s" % m["what"])
            continue
        v.violation("replay: %s at step %d want %s got %s" % (m["what"], m["step"], m.get("want"), m.get("got")), [path])
    log("  replayed %d steps, %d disagreements" % (r["steps"], r["n_mismatches"]))
