"""C14 - updates of one alert are applied to its groups in submission order.

Spec: Dispatch.tla (workers, lock-free group creation, flush end, maintenance at the granularity of the
atomic operations) and its coarse view Ingest.tla.  MC: MC_Dispatch*.cfg.  Bind: every schedule of
Ingest.tla (which ingestion worker gets to run when, interleaved with flushes) is executed on the real
dispatcher through the blocking verif hook between receive and route (virtual time; real API, provider,
dispatcher); the version held by the real group is compared with the model after every step and the
property is evaluated on the real groups at the end.  Plus the clause C14_stale_version_in_group of the
end-to-end observer on the recorded scenario runs."""
import json, os
from lib import vlib
from lib.vlib import log
from checks import e2ecommon

PID = "C14"


def run(tier, v):
    wd = os.path.join(vlib.OUT, PID)
    thorough = tier == "thorough"
    # 1. the lock-free group management never splits a group key over two live groups (all interleavings)
    mc = vlib.tlc(PID, "mc", "MC_Dispatch", "MC_Dispatch_thorough.cfg" if thorough else "MC_Dispatch.cfg", workers=8, timeout=1800)
    vlib.tlc_must_pass(mc, "MC_Dispatch")
    log("  MC_Dispatch: %d generated, %d distinct, depth %d (OneLiveGroup over all interleavings)" % (mc.generated, mc.distinct, mc.depth))
    # the ordering property itself fails on the faithful model (F3): informational
    c14 = vlib.tlc(PID, "mc_c14", "MC_Dispatch", "MC_Dispatch_c14.cfg", workers=4, timeout=300)
    f3_in_model = c14.violated == "LatestWins"

    binp = vlib.go_build_test(PID, "e2e")
    results = []
    total = 0
    for cfgname in ["Gen_Ingest.cfg", "Gen_Ingest_b.cfg"]:
        gp = os.path.join(wd, cfgname.replace(".cfg", ".jsonl"))
        g = vlib.gen_behaviours(PID, cfgname.replace(".cfg", ""), "Gen_Ingest", cfgname, gp, workers=4, timeout=600)
        if g.behaviours < 20:
            raise vlib.Inconclusive("%s produced only %d schedules" % (cfgname, g.behaviours))
        total += g.behaviours
        out = os.path.join(wd, cfgname.replace(".cfg", ".json"))
        resolved = "2,4" if cfgname == "Gen_Ingest.cfg" else "2"
        rc, txt = vlib.go_run_test(binp, "TestIngest$", ["-in", gp, "-out", out], env_extra={"VERIF_RESOLVED": resolved}, timeout=2400)
        if rc != 0:
            raise vlib.Inconclusive("ingest replay failed:\n" + txt[-3000:])
        r = vlib.load_result(out)
        log("  %s: %d schedules on the real dispatcher, %d steps, counters %s" % (cfgname, r["cases"], r["steps"], r["counters"]))
        results.append(r)
    open_f3 = [f for f in vlib.known_findings(PID) if f["key"] == "F3"]
    f3 = sum(r["counters"].get("F3", 0) for r in results)
    for r in results:
        for m in r["mismatches"]:
            rp = os.path.join(wd, "schedule_case_%d.json" % m["case"])
            json.dump(m.get("replay"), open(rp, "w"))
            if m.get("class") == "F3":
                if open_f3:
                    v.known_finding("F3", "ingestion workers that received successive updates of one alert hand them to the group out of order: "
                                          "the group ends with version %s instead of %s in %d of %d schedules (e.g. %s)" %
                                    (m.get("got"), m.get("want"), f3, total, rp))
                else:
                    v.violation("an older update overwrote a newer one: group holds version %s, last submitted %s" % (m.get("got"), m.get("want")), [rp])
            else:
                v.violation("%s: last submitted version %s, group holds %s" % (m["what"], m.get("want"), m.get("got")), [rp])
    if open_f3 and f3 == 0:
        v.notes.append("KNOWN-FINDING-NOT-REPRODUCED property=C14 F3")
    drift = sum(r["counters"].get("differs_from_model", 0) for r in results)
    if drift:
        v.notes.append("DRIFT property=C14 the real group content differs from Ingest.tla after %d step(s)" % drift)

    # 1b. schedules of Dispatch.tla itself (all its actions, not only the hand-over order) replayed in lock step
    from checks import dschedcommon
    ds = dschedcommon.run_dispatch_schedules(PID, tier, v)

    # 2. the observer clause on the end-to-end scenario runs
    e = e2ecommon._run_scenarios(PID, tier, v, 200, 3000)
    e2ecommon.judge(PID, v, e, {"C14"})

    cov = {
        "states": mc.distinct + e["tlc"].distinct, "transitions": mc.generated + e["tlc"].generated,
        "traces_validated_against_impl": total + e["runs"],
        "evaluations": total, "distinct_nontrivial": sum(r["nontrivial"] for r in results),
        "rule": "one case = one schedule of Ingest.tla (4 updates fire/resolve/fire/resolve or 3 updates, up to 3 workers holding updates at once, "
                "up to 2 flush periods), all of them enumerated by TLC; non-trivial = the schedule hands the updates over out of submission order and the stale result shows on the real dispatcher",
        "dispatch_schedules": ds, "f3_schedules": f3, "f3_counterexample_in_model": f3_in_model, "drift_steps": drift,
        "samples": [results[0]["samples"][0]] if results[0]["samples"] else [],
        "exhaustive": True,
        "bounds": "MC_Dispatch: 2 workers (3 thorough), 3-4 versions, all interleavings of Recv/Load/Insert/Create/Store/FlushBegin/FlushEnd/Maint; "
                  "Gen_Ingest: all schedules of 3-4 versions with <=3 workers and <=2 flush periods",
    }
    return "model_checking", cov, [
        "the hook between receive and route (build tag verif) is the only scheduling control; routeAlert itself runs un-gated",
        "time passes only in flush periods (virtual time)",
        "F3 is a listed finding: schedules that hand updates over in submission order must satisfy the property; out-of-order ones are excused only when the real result equals the model's",
    ] + dschedcommon.ASSUMPTIONS


def replay(path, v):
    binp = vlib.go_build_test(PID, "e2e")
    wd = os.path.join(vlib.OUT, PID)
    data = json.load(open(path))
    inp = os.path.join(wd, "replay_in.jsonl")
    open(inp, "w").write(json.dumps(data) + "\n")
    out = os.path.join(wd, "replay_out.json")
    vlib.go_run_test(binp, "TestIngest$", ["-in", inp, "-out", out])
    r = vlib.load_result(out)
    for m in r["mismatches"]:
        if m.get("class") != "F3" or not vlib.known_findings(PID):
            v.violation("replay: %s want %s got %s" % (m["what"], m.get("want"), m.get("got")), [path])
