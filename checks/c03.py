"""C03 - inhibition follows the documented existential rule, independent of arrival order.

Spec: spec/Inhibit.tla (implementation layer: per-rule source cache + one-source-per-equal-value
index + gcCallback + hasEqual; reference layer: InhibitedRef over the provider's firing alerts).
MC: spec/mc/MC_Inhibit*.cfg (refinement checked as "exact or a listed gap", DESIGN.md 4.4).
Gen: Gen_Inhibit (all short histories) + Sim_Inhibit (random long ones) replayed by
harness/c03 on the real config.Load (rule sets incl. optional, possibly repeated rule names, rendered
to YAML) + mem.Alerts + inhibit.NewInhibitor/Run + notify.MuteStage under virtual time;
the oracle of the replay is the reference evaluated over the alerts the real provider holds firing.

Finding F2 (three variants F2a/F2b/F2c, known_findings.d/C03.json): a missed inhibition whose
signature (direction, agreement with the implementation layer, gap class of the cache/index
state) matches an open entry prints KNOWN-FINDING; anything else is a VIOLATION."""
import json, os, re, threading
from lib import vlib
from lib.vlib import log

PID = "C03"
CLASSES = ("F2a", "F2b", "F2c")
TEXT = {
    "F2a": "target not inhibited although a source still fires: the rule's index entry points at another source with the same "
           "equal-label values that is resolved / timed out / was refreshed with an earlier end (index keeps one source per value and is not re-pointed)",
    "F2b": "target not inhibited although a source still fires: the rule-cache GC callback deleted the index entry by equal-label "
           "fingerprint when it collected another, resolved source with the same values",
    "F2c": "alert matching both sides not inhibited although a one-sided source fires: the single indexed source is itself two-sided "
           "and hides the one-sided one",
}


def derive_cfg(base, name, subst):
    """A variant of spec/mc/<base> with some CONSTANTS replaced, written to the scratch directory."""
    txt = open(os.path.join(vlib.SPEC, "mc", base)).read()
    for k, val in subst.items():
        txt, n = re.subn(r"(?m)^(\s*%s\s*=).*$" % re.escape(k), lambda m: "%s %s" % (m.group(1), val), txt)
        if n != 1:
            raise vlib.Inconclusive("cannot set %s in %s" % (k, base))
    p = os.path.join(vlib.OUT, PID, name)
    open(p, "w").write(txt)
    return p


def tla_set(xs):
    return "{" + ", ".join('"%s"' % x for x in sorted(xs)) + "}"


def library_of(g, wd, name):
    txt = open(g.stdout_path, errors="replace").read()
    m = re.search(r'^"@@L (.*)"$', txt, re.M)
    if not m:
        raise vlib.Inconclusive("Gen %s printed no library" % name)
    p = os.path.join(wd, "lib_%s.json" % name)
    open(p, "w").write(json.loads('"' + m.group(1) + '"'))
    return p


def split_file(path, n):
    """Split a jsonl file into n parts (round robin) for parallel replay."""
    outs = [open("%s.part%d" % (path, i), "w") for i in range(n)]
    with open(path) as f:
        for i, line in enumerate(f):
            outs[i % n].write(line)
    for o in outs:
        o.close()
    return ["%s.part%d" % (path, i) for i in range(n)]


def replay_parallel(binp, gp, lib, wd, name, procs):
    parts = split_file(gp, procs) if procs > 1 else [gp]
    results = [None] * len(parts)
    errors = []

    def work(k):
        out = os.path.join(wd, "replay_%s_%d.json" % (name, k))
        try:
            rc, txt = vlib.go_run_test(binp, "TestReplay$", ["-in", parts[k], "-out", out, "-lib", lib], timeout=1500)
            if rc != 0:
                errors.append("replay harness failed:\n" + txt[-3000:])
                return
            results[k] = vlib.load_result(out)
        except vlib.Inconclusive as e:
            errors.append(str(e))

    ths = [threading.Thread(target=work, args=(k,)) for k in range(len(parts))]
    for t in ths:
        t.start()
    for t in ths:
        t.join()
    if errors:
        raise vlib.Inconclusive(errors[0])
    agg = {"cases": 0, "steps": 0, "nontrivial": 0, "n_mismatches": 0, "counters": {}, "mismatches": [], "samples": []}
    for r in results:
        for k in ("cases", "steps", "nontrivial", "n_mismatches"):
            agg[k] += r[k]
        for k, n in r["counters"].items():
            agg["counters"][k] = agg["counters"].get(k, 0) + n
        agg["mismatches"] += r["mismatches"]
        agg["samples"] += r["samples"][:1]
    for p in parts:
        if p != gp:
            os.remove(p)
    return agg


def judge(v, results, wd, open_keys):
    """Verdict policy.  Returns (reproduced classes, notes)."""
    cnt = {}
    for r in results:
        for k, n in r["counters"].items():
            cnt[k] = cnt.get(k, 0) + n
    nviol = 0
    drift = 0
    for r in results:
        for m in r["mismatches"]:
            cls = m.get("class", "")
            rp = os.path.join(wd, "replay_case_%s_%d_%d.json" % (cls, m["case"], m["step"]))
            if not (cls in CLASSES and os.path.exists(os.path.join(wd, "reproducer_%s.json" % cls))):
                json.dump(m.get("replay"), open(rp if cls not in CLASSES else os.path.join(wd, "reproducer_%s.json" % cls), "w"))
            if cls == "harness":
                raise vlib.Inconclusive("harness problem: %s %s" % (m["what"], m.get("got")))
            if cls == "model":
                drift += 1
                continue
            if cls in CLASSES and cls in open_keys:
                continue          # reported once per class below
            if cls in CLASSES:
                rp = os.path.join(wd, "reproducer_%s.json" % cls)
            nviol += 1
            if nviol <= 5:
                what = m["what"]
                if cls in CLASSES:
                    what += " [signature %s is not an open finding]" % cls
                v.violation("%s at step %d of a TLC behaviour (rule set %s): documented rule says %s, real code %s" %
                            (what, m["step"], (m.get("replay") or {}).get("rs"), json.dumps(m.get("want"))[:500],
                             json.dumps(m.get("got"))[:500]), [rp])
    reproduced = []
    for c in CLASSES:
        n = cnt.get("gap_" + c, 0)
        miss = cnt.get("gap_not_reproduced_" + c, 0)
        if c in open_keys:
            if n > 0:
                reproduced.append(c)
                v.known_finding(c, "%s (%s) - reproduced on the real code in %d Mutes evaluations of replayed behaviours" % (c, TEXT[c], n))
            elif miss > 0:
                v.notes.append("KNOWN-FINDING-NOT-REPRODUCED property=%s %s: the specification expects the gap in %d evaluations, "
                               "the real code follows the documented rule there (repaired?)" % (PID, c, miss))
            else:
                raise vlib.Inconclusive("gap class %s was not exercised by the generated behaviours" % c)
    drift_impl = cnt.get("model_drift_impl", 0)
    if drift or cnt.get("model_drift_provider", 0) or cnt.get("model_drift_reference", 0) or drift_impl:
        v.notes.append("DRIFT property=%s code and Inhibit.tla disagree (provider state %d, reference input %d, implementation verdict %d evaluations); "
                       "verdicts were judged against the reference over the REAL provider" %
                       (PID, cnt.get("model_drift_provider", 0), cnt.get("model_drift_reference", 0), drift_impl))
    return reproduced, cnt


def run(tier, v):
    wd = os.path.join(vlib.OUT, PID)
    thorough = tier == "thorough"
    seed = vlib.seed()
    open_keys = sorted(f["key"] for f in vlib.known_findings(PID) if f["key"] in CLASSES)
    known = tla_set(open_keys)

    # ---- 1. the design: exhaustive model checking (runs beside the harness build and the generators)
    # mc_names: two rules carrying the same optional name (N1: different rules, N1r: other order, N2: identical rules);
    # InvNameBlind = the verdict of both layers is that of the same rules without names, and every rule is loaded
    mc_jobs = [("mc", "MC_Inhibit.cfg", {}), ("mc_names", "MC_Inhibit_names.cfg", {"UseRuleSets": '{"N1"}'})]
    if thorough:
        mc_jobs = [("mc_queue", "MC_Inhibit_thorough.cfg", {}), ("mc_time", "MC_Inhibit_time.cfg", {}),
                   ("mc_2r", "MC_Inhibit_2r.cfg", {}), ("mc_eq", "MC_Inhibit_eq.cfg", {}),
                   ("mc_names", "MC_Inhibit_names.cfg", {})]
    mcs = {}

    def run_mcs(jobs):    # one after the other, beside the generators (4 workers) and the replay
        for name, base, subst in jobs:
            try:
                cfg = derive_cfg(base, "x_" + base, dict(subst, KnownGaps=known))
                mcs[name] = vlib.tlc(PID, name, "MC_Inhibit", "x_" + base, workers=3 if thorough else 4,
                                     timeout=1500 if thorough else 300, coverage=False, files=[cfg])
            except Exception as e:       # judged after join
                mcs[name] = e
    if thorough:
        # two chains of about equal length: (queue, 2r) and (time, eq, names)
        ths = [threading.Thread(target=run_mcs, args=(mc_jobs[0:4:2],)), threading.Thread(target=run_mcs, args=(mc_jobs[1:4:2] + mc_jobs[4:],))]
    else:           # quick: one after the other (both end before the replay does)
        ths = [threading.Thread(target=run_mcs, args=(mc_jobs,))]
    for t in ths:
        t.start()

    try:
        binp = vlib.go_build_test(PID, "c03")

        # ---- 2. behaviours printed by TLC
        gens = []   # (name, cfg description, path, lib, tlc result)
        # exh_names: rule sets whose rules repeat a name (rendered to YAML, loaded by the real config.Load)
        names_sets = {"UseRuleSets": '{"N1", "N1r", "N2", "N3"}', "PutAlerts": '{"S1", "B", "T"}', "ScacheGCEvery": "2", "ProvGCEvery": "3"}
        jobs = [("exh", "Gen_Inhibit.cfg", {}, None, None),
                ("exh_names", "Gen_Inhibit.cfg", dict(names_sets, HistLen="4" if thorough else "3"), None, None)]
        if thorough:
            jobs += [("exh_deep", "Gen_Inhibit.cfg", {"HistLen": "6"}, None, None),
                     ("exh_wide", "Gen_Inhibit.cfg", {"HistLen": "4", "EndOffs": "{1, 2, 3}", "Timeouts": "{TRUE, FALSE}"}, None, None),
                     ("exh_2r", "Gen_Inhibit.cfg", {"UseRuleSets": '{"D1"}', "PutAlerts": '{"S1", "S2", "B", "T"}',
                                                    "Queries": '{"S1", "S2", "B", "T", "T2"}', "ScacheGCEvery": "2", "ProvGCEvery": "3"}, None, None),
                     ("exh_eq", "Gen_Inhibit.cfg", {"UseRuleSets": '{"E0", "E2"}', "PutAlerts": '{"S1", "S3", "B"}', "HistLen": "4",
                                                    "Queries": '{"S1", "B", "T", "T2", "T3"}', "ProvGCEvery": "1"}, None, None)]
        # -simulate num is per worker (4 workers)
        jobs += [("sim", "Sim_Inhibit.cfg", {}, "num=%d" % (5000 if thorough else 700), 36)]
        for name, base, subst, sim, depth in jobs:
            cfg = derive_cfg(base, "g_%s.cfg" % name, dict(subst, KnownGaps=known))
            gp = os.path.join(wd, "gen_%s.jsonl" % name)
            g = _gen(name, gp, sim, depth, cfg, thorough, seed)
            lib = library_of(g, wd, name)
            log("  Gen %s: %d behaviours in %.1fs" % (name, g.behaviours, g.wall))
            if g.behaviours < (200 if sim else 1000):
                raise vlib.Inconclusive("Gen %s produced only %d behaviours" % (name, g.behaviours))
            gens.append((name, gp, lib, g))

        # ---- 3. direction A: every behaviour executed on the real provider + inhibitor
        results = []
        for name, gp, lib, g in gens:
            r = replay_parallel(binp, gp, lib, wd, name, 6 if g.behaviours > 5000 else 1)
            log("  replay %s: %d behaviours, %d steps, %d disagreements, counters %s" %
                (name, r["cases"], r["steps"], r["n_mismatches"], json.dumps(r["counters"], sort_keys=True)))
            results.append(r)
    finally:
        for t in ths:
            t.join()

    states = trans = 0
    cover = {}
    for name, base, _ in mc_jobs:
        mc = mcs.get(name)
        if isinstance(mc, Exception):
            if isinstance(mc, vlib.Inconclusive):
                raise mc
            raise vlib.Inconclusive("MC %s: %s" % (name, mc))
        vlib.tlc_must_pass(mc, base)
        log("  %s: %d states generated, %d distinct, depth %d, %.1fs (KnownGaps = %s)" % (base, mc.generated, mc.distinct, mc.depth, mc.wall, known))
        states += mc.distinct
        trans += mc.generated
        cover[name] = {"generated": mc.generated, "distinct": mc.distinct, "depth": mc.depth}

    reproduced, cnt = judge(v, results, wd, open_keys)
    mutes = cnt.get("mutes", 0)
    inh = cnt.get("mutes_inhibited_by_reference", 0)
    if mutes < 1000 or inh < 100:
        raise vlib.Inconclusive("too few Mutes evaluations reached (%d, %d inhibited by the reference)" % (mutes, inh))
    if cnt.get("order_keys_reached_by_several_histories", 0) < 10:
        raise vlib.Inconclusive("order independence not exercised")
    for shape in ("unnamed", "uniquely_named", "duplicate_names", "duplicate_names_identical_rules"):
        if cnt.get("cases_rules_" + shape, 0) < 50:
            raise vlib.Inconclusive("rule sets with %s rules were replayed in only %d behaviours" % (shape, cnt.get("cases_rules_" + shape, 0)))

    sample = []
    if results and results[0]["samples"]:
        s = json.loads(json.dumps(results[0]["samples"][0]))
        sample = [[{"op": st["e"], "t": st["t"], "firing": st["firing"],
                    "verdicts": [{k: x[k] for k in ("ls", "impl", "ref", "gap")} for x in st["v"]]} for st in s[:5]]]
    coverage = {
        "states": states, "transitions": trans,
        "traces_validated_against_impl": sum(r["cases"] for r in results),
        "replay_steps": sum(r["steps"] for r in results),
        "evaluations": mutes,
        "distinct_nontrivial": inh,
        "counters": cnt,
        "rule": "one evaluation = one real Inhibitor.Mutes call (with marker) after a step of a replayed TLC behaviour, compared with the "
                "reference over the alerts the real provider holds firing; non-trivial = the reference says inhibited. Behaviours are "
                "distinct operation sequences printed by TLC (all of the stated length for the exhaustive sets, random for sim).",
        "order_independence": {
            "keys (rule set, set of firing alerts, label set), summed over replay processes": cnt.get("order_keys", 0),
            "reached by several different histories": cnt.get("order_keys_reached_by_several_histories", 0),
            "with two different real verdicts (all attributed to the listed findings, else a VIOLATION was raised)": cnt.get("order_keys_with_two_verdicts", 0),
        },
        "mc_runs": cover,
        "samples": sample,
        "exhaustive": True,
        "bounds": ("MC: " + ("rule equal=[c], S1,S2 (sources sharing equal values) + B (two-sided): (a) time 0..2 with a subscription queue of 1, explicit and timeout ends, "
                             "both start modes, (b) time 0..3 without queue; 2 rules D1 (a=x inhibits b=x on [c]; b=x inhibits a=x on [c,d]) with S1,S2,B,T; "
                             "equal=[] and [c,d] with a source of other equal values (S3); rule-cache GC and provider GC at any instant" if thorough else
                             "rule equal=[c], alerts S1,S2 (sources sharing equal values) + B (two-sided), queries S1,B,T,T2, time 0..3, ends now..now+2 "
                             "(every refresh honoured), rule-cache GC and provider GC at any instant")
                   + "; Gen: " + ", ".join("%s=%d" % (n, g.behaviours) for n, _, _, g in gens)
                   + " behaviours (exh: all histories of 5 ops over put{S1,S2,B}x{resolve,fire}+tick, i.e. every arrival order; "
                     "exh_names: all histories of 3 (thorough 4) ops over put{S1,B,T}+tick for 4 rule sets whose rules repeat an optional name "
                     "(two different rules in both orders, two identical rules, named/unnamed/duplicate), loaded through config.Load; "
                     "exh_deep: 6 ops; exh_wide: 4 ops with 3 ends x timeout/explicit; exh_2r: 2 rules; exh_eq: equal=[] and [c,d]; "
                     "sim: 30 ops, 9 rule sets incl. 2- and 3-rule sets, regex/negative matchers and unnamed / uniquely named / duplicate-named rules, 6 alerts, 7 queries, both start modes)"),
    }
    coverage["rule_name_shapes_replayed"] = {k[len("cases_rules_"):]: n for k, n in cnt.items() if k.startswith("cases_rules_")}
    assumptions = [
        "every rule set is rendered as inhibit_rules of a configuration file and loaded by the real config.Load (which accepts repeated rule names); "
        "the reference counts every listed rule, whatever its name",
        "UpdatedAt of a submitted alert is its ingestion instant (as api/v2 sets it), so the newer submission is the younger alert in Alert.Merge",
        "every environment event has its own instant strictly inside a time unit; verdicts are read at quiescence (synctest.Wait), never at the instant an alert ends",
        "fingerprint collisions between equal-label sets are ignored (EqKey is the label values themselves)",
        "interleavings inside processAlert (cache GC between scache.Set and updateIndex) and Inhibitor reload (initial slurp in map order) are not explored",
        "regex languages of Labels.tla are stated for the finite value universe (cross-checked by C16); the harness evaluates the reference with its own matcher code",
        "virtual time (testing/synctest) stands for the wall clock",
    ]
    # end-to-end clause: no notification of the real instance contains an inhibited alert (observer AMObs)
    from checks import e2ecommon
    e = e2ecommon._run_scenarios(PID, tier, v, 200, 3000)
    e2ecommon.judge(PID, v, e, {"C03"})
    coverage["e2e_scenarios_with_inhibition_rule"] = e["runs"]
    coverage["traces_validated_against_impl"] = coverage.get("traces_validated_against_impl", 0) + e["runs"]
    return "model_checking", coverage, assumptions


def _gen(name, gp, sim, depth, cfg, thorough, seed):
    extra = ["-seed", str(seed)] if sim else None
    # vlib.gen_behaviours has no `files`/`extra` parameters: same steps through vlib.tlc
    import hashlib
    raw = gp + ".raw"
    r = vlib.tlc(PID, "gen_" + name, "Gen_Inhibit", os.path.basename(cfg), workers=4, timeout=900 if thorough else 100,
                 simulate=sim, depth=depth, marker="@@H ", payload_to=raw, files=[cfg], extra=extra)
    if r.timed_out and not sim:
        raise vlib.Inconclusive("Gen %s timed out" % name)
    if r.violated or (r.error and not r.timed_out) or (r.rc not in (0,) and not r.timed_out):
        raise vlib.Inconclusive("Gen %s: TLC failed: %s %s (see %s)" % (name, r.violated, r.error, r.stdout_path))
    seen = set()
    n = 0
    with open(raw) as f, open(gp, "w") as o:
        for line in f:
            h = hashlib.sha1(line.encode()).digest()
            if h in seen:
                continue
            seen.add(h)
            o.write(line)
            n += 1
    os.remove(raw)
    r.behaviours = n
    return r


def replay(path, v):
    """Re-run one violation artefact ({rs, sgc, pgc, ops, behaviour}) on the current tree."""
    wd = os.path.join(vlib.OUT, PID)
    binp = vlib.go_build_test(PID, "c03")
    art = json.load(open(path))
    open_keys = sorted(f["key"] for f in vlib.known_findings(PID) if f["key"] in CLASSES)
    cfg = derive_cfg("Sim_Inhibit.cfg", "g_lib.cfg", {"ScacheGCEvery": str(art["sgc"]), "ProvGCEvery": str(art["pgc"])})
    g = _gen("lib", os.path.join(wd, "x.jsonl"), "num=1", 3, cfg, False, 1)
    lib = library_of(g, wd, "lib")
    inp = os.path.join(wd, "replay_in.jsonl")
    open(inp, "w").write(json.dumps(art["behaviour"]) + "\n")
    r = replay_parallel(binp, inp, lib, wd, "one", 1)
    for m in r["mismatches"]:
        cls = m.get("class", "")
        if cls in ("model", "harness"):
            continue
        if cls in CLASSES and cls in open_keys:
            v.known_finding(cls, "%s (%s) - reproduced by the replayed behaviour" % (cls, TEXT[cls]))
            continue
        v.violation("replay: %s step %d want %s got %s" % (m["what"], m["step"], json.dumps(m.get("want"))[:400], json.dumps(m.get("got"))[:400]), [path])
