"""C10 - replicated notification log converges and never goes backwards.

Spec: spec/Nflog.tla.  MC: spec/mc/MC_Nflog.  Gen: Gen_Nflog (exhaustive short + simulated
long behaviours) replayed on the real nflog.Log.  Trace: random runs of the real log at
millisecond resolution validated by Trace_Nflog.

Concurrent-history stage (spec/NflogConc.tla, spec/mc/{MC,Trace}_NflogConc, harness/c10
TestConc): several goroutines call Log / Merge / Query / GC / MarshalBinary on ONE real log at
the same time; call and return events are ordered by a global atomic counter and TLC decides
whether some placement of the linearization points explains every recorded reply and the
state at quiescence.  A round TLC cannot linearize is a VIOLATION after it was rejected a
second time on its own; a direct oracle (the C10 statement at quiescence) runs after every
round."""
import json, os, re, threading, time
from lib import vlib
from lib.vlib import log

PID = "C10"


def check_constants():
    src = open(os.path.join(vlib.HARNESS, "c10", "c10_test.go")).read()
    ru = int(re.search(r"retentionUnits = (\d+)", src).group(1))
    for cfg in ("MC_Nflog.cfg", "Gen_Nflog.cfg", "Sim_Nflog.cfg"):
        c = open(os.path.join(vlib.SPEC, "mc", cfg)).read()
        if int(re.search(r"\bRetention = (\d+)", c).group(1)) != ru:
            raise vlib.Inconclusive("Retention of %s differs from the harness" % cfg)


# ------------------------------------------------------------------ concurrent histories
CONC_TRACE = "trace_conc.ndjson"      # TraceFile of Trace_NflogConc.cfg


def _tlc_conc(name, lines, wd, timeout=600):
    """One TLC run of Trace_NflogConc on the given history lines.  Returns
    (TLCResult, index of the first line that no placement of linearization points
    reaches, or None if every line was consumed)."""
    d = os.path.join(wd, "conc_" + name)
    os.makedirs(d, exist_ok=True)
    path = os.path.join(d, CONC_TRACE)
    with open(path, "w") as f:
        f.write("\n".join(lines) + "\n")
    r = vlib.tlc(PID, "conc_" + name, "Trace_NflogConc", "Trace_NflogConc.cfg", workers=1,
                 timeout=timeout, files=[path], deque=True)
    txt = open(r.stdout_path, errors="replace").read()
    if r.timed_out:
        raise vlib.Inconclusive("validation of concurrent histories (%s) timed out" % name)
    m = re.search(r'"@@REJECT",\s*(\d+)', txt)
    if m:
        return r, int(m.group(1)) - 1
    if r.violated or r.error or r.rc != 0:
        raise vlib.Inconclusive("validation of concurrent histories (%s): TLC trouble: %s (see %s)" %
                                (name, r.violated or r.error or r.rc, r.stdout_path))
    return r, None


def _validate_chunk(name, lines, wd, out, max_rejects=3):
    """Validates one chunk of concatenated rounds.  Rounds before a rejected round were
    explained (the high-water mark passed them), so validation goes on behind it."""
    n = 0
    while lines and len(out["rejected"]) < max_rejects:
        r, bad = _tlc_conc("%s_%d" % (name, n), lines, wd)
        out["states"] += r.distinct
        out["generated"] += r.generated
        out["wall"] += r.wall
        if bad is None:
            out["events"] += len(lines)
            return
        run = json.loads(lines[bad])["run"]
        out["events"] += sum(1 for x in lines[:bad] if json.loads(x)["run"] != run)
        hist = [x for x in lines if json.loads(x)["run"] == run]
        out["rejected"].append((run, json.loads(lines[bad]), hist))
        last = max(i for i, x in enumerate(lines) if json.loads(x)["run"] == run)
        lines = lines[last + 1:]
        n += 1
    out["unvalidated_lines"] += len(lines) if len(out["rejected"]) >= max_rejects else 0


class ConcStage:
    """Records the histories (alone, before the TLC jobs load the machine), then validates
    them and model-checks NflogConc in background threads while the other stages run."""

    def __init__(self, binp, wd, thorough, seed, v):
        self.wd, self.thorough = wd, thorough
        self.crashed = False
        self.errors, self.chunks, self.mc, self.threads = [], [], {}, []
        self.states = self.events = 0
        self.tlc_wall = 0.0
        self.trace = os.path.join(wd, "conc.ndjson")
        out = os.path.join(wd, "conc.json")
        self.rounds = 20000 if thorough else 2000
        t0 = time.time()
        rc, txt = vlib.go_run_test(binp, "TestConc$", ["-trace", self.trace, "-out", out, "-n", str(self.rounds),
                                                      "-seed", str(seed), "-filler", "300", "-renew", "40"])
        self.rec_wall = time.time() - t0
        m = re.search(r"fatal error: (concurrent map[^\n]*)", txt)
        if rc != 0 and m:
            # the Go runtime kills the process when it sees unsynchronised access to the log's map
            rp = os.path.join(wd, "conc_crash.txt")
            open(rp, "w").write(txt[-20000:])
            v.violation("the real nflog.Log used by several goroutines at once brings the process down: fatal error: %s "
                        "(concurrent-history stage, seed %d; Log/Merge/Query/GC/MarshalBinary are called concurrently "
                        "by the dispatcher, the gossip delegate and the maintenance goroutine)" % (m.group(1), seed), [rp])
            self.crashed = True
            self.rec = {"cases": 0, "steps": 0, "nontrivial": 0, "counters": {}, "samples": [], "mismatches": [], "n_mismatches": 0}
            return
        if rc != 0:
            raise vlib.Inconclusive("concurrent harness failed:\n" + txt[-3000:])
        self.rec = vlib.load_result(out)
        self.lines = open(self.trace).read().splitlines()
        # chunks of whole rounds
        nchunk = 8 if thorough else 2
        starts = [i for i, x in enumerate(self.lines) if x.startswith('{"e":"reset"')]
        if len(starts) != self.rec["cases"]:
            raise vlib.Inconclusive("concurrent trace: %d reset lines for %d rounds" % (len(starts), self.rec["cases"]))
        per = max(1, (len(starts) + nchunk - 1) // nchunk)
        bounds = [starts[i] for i in range(0, len(starts), per)] + [len(self.lines)]
        sem = threading.Semaphore(4)
        for i in range(len(bounds) - 1):
            res = {"rejected": [], "states": 0, "generated": 0, "wall": 0.0, "events": 0, "unvalidated_lines": 0}
            self.chunks.append(res)
            self._spawn(self._guard(sem, _validate_chunk, "c%d" % i, self.lines[bounds[i]:bounds[i + 1]], wd, res))
        for name, cfg in (("mc_conc", "MC_NflogConc_thorough.cfg" if thorough else "MC_NflogConc.cfg"),
                          ("mc_conc_split", "MC_NflogConc_split.cfg")):
            self._spawn(self._guard(sem, self._mc, name, cfg))

    def _mc(self, name, cfg):
        self.mc[name] = vlib.tlc(PID, name, "MC_NflogConc", cfg, workers=4 if self.thorough else 2, timeout=1200 if self.thorough else 300)

    def _guard(self, sem, f, *a):
        def g():
            with sem:
                try:
                    f(*a)
                except Exception as e:           # re-raised by finish() in the main thread
                    self.errors.append(e)
        return g

    def _spawn(self, g):
        t = threading.Thread(target=g, daemon=True)
        t.start()
        self.threads.append(t)

    def finish(self, v):
        for t in self.threads:
            t.join()
        for e in self.errors:
            if isinstance(e, vlib.Inconclusive):
                raise e
            raise vlib.Inconclusive("concurrent stage: %r" % e)
        if self.crashed:
            return
        rec, wd = self.rec, self.wd
        c = rec["counters"]
        reported = set()
        # (a) the direct oracle
        for m in rec["mismatches"]:
            if m["case"] in reported or len(reported) >= 3:
                continue
            reported.add(m["case"])
            rp = os.path.join(wd, "conc_oracle_round_%d.json" % m["case"])
            json.dump({"what": m["what"], "detail": m.get("got"), "history": m.get("replay")}, open(rp, "w"), indent=1)
            v.violation("real nflog.Log under concurrent calls (round %d of the concurrent-history stage): %s: %s" %
                        (m["case"], m["what"], json.dumps(m.get("got"))[:600]), [rp])
        # (b) histories TLC cannot linearize: rejected again on their own = verdict
        nrej = 0
        for ch in self.chunks:
            for run, ev, hist in ch["rejected"]:
                nrej += 1
                if nrej > 3:
                    continue
                r2, bad2 = _tlc_conc("recheck_%d" % run, hist, wd)
                if bad2 is None:
                    raise vlib.Inconclusive("round %d was rejected inside its chunk but accepted on its own: tool trouble" % run)
                rp = os.path.join(wd, "conc_rejected_round_%d.ndjson" % run)
                open(rp, "w").write("\n".join(hist) + "\n")
                v.violation("concurrent history of the real nflog.Log has NO linearization under NflogConc.tla "
                            "(round %d, %d events; rejected twice by TLC): no placement of the linearization points "
                            "explains the recorded replies up to event %s" %
                            (run, len(hist), json.dumps(json.loads(hist[bad2]))[:500]), [rp])
        if not v.violations:
            # the model itself
            vlib.tlc_must_pass(self.mc["mc_conc"], "MC_NflogConc")
            sp = self.mc["mc_conc_split"]
            if sp.timed_out or sp.violated != "KeptUntilExpiry":
                raise vlib.Inconclusive("MC_NflogConc_split (scan and delete in two critical sections) must violate "
                                        "KeptUntilExpiry; TLC says %s (see %s)" % (sp.violated or sp.error, sp.stdout_path))
            # vacuity / harness health
            disc = c.get("discarded", 0)
            if disc * 10 > self.rounds:
                raise vlib.Inconclusive("concurrent stage: %d of %d rounds discarded (time discipline broken: %s)" %
                                        (disc, self.rounds, {k: n for k, n in c.items() if k.startswith("trouble")}))
            need = self.rounds // 20
            if rec["nontrivial"] < need:
                raise vlib.Inconclusive("concurrent stage: only %d rounds had a Log/Merge of an expired, uncollected key "
                                        "overlapping a GC (need %d)" % (rec["nontrivial"], need))
            for k in ("gc_overlaps_gc", "merge_overlaps_log_of_same_key", "query_overlaps_log_of_same_key",
                      "snapshot_overlaps_write"):
                if c.get(k, 0) < self.rounds // 100:
                    raise vlib.Inconclusive("concurrent stage: window %s exercised only %d times" % (k, c.get(k, 0)))
        self.states = sum(ch["states"] for ch in self.chunks)
        self.events = sum(ch["events"] for ch in self.chunks)
        self.tlc_wall = sum(ch["wall"] for ch in self.chunks)
        log("  Conc: %d rounds (%d operations) recorded in %.1fs; %d with a write to an expired uncollected key overlapping a GC; "
            "TLC: %d events explained, %d states, %.1fs cpu-wall over %d chunks, %d rounds rejected; oracle failures %d" %
            (rec["cases"], rec["steps"], self.rec_wall, rec["nontrivial"], self.events, self.states, self.tlc_wall,
             len(self.chunks), nrej, rec["n_mismatches"]))
        mcc = self.mc.get("mc_conc")
        if mcc:
            log("  MC_NflogConc: %d states generated, %d distinct, %.1fs; split GC refuted: %s" %
                (mcc.generated, mcc.distinct, mcc.wall, self.mc["mc_conc_split"].violated))


def run(tier, v):
    check_constants()
    wd = os.path.join(vlib.OUT, PID)
    thorough = tier == "thorough"
    seed = vlib.seed()

    binp = vlib.go_build_test(PID, "c10")

    # 0. concurrent histories: recorded first, validated in the background
    conc = ConcStage(binp, wd, thorough, seed, v)

    # 1. the design: exhaustive model checking of the C10 invariants (background thread)
    # 3. direction B: recorded runs of the real log validated by the trace specification
    #    (background thread; both are joined after direction A)
    bg, bg_err = {}, []

    def job_mc():
        bg["mc"] = vlib.tlc(PID, "mc", "MC_Nflog", "MC_Nflog_thorough.cfg" if thorough else "MC_Nflog.cfg",
                            timeout=1500 if thorough else 300, coverage=True, workers=8)

    trace = os.path.join(wd, "rec.ndjson")

    def job_record():
        out = os.path.join(wd, "record.json")
        nrun = 3000 if thorough else 300
        rc, txt = vlib.go_run_test(binp, "TestRecord$", ["-trace", trace, "-out", out, "-n", str(nrun),
                                                        "-depth", "40", "-seed", str(seed)])
        if rc != 0:
            raise vlib.Inconclusive("record harness failed:\n" + txt[-3000:])
        bg["rec"] = vlib.load_result(out)
        bg["tr"], bg["rejects"] = vlib.validate_traces(PID, "trace", "Trace_Nflog", "Trace_Nflog.cfg", trace)

    def guarded(f):
        def g():
            try:
                f()
            except Exception as e:
                bg_err.append(e)
        return g
    jobs = [threading.Thread(target=guarded(f), daemon=True) for f in (job_mc, job_record)]
    for t in jobs:
        t.start()

    # 2. direction A: behaviours generated by TLC replayed on the real log
    gen1 = os.path.join(wd, "gen_exh.jsonl")
    g1 = vlib.gen_behaviours(PID, "gen_exh", "Gen_Nflog", "Gen_Nflog.cfg", gen1, timeout=600)
    gen2 = os.path.join(wd, "gen_sim.jsonl")
    num = 4000 if thorough else 400
    g2 = vlib.gen_behaviours(PID, "gen_sim", "Gen_Nflog", "Sim_Nflog.cfg", gen2, workers=8,
                             simulate="num=%d" % num, depth=45, timeout=900,
                             )
    log("  Gen: %d exhaustive behaviours (length 3), %d simulated behaviours (length 40)" % (g1.behaviours, g2.behaviours))
    if g1.behaviours < 1000 or g2.behaviours < 100:
        raise vlib.Inconclusive("Gen produced too few behaviours")
    results = []
    for name, path in (("exh", gen1), ("sim", gen2)):
        out = os.path.join(wd, "replay_%s.json" % name)
        rc, txt = vlib.go_run_test(binp, "TestReplay$", ["-in", path, "-out", out])
        if rc != 0:
            raise vlib.Inconclusive("replay harness failed:\n" + txt[-3000:])
        results.append(vlib.load_result(out))
    mism = []
    for r in results:
        mism += r["mismatches"]
    for m in mism[:5]:
        rp = os.path.join(wd, "replay_case_%d.json" % m["case"])
        json.dump(m.get("replay"), open(rp, "w"))
        v.violation("real nflog.Log deviates from Nflog.tla: %s at step %d: want %s got %s" %
                    (m["what"], m["step"], json.dumps(m.get("want"))[:400], json.dumps(m.get("got"))[:400]), [rp])

    for t in jobs:
        t.join()
    for e in bg_err:
        raise e if isinstance(e, vlib.Inconclusive) else vlib.Inconclusive("background stage failed: %r" % e)
    mc = bg["mc"]
    vlib.tlc_must_pass(mc, "MC_Nflog")
    dead = [a for a, (d, g) in mc.coverage.items() if g == 0]
    if dead:
        raise vlib.Inconclusive("MC_Nflog: actions never taken: %s" % dead)
    log("  MC_Nflog: %d states generated, %d distinct, depth %d, %.1fs" % (mc.generated, mc.distinct, mc.depth, mc.wall))
    rec, rejects = bg["rec"], bg["rejects"]
    for m in rec["mismatches"][:5]:
        v.violation("real nflog.Log: %s: %s" % (m["what"], m.get("got")), [trace])
    for run, d, ev, pre in rejects[:5]:
        rp = os.path.join(wd, "rejected_run_%s.json" % run)
        json.dump({"rejected_event": ev, "preceding": pre}, open(rp, "w"), indent=1)
        v.violation("recorded step of the real nflog.Log is not a step of Nflog.tla (%s): run %s event %s" %
                    (ev.get("_violated", "reply/state differs"), run, json.dumps(ev)[:600]), [rp])
    log("  Trace: %d runs, %d events validated, %d rejected" % (rec["cases"], rec["steps"], len(rejects)))

    # 4. concurrent histories: verdicts of the background jobs
    conc.finish(v)

    evaluations = sum(r["cases"] for r in results) + rec["cases"] + conc.rec["cases"]
    nontrivial = sum(r["nontrivial"] for r in results)
    samples = [json.loads(json.dumps(results[1]["samples"][0]))[:6]] if results[1]["samples"] else []
    coverage = {
        "states": mc.distinct, "transitions": mc.generated,
        "traces_validated_against_impl": rec["cases"],
        "behaviours_replayed_on_impl": sum(r["cases"] for r in results),
        "replay_steps": sum(r["steps"] for r in results),
        "trace_events": rec["steps"],
        "evaluations": evaluations,
        "distinct_nontrivial": nontrivial,
        "rule": "behaviours are distinct operation sequences printed by TLC from Gen_Nflog (all of length 3; "
                "simulated of length 40); non-trivial = contains a Merge that refuses or ignores an entry, or a GC that drops one; "
                "concurrent rounds are seeded random schedules of real goroutines (counted in evaluations, not in distinct_nontrivial)",
        "mc_action_coverage": {a: g for a, (d, g) in mc.coverage.items()},
        "concurrent": {
            "rounds": conc.rec["cases"], "operations": conc.rec["steps"], "events_explained_by_tlc": conc.events,
            "tlc_states": conc.states, "tlc_seconds": round(conc.tlc_wall, 1), "record_seconds": round(conc.rec_wall, 1),
            "rounds_with_write_to_expired_uncollected_key_overlapping_gc": conc.rec["nontrivial"],
            "windows": {k: n for k, n in conc.rec["counters"].items() if "overlaps" in k or "during_gc" in k or "noop" in k or "before" in k},
            "discarded_rounds": conc.rec["counters"].get("discarded", 0),
            "mc_nflogconc_states": conc.mc["mc_conc"].distinct if "mc_conc" in conc.mc else 0,
            "mc_nflogconc_split_refuted": conc.mc["mc_conc_split"].violated if "mc_conc_split" in conc.mc else None,
            "sample_history": conc.rec["samples"][:1],
        },
        "samples": samples,
        "exhaustive": True,
        "bounds": "MC: 2 keys, time 0..%s step 2, remote entries at odd instants, batches of 1-2; Gen: all histories of 3 ops + %d random of 40 ops; Trace: %d runs x 40 ops, ms resolution, 3 keys; Conc: %d rounds of 3-4 goroutines x 2-4 operations (+ 4-5 sequential ones at quiescence) on 2-3 fresh keys over a log with 300+ live filler entries, real clock" % ("10" if thorough else "6", g2.behaviours, rec["cases"], conc.rec["cases"]),
    }
    assumptions = [
        "timestamps of different entries of one key are distinct (the property's quantifier); generators keep local timestamps even and remote ones odd",
        "a newer entry never expires before an older one in the gossip pool (DESIGN.md F7 corner is outside NewestHeld)",
        "batches given to Merge have pairwise distinct keys, as every marshalled state has",
        "virtual time (testing/synctest) stands for the wall clock (sequential stages)",
        "concurrent stage: nflog.Log reads time.Now() itself (no clock option), so every expiry and every remote timestamp of a round lies "
        "well before or well after the round (margins 20 us .. 20 min, rounds that break them are discarded); instants inside a round are "
        "compared through their ranks; the order of events is that of a global atomic counter taken before each call and after each return "
        "(recorded intervals contain the real ones, so every real linearization is admitted)",
        "concurrent stage: detection of a race is probabilistic (start delays up to 12 us, 300 filler entries lengthen the critical sections); "
        "a race whose window is far below a microsecond or that needs more than 4 goroutines may be missed",
    ]
    return "model_checking", coverage, assumptions


def replay(path, v):
    binp = vlib.go_build_test(PID, "c10")
    data = json.load(open(path)) if not path.endswith(".jsonl") else None
    wd = os.path.join(vlib.OUT, PID)
    inp = os.path.join(wd, "replay_in.jsonl")
    with open(inp, "w") as f:
        f.write(json.dumps(data) + "\n")
    out = os.path.join(wd, "replay_out.json")
    rc, txt = vlib.go_run_test(binp, "TestReplay$", ["-in", inp, "-out", out])
    r = vlib.load_result(out)
    for m in r["mismatches"]:
        v.violation("replay: %s step %d want %s got %s" % (m["what"], m["step"], m.get("want"), m.get("got")), [path])
