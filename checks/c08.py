"""C08 - cluster: at least one notification under any fault, no duplicates when healthy.

Spec: Cluster.tla (design: cluster wait by position, dedup against the gossiped notification log, delay / loss /
crash / restart) model-checked by TLC; AMObs.tla as observer of every instance of a mesh of 2-3 REAL instances
(real reload, API, dispatcher, pipeline with ClusterWaitStage, nflog) in one virtual-time bubble whose notification
logs are connected by a harness-controlled network (delay, loss, duplication, partitions) and which crash and restart
with or without their snapshot.  Per instance: what it owes it either delivers or knows (merged log entry) to have been
delivered by a peer; it never delivers what its log already covers.  Cluster-wide, in fault-free scenarios with timely
gossip: the union of all instances' deliveries contains no unjustified notification."""
import json, os, re, collections
from lib import vlib
from lib.vlib import log
from checks import e2ecommon, peercommon, appcommon

PID = "C08"
OWN = {"C01": "owed notification neither delivered by this instance nor known from a peer",
       "C05": "owed resolved notification neither delivered nor known from a peer",
       "C04": "notification although the instance's log (own or merged entry) covers it / duplicate in a healthy cluster"}


def run(tier, v):
    wd = os.path.join(vlib.OUT, PID)
    thorough = tier == "thorough"
    mcs = []
    for cfg in ["MC_Cluster.cfg", "MC_Cluster_faults.cfg"] + (["MC_Cluster_faults3.cfg"] if thorough else []):
        r = vlib.tlc(PID, "mc_" + cfg.replace(".cfg", ""), "MC_Cluster", cfg, workers=8, timeout=2400)
        vlib.tlc_must_pass(r, cfg)
        log("  %s: %d generated, %d distinct, depth %d" % (cfg, r.generated, r.distinct, r.depth))
        mcs.append(r)
    binp = vlib.go_build_test(PID, "e2e")
    trace = os.path.join(wd, "trace.ndjson")
    out = os.path.join(wd, "cluster.json")
    n = 1500 if thorough else 120
    rc, txt = vlib.go_run_test(binp, "TestCluster$", ["-trace", trace, "-out", out, "-n", str(n), "-seed", str(vlib.seed())], timeout=3000)
    if rc != 0:
        raise vlib.Inconclusive("cluster driver failed:\n" + txt[-3000:])
    res = vlib.load_result(out)
    r = vlib.tlc(PID, "trace_am", "Trace_AM", "Trace_AM.cfg", workers=1, timeout=3000, files=[trace], heap="12g")
    txt = open(r.stdout_path, errors="replace").read()
    m = re.search(r'^"@@V (.*)"$', txt, re.M)
    if r.timed_out or not m:
        raise vlib.Inconclusive("Trace_AM gave no verdict (see %s)" % r.stdout_path)
    if re.search(r'"@@REJECT"', txt) or r.error or r.rc != 0:
        raise vlib.Inconclusive("Trace_AM rejected the trace shape or failed: %s (see %s)" % (r.error, r.stdout_path))
    viols = json.loads(json.loads('"' + m.group(1) + '"'))
    lines = open(trace).readlines()
    merged = set()
    for l in lines:
        if '"ev":"cfg"' in l:
            e = json.loads(l)
            if e["data"].get("merged"):
                merged.add(e["run"])
    seen = set()
    drift = collections.Counter()
    for x in viols:
        for c in x["clauses"]:
            owner = c.split("_")[0]
            ismerged = x["run"] in merged
            if re.match(r"^C\d+_F\d+_", c):
                continue
            if (ismerged and c != "C04_unjustified_notification") or (not ismerged and owner not in OWN):
                if not ismerged:
                    drift[c] += 1
                continue
            key = (x["run"], c)
            if key in seen or len(seen) >= 8:
                seen.add(key)
                continue
            seen.add(key)
            rp = os.path.join(wd, "cluster_run_%s.ndjson" % x["run"])
            open(rp, "w").writelines([l for l in lines if json.loads(l)["run"] == x["run"]])
            ev = json.loads(lines[x["line"] - 1])
            ev.pop("data", None)
            what = "duplicate delivery in a fault-free cluster with timely gossip" if ismerged else OWN[owner]
            v.violation("%s: clause %s at t=%sms, event %s (run %s)" % (what, c, x["t"], json.dumps(ev)[:500], x["run"]), [rp])
    if drift:
        v.notes.append("DRIFT property=C08 clauses of other properties in instance runs: %s" % dict(drift))
    log("  mesh: %d scenarios (%d fault-free), %d instance runs + %d merged runs, %d events, %d states validated" %
        (res["cases"], res["counters"].get("healthy_scenarios", 0), len({json.loads(l)["run"] for l in lines}) - len(merged), len(merged), len(lines), r.distinct))
    # readiness on REAL memberlist peers over loopback (spec/GossipPeers.tla: the Settle loop gives up at
    # its timeout and the instance becomes ready, so the settle stage of its flushes passes)
    peer_mc = peercommon.model_check(PID, tier, ["MC_GossipPeers_ready.cfg", "MC_GossipPeers_stuck.cfg"])
    peers = peercommon.run_real_peers(PID, tier, v)
    # the whole program: complete app.App instances clustered over loopback (the wiring of app.setup(): flush
    # timeout rule, cluster wait by position, settle / ready, gossip of the notification log), spec/AppSys.tla
    appsys = appcommon.run_app_system(PID, tier, v)
    sample = []
    for l in lines[:600]:
        e = json.loads(l)
        if e["ev"] in ("nflog.merge", "attempt", "wait") and len(sample) < 6:
            sample.append(e)
    cov = {
        "states": sum(m.distinct for m in mcs) + r.distinct, "transitions": sum(m.generated for m in mcs) + r.generated,
        "traces_validated_against_impl": len({json.loads(l)["run"] for l in lines}),
        "evaluations": res["cases"], "distinct_nontrivial": res["cases"] - res["counters"].get("healthy_scenarios", 0),
        "rule": "one case = one cluster scenario (2-3 real instances, heartbeats every minute, fire/resolve events, and - in the non-trivial ones - "
                "gossip loss 20-60%, delays up to 40 s, partitions, crashes and restarts with or without snapshot)",
        "samples": sample,
        "real_peers": peers, "real_peers_mc": peer_mc, "app_system": appsys,
        "bounds": "Cluster.tla MC: 3 instances fault-free; 2 instances with loss, delay 0..3 > peer timeout 2, 2 crashes; mesh: 2-3 instances, 3 timer sets, peer timeout 15 s, horizon 3 repeat intervals",
    }
    return "model_checking", cov, e2ecommon.ASSUMPTIONS + [
        "clocks agree (one virtual clock); membership is an input (each instance's view follows crashes and partitions at once); memberlist itself is C19's",
        "alerts reach every instance that is up (Prometheus sends to all Alertmanagers) and are re-sent every minute",
    ] + peercommon.ASSUMPTIONS + appcommon.ASSUMPTIONS


def replay(path, v):
    if "appsys_" in path:
        return appcommon.replay(PID, path, v)
    if "peer" in os.path.basename(path):
        return peercommon.replay(PID, path, v)
    raise vlib.Inconclusive("re-run `bin/check C08` with the VERIF_SEED of the evidence")
