"""Shared pipeline of the silence properties (C02, C09, C12, C18-silences):
MC of Silences.tla, TLC-generated behaviours replayed on real silence.Silences+Silencer.
Each property judges its own class of disagreement; the others are reported as drift."""
import json, os, re
from lib import vlib
from lib.vlib import log


def cfg_const(cfg, name):
    c = open(os.path.join(vlib.SPEC, "mc", cfg)).read()
    m = re.search(r"\b%s = (\d+)" % name, c)
    return int(m.group(1))


def classify(m):
    """Which property does a disagreement belong to?"""
    what, cls = m["what"], m.get("class", "")
    if cls == "verdict" or cls == "F1":
        return "C02"
    if "Merge" in what or "after merge" in what:
        return "C09"
    # a limit the specification says must refuse (or a state mismatch after such a refusal) is C18's;
    # a request the real code refuses with "limit" although the specification accepts it is a wrong
    # reaction to that request and stays with C12 (C18 reports it as drift)
    blob = what + json.dumps(m.get("want", ""))
    if "specified result: limit" in blob or "specified result: toobig" in blob or '"limit"' in blob or '"toobig"' in blob:
        return "C18"
    if cls in ("error", "harness"):
        return "harness"
    return "C12"


def run_pipeline(pid, tier, v, mc_cfgs, sim_cfg="Sim_Silences.cfg", sim_num=None, extra_gen=()):
    wd = os.path.join(vlib.OUT, pid)
    thorough = tier == "thorough"
    mcs = []
    for cfg in mc_cfgs:
        mc = vlib.tlc(pid, "mc_" + cfg.replace(".cfg", ""), "MC_Silences", cfg,
                      timeout=2400 if thorough else 600, coverage=False)
        vlib.tlc_must_pass(mc, cfg)
        log("  %s: %d states generated, %d distinct, depth %d, %.1fs" % (cfg, mc.generated, mc.distinct, mc.depth, mc.wall))
        mcs.append(mc)
    binp = vlib.go_build_test(pid, "sil")
    num = sim_num or (3000 if thorough else 160)
    gens = []
    for name, cfg, sim in [("sim", sim_cfg, "num=%d" % num)] + list(extra_gen):
        gp = os.path.join(wd, "gen_%s.jsonl" % name)
        lib = os.path.join(wd, "lib_%s.json" % name)
        g = vlib.gen_behaviours(pid, "gen_" + name, "Gen_Silences", cfg, gp, workers=8, simulate=sim, depth=60 if sim else None,
                                timeout=1200)
        # library line
        txt = open(g.stdout_path, errors="replace").read()
        m = re.search(r'^"@@L (.*)"$', txt, re.M)
        if not m:
            raise vlib.Inconclusive("Gen printed no library")
        open(lib, "w").write(json.loads('"' + m.group(1) + '"'))
        if g.behaviours < 50:
            raise vlib.Inconclusive("Gen %s produced only %d behaviours" % (cfg, g.behaviours))
        gens.append((name, cfg, gp, lib, g))
    results = []
    for name, cfg, gp, lib, g in gens:
        out = os.path.join(wd, "replay_%s.json" % name)
        rc, txt = vlib.go_run_test(binp, "TestReplay$", ["-in", gp, "-out", out, "-lib", lib,
                                                        "-retention", str(cfg_const(cfg, "Retention")),
                                                        "-maxsil", str(cfg_const(cfg, "MaxSilences"))])
        if rc != 0:
            raise vlib.Inconclusive("replay harness failed:\n" + txt[-3000:])
        r = vlib.load_result(out)
        log("  replay %s: %d behaviours, %d steps, %d disagreements, counters %s" % (name, r["cases"], r["steps"], r["n_mismatches"], r["counters"]))
        results.append(r)
    return mcs, gens, results


def judge(pid, v, results, wd):
    """Apply the per-property policy to the disagreements; returns drift count."""
    drift = 0
    for r in results:
        for m in r["mismatches"]:
            owner = classify(m)
            if owner == "harness":
                raise vlib.Inconclusive("harness problem: %s %s" % (m["what"], m.get("got")))
            if m.get("class") == "F1":
                # would be listed in known_findings.json; it is fixed, so it is a violation again
                owner = "C02"
            if owner != pid:
                drift += 1
                continue
            rp = os.path.join(wd, "replay_case_%d_%d.json" % (m["case"], m["step"]))
            json.dump(m.get("replay"), open(rp, "w"))
            v.violation("%s at step %d of a TLC behaviour: specification says %s, real code %s" %
                        (m["what"], m["step"], json.dumps(m.get("want"))[:500], json.dumps(m.get("got"))[:500]), [rp])
    if drift:
        v.notes.append("DRIFT property=%s %d disagreement(s) between code and Silences.tla that belong to other properties (reported by their checks)" % (pid, drift))
    return drift


def base_coverage(mcs, gens, results):
    return {
        "states": sum(m.distinct for m in mcs), "transitions": sum(m.generated for m in mcs),
        "traces_validated_against_impl": sum(r["cases"] for r in results),
        "replay_steps": sum(r["steps"] for r in results),
        "evaluations": sum(r["cases"] for r in results),
        "counters": {k: sum(r["counters"].get(k, 0) for r in results) for k in set().union(*[r["counters"].keys() for r in results])},
        "samples": [json.loads(json.dumps(results[0]["samples"][0]))[:8]] if results and results[0]["samples"] else [],
    }


def replay_one(pid, path, v):
    binp = vlib.go_build_test(pid, "sil")
    wd = os.path.join(vlib.OUT, pid)
    data = json.load(open(path))
    inp = os.path.join(wd, "replay_in.jsonl")
    open(inp, "w").write(json.dumps(data) + "\n")
    # the library is regenerated from the specification
    lib = os.path.join(wd, "lib.json")
    g = vlib.gen_behaviours(pid, "lib", "Gen_Silences", "Sim_Silences.cfg", os.path.join(wd, "x.jsonl"), workers=1, simulate="num=1", depth=3)
    txt = open(g.stdout_path, errors="replace").read()
    m = re.search(r'^"@@L (.*)"$', txt, re.M)
    open(lib, "w").write(json.loads('"' + m.group(1) + '"'))
    out = os.path.join(wd, "replay_out.json")
    vlib.go_run_test(binp, "TestReplay$", ["-in", inp, "-out", out, "-lib", lib, "-retention", str(cfg_const("Sim_Silences.cfg", "Retention")),
                                          "-maxsil", str(cfg_const("Sim_Silences.cfg", "MaxSilences"))])
    r = vlib.load_result(out)
    for mm in r["mismatches"]:
        if classify(mm) == pid:
            v.violation("replay: %s step %d want %s got %s" % (mm["what"], mm["step"], mm.get("want"), mm.get("got")), [path])
