"""C09 - replicated silences converge: newest update wins regardless of delivery order.

Spec: SilCluster.tla (N instances, gossip with delay/loss/duplication/reordering, push-pull, GC, local edits)
and the Merge action of Silences.tla.  MC: MC_SilCluster.cfg.  Bind: TLC-simulated cluster schedules are
executed on N real silence.Silences wired by their real broadcast callbacks (the harness is the network);
after every step every instance's marshalled store is compared with the model."""
import json, os
from lib import vlib
from lib.vlib import log
from checks import silcommon

PID = "C09"


def run(tier, v):
    wd = os.path.join(vlib.OUT, PID)
    thorough = tier == "thorough"
    # thorough: 3 nodes x 1 silence (MaxTime 4) and 2 nodes x 2 silences (MaxTime 3, one message in flight); measured 1.6 M and
    # 1.2 M distinct states (2 nodes x 2 silences x MaxTime 4 exceeds 46 M states and does not finish within the budget)
    mc = vlib.tlc(PID, "mc", "MC_SilCluster", "MC_SilCluster_thorough.cfg" if thorough else "MC_SilCluster.cfg",
                  timeout=2400 if thorough else 400, workers=8)
    vlib.tlc_must_pass(mc, "MC_SilCluster")
    log("  MC_SilCluster: %d generated, %d distinct, depth %d, %.1fs" % (mc.generated, mc.distinct, mc.depth, mc.wall))
    if thorough:
        mc2 = vlib.tlc(PID, "mc2", "MC_SilCluster", "MC_SilCluster_thorough2.cfg", timeout=2400, workers=8)
        vlib.tlc_must_pass(mc2, "MC_SilCluster_thorough2")
        log("  MC_SilCluster (2 silences): %d generated, %d distinct, depth %d, %.1fs" % (mc2.generated, mc2.distinct, mc2.depth, mc2.wall))
    # the strict invariants (no F7 excuse) are expected to fail while F7 is open
    strict = vlib.tlc(PID, "mc_strict", "MC_SilCluster", "MC_SilCluster_strict.cfg", timeout=400, workers=8)
    f7_in_model = strict.violated in ("NoStaleStrict", "ConvergedStrict")

    binp = vlib.go_build_test(PID, "sil")
    gp = os.path.join(wd, "gen_cluster.jsonl")
    g = vlib.gen_behaviours(PID, "gen_cluster", "Gen_SilCluster", "Sim_SilCluster.cfg", gp, workers=8,
                            simulate="num=%d" % (2000 if thorough else 150), depth=45, timeout=1200)
    if g.behaviours < 100:
        raise vlib.Inconclusive("Gen_SilCluster produced only %d behaviours" % g.behaviours)
    out = os.path.join(wd, "cluster.json")
    rc, txt = vlib.go_run_test(binp, "TestCluster$", ["-in", gp, "-out", out, "-retention",
                                                     str(silcommon.cfg_const("Sim_SilCluster.cfg", "Retention"))])
    if rc != 0:
        raise vlib.Inconclusive("cluster replay failed:\n" + txt[-3000:])
    r = vlib.load_result(out)
    log("  cluster replay: %d schedules, %d steps, %d disagreements, counters %s" % (r["cases"], r["steps"], r["n_mismatches"], r["counters"]))
    open_f7 = [f for f in vlib.known_findings(PID) if f["key"] == "F7"]
    for m in r["mismatches"]:
        rp = os.path.join(wd, "cluster_case_%d.json" % m["case"])
        json.dump(m.get("replay"), open(rp, "w"))
        if m.get("class") == "F7":
            if open_f7:
                v.known_finding("F7", "a silence version arriving after its own retention is refused (or was collected) while an older, "
                                      "still active version is kept or re-installed: instance %s holds resurrected %s (replay %s)" %
                                (m["got"]["n"], m["got"]["id"], rp))
            else:
                v.violation("resurrected silence version: %s" % json.dumps(m["got"]), [rp])
            continue
        if m.get("class") == "harness":
            raise vlib.Inconclusive("harness: %s" % m["what"])
        v.violation("%s at step %d of a cluster schedule: specification %s, real code %s" %
                    (m["what"], m["step"], json.dumps(m.get("want"))[:500], json.dumps(m.get("got"))[:500]), [rp])
    if open_f7 and not r["counters"].get("F7_active"):
        v.notes.append("KNOWN-FINDING-NOT-REPRODUCED property=C09 F7 (no explored schedule resurrected an active silence)")

    # single instance: Merge interleaved with local edits, GC, restart (Silences.tla)
    mcs, gens, results = silcommon.run_pipeline(PID, tier, v, ["MC_Silences.cfg"], sim_num=1500 if thorough else 150)
    drift = silcommon.judge(PID, v, results, wd)
    cov = silcommon.base_coverage(mcs, gens, results)
    cov["states"] += mc.distinct
    cov["transitions"] += mc.generated
    cov["traces_validated_against_impl"] += r["cases"]
    cov["evaluations"] += r["cases"]
    cov["replay_steps"] += r["steps"]
    cov.update({
        "cluster_schedules": r["cases"], "cluster_steps": r["steps"], "f7_states_reproduced": r["counters"].get("F7", 0),
        "f7_active_reproduced": r["counters"].get("F7_active", 0), "f7_counterexample_in_model": f7_in_model,
        "distinct_nontrivial": r["nontrivial"],
        "rule": "a case is one cluster schedule (40 steps: local create/extend/expire, deliver, duplicate, lose, push-pull, GC, clock jumps) "
                "printed by TLC -simulate; non-trivial = some delivery ignored or refused an entry or an F7 state was reached",
        "drift": drift,
        "samples": [json.loads(json.dumps(r["samples"][0]))[:6]] if r["samples"] else cov["samples"],
        "bounds": "MC: 2 instances, 1 silence id, retention 1, time 0..5, at most 2 messages in flight, all schedules; "
                  "Gen: 3 instances, 2 ids, retention 2, time 0..14, up to 6 messages in flight",
    })
    return "model_checking", cov, [
        "update times of the versions of one silence are distinct and clocks agree (the statement's quantifier)",
        "the network is the harness (real broadcast bytes, real Merge); memberlist itself is covered by C19",
        "F7 (newest version past its retention, older one resurrected) is a listed known finding; every other deviation is a violation",
    ]


def replay(path, v):
    binp = vlib.go_build_test(PID, "sil")
    wd = os.path.join(vlib.OUT, PID)
    data = json.load(open(path))
    inp = os.path.join(wd, "replay_in.jsonl")
    open(inp, "w").write(json.dumps(data) + "\n")
    out = os.path.join(wd, "replay_out.json")
    vlib.go_run_test(binp, "TestCluster$", ["-in", inp, "-out", out, "-retention", str(silcommon.cfg_const("Sim_SilCluster.cfg", "Retention"))])
    r = vlib.load_result(out)
    for m in r["mismatches"]:
        v.violation("replay: %s step %d want %s got %s" % (m["what"], m["step"], m.get("want"), m.get("got")), [path])
