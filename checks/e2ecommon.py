"""End-to-end pipeline shared by C01, C04, C05, C06, C20 (and the end-to-end clauses of C02, C03, C14):
seeded random environment scripts run against one real Alertmanager instance (real reload, API,
provider, inhibitor, silencer, dispatcher, notification pipeline, nflog) under virtual time; every
input, flush, delivery attempt and log write is recorded and validated by TLC against the observer
specification AMObs.tla (spec/mc/Trace_AM.tla).  Each property owns the clauses carrying its id."""
import json, os, re, collections
from lib import vlib
from lib.vlib import log


MC_BY_PROPERTY = {"C20": "MC_AMDesign_unrec.cfg", "C01": "MC_AMDesign_hang.cfg", "C06": "MC_AMDesign_first.cfg", "C04": "MC_AMDesign_active.cfg", "C05": "MC_AMDesign_mute.cfg"}


def run_design_mc(pid, tier):
    """The design model AMDesign.tla satisfies every observer clause over all interleavings (small scope)."""
    cfgs = [MC_BY_PROPERTY.get(pid, "MC_AMDesign.cfg")]
    if tier == "thorough":
        cfgs = ["MC_AMDesign.cfg", "MC_AMDesign_unrec.cfg", "MC_AMDesign_hang.cfg", "MC_AMDesign_inh.cfg", "MC_AMDesign_first.cfg", "MC_AMDesign_routes.cfg", "MC_AMDesign_nest.cfg", "MC_AMDesign_mute.cfg", "MC_AMDesign_active.cfg", "MC_AMDesign_reload.cfg", "MC_AMDesign_thorough.cfg"]
    out = []
    for c in cfgs:
        r = vlib.tlc(pid, "mc_" + c.replace(".cfg", ""), "MC_AMDesign", c, workers=8, timeout=3000 if tier == "thorough" else 400, heap="12g")
        vlib.tlc_must_pass(r, c)
        log("  %s: %d states generated, %d distinct, depth %d, %.1fs" % (c, r.generated, r.distinct, r.depth, r.wall))
        out.append(r)
    return out


def run_e2e(pid, tier, v, n_quick=400, n_thorough=6000):
    wd = os.path.join(vlib.OUT, pid)
    thorough = tier == "thorough"
    import threading
    mcbox = {}

    def _mc():
        try:
            mcbox["r"] = run_design_mc(pid, tier)
        except Exception as e:   # re-raised in the main thread
            mcbox["err"] = e
    th = threading.Thread(target=_mc)
    th.start()
    try:
        e2e = _run_scenarios(pid, tier, v, n_quick, n_thorough)
    finally:
        th.join()
    if "err" in mcbox:
        raise mcbox["err"]
    e2e["mc"] = mcbox["r"]
    return e2e


def _run_scenarios(pid, tier, v, n_quick, n_thorough):
    wd = os.path.join(vlib.OUT, pid)
    thorough = tier == "thorough"
    binp = vlib.go_build_test(pid, "e2e")
    trace = os.path.join(wd, "e2e.ndjson")
    out = os.path.join(wd, "e2e.json")
    n = n_thorough if thorough else n_quick
    rc, txt = vlib.go_run_test(binp, "TestScenarios$", ["-trace", trace, "-out", out, "-n", str(n), "-seed", str(vlib.seed())],
                               timeout=3000)
    if rc != 0:
        raise vlib.Inconclusive("scenario driver failed:\n" + txt[-3000:])
    res = vlib.load_result(out)
    tmp = os.path.join(wd, "trace.ndjson")
    os.replace(trace, tmp)
    r = vlib.tlc(pid, "trace_am", "Trace_AM", "Trace_AM.cfg", workers=1, timeout=3000, files=[tmp], heap="12g")
    txt = open(r.stdout_path, errors="replace").read()
    if r.timed_out:
        raise vlib.Inconclusive("Trace_AM timed out")
    m = re.search(r'^"@@V (.*)"$', txt, re.M)
    if not m:
        raise vlib.Inconclusive("Trace_AM printed no verdict (see %s): %s" % (r.stdout_path, r.error))
    viols = json.loads(json.loads('"' + m.group(1) + '"'))
    rej = re.search(r'"@@REJECT",\s*(\d+)', txt)
    stats = collections.Counter()
    runs = set()
    with open(tmp) as f:
        lines = f.readlines()
    for ln in lines:
        e = json.loads(ln)
        stats[e["ev"]] += 1
        runs.add(e["run"])
    if rej:
        d = int(rej.group(1))
        ev = json.loads(lines[d - 1]) if d - 1 < len(lines) else {}
        raise vlib.Inconclusive("recorded event %d is not an event of AMObs (time order / unknown shape): %s" % (d, json.dumps(ev)[:400]))
    if r.error or r.rc != 0:
        raise vlib.Inconclusive("Trace_AM: TLC error %s (see %s)" % (r.error, r.stdout_path))
    log("  e2e: %d scenarios, %d events, %d states validated, %d clause violations" % (len(runs), len(lines), r.distinct, len(viols)))
    return dict(res=res, viols=viols, lines=lines, stats=stats, runs=len(runs), tlc=r, trace=tmp)


def judge(pid, v, e2e, prefixes, also=()):
    """Clauses named <PID>_... belong to pid (plus the clause names in `also`); the others are reported as drift."""
    wd = os.path.join(vlib.OUT, pid)
    seen = set()
    known = {}
    drift = collections.Counter()
    for x in e2e["viols"]:
        for c in x["clauses"]:
            owner = c.split("_")[0]
            if owner not in prefixes and c not in also:
                if not re.match(r"^C\d+_F\d+_", c):     # listed findings of other properties are not drift
                    drift[c] += 1
                continue
            kf = re.match(r"^C\d+_(F\d+)_", c)
            if kf and any(f["key"] == kf.group(1) for f in vlib.known_findings(pid)):
                known[kf.group(1)] = known.get(kf.group(1), 0) + 1
                if known[kf.group(1)] == 1:
                    ev = json.loads(e2e["lines"][x["line"] - 1])
                    v.known_finding(kf.group(1), "%s (scenario run %s, t=%sms, group %s)" % (c, x["run"], x["t"], ev.get("gk")))
                continue
            key = (x["run"], c)
            if key in seen:
                continue
            seen.add(key)
            if len(seen) > 8:
                continue
            run_lines = [l for l in e2e["lines"] if json.loads(l)["run"] == x["run"]]
            rp = os.path.join(wd, "scenario_run_%s.ndjson" % x["run"])
            open(rp, "w").writelines(run_lines)
            ev = json.loads(e2e["lines"][x["line"] - 1])
            ev.pop("data", None)
            v.violation("clause %s violated at t=%sms by recorded event %s (scenario run %s, line %d of the trace)" %
                        (c, x["t"], json.dumps(ev)[:700], x["run"], x["line"]), [rp])
    if drift:
        v.notes.append("DRIFT property=%s clauses of other properties violated in the same runs: %s" % (pid, dict(drift)))
    return sum(drift.values())


def coverage(e2e, nontrivial_rule, nontrivial_count):
    sample = []
    for l in e2e["lines"][:400]:
        e = json.loads(l)
        if e["ev"] in ("flush.begin", "attempt", "nflog.log", "ingest", "sil.set") and len(sample) < 8:
            e.pop("data", None)
            sample.append(e)
    return {
        "states": e2e["tlc"].distinct + sum(m.distinct for m in e2e.get("mc", [])),
        "transitions": e2e["tlc"].generated + sum(m.generated for m in e2e.get("mc", [])),
        "design_model_states": sum(m.distinct for m in e2e.get("mc", [])),
        "trace_states": e2e["tlc"].distinct,
        "traces_validated_against_impl": e2e["runs"],
        "evaluations": e2e["runs"],
        "distinct_nontrivial": nontrivial_count,
        "rule": nontrivial_rule,
        "events": dict(e2e["stats"]),
        "samples": sample,
        "bounds": "design MC (AMDesign.tla, all observer clauses as invariants): 2 alerts of one group, 1-2 integrations, 1 receiver failure window, <=2-3 posts, 1 silence, time 0..8-9, all interleavings; "
                  "scenarios: 4 alerts in 2 groups, 1 route, 1 receiver with 1-2 webhook / e-mail integrations (send_resolved on/off), reloads that add or remove an integration, 5 timer sets "
                  "(group_wait 0-30s, group_interval 5s-5m, repeat_interval 20s-1h), 6-20 environment events (fire / fire with end / resolve, "
                  "silence create with offsets / expire, config reload), 0-4 receiver windows (recoverable, unrecoverable, hang, slow; paired on sibling integrations), flap patterns around a flush tick, notification-log GC every minute, horizon 3 repeat intervals",
    }


ASSUMPTIONS = [
    "virtual time (testing/synctest) stands for the wall clock; every environment event has its own millisecond so that inputs and timers never coincide",
    "the receiver script (failure windows) and the alert/silence universe are those of harness/e2e; the stub notifier replaces the webhook HTTP client via the verif hook in app.reloader",
    "the two timeout/wait closures of app.setup are restated in harness/inst (7 lines)",
    "suppression and eligibility are recomputed from the inputs by AMObs.tla, not read from the code's markers",
]
