"""C06 - notify only on change or after repeat_interval; repeats arrive on time."""
import json
from lib import vlib
from checks import e2ecommon

PID = "C06"


def run(tier, v):
    e = e2ecommon.run_e2e(PID, tier, v)
    drift = e2ecommon.judge(PID, v, e, {"C06"})
    # interleavings of maintenance vs group re-creation (Dispatch.tla: MaintStop .. Store .. MaintDelete)
    # driven on the real dispatcher through the blocking hooks maint.destroyed / maint.delete
    import os, re
    from lib.vlib import log
    wd = os.path.join(vlib.OUT, PID)
    binp = vlib.go_build_test(PID, "e2e")
    tr = os.path.join(wd, "trace.ndjson")
    out = os.path.join(wd, "maint.json")
    rc, txt = vlib.go_run_test(binp, "TestMaintRace$", ["-trace", tr, "-out", out])
    if rc != 0:
        raise vlib.Inconclusive("maintenance race driver failed:\n" + txt[-2000:])
    mr = vlib.load_result(out)
    if mr["nontrivial"] < mr["cases"] // 2:
        raise vlib.Inconclusive("the maintenance sweep was parked in only %d of %d runs" % (mr["nontrivial"], mr["cases"]))
    r = vlib.tlc(PID, "trace_maint", "Trace_AM", "Trace_AM.cfg", workers=1, timeout=900, files=[tr])
    t2 = open(r.stdout_path, errors="replace").read()
    m = re.search(r'^"@@V (.*)"$', t2, re.M)
    if not m or re.search(r'"@@REJECT"', t2) or r.error or r.rc != 0:
        raise vlib.Inconclusive("Trace_AM on the maintenance-race runs gave no verdict (see %s)" % r.stdout_path)
    e2 = dict(viols=json.loads(json.loads('"' + m.group(1) + '"')), lines=open(tr).readlines())
    drift += e2ecommon.judge(PID, v, e2, {"C06"})
    log("  maintenance race: %d gated runs, %d events, %d clause violations" % (mr["cases"], len(e2["lines"]), len(e2["viols"])))
    # schedules of Dispatch.tla (TLC-generated) replayed on the real dispatcher at the granularity of its
    # actions: every goroutine parked at every gate (verif hook points + span starts), lock step
    from checks import dschedcommon
    ds = dschedcommon.run_dispatch_schedules(PID, tier, v)
    ok_attempts = sum(1 for l in e["lines"] if '"ev":"attempt"' in l and '"outcome":"ok"' in l)
    if ok_attempts < 50:
        raise vlib.Inconclusive("too few delivered notifications (%d)" % ok_attempts)
    cov = e2ecommon.coverage(e, "one case = one scenario run; non-trivial = number of delivered notifications each judged by Justified(prev, cur) "
                                "(new firing alert / new resolved alert with send_resolved / repeat_interval elapsed / cycle break)", ok_attempts)
    cov["drift"] = drift
    cov["dispatch_schedules"] = ds
    return "model_checking", cov, e2ecommon.ASSUMPTIONS + dschedcommon.ASSUMPTIONS


def replay(path, v):
    if "sched" in __import__("os").path.basename(path):
        from checks import dschedcommon
        return dschedcommon.replay_dispatch_schedule(PID, path, v)
    raise vlib.Inconclusive("replay of a recorded scenario: run `bin/check C06` with the VERIF_SEED printed in the evidence")
